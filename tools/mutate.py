#!/usr/bin/env python3
"""Mechanical mutation run: a generator-gap finder at scale (not a registered check).

For every anchor file of the properties, one small syntactic change at a time (comparison / boolean / arithmetic operator swaps,
small-integer and boolean constants, negated conditions, dropped statements, `return None`) is written into a scratch worktree of
/repo; the repository's own test suite and the quick tier (no proof step) of every check anchored in that file are run against
it.  A mutant that survives the checks is either equivalent / irrelevant to the properties or a gap in what the correspondence
runs generate: the survivors are listed for review in the output file.

usage: mutate.py [--jobs N] [--files substr ...] [--max-per-file K] [--out FILE]
"""
import argparse
import ast
import concurrent.futures as cf
import copy
import json
import os
import random
import re
import subprocess
import sys
import threading

VERIF = os.path.dirname(os.path.dirname(os.path.abspath(__file__)))
SKIP_FUNCS = {'__repr__', '__str__'}


# checks that observe a file although their property is not anchored in it
EXTRA = {'src/hpotk/model/_term.py': ['C05'], 'src/hpotk/model/_term_id.py': ['C03', 'C06'], 'src/hpotk/model/_base.py': ['C09', 'C11']}


def anchors():
    m = {}
    for line in open(os.path.join(VERIF, 'properties.jsonl')):
        d = json.loads(line)
        for f in d['anchors']['files']:
            m.setdefault(f, []).append(d['id'])
    for f, extra in EXTRA.items():
        m.setdefault(f, []).extend(x for x in extra if x not in m.get(f, []))
    return m


CMP = {ast.Lt: ast.LtE, ast.LtE: ast.Lt, ast.Gt: ast.GtE, ast.GtE: ast.Gt, ast.Eq: ast.NotEq, ast.NotEq: ast.Eq,
       ast.Is: ast.IsNot, ast.IsNot: ast.Is, ast.In: ast.NotIn, ast.NotIn: ast.In}
CMP2 = {ast.Lt: ast.Gt, ast.Gt: ast.Lt, ast.LtE: ast.GtE, ast.GtE: ast.LtE}
BIN = {ast.Add: ast.Sub, ast.Sub: ast.Add, ast.Mult: ast.FloorDiv, ast.Div: ast.Mult, ast.FloorDiv: ast.Mult, ast.Mod: ast.FloorDiv}


class Sites(ast.NodeVisitor):
    """enumerates mutation sites as (description, path-to-node, mutator)"""

    def __init__(self):
        self.sites = []
        self.func = []
        self.skip_depth = 0

    def visit_FunctionDef(self, node):
        if node.name in SKIP_FUNCS:
            return
        self.func.append(node.name)
        # do not mutate decorators / annotations / defaults' annotations
        for st in node.body:
            self.visit(st)
        self.func.pop()

    visit_AsyncFunctionDef = visit_FunctionDef

    def visit_Raise(self, node):
        return          # messages and exception construction: not behaviour of interest

    def visit_Expr(self, node):
        v = node.value
        if isinstance(v, ast.Constant) and isinstance(v.value, str):
            return      # docstring
        if isinstance(v, ast.Call):
            name = ast.unparse(v.func)
            if re.match(r'(self\._?logger|logger|logging|warnings)\.', name):
                return
            self.add(node, f'drop statement `{ast.unparse(node)[:60]}`', lambda n: ast.Pass())
        self.generic_visit(node)

    def visit_AugAssign(self, node):
        self.add(node, f'drop statement `{ast.unparse(node)[:60]}`', lambda n: ast.Pass())
        self.generic_visit(node)

    def visit_Continue(self, node):
        self.add(node, '`continue` -> `pass`', lambda n: ast.Pass())

    def visit_Break(self, node):
        self.add(node, '`break` -> `pass`', lambda n: ast.Pass())

    def visit_Return(self, node):
        if node.value is not None and not (isinstance(node.value, ast.Constant) and node.value.value is None):
            self.add(node, f'`{ast.unparse(node)[:60]}` -> `return None`', lambda n: ast.Return(value=ast.Constant(value=None)))
        self.generic_visit(node)

    def visit_Compare(self, node):
        for i, op in enumerate(node.ops):
            for table in (CMP, CMP2):
                if type(op) in table:
                    new = table[type(op)]

                    def mut(n, i=i, new=new):
                        n = copy.deepcopy(n)
                        n.ops[i] = new()
                        return n
                    self.add(node, f'`{ast.unparse(node)[:60]}`: {type(op).__name__} -> {new.__name__}', mut)
        self.generic_visit(node)

    def visit_BoolOp(self, node):
        new = ast.Or if isinstance(node.op, ast.And) else ast.And

        def mut(n, new=new):
            n = copy.deepcopy(n)
            n.op = new()
            return n
        self.add(node, f'`{ast.unparse(node)[:60]}`: {type(node.op).__name__} -> {new.__name__}', mut)
        self.generic_visit(node)

    def visit_UnaryOp(self, node):
        if isinstance(node.op, ast.Not):
            self.add(node, f'`{ast.unparse(node)[:60]}`: drop `not`', lambda n: copy.deepcopy(n.operand))
        self.generic_visit(node)

    def visit_BinOp(self, node):
        if type(node.op) in BIN and not (isinstance(node.left, ast.Constant) and isinstance(node.left.value, str)) \
                and not isinstance(node.left, ast.JoinedStr) and not isinstance(node.right, ast.JoinedStr):
            new = BIN[type(node.op)]

            def mut(n, new=new):
                n = copy.deepcopy(n)
                n.op = new()
                return n
            self.add(node, f'`{ast.unparse(node)[:60]}`: {type(node.op).__name__} -> {new.__name__}', mut)
        self.generic_visit(node)

    def visit_If(self, node):
        self.add(node, f'`if {ast.unparse(node.test)[:50]}`: negate', self._negate)
        self.generic_visit(node)

    def visit_While(self, node):
        self.generic_visit(node)

    def visit_IfExp(self, node):
        self.add(node, f'`{ast.unparse(node)[:60]}`: negate condition', self._negate)
        self.generic_visit(node)

    @staticmethod
    def _negate(n):
        n = copy.deepcopy(n)
        n.test = ast.UnaryOp(op=ast.Not(), operand=n.test)
        return n

    def visit_Constant(self, node):
        v = node.value
        if isinstance(v, bool):
            self.add(node, f'constant {v} -> {not v}', lambda n: ast.Constant(value=not n.value))
        elif isinstance(v, int) and -2 <= v <= 64:
            self.add(node, f'constant {v} -> {v + 1}', lambda n: ast.Constant(value=n.value + 1))
            self.add(node, f'constant {v} -> {v - 1}', lambda n: ast.Constant(value=n.value - 1))
        elif isinstance(v, float):
            self.add(node, f'constant {v} -> {v + 1.0}', lambda n: ast.Constant(value=n.value + 1.0))

    def visit_JoinedStr(self, node):
        return      # f-strings: messages

    def visit_AnnAssign(self, node):
        if node.value is not None:
            self.visit(node.value)

    def visit_arguments(self, node):
        for d in list(node.defaults) + [d for d in node.kw_defaults if d is not None]:
            self.visit(d)

    def add(self, node, desc, mut):
        self.sites.append((node, desc, mut, '.'.join(self.func)))


class Replace(ast.NodeTransformer):
    def __init__(self, target, new):
        self.target, self.new = target, new

    def generic_visit(self, node):
        if node is self.target:
            return ast.copy_location(self.new, node)
        return super().generic_visit(node)


def render(tree, node, mut):
    """source of the tree with `node` replaced by mut(node) (the tree object is shared: replace, unparse, restore)"""
    new = mut(node)
    parent, field, idx = find_parent(tree, node)
    if parent is None:
        return None
    if idx is None:
        setattr(parent, field, new)
    else:
        getattr(parent, field)[idx] = new
    try:
        ast.fix_missing_locations(tree)
        return ast.unparse(tree)
    finally:
        if idx is None:
            setattr(parent, field, node)
        else:
            getattr(parent, field)[idx] = node


def find_parent(tree, node):
    for p in ast.walk(tree):
        for field, value in ast.iter_fields(p):
            if value is node:
                return p, field, None
            if isinstance(value, list):
                for i, v in enumerate(value):
                    if v is node:
                        return p, field, i
    return None, None, None


_wt_lock = threading.Lock()
_wts = []


def get_wt():
    with _wt_lock:
        if _wts:
            return _wts.pop()
    d = f'/tmp/wt/mut{threading.get_ident() % 100000}'
    subprocess.run(['git', '-C', '/repo', 'worktree', 'remove', '--force', d], capture_output=True)
    subprocess.run(['git', '-C', '/repo', 'worktree', 'add', '--detach', d, 'HEAD', '-q'], check=True, capture_output=True)
    return d


def put_wt(d):
    with _wt_lock:
        _wts.append(d)


def evaluate(rel, line, desc, func, source, props, run_tests):
    wt = get_wt()
    target = os.path.join(wt, rel)
    orig = open(target).read()
    res = {'file': rel, 'line': line, 'function': func, 'mutation': desc, 'checks': {}}
    try:
        open(target, 'w').write(source)
        env = dict(os.environ, PYTHONPATH=os.path.join(wt, 'src'), PYTHONHASHSEED='0')
        c = subprocess.run(['/venv/bin/python', '-c', 'import hpotk'], capture_output=True, text=True, env=env, cwd=wt)
        if c.returncode != 0:
            res['import'] = 'fails'
            return res
        if run_tests:
            t = subprocess.run(['/venv/bin/python', '-m', 'pytest', '-q', '-x', '-p', 'no:cacheprovider', '--timeout=300',
                                '--deselect', 'docs/user-guide/load-hpo-annotations.rst', '--deselect', 'docs/user-guide/load-ontology.rst',
                                '--deselect', 'docs/user-guide/use-ontology.rst', '--deselect', 'src/hpotk/store/__init__.py'],
                               capture_output=True, text=True, env=env, cwd=wt, timeout=900)
            res['tests'] = 'pass' if t.returncode == 0 else 'fail'
        for pid in props:
            env2 = dict(os.environ, HPOTK_REPO=wt, PYTHONHASHSEED='0')
            try:
                p = subprocess.run([os.path.join(VERIF, 'check'), pid, '--tier', 'quick', '--no-proof'], capture_output=True, text=True,
                                   env=env2, cwd=VERIF, timeout=900)
                viol = re.findall(r'^VIOLATION property=\S+ replay=(\S+)', p.stdout, flags=re.M)
                what = []
                for path in viol[:2]:
                    try:
                        what.append(json.load(open(os.path.join(VERIF, path)))['what'])
                    except Exception:  # noqa
                        pass
                res['checks'][pid] = {'exit': p.returncode, 'violations': len(viol), 'what': what}
                if viol:
                    break           # detected: the remaining checks anchored in this file are not needed
            except subprocess.TimeoutExpired:
                res['checks'][pid] = {'exit': 'timeout', 'violations': 0, 'what': []}
        return res
    finally:
        open(target, 'w').write(orig)
        put_wt(wt)


def main():
    ap = argparse.ArgumentParser()
    ap.add_argument('--jobs', type=int, default=8)
    ap.add_argument('--files', nargs='*', default=[])
    ap.add_argument('--max-per-file', type=int, default=40)
    ap.add_argument('--seed', type=int, default=1)
    ap.add_argument('--no-tests', action='store_true')
    ap.add_argument('--only-survivors-of', default=None, help='re-evaluate only the mutants that survived in this earlier output file')
    ap.add_argument('--out', default=os.path.join(VERIF, 'seeded', 'MUTATION_RUN.jsonl'))
    args = ap.parse_args()
    rng = random.Random(args.seed)
    amap = anchors()
    jobs = []
    for rel, props in sorted(amap.items()):
        if args.files and not any(s in rel for s in args.files):
            continue
        path = os.path.join('/repo', rel)
        src = open(path).read()
        tree = ast.parse(src)
        s = Sites()
        s.visit(tree)
        sites = s.sites
        if len(sites) > args.max_per_file:
            sites = rng.sample(sites, args.max_per_file)
        for node, desc, mut, func in sites:
            try:
                new_src = render(tree, node, mut)
            except Exception as e:  # noqa
                continue
            if new_src is None or new_src == ast.unparse(tree):
                continue
            jobs.append((rel, getattr(node, 'lineno', 0), desc, func, new_src, props))
    if args.only_survivors_of:
        keep = set()
        for line in open(args.only_survivors_of):
            r = json.loads(line)
            if not r.get('import') and not any(c.get('violations') for c in r.get('checks', {}).values()):
                keep.add((r['file'], r['line'], r['mutation']))
        jobs = [j for j in jobs if (j[0], j[1], j[2]) in keep]
    print(f'{len(jobs)} mutants over {len(set(j[0] for j in jobs))} files', flush=True)
    done = 0
    with open(args.out, 'a') as out, cf.ThreadPoolExecutor(max_workers=args.jobs) as ex:
        futs = [ex.submit(evaluate, *j, not args.no_tests) for j in jobs]
        for f in cf.as_completed(futs):
            try:
                r = f.result()
            except Exception as e:  # noqa
                r = {'error': str(e)}
            out.write(json.dumps(r) + '\n')
            out.flush()
            done += 1
            if done % 10 == 0:
                print(f'{done}/{len(jobs)}', flush=True)
    for d in _wts:
        subprocess.run(['git', '-C', '/repo', 'worktree', 'remove', '--force', d], capture_output=True)


if __name__ == '__main__':
    main()
