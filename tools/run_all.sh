#!/bin/bash
# runs every registered check (quick tier by default) in parallel and prints the summary lines
cd "$(dirname "$0")/.."
TIER=${1:-quick}
ids=$(python3 -c "import json;print(' '.join(c['property_id'] for c in json.load(open('MANIFEST.json'))['checks']))")
(cd lean && lake build Hpv driver >/dev/null 2>&1)
for p in $ids; do (./check $p --tier $TIER > /tmp/verif_run_$p.log 2>&1; echo "$p exit=$? $(grep -c VIOLATION /tmp/verif_run_$p.log) violations :: $(tail -1 /tmp/verif_run_$p.log)") & done; wait
