#!/usr/bin/env python3
"""Mutation self-test: runs the registered check(s) against every seeded change under /verif/seeded/.

Each seed is applied to its own scratch worktree of /repo (outside /repo and /verif) and the check is pointed at it through
HPOTK_REPO, so /repo itself is never touched and seeds can be evaluated in parallel.  (Equivalent to `git -C /repo apply`,
run, `git -C /repo checkout -- .`, which is what tools/seed_eval_inplace.sh does for a single seed.)

usage: seed_eval.py [--jobs N] [--all-checks] [seed ids ...]
Writes seeded/RESULTS.md and the `detected_by` field of each seeded/<id>/meta.json.
"""
import argparse
import concurrent.futures as cf
import json
import os
import re
import shutil
import subprocess
import tempfile

VERIF = os.path.dirname(os.path.dirname(os.path.abspath(__file__)))
SEEDED = os.path.join(VERIF, 'seeded')


def evaluate(seed, props, tier):
    d = os.path.join(SEEDED, seed)
    wt = tempfile.mkdtemp(prefix=f'wt-seed-{seed}-', dir='/tmp')
    os.rmdir(wt)
    out = {}
    try:
        for attempt in range(5):       # concurrent `worktree add`s occasionally collide on the repository lock
            r0 = subprocess.run(['git', '-C', '/repo', 'worktree', 'add', '--detach', wt, 'HEAD', '-q'], capture_output=True, text=True)
            if r0.returncode == 0:
                break
            import time
            time.sleep(1 + attempt)
        else:
            return seed, {'error': 'worktree add failed: ' + r0.stderr[:200]}
        r = subprocess.run(['git', '-C', wt, 'apply', os.path.join(d, 'patch.diff')], capture_output=True, text=True)
        if r.returncode != 0:
            return seed, {'error': 'patch does not apply: ' + r.stderr[:200]}
        for pid in props:
            env = dict(os.environ, HPOTK_REPO=wt, PYTHONHASHSEED='0')
            try:
                p = subprocess.run([os.path.join(VERIF, 'check'), pid, '--tier', tier, '--no-proof'], capture_output=True, text=True, env=env, cwd=VERIF, timeout=2400)
            except subprocess.TimeoutExpired:
                out[pid] = {'exit': 'timeout', 'violations': 0, 'what': [], 'no_failing_input': False}
                continue
            viol = re.findall(r'^VIOLATION property=\S+ replay=(\S+)(.*)$', p.stdout, flags=re.M)
            whats = []
            for path, _ in viol[:3]:
                try:
                    whats.append(json.load(open(os.path.join(VERIF, path)))['what'])
                except Exception:  # noqa
                    pass
            out[pid] = {'exit': p.returncode, 'violations': len(viol), 'what': whats,
                        'no_failing_input': any('no-failing-input-found' in s for _, s in viol)}
    finally:
        subprocess.run(['git', '-C', '/repo', 'worktree', 'remove', '--force', wt], capture_output=True)
        shutil.rmtree(wt, ignore_errors=True)
    return seed, out


def main():
    ap = argparse.ArgumentParser()
    ap.add_argument('--jobs', type=int, default=6)
    ap.add_argument('--tier', default='quick')
    ap.add_argument('--all-checks', action='store_true', help='run every registered check, not only the one the seed targets')
    ap.add_argument('seeds', nargs='*')
    args = ap.parse_args()
    manifest = json.load(open(os.path.join(VERIF, 'MANIFEST.json')))
    all_props = [c['property_id'] for c in manifest['checks']]
    seeds = args.seeds or sorted(s for s in os.listdir(SEEDED) if os.path.isdir(os.path.join(SEEDED, s)))
    jobs = []
    for s in seeds:
        meta = json.load(open(os.path.join(SEEDED, s, 'meta.json')))
        target = meta['breaks_property']
        props = all_props if args.all_checks else [target] + (['C12'] if s in ('C01-m2', 'C02-m10', 'C06-m12') else []) + (['C15'] if s == 'C10-m2' else [])
        jobs.append((s, props))
    results = {}
    with cf.ThreadPoolExecutor(max_workers=args.jobs) as ex:
        for seed, out in ex.map(lambda j: evaluate(j[0], j[1], args.tier), jobs):
            results[seed] = out
            print(seed, json.dumps(out)[:300], flush=True)
    for s in seeds:
        meta_p = os.path.join(SEEDED, s, 'meta.json')
        meta = json.load(open(meta_p))
        out = results.get(s, {})
        meta['detected_by'] = [p for p, r in out.items() if isinstance(r, dict) and r.get('violations')]
        meta['detection_detail'] = out
        meta['evaluated_tier'] = args.tier
        json.dump(meta, open(meta_p, 'w'), indent=1)
    # the table always lists every seed, from the stored results of its latest evaluation
    lines = ['# Seeded changes vs. the registered checks', '',
             '(produced by tools/seed_eval.py; each change applied to a scratch worktree, checks run with HPOTK_REPO pointing at it; '
             'a row shows the latest evaluation of that seed)', '',
             '| seed | breaks | detected by | how it was reported |', '|---|---|---|---|']
    for s in sorted(x for x in os.listdir(SEEDED) if os.path.isdir(os.path.join(SEEDED, x))):
        meta = json.load(open(os.path.join(SEEDED, s, 'meta.json')))
        out = meta.get('detection_detail', {})
        det = meta.get('detected_by', [])
        how = '; '.join(f'{p}: {", ".join(r["what"][:2])}' for p, r in out.items() if isinstance(r, dict) and r.get('violations'))
        lines.append(f'| {s} | {meta["breaks_property"]} | {", ".join(det) or ("**MISSED**" if out else "not evaluated")} | {how[:160]} |')
    open(os.path.join(SEEDED, 'RESULTS.md'), 'w').write('\n'.join(lines) + '\n')
    missed = [s for s in seeds if not results.get(s) or not any(isinstance(r, dict) and r.get('violations') for r in results[s].values())]
    print('missed:', missed)


if __name__ == '__main__':
    main()
