#!/bin/bash
# Which lines / branches of the property's anchor files does the correspondence run of each check NOT execute?
# (a generator gap finder; not part of any registered check)   usage: coverage_gaps.sh [Cxx ...]
cd "$(dirname "$0")/.."
OUT=${COV_OUT:-/tmp/cov}; mkdir -p $OUT
ids=${@:-$(python3 -c "import json;print(' '.join(c['property_id'] for c in json.load(open('MANIFEST.json'))['checks']))")}
export PYTHONHASHSEED=0
for p in $ids; do
  ( cd harness && /venv/bin/python -m coverage run --branch --source=/repo/src/hpotk --data-file=$OUT/$p.cov check.py $p --tier ${TIER:-quick} --no-proof > $OUT/$p.log 2>&1
    anchors=$(python3 -c "
import json
for l in open('../properties.jsonl'):
    d=json.loads(l)
    if d['id']=='$p': print(','.join('/repo/'+f for f in d['anchors']['files']))")
    /venv/bin/python -m coverage report --data-file=$OUT/$p.cov -m --include="$anchors" > $OUT/$p.report 2>&1 ) &
  while [ $(jobs -r | wc -l) -ge 6 ]; do sleep 1; done
done
wait
for p in $ids; do echo "== $p"; cat $OUT/$p.report; done
