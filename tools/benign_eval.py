#!/usr/bin/env python3
"""False-alarm self-test: runs the registered checks against every HARMLESS rewrite under /verif/benign/.

A harmless rewrite is a change to ielis/hpo-toolkit that changes how the code works while the property it was written
against still holds for every input (see benign/<id>/notes.md for the argument).  Each one is applied to its own scratch
worktree of /repo and every check that observes one of the touched files (the property's own check, the checks anchored in
the file, and the checks listed in EXTRA) is run against it with the quick tier (no proof step).  Expected: exit 0, no
VIOLATION line.  Anything else is a false alarm of the machinery (or the rewrite is not harmless after all - decided by
reading the replay) and is listed in benign/RESULTS.md.

usage: benign_eval.py [--jobs N] [--all-checks] [--seeds 1,2] [ids ...]
"""
import argparse
import concurrent.futures as cf
import json
import os
import re
import shutil
import subprocess
import tempfile
import time

VERIF = os.path.dirname(os.path.dirname(os.path.abspath(__file__)))
BENIGN = os.path.join(VERIF, 'benign')
EXTRA = {'src/hpotk/model/_term.py': ['C05', 'C06'], 'src/hpotk/model/_term_id.py': ['C03', 'C04', 'C06'],
         'src/hpotk/model/_base.py': ['C09', 'C11', 'C03'],
         'src/hpotk/graph/_csr_idx_graph.py': ['C12', 'C18', 'C09', 'C13'], 'src/hpotk/graph/_csr_graph.py': ['C12', 'C18'],
         'src/hpotk/graph/_factory.py': ['C12', 'C14'], 'src/hpotk/graph/_api.py': ['C12', 'C18', 'C14'],
         'src/hpotk/util/_io.py': ['C05', 'C08', 'C15'], 'src/hpotk/algorithm/similarity/_model.py': ['C09', 'C10', 'C15', 'C16']}


def observers():
    m = {}
    for line in open(os.path.join(VERIF, 'properties.jsonl')):
        d = json.loads(line)
        for f in d['anchors']['files']:
            m.setdefault(f, []).append(d['id'])
    for f, extra in EXTRA.items():
        m.setdefault(f, []).extend(x for x in extra if x not in m.get(f, []))
    return m


def evaluate(rid, props, tier, seed):
    d = os.path.join(BENIGN, rid)
    wt = tempfile.mkdtemp(prefix=f'wt-benign-{rid}-', dir='/tmp')
    os.rmdir(wt)
    out = {}
    try:
        for attempt in range(5):
            r0 = subprocess.run(['git', '-C', '/repo', 'worktree', 'add', '--detach', wt, 'HEAD', '-q'], capture_output=True, text=True)
            if r0.returncode == 0:
                break
            time.sleep(1 + attempt)
        else:
            return rid, {'error': 'worktree add failed: ' + r0.stderr[:200]}
        r = subprocess.run(['git', '-C', wt, 'apply', os.path.join(d, 'patch.diff')], capture_output=True, text=True)
        if r.returncode != 0:
            return rid, {'error': 'patch does not apply: ' + r.stderr[:200]}
        for pid in props:
            env = dict(os.environ, HPOTK_REPO=wt)
            if seed is not None:
                env['VERIF_SEED'] = str(seed)
            try:
                p = subprocess.run([os.path.join(VERIF, 'check'), pid, '--tier', tier, '--no-proof'], capture_output=True, text=True, env=env, cwd=VERIF, timeout=2400)
            except subprocess.TimeoutExpired:
                out[pid] = {'exit': 'timeout', 'violations': 0, 'what': [], 'tail': 'no result within 40 minutes'}
                continue
            viol = re.findall(r'^VIOLATION property=\S+ replay=(\S+)(.*)$', p.stdout, flags=re.M)
            whats = []
            for path, _ in viol[:3]:
                try:
                    rp = json.load(open(os.path.join(VERIF, path)))
                    whats.append({'what': rp['what'], 'replay': {k: (str(v)[:600]) for k, v in rp.items() if k != 'what'}})
                except Exception:  # noqa
                    pass
            out[pid] = {'exit': p.returncode, 'violations': len(viol), 'what': whats,
                        'tail': p.stdout[-400:] + p.stderr[-400:] if p.returncode not in (0, 1) else ''}
    finally:
        subprocess.run(['git', '-C', '/repo', 'worktree', 'remove', '--force', wt], capture_output=True)
        shutil.rmtree(wt, ignore_errors=True)
    return rid, out


def main():
    ap = argparse.ArgumentParser()
    ap.add_argument('--jobs', type=int, default=6)
    ap.add_argument('--tier', default='quick')
    ap.add_argument('--all-checks', action='store_true')
    ap.add_argument('--seed', type=int, default=None)
    ap.add_argument('ids', nargs='*')
    args = ap.parse_args()
    manifest = json.load(open(os.path.join(VERIF, 'MANIFEST.json')))
    all_props = [c['property_id'] for c in manifest['checks']]
    obs = observers()
    ids = args.ids or sorted(s for s in os.listdir(BENIGN) if os.path.isdir(os.path.join(BENIGN, s)))
    jobs = []
    for s in ids:
        meta = json.load(open(os.path.join(BENIGN, s, 'meta.json')))
        files = re.findall(r'^\+\+\+ b/(\S+)', open(os.path.join(BENIGN, s, 'patch.diff')).read(), flags=re.M)
        props = [meta['preserves_property']]
        for f in files:
            for p in obs.get(f, []):
                if p not in props:
                    props.append(p)
        if args.all_checks:
            props = all_props
        jobs.append((s, props))
    results = {}
    with cf.ThreadPoolExecutor(max_workers=args.jobs) as ex:
        for rid, out in ex.map(lambda j: evaluate(j[0], j[1], args.tier, args.seed), jobs):
            results[rid] = out
            short = {p: (r['exit'], r['violations'], [w['what'] for w in r['what']]) for p, r in out.items() if isinstance(r, dict)} if 'error' not in out else out
            print(rid, json.dumps(short)[:400], flush=True)
    for s in ids:
        meta_p = os.path.join(BENIGN, s, 'meta.json')
        meta = json.load(open(meta_p))
        out = results.get(s, {})
        meta['alarms'] = [p for p, r in out.items() if isinstance(r, dict) and (r.get('violations') or r.get('exit'))]
        meta['checks_run'] = list(out)
        meta['detail'] = out
        json.dump(meta, open(meta_p, 'w'), indent=1)
    lines = ['# Harmless rewrites vs. the registered checks', '',
             '(produced by tools/benign_eval.py; each rewrite applied to a scratch worktree, every check observing a touched file run '
             'with HPOTK_REPO pointing at it; expected: silence)', '',
             '| rewrite | property it preserves | checks run | alarms | status |', '|---|---|---|---|---|']
    for s in sorted(x for x in os.listdir(BENIGN) if os.path.isdir(os.path.join(BENIGN, x))):
        meta = json.load(open(os.path.join(BENIGN, s, 'meta.json')))
        lines.append(f'| {s} | {meta["preserves_property"]} | {", ".join(meta.get("checks_run", []))} | '
                     f'{", ".join(meta.get("alarms", [])) or "-"} | {meta.get("status", "")} |')
    open(os.path.join(BENIGN, 'RESULTS.md'), 'w').write('\n'.join(lines) + '\n')
    print('alarms:', {s: results[s] if 'error' in results[s] else [p for p, r in results[s].items() if r.get('violations') or r.get('exit')]
                      for s in ids if 'error' in results[s] or any(r.get('violations') or r.get('exit') for r in results[s].values())})


if __name__ == '__main__':
    main()
