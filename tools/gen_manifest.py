#!/usr/bin/env python3
"""Regenerates /verif/MANIFEST.json from the table below (run after adding a property check)."""
import json
import os

VERIF = os.path.dirname(os.path.dirname(os.path.abspath(__file__)))

BASELINE_OFF = ("cd /repo && env -u IELIS_HPO_TOOLKIT_VERIF /venv/bin/python -m pytest -ra -q -p no:cacheprovider "
                "--timeout=900 --continue-on-collection-errors")

# pid -> (level text, level_note, technique, design_ref)
CHECKS = {
    'C04': (
        'Lean 4 theorems over a model of TermId on arbitrary code-point strings (parse iff / split at first colon else first '
        'underscore / round trip / equality = (prefix,id) / hash congruence for any hash function incl. the cached hash / '
        'strict total lexicographic order, congruent w.r.t. equality), proved for all strings. Tie: the compiled model and '
        'the working tree are run on every string over {H,P,:,_,0} up to length 5, on exhaustive and random ordered pairs '
        '(both TermId classes, mixed, every delimiter position) and on random sorts; any disagreement is a failing input.',
        'Python str comparison is code-point lexicographic; hash() of equal tuples is equal; hash values themselves are '
        'free observables. The model is hand-written; correspondence is differential execution, exhaustive only in the '
        'stated small scope.',
        'Lean 4 proof (unbounded strings) + exhaustive small-scope/random differential correspondence with the compiled model',
        'DESIGN.md §6 C04'),
    'C17': (
        'Lean 4 theorems: for EVERY assignment history (any order, overwrites, out-of-shape attempts) the flat-array builder '
        '(__setitem__ with its scan over the whole column deque) is the CSR form of strictly column-sorted rows that read '
        'densely as the last-write-wins matrix (refinement via the commuting lemma setItem/ofRows); for every well-formed CSR '
        'triple cell / row / col_indices_of_val equal the dense matrix (ascending duplicate-free column list); every '
        'out-of-shape row/column (negative included) raises. Tie: all histories of length <= 3 (values {1,-1,2}) and length 4 '
        '(values {1,-1}) on small shapes, random histories up to 6x7 / 40 assignments, random CSR triples with int/float/bool '
        'dtypes; every read compared with the compiled model.',
        'numpy slicing / fancy assignment ("last write wins") / boolean masks are modelled, not verified; error kinds are free '
        '(any exception counts as "raises"); stored explicit zeros are outside the well-formedness predicate.',
        'Lean 4 proof (refinement of the builder to the dense matrix, unbounded histories) + exhaustive small-scope/random '
        'differential correspondence with the compiled model',
        'DESIGN.md §6 C17'),
}

NOT_YET = {}

ALL = [f'C{i:02d}' for i in range(1, 19)]


def main():
    checks = []
    for pid in ALL:
        if pid not in CHECKS:
            continue
        text, note, tech, ref = CHECKS[pid]
        checks.append({
            'property_id': pid,
            'quick_cmd': f'./check {pid} --tier quick',
            'thorough_cmd': f'./check {pid} --tier thorough',
            'evidence_file': f'evidence/{pid}.json',
            'replay_cmd_template': f'./check {pid} --replay {{path}}',
            'engine': 'lean+harness',
            'level_claimed': {'category': 'proof', 'text': text, 'design_ref': ref},
            'level_note': note,
            'technique': tech,
        })
    na = [{'property_id': pid, 'reason': NOT_YET.get(pid, 'check not built yet in this session (planned, see DESIGN.md §6); not claimed until its Lean model, theorems and correspondence run exist')}
          for pid in ALL if pid not in CHECKS]
    manifest = {
        'version': 1,
        'setup_cmd': './setup.sh',
        'hooks': {
            'guard': 'IELIS_HPO_TOOLKIT_VERIF',
            'enable': 'not needed: no source hooks are used; the checks import /repo/src directly and inject fakes / audit hooks from outside',
            'baseline_off_cmd': BASELINE_OFF,
            'source_commits': [],
            'add_only': True,
        },
        'engines': [
            {'name': 'lean', 'path': 'lean', 'serves_properties': [c['property_id'] for c in checks],
             'kind_free_text': 'Lean 4.33 lake project: executable models (Hpv/*.lean), helper lemmas, property theorems '
                               '(Hpv/Props/Cxx.lean), compiled JSON-lines model driver (Driver.lean)'},
            {'name': 'harness', 'path': 'harness', 'serves_properties': [c['property_id'] for c in checks],
             'kind_free_text': 'Python correspondence harness: generators, in-process calls into the working tree of /repo, '
                               'diff against the model driver, replay + evidence writer'},
        ],
        'checks': checks,
        'not_applicable': na,
        'notes': 'Exit codes: 0 property held on everything explored; 1 with VIOLATION lines; 2 infrastructure failure (claims nothing). '
                 'Genuine defects found on the pinned tree were repaired by `fix:` commits in /repo and are listed in KNOWN_FINDINGS.txt.',
    }
    with open(os.path.join(VERIF, 'MANIFEST.json'), 'w') as fh:
        json.dump(manifest, fh, indent=1)
        fh.write('\n')
    print(f'{len(checks)} checks, {len(na)} not yet claimed')


if __name__ == '__main__':
    main()
