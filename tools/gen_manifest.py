#!/usr/bin/env python3
"""Regenerates /verif/MANIFEST.json from the table below (run after adding a property check)."""
import json
import os

VERIF = os.path.dirname(os.path.dirname(os.path.abspath(__file__)))

BASELINE_OFF = ("cd /repo && env -u IELIS_HPO_TOOLKIT_VERIF /venv/bin/python -m pytest -ra -q -p no:cacheprovider "
                "--timeout=900 --continue-on-collection-errors")

# pid -> (level text, level_note, technique, design_ref)
CHECKS = {
    'C04': (
        'Lean 4 theorems over a model of TermId on arbitrary code-point strings (parse iff / split at first colon else first '
        'underscore / round trip / equality = (prefix,id) / hash congruence for any hash function incl. the cached hash / '
        'strict total lexicographic order, congruent w.r.t. equality), proved for all strings. Tie: the compiled model and '
        'the working tree are run on every string over {H,P,:,_,0} up to length 5, on exhaustive and random ordered pairs '
        '(both TermId classes, mixed, every delimiter position) and on random sorts; any disagreement is a failing input.',
        'Python str comparison is code-point lexicographic; hash() of equal tuples is equal; hash values themselves are '
        'free observables. The model is hand-written; correspondence is differential execution, exhaustive only in the '
        'stated small scope.',
        'Lean 4 proof (unbounded strings) + exhaustive small-scope/random differential correspondence with the compiled model',
        'DESIGN.md §6 C04'),
    'C01': (
        'Lean 4 theorems for the default factory through the whole pipeline (de-duplication, root finding, np.unique, bisect, '
        'cached adjacency scan, row assembly, CSR slicing, worklist traversal generic in the pop discipline, mapping back to labels): '
        'parents/children = exactly the direct is_a objects/subjects, ancestors/descendants = exactly the transitive closure, every '
        'result duplicate-free, include_source = the source once in front, source not in its own closure on acyclic input; for the '
        'matrix-backed graphs the same for the query layer under the hypothesis that the adjacency matrix represents the edge list. '
        'Tie: every DAG on <= 4 positions x label assignments x 3 factories x every node x 4 queries x 2 flags, random DAG shapes, '
        'long chains/stars, compared with the compiled model as sorted lists with multiplicity.',
        'numpy/bisect/dict semantics modelled; that IncrementalCsrGraphFactory / CsrGraphFactory build a matrix that represents the edge '
        'list is tied by the correspondence run only (theorems for them are stated under `Represents`); include_source=True of the '
        'matrix graphs (source passed through the seen-set) is covered by the correspondence run only.',
        'Lean 4 proof (unbounded edge lists, index/label transfer of closures) + exhaustive small-scope/random differential correspondence',
        'DESIGN.md §6 C01'),
    'C02': (
        'Lean 4 theorems: node list = sorted duplicate-free endpoints (+ owl:Thing exactly when >= 2 parentless terms); root = the '
        'single parentless term or owl:Thing whose children are exactly the parentless terms; root has no parents; every other node '
        'is a descendant of the root (finite + acyclic => well-founded, Mathlib); root finding preserves acyclicity; the factory is '
        'total on every acyclic non-empty edge list in which owl:Thing is not mentioned when it has to be added (OwlOk: an edge list that mentions owl:Thing and has a single parentless term is inside the domain); INVARIANCE: edge lists with the same edge set give the '
        'same nodes, root and query answers up to order. Tie: metamorphic groups (all permutations and single repeats of every small '
        'edge list, random shuffles/multisets of repeats) x 3 factories compared with the model and with each other, plus direct '
        'structural checks of each clause on the implementation.',
        'hypothesis OwlOk: owl:Thing is not an endpoint of the input when two or more terms are parentless; at the excluded point the code '
        'fails (open known finding owl-thing-is-parentless-endpoint). invariance_all_factories / structure_all_factories cover all three factories.',
        'Lean 4 proof (invariance + root/node characterisation, Mathlib well-foundedness) + metamorphic differential correspondence',
        'DESIGN.md §6 C02'),
    'C03': (
        'Lean 4 theorems for the indexed graph: each is_*_of predicate (including the two answered from the subject side) holds iff '
        'the corresponding relation / transitive closure holds, hence iff the traversal contains the node, and parent/child, '
        'ancestor/descendant are converses; is_leaf iff no children; idx_to_node/node_to_idx are inverse bijections on 0..n-1, '
        'root = idx_to_node(root_idx), node-level traversals are the images of index-level ones; the generic scan of the matrix graphs '
        'is membership by definition. Tie: all ordered pairs x 4 predicates x 4 argument forms x 3 factories against the model, plus '
        'internal consistency (predicate vs traversal vs converse; index API vs node API) on the implementation.',
        'agreement of the three factories is proved for the query layer only (matrix graphs under `Represents`), otherwise by the '
        'correspondence run (all factories equal the same model); argument-form normalisation is C04.',
        'Lean 4 proof (predicates = closure relations, index bijection) + exhaustive small-scope/random differential correspondence',
        'DESIGN.md §6 C03'),
    'C05': (
        'Lean 4 theorems over the parsed document (every JSON field optional): the loaded terms are exactly the CLASS nodes with an OBO '
        'PURL in a requested prefix, in document order, with the document\'s identifier, label, alternate ids and the VALUE of '
        '`deprecated`; current terms = the non-deprecated ones; non-CLASS / non-PURL / foreign-prefix nodes contribute nothing; the '
        'edge list is exactly the is_a edges whose endpoints resolve to retained nodes (deprecated ones included); version = date in '
        'meta.version else the #versionInfo value; minimal and full loader agree on (id, name, alts, obsolete), edges and version; '
        'permuting nodes and edges permutes the terms and the edge list (then C02.invariance/C06). Tie: regex recognisers compared '
        'with the compiled patterns of the running code on every run; random grammar documents x loaders x factories x prefixes; '
        'all term fields of the full loader; shuffles; malformed stream.',
        'regexes are re-implemented as recognisers (ASCII \\w/\\d; ORCID xrefs outside the generator); json parsing trusted; graph '
        'and ontology assembly are C01/C02/C06; the comment separator is a free observable.',
        'Lean 4 proof (fold = filterMap characterisation, permutation invariance) + regex conformance + differential correspondence',
        'DESIGN.md §6 C05'),
    'C06': (
        'Lean 4 theorems over any term list whose CURRENT terms have pairwise distinct primary/alternate ids (obsolete terms '
        'arbitrary): get_term k = t iff t is current and k is its primary or one of its alternate ids, None otherwise; an obsolete '
        'term is never returned; len/terms = the current terms; `in` = lookup succeeds; name lookup = lookup then .name; term_ids '
        'duplicate-free and exactly the primary and alternate ids of current terms. Tie: every collection of <= 2-3 terms over a 5-id '
        'alphabet, random collections up to 30+10 terms, minimal and full ontologies, queries in 4 argument forms.',
        'dict semantics ("last write wins") modelled as an association list; ids are the printed CURIE values (C04).',
        'Lean 4 proof (fold over the binding list) + exhaustive small-scope/random differential correspondence',
        'DESIGN.md §6 C06'),
    'C07': (
        'Lean 4 theorems on a small-step model of the store protocol (any number of loaders, every interleaving at I/O-boundary '
        'granularity, fault choices fail / failAfter n bytes at every boundary, a kill at every point, clear(type)/clear() at any time): '
        'INVARIANT for every history from an empty store (or any store satisfying it): every file at a cache location holds exactly '
        'the remote\'s bytes (no incomplete file is ever left or observed); a loader that reaches `loaded` read the remote\'s bytes; '
        'every fetch event is preceded by that thread\'s own isfile=False for the key (trace invariant); latest = max tag, no tag = '
        'error; RECOVERY: from any reachable world an undisturbed load from a healthy remote ends in loaded(remote bytes); clear(type) '
        'removes exactly that type\'s paths, is a no-op when nothing is cached, clear() empties. Tie: (1) all histories of length <= 2 '
        'and random ones over loads x fault plans x clears x latest on the REAL OntologyStore with fake services, world after every op '
        'compared with the model (cache bytes, stray entries, fetch log, result), absolute and relative store dirs; (2) every crash '
        'point of several loads in forked children killed at the j-th I/O boundary: invariant on the surviving tree, healthy reload, '
        'boundary-kind sequence = model step sequence, cache paths never opened for writing; (3) two real loader threads under a '
        'baton scheduler: all two-switch schedules + random ones, invariant evaluated at every boundary.',
        'PARTIAL: POSIX semantics assumed (os.replace atomic, mkstemp names unique, a killed process leaves the prefixes it wrote); '
        'interleavings finer than I/O boundaries and SIGKILL inside a single write(2) are not exhibited; relative/absolute store dirs '
        'are exercised by the tie only; GitHub services are replaced by fakes (the store\'s own extension point).',
        'Lean 4 proof (invariants by induction over arbitrary action lists, recovery by symbolic execution) + history / crash-point / schedule replay on the real store',
        'DESIGN.md §6 C07'),
    'C08': (
        'Lean 4 theorems on the aggregation layer: one disease per distinct database id (first-seen order), one annotation per '
        'distinct aspect-P phenotype id, name from the first line, aspect-I ids as duplicate-free modes of inheritance; numerator and '
        'denominator = sums of the per-line ratios, references/modifiers = unions; stored annotations have 0 <= n, 0 < d; for '
        'well-formed cells 0 <= n <= d and present iff n > 0; for EVERY table row with lower <= freq <= upper and every cohort size the '
        'half-even rounded numerator is within 1/2 of [lower*c, upper*c]; a percentage is within 1/2 of p*c/100; permuting the lines '
        'permutes keys and groups and leaves every annotation\'s sums and sets unchanged. Tie: the frequency table is read from the '
        'running code (exact rationals of the floats, incl. the VALUE of .frequency) and the side condition is evaluated by the model; '
        'random files x cohort sizes x salvage x shuffles; the property\'s clauses are also checked directly on the implementation.',
        'tab splitting, header handling and the four regexes are executable glue in the driver (tied by the correspondence run, not '
        'by theorems); doubles: both neighbours accepted when the exact product is within 2^-30 of a tie; onset/sex/curators unused.',
        'Lean 4 proof (grouping/fold/rounding lemmas, parametric in the source-extracted table) + differential correspondence',
        'DESIGN.md §6 C08'),
    'C09': (
        'Lean 4 theorems (core): the count of t is the number of present annotations inside the module having t among their '
        'ancestors-or-self (duplicate-free ancestor lists: C01), nothing outside the module is counted; the final table is c(t) when '
        'positive, 1 for corpus terms under pseudocounts, absent otherwise, keys = positive final counts; counts never decrease towards '
        'ancestors (also after the pseudocount pass); excluded annotations and item order are irrelevant. (Mathlib, reals): for counts '
        '0 < c <= c\' <= p and base b > 1: IC(root) = 0, IC >= 0, IC(c\') <= IC(c); e > 1. Tie: random DAG ontologies x corpora x base x '
        'pseudocount x module root; key set exact, each IC within 1e-9 of -log_b(c/p) from the model\'s integer counts, root 0, '
        'non-negativity, monotonicity along edges, shuffle / excluded-dropped metamorphic runs.',
        'math.log and float division are not modelled (tolerance 1e-9); graph closures are C01.',
        'Lean 4 proof (counting argument + real-analysis consequences in Mathlib) + differential correspondence with tolerance',
        'DESIGN.md §6 C09'),
    'C10': (
        'Lean 4 theorems for ARBITRARY groups / descendant lists / ancestor lists / IC maps (missing entries, non-monotone): same-'
        'branch pairs read the maximum IC over common ancestors (floor 0), every pair is symmetric, non-negative, bounded by that '
        'maximum, 0 outside a common branch; only positive values are stored, each once under the ordered key; unstored pairs read 0; '
        'pairs reached through two branches get the same value. Tie: random HPO-like DAGs with shared descendants and exhaustive '
        'small parent assignments x IC maps; whole matrix, len and items compared before and after reading every pair.',
        'IC values are multiples of 1/8 so float max/comparison is exact; graph helpers are C01/C18; Phenotypic abnormality id read '
        'from the source at run time.',
        'Lean 4 proof (fold invariant over the visited pairs, container lemmas of C15) + differential correspondence',
        'DESIGN.md §6 C10'),
    'C11': (
        'Lean 4 theorems over items whose ids the ontology knows: the propagation validator reports (d, a) iff some item has primary '
        'id d, a is a strict ancestor of d, some item has primary id a, and (descendant present or ancestor item excluded) — sound and '
        'complete at any ancestor distance, nothing else reported; the obsolete-id validator warns exactly for items whose given id '
        'is not the primary id; the abnormality validator exactly for items that are not strict descendants of Phenotypic '
        'abnormality; the runner returns the concatenation in validator order; is_ok iff no results; frame theorem over an explicit '
        'heap: validators only allocate and assign to their own copies, the caller\'s cells are unchanged. Tie: random ontologies '
        'with alternate ids x item zoo (TermId, bool/callable/absent is_present, repeats) x all ordered validator subsets; multiset of '
        '(level, category, ids in message) + is_ok + deep before/after snapshot.',
        'message wording is free (ids extracted by a generic CURIE tokenizer); multiplicities follow the code (one error per '
        'descendant item and ancestor term); lookups are C06, closures C01.',
        'Lean 4 proof (exact characterisation of each validator + heap frame lemma) + differential correspondence',
        'DESIGN.md §6 C11'),
    'C12': (
        'Lean 4 theorems on a session model (any number of open generator frames over one immutable graph): stepping a frame to the '
        'end yields what the whole-loop traversal of C01 yields; an operation changes at most the frame it addresses (frame '
        'lemma); what next(j) yields and leaves depends only on frame j; a complete query appends the standalone result whatever ran '
        'before; loading has no factory state in the model. PARTIAL by nature: the theorem is about a model in which graph and '
        'factories have no mutable field — whether the CODE has one is what the tie probes: all interleavings of two real iterators '
        '(<= 4 steps each), random interleavings of up to four with complete queries in between, on all three graph factories; '
        'reader threads with a 1e-6 s switch interval; one factory instance reused for sequences of graphs with boundary-sharing edge '
        'lists; all orders of loading documents through the default module-level factories against fresh-interpreter dumps.',
        'pre-emptive thread switches inside a bytecode and real parallelism are not exhibited by the model (threads are supporting '
        'evidence); sequences compared impl-interleaved vs impl-standalone, multisets vs the model.',
        'Lean 4 proof (frame / non-interference on the session model) + exhaustive small interleavings, thread soak, factory-reuse and load-order replay',
        'DESIGN.md §6 C12'),
    'C13': (
        'Lean 4 theorems for EVERY merge trace (the similarity measure, argmax, epsilon branch and cluster identifiers are an '
        'oracle): the clustering preserves the multiset of tagged leaves, the in-order walk lists each once, the position-queue '
        'index recovery returns a permutation of 0..n-1 whose image of the input is the in-order sequence; n-1 merges; (0,) for a '
        'singleton; the result is a function of ids and trace. Tie: permutation-ness, singleton, untouched input, second call, '
        'TermId vs Identified checked directly; the merge trace is recorded by wrapping Node.make_tagged_node/merge_nodes from '
        'outside and the exact tuple is compared with the model replaying that trace; several calls share one sorter instance. '
        'ALSO the clustering policy itself is in the model (similarity matrix with zero diagonal, first maximum, epsilon branch, two pops): '
        'policy_permutation proves that for EVERY similarity oracle and every epsilon no round pops outside its list and argsort is a '
        'permutation, with no hypothesis about the merges; the similarities the measure is seen to return are replayed through the model policy.',
        'if a refactoring makes the trace unobservable the exact-tuple comparison degrades to a logged count, the relational '
        'checks remain.',
        'Lean 4 proof (for all merge traces, and for the clustering policy under every similarity oracle) + relational/trace-replay/policy-replay correspondence',
        'DESIGN.md §6 C13'),
    'C14': (
        'Lean 4 theorems, both graph classes: an unknown node (any sort position; uses sortedness of the node array, proved for all '
        'three factories) makes every traversal and is_leaf raise ValueError, predicates raise for an unknown object and answer False '
        'for an unknown subject, membership False, node_to_idx None; rejected arguments raise ValueError everywhere; every index '
        'outside 0..n-1 (negative included) raises ValueError in the *_idx traversals, idx_to_node and the dereferencing side of the '
        'is_*_of_idx predicates. Tie: absent ids at every sort position / foreign prefixes, junk argument zoo, boundary integers '
        '(python and numpy) x every method x 3 factories, outcome kinds compared with the model.',
        'non-CURIE strings are rejected by from_curie (C04); error kind ValueError is pinned, messages are free.',
        'Lean 4 proof (rejection paths, by sortedness + bisect spec) + differential correspondence on rejection inputs',
        'DESIGN.md §6 C14'),
    'C15': (
        'Lean 4 theorems: for every history a read (either key order) returns the last ACCEPTED write on the unordered pair, else 0; '
        'rejected negative sets and reads leave the state unchanged; the item listing has no repeated key, each item is keyed by '
        'the ordered pair and carries the value a read returns, a pair is listed iff an accepted set addressed it, len = number of '
        'items; re-inserting the listed items preserves every read (core of the CSV round trip); metadata decode(encode m) = m for '
        'EVERY table of forbidden characters containing ; = LF CR, the encoded line has no line break, reserved characters are '
        'rejected. Tie: all histories up to length 3-4 over two keys, random histories with extreme floats; the forbidden table is '
        'extracted from the running code on every run and TableOk is evaluated by the model; real .csv/.csv.gz round trips. '
        'THE FILE: the csv dialect is a model of its own (writer with minimal or any stronger quoting, the reader state machine over the physical lines of a newline=\'\' handle, '
        'the DictReader layer): csv_round_trip (read (write rows) = rows for all rows and field contents, delimiters / quotes / CR / LF / CR LF inside fields included), '
        'file_round_trip (title + metadata + csv lines -> metadata and records by column name) and container_file_round_trip (to_csv then from_csv, container to container, '
        'for every value format that float() undoes). Tie of the csv model: against the csv module itself on every text up to length 5 over {a , " CR LF} and thousands of '
        'hostile texts / written tables, and against every file to_csv writes, both ways (model reads the real file = from_csv; model writer = the real file, line for line).',
        'floats are mapped to integers by an order-preserving injection (the code only compares with 0 and stores); gzip, the codec and '
        'repr(float) / float(str) are exercised by the correspondence run, not modelled; term ids may contain any characters.',
        'Lean 4 proof (history machine + codec round trip, parametric in the source-extracted table) + exhaustive/random correspondence',
        'DESIGN.md §6 C15'),
    'C16': (
        'Lean 4 theorems: for every source kind whose MEASURED isinstance facts fit (FactsFit, evaluated by the compiled model on '
        'facts measured from live instances on every run) the reading and the writing dispatcher take the branch the property requires, '
        'everything else is rejected; for every accepted kind carrying content b the parsed text is decode b (given gunzip(gzip b) = b), '
        'so any two accepted kinds give the same loaded object for every parser; WRITERS: for every accepted kind of target the content that lands is the text written and reads back through any accepted source as the same object (same_content_written, write_then_read). Tie: dispatcher-level acceptance + text for 8 listed '
        'and 8 junk kinds; the full product kinds x {load_minimal_ontology, load_ontology, SimpleHpoaDiseaseLoader.load, '
        'SimilarityContainer.from_csv} x contents (non-ASCII; the same path overwritten between loads; ".gz" inside a directory name) '
        'and targets x {SimilarityContainer.to_csv, AnnotationIcContainer.to_csv}; junk must give ValueError.',
        'io / gzip / open themselves and the text encodings are exercised, not modelled; URLs out of scope (no network).',
        'Lean 4 proof (decision table over measured class facts + codec law) + exhaustive product correspondence',
        'DESIGN.md §6 C16'),
    'C17': (
        'Lean 4 theorems: for EVERY assignment history (any order, overwrites, out-of-shape attempts) the flat-array builder '
        '(__setitem__ with its scan over the whole column deque) is the CSR form of strictly column-sorted rows that read '
        'densely as the last-write-wins matrix (refinement via the commuting lemma setItem/ofRows); for every well-formed CSR '
        'triple cell / row / col_indices_of_val equal the dense matrix (ascending duplicate-free column list), and so they do for triples whose rows list their columns in any order (csr_reads_any_column_order; duplicate-free column list in storage order); every '
        'out-of-shape row/column (negative included) raises. Tie: all histories of length <= 3 (values {1,-1,2}) and length 4 '
        '(values {1,-1}) on small shapes, random histories up to 6x7 / 40 assignments, random CSR triples with int/float/bool '
        'dtypes; every read compared with the compiled model.',
        'numpy slicing / fancy assignment ("last write wins") / boolean masks are modelled, not verified; error kinds are free '
        '(any exception counts as "raises"); stored explicit zeros are outside the well-formedness predicate.',
        'Lean 4 proof (refinement of the builder to the dense matrix, unbounded histories) + exhaustive small-scope/random '
        'differential correspondence with the compiled model',
        'DESIGN.md §6 C17'),
    'C18': (
        'Lean 4 theorems for every shipped graph: each helper = duplicate-free set of the graph query plus the source iff asked; '
        'errors propagate; exists_path a b = (a != b and b in ancestors a); augment of a single term = helper of that term (for '
        'ancestors and descendants); augment of a collection = union of the members\' helpers (empty -> empty). Tie: every node x 4 '
        'helpers x flag x {graph, ontology, GraphAware} x {CURIE, TermId}, exists_path on all pairs, augment on single terms and '
        'collections (list/tuple/set/frozenset, repeats, overlaps) against the model; frozenset result type required.',
        'what the graph queries return is C01; deprecation warnings ignored.',
        'Lean 4 proof (set semantics of the helpers over any graph) + exhaustive small-scope/random differential correspondence',
        'DESIGN.md §6 C18'),
}

NOT_YET = {}

ALL = [f'C{i:02d}' for i in range(1, 19)]


def main():
    checks = []
    for pid in ALL:
        if pid not in CHECKS:
            continue
        text, note, tech, ref = CHECKS[pid]
        checks.append({
            'property_id': pid,
            'quick_cmd': f'./check {pid} --tier quick',
            'thorough_cmd': f'./check {pid} --tier thorough',
            'evidence_file': f'evidence/{pid}.json',
            'replay_cmd_template': f'./check {pid} --replay {{path}}',
            'engine': 'lean+harness',
            'level_claimed': {'category': 'proof', 'text': text, 'design_ref': ref},
            'level_note': note,
            'technique': tech,
        })
    na = [{'property_id': pid, 'reason': NOT_YET.get(pid, 'check not built yet in this session (planned, see DESIGN.md §6); not claimed until its Lean model, theorems and correspondence run exist')}
          for pid in ALL if pid not in CHECKS]
    manifest = {
        'version': 1,
        'setup_cmd': './setup.sh',
        'hooks': {
            'guard': 'IELIS_HPO_TOOLKIT_VERIF',
            'enable': 'not needed: no source hooks are used; the checks import /repo/src directly and inject fakes / audit hooks from outside',
            'baseline_off_cmd': BASELINE_OFF,
            'source_commits': [],
            'add_only': True,
        },
        'engines': [
            {'name': 'lean', 'path': 'lean', 'serves_properties': [c['property_id'] for c in checks],
             'kind_free_text': 'Lean 4.33 lake project: executable models (Hpv/*.lean), helper lemmas, property theorems '
                               '(Hpv/Props/Cxx.lean), compiled JSON-lines model driver (Driver.lean)'},
            {'name': 'harness', 'path': 'harness', 'serves_properties': [c['property_id'] for c in checks],
             'kind_free_text': 'Python correspondence harness: generators, in-process calls into the working tree of /repo, '
                               'diff against the model driver, replay + evidence writer'},
        ],
        'checks': checks,
        'not_applicable': na,
        'notes': 'Exit codes: 0 property held on everything explored; 1 with VIOLATION lines; 2 infrastructure failure (claims nothing). '
                 'Genuine defects found on the pinned tree were repaired by `fix:` commits in /repo and are listed in KNOWN_FINDINGS.txt.',
    }
    with open(os.path.join(VERIF, 'MANIFEST.json'), 'w') as fh:
        json.dump(manifest, fh, indent=1)
        fh.write('\n')
    print(f'{len(checks)} checks, {len(na)} not yet claimed')


if __name__ == '__main__':
    main()
