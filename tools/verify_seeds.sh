#!/bin/bash
# Confirms each candidate mutant in a scratch worktree: patch applies, suite unchanged (439 pass / same 4 network fails),
# demo exits 1 with the patch and 0 without.   usage: verify_seeds.sh <srcdir with Cxx/mN> <outfile>
SRC=${1:-/tmp/seedout}; OUT=${2:-/tmp/seed_verify.txt}
WT=/tmp/wt/verify
git -C /repo worktree remove --force $WT 2>/dev/null
git -C /repo worktree add --detach $WT HEAD -q || exit 2
: > $OUT
for d in $SRC/C*/m*; do
  [ -f $d/patch.diff ] || continue
  id=$(basename $(dirname $d))-$(basename $d)
  git -C $WT checkout -q -- . ; git -C $WT clean -fdq
  (cd $WT && PYTHONPATH=$WT/src timeout 120 /venv/bin/python $d/demo.py >/dev/null 2>&1); clean=$?
  if ! git -C $WT apply $d/patch.diff 2>/dev/null; then echo "$id APPLY-FAILED" >> $OUT; continue; fi
  (cd $WT && PYTHONPATH=$WT/src timeout 120 /venv/bin/python $d/demo.py >/dev/null 2>&1); mut=$?
  summary=$(cd $WT && PYTHONPATH=$WT/src timeout 600 /venv/bin/python -m pytest -q -p no:cacheprovider 2>&1 | tail -1)
  fails=$(cd $WT && PYTHONPATH=$WT/src timeout 600 /venv/bin/python -m pytest -q -p no:cacheprovider 2>&1 | grep '^FAILED' | sort | tr '\n' ' ')
  echo "$id demo_clean=$clean demo_mutant=$mut tests='$summary' fails='$fails'" >> $OUT
done
git -C $WT checkout -q -- . ; git -C /repo worktree remove --force $WT
echo done >> $OUT
