#!/bin/bash
# Confirms each candidate harmless rewrite in a scratch worktree: patch applies, suite unchanged (439 pass / same 4 network
# fails), holds.py exits 0 with and without the patch.   usage: verify_benign.sh <srcdir with Cxx/rN> <outfile>
SRC=${1:-/tmp/benign}; OUT=${2:-/tmp/benign_verify.txt}
WT=/tmp/wt/verifyb
git -C /repo worktree remove --force $WT 2>/dev/null
git -C /repo worktree add --detach $WT HEAD -q || exit 2
: > $OUT
for d in $SRC/C*/r*; do
  [ -f $d/patch.diff ] || continue
  id=$(basename $(dirname $d))-$(basename $d)
  git -C $WT checkout -q -- . ; git -C $WT clean -fdq
  (cd $WT && PYTHONPATH=$WT/src timeout 300 /venv/bin/python $d/holds.py >/dev/null 2>&1); clean=$?
  if ! git -C $WT apply $d/patch.diff 2>/dev/null; then echo "$id APPLY-FAILED" >> $OUT; continue; fi
  (cd $WT && PYTHONPATH=$WT/src timeout 300 /venv/bin/python $d/holds.py >/dev/null 2>&1); mut=$?
  res=$(cd $WT && PYTHONPATH=$WT/src timeout 900 /venv/bin/python -m pytest -q -p no:cacheprovider 2>&1)
  summary=$(echo "$res" | tail -1)
  fails=$(echo "$res" | grep '^FAILED' | sort | tr '\n' ' ' | md5sum | cut -c1-8)
  echo "$id holds_clean=$clean holds_rewritten=$mut tests='$summary' fails_md5=$fails" >> $OUT
done
git -C $WT checkout -q -- . ; git -C $WT clean -fdq; git -C /repo worktree remove --force $WT
echo done >> $OUT
