#!/venv/bin/python
"""records the per-function AST fingerprints of every anchor file of /repo (run after the models were re-validated against a new
pinned tree); the checks only REPORT differences (evidence notes), they never fail on them"""
import json, os, sys
sys.path.insert(0, os.path.join(os.path.dirname(os.path.abspath(__file__)), '..', 'harness'))
import common
files = set()
for line in open(os.path.join(common.VERIF, 'properties.jsonl')):
    files.update(json.loads(line)['anchors']['files'])
out = {f: common.function_fingerprints(os.path.join('/repo', f)) for f in sorted(files)}
json.dump(out, open(os.path.join(common.VERIF, 'harness', 'fingerprints.json'), 'w'), indent=1, sort_keys=True)
print(sum(len(v) for v in out.values()), 'functions in', len(out), 'files')
