#!/bin/bash
# usage: tools/try_seed.sh <seed id> <property> [<property> ...]   - applies the seeded change to a scratch worktree of /repo, runs the named
# checks (quick tier, no proof step, evidence goes to evidence/debug-*) against it, removes the worktree
cd "$(dirname "$0")/.."
seed=$1; shift
wt=/tmp/wt/try-$seed-$$
git -C /repo worktree add --detach $wt HEAD -q || exit 2
git -C $wt apply $PWD/seeded/$seed/patch.diff || { git -C /repo worktree remove --force $wt; exit 2; }
for p in "$@"; do
  HPOTK_REPO=$wt timeout ${TRY_TIMEOUT:-1500} ./check $p --tier quick --no-proof 2>&1 | grep -v "^Skipping" | tail -${TRY_TAIL:-4}
  echo "== $seed vs $p: exit ${PIPESTATUS[0]}"
done
git -C /repo worktree remove --force $wt
