/-
Information-content counts (`calculate_ic_for_annotated_items`, src/hpotk/algorithm/similarity/_ic.py).
Generic over the term key type; `anc t` is the ancestor list INCLUDING `t` (C01: duplicate-free, = closure),
`mod` is the module set (descendants of the module root incl. the root) or `none`.
-/
namespace Hpv.Ic

variable {κ : Type} [DecidableEq κ]

/-- order-preserving de-duplication (dict key order) -/
def dedup : List κ → List κ
  | [] => []
  | x :: xs => x :: (dedup xs).filter (fun y => y ≠ x)

def inModule (mod : Option (List κ)) (t : κ) : Bool :=
  match mod with
  | none => true
  | some m => m.contains t

/-- ids of the present annotations of all items, in iteration order -/
def presentIds (items : List (List (κ × Bool))) : List κ :=
  items.flatMap (fun anns => (anns.filter (·.2)).map (·.1))

/-- every `term_id_count[ancestor] += 1`, in order -/
def increments (anc : κ → List κ) (mod : Option (List κ)) (anns : List κ) : List κ :=
  (anns.filter (inModule mod)).flatMap (fun a => (anc a).filter (inModule mod))

/-- the `Counter` after the annotation loops (keys in first-increment order) -/
def rawCounts (incs : List κ) : List (κ × Nat) := (dedup incs).map (fun t => (t, incs.count t))

/-- `for term_id in corpus: if term_id not in term_id_count: term_id_count[term_id] = 1` -/
def withPseudo (cs : List (κ × Nat)) (univ : List κ) : List (κ × Nat) :=
  cs ++ ((dedup univ).filter (fun t => !(cs.map (·.1)).contains t)).map (fun t => (t, 1))

/-- the pseudocount corpus: every ontology term, or the module -/
def corpus (mod : Option (List κ)) (univ : List κ) : List κ :=
  match mod with
  | none => univ
  | some m => m

def counts (anc : κ → List κ) (mod : Option (List κ)) (univ : List κ) (pseudo : Bool)
    (items : List (List (κ × Bool))) : List (κ × Nat) :=
  let cs := rawCounts (increments anc mod (presentIds items))
  if pseudo then withPseudo cs (corpus mod univ) else cs

/-- `term_id_count[key]` of a `Counter`: 0 for a missing key -/
def lookupCount (cs : List (κ × Nat)) (t : κ) : Nat := ((cs.find? (fun p => p.1 = t)).map (·.2)).getD 0

end Hpv.Ic
