/-
The csv dialect `to_csv` / `from_csv` rely on (Python's `csv` module, dialect `excel`: delimiter `,`, quote char `"`,
doubled quotes, QUOTE_MINIMAL, line terminator CR LF, no escape char, not strict), as a model of its own:

* `writeRow`  = `csv.writer.writerow` for a row of strings (`join_append_data` in `_csv.c`);
* `step`      = `parse_process_char` (the reader's state machine; `none` is the end-of-line event the reader feeds to it
                after the last character of every line it pulls from its input iterator);
* `events`    = the characters of a text in the order the reader sees them when the text is iterated as the library's
                handles iterate it (`newline=''`: lines end after LF, after CR LF and after a lone CR, terminators kept),
                with the end-of-line event after each line;
* `readAll`   = `list(csv.reader(handle))`, `readDict` = the `csv.DictReader` layer (`fieldnames` from the first row,
                empty rows skipped).

Characters are code points (`Nat`), strings are `List Nat`, as everywhere in these models.
-/
namespace Hpv.Csv

abbrev Str := List Nat

def comma : Nat := 44
def quote : Nat := 34
def cr : Nat := 13
def lf : Nat := 10

/-! ### writer -/

/-- a character that makes QUOTE_MINIMAL quote the field: delimiter, quote char, or a character of the line terminator -/
def special (c : Nat) : Bool := c == comma || c == quote || c == cr || c == lf

def needsQuote (f : Str) : Bool := f.any special

/-- `doublequote=True`: a quote char inside a field is written twice -/
def escape : Str → Str
  | [] => []
  | c :: cs => if c = quote then quote :: quote :: escape cs else c :: escape cs

/-- one field; `force` = the writer quotes although it need not (QUOTE_ALL and the like) -/
def writeField (force : Bool) (f : Str) : Str :=
  if force || needsQuote f then quote :: (escape f ++ [quote]) else f

/-- the fields of one row joined by the delimiter; `force` may differ from field to field -/
def writeFields (force : Nat → Bool) : Nat → List Str → Str
  | _, [] => []
  | i, [f] => writeField (force i) f
  | i, f :: g :: fs => writeField (force i) f ++ comma :: writeFields force (i + 1) (g :: fs)

/-- `writer.writerow(row)`: a row that consists of one empty field is written as `""` -/
def writeRow (force : Nat → Bool) (r : List Str) : Str :=
  match r with
  | [[]] => [quote, quote, cr, lf]
  | _ => writeFields force 0 r ++ [cr, lf]

/-- `writer.writerows(rows)`; `force j i` = field `i` of row `j` is quoted regardless -/
def writeRows (force : Nat → Nat → Bool) : Nat → List (List Str) → Str
  | _, [] => []
  | j, r :: rs => writeRow (force j) r ++ writeRows force (j + 1) rs

/-- QUOTE_MINIMAL, what the library uses today -/
def writeMinimal (rs : List (List Str)) : Str := writeRows (fun _ _ => false) 0 rs

/-! ### reader -/

inductive St | startRecord | startField | inField | inQuoted | quoteInQuoted | eatCrnl
  deriving DecidableEq, Repr

inductive Err | newlineInUnquotedField
  deriving DecidableEq, Repr

structure P where
  st : St := .startRecord
  field : Str := []
  fields : List Str := []
  recs : List (List Str) := []
  deriving DecidableEq, Repr

def isNl (c : Nat) : Bool := c == cr || c == lf

/-- `parse_save_field` -/
def saveField (p : P) : P := { p with fields := p.fields ++ [p.field], field := [] }

/-- the reader hands the record over when the machine is back in START_RECORD after a line -/
def emit (p : P) : P := { p with st := .startRecord, recs := p.recs ++ [p.fields], fields := [], field := [] }

def addChar (p : P) (c : Nat) : P := { p with field := p.field ++ [c] }

/-- case START_FIELD of `parse_process_char` for a character -/
def startFieldStep (p : P) (c : Nat) : P :=
  if isNl c then { saveField p with st := .eatCrnl }
  else if c = quote then { p with st := .inQuoted }
  else if c = comma then { saveField p with st := .startField }
  else { addChar p c with st := .inField }

/-- `parse_process_char`; `none` = EOL -/
def step (p : P) : Option Nat → Except Err P
  | none =>
    match p.st with
    | .startRecord => .ok (emit p)                       -- empty line: the record `[]`
    | .startField | .inField | .quoteInQuoted => .ok (emit (saveField p))
    | .inQuoted => .ok p
    | .eatCrnl => .ok (emit p)
  | some c =>
    match p.st with
    | .startRecord => if isNl c then .ok { p with st := .eatCrnl } else .ok (startFieldStep p c)
    | .startField => .ok (startFieldStep p c)
    | .inField =>
      if isNl c then .ok { saveField p with st := .eatCrnl }
      else if c = comma then .ok { saveField p with st := .startField }
      else .ok (addChar p c)
    | .inQuoted => if c = quote then .ok { p with st := .quoteInQuoted } else .ok (addChar p c)
    | .quoteInQuoted =>
      if c = quote then .ok { addChar p c with st := .inQuoted }
      else if c = comma then .ok { saveField p with st := .startField }
      else if isNl c then .ok { saveField p with st := .eatCrnl }
      else .ok { addChar p c with st := .inField }        -- not strict
    | .eatCrnl => if isNl c then .ok p else .error .newlineInUnquotedField

/-- is there a line end after `c` when the next character is `next`? (`newline=''`) -/
def lineEndAfter (c : Nat) (next : Option Nat) : Bool := c == lf || (c == cr && next != some lf)

/-- what the state machine is fed for a text: every character, and EOL after every line (also after an unterminated tail) -/
def events : Str → List (Option Nat)
  | [] => []
  | [c] => [some c, none]
  | c :: d :: rest => if lineEndAfter c (some d) then some c :: none :: events (d :: rest) else some c :: events (d :: rest)

/-- the physical lines of a text as the library's handles yield them (`newline=''`, terminators kept) -/
def splitLinesAux : Str → Str → List Str
  | acc, [] => if acc = [] then [] else [acc]
  | acc, [c] => [acc ++ [c]]
  | acc, c :: d :: rest =>
    if lineEndAfter c (some d) then (acc ++ [c]) :: splitLinesAux [] (d :: rest) else splitLinesAux (acc ++ [c]) (d :: rest)

def splitLines (t : Str) : List Str := splitLinesAux [] t

def run (p : P) : List (Option Nat) → Except Err P
  | [] => .ok p
  | e :: es => match step p e with
    | .ok p' => run p' es
    | .error x => .error x

/-- input exhausted inside a record (an open quoted field): the reader saves the field and returns the record -/
def finish (p : P) : List (List Str) :=
  if p.st = .inQuoted then p.recs ++ [p.fields ++ [p.field]] else p.recs

/-- `list(csv.reader(handle))` -/
def readAll (text : Str) : Except Err (List (List Str)) :=
  match run {} (events text) with
  | .ok p => .ok (finish p)
  | .error e => .error e

/-! ### DictReader layer -/

/-- `DictReader`: the first row is `fieldnames` (whatever it is, an empty first line included); later empty rows are
skipped; a row becomes the list of `(fieldname, value)` pairs for the fields it has (missing ones would be `None`, further
ones go to `restkey`) -/
def readDict (text : Str) : Except Err (List Str × List (List (Str × Str))) :=
  match readAll text with
  | .error e => .error e
  | .ok [] => .ok ([], [])
  | .ok (h :: rows) => .ok (h, (rows.filter (fun r => !r.isEmpty)).map (fun r => h.zip r))

end Hpv.Csv
