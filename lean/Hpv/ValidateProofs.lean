import Hpv.Validate

namespace Hpv.Validate
variable {κ : Type} [DecidableEq κ]

theorem allSome_of_forall {α β} (l : List α) (f : α → Option β) (g : α → β) (h : ∀ x ∈ l, f x = some (g x)) :
    allSome (l.map f) = some (l.map g) := by
  induction l with
  | nil => rfl
  | cons a rest ih =>
    simp only [List.map_cons, h a List.mem_cons_self, allSome,
      ih (fun x hx => h x (List.mem_cons_of_mem _ hx)), Option.map_some]

/-- all ids are known to the ontology -/
def Known (o : Onto κ) (items : List (Feature κ)) : Prop := ∀ f ∈ items, (o.primary f.id).isSome

/-- the primary id of an item whose id is known -/
def prim (o : Onto κ) (f : Feature κ) : Feature κ := ⟨(o.primary f.id).getD f.id, f.present⟩

theorem primaryFeat_known (o : Onto κ) (items : List (Feature κ)) (hk : Known o items) :
    allSome (items.map (primaryFeat o)) = some (items.map (prim o)) := by
  apply allSome_of_forall
  intro f hf
  obtain ⟨p, hp⟩ := Option.isSome_iff_exists.mp (hk f hf)
  simp [primaryFeat, prim, hp]

theorem mem_offending (o : Onto κ) (feats : List (Feature κ)) (f : Feature κ) (a : κ) :
    a ∈ offending o feats f ↔ a ∈ o.strictAnc f.id ∧ ∃ g ∈ feats, g.id = a ∧ (f.present = true ∨ g.present = false) := by
  unfold offending
  cases hp : f.present
  · simp only [Bool.false_eq_true, if_false, List.mem_filter, List.any_eq_true, decide_eq_true_eq, false_or,
      Bool.not_eq_true']
    constructor
    · rintro ⟨h1, g, ⟨hg, hgp⟩, hga⟩; exact ⟨h1, g, hg, hga.symm, hgp⟩
    · rintro ⟨h1, g, hg, hga, hgp⟩; exact ⟨h1, g, ⟨hg, hgp⟩, hga.symm⟩
  · simp only [if_true, List.mem_filter, List.any_eq_true, decide_eq_true_eq, true_or, and_true]
    constructor
    · rintro ⟨h1, g, hg, hga⟩; exact ⟨h1, g, hg, hga.symm⟩
    · rintro ⟨h1, g, hg, hga⟩; exact ⟨h1, g, hg, hga.symm⟩

/-- **Propagation validator**: complete and sound. -/
theorem propagation_spec (o : Onto κ) (items : List (Feature κ)) (hk : Known o items) :
    ∃ rs, propagation o items = .ok rs ∧
      (∀ r ∈ rs, r.level = .error ∧ r.category = .propagation) ∧
      ∀ d a, (⟨.error, .propagation, [d, a]⟩ : Result κ) ∈ rs ↔
        ∃ f ∈ items.map (prim o), f.id = d ∧ a ∈ o.strictAnc d ∧
          ∃ g ∈ items.map (prim o), g.id = a ∧ (f.present = true ∨ g.present = false) := by
  refine ⟨propResults o (items.map (prim o)), by simp only [propagation, primaryFeat_known o items hk], ?_, ?_⟩
  · intro r hr
    simp only [propResults, List.mem_flatMap, List.mem_map] at hr
    obtain ⟨f, _, a, _, rfl⟩ := hr
    exact ⟨rfl, rfl⟩
  · intro d a
    simp only [propResults, List.mem_flatMap, List.mem_map, Result.mk.injEq, true_and, List.cons.injEq, and_true]
    constructor
    · rintro ⟨f, ⟨f0, hf0, rfl⟩, a', ha', hd, rfl⟩
      have := (mem_offending o _ _ _).mp ha'
      exact ⟨prim o f0, ⟨f0, hf0, rfl⟩, hd, hd ▸ this.1, by simpa using this.2⟩
    · rintro ⟨f, ⟨f0, hf0, rfl⟩, hd, ha, g, ⟨g0, hg0, rfl⟩, hga, hpr⟩
      refine ⟨prim o f0, ⟨f0, hf0, rfl⟩, a, ?_, hd, rfl⟩
      rw [mem_offending]
      exact ⟨hd ▸ ha, prim o g0, List.mem_map.mpr ⟨g0, hg0, rfl⟩, hga, hpr⟩

/-- **Obsolete-id validator**: one warning per item whose given id is not its primary id. -/
theorem obsolete_spec (o : Onto κ) (items : List (Feature κ)) (hk : Known o items) :
    obsoleteIds o items = .ok ((items.filter (fun f => (prim o f).id ≠ f.id)).map
      (fun f => ⟨.warning, .obsolete, [f.id, (prim o f).id]⟩)) := by
  unfold obsoleteIds
  rw [primaryFeat_known o items hk]
  simp only
  congr 1
  induction items with
  | nil => rfl
  | cons f rest ih =>
    have hk' : Known o rest := fun x hx => hk x (List.mem_cons_of_mem _ hx)
    simp only [List.map_cons, List.zip_cons_cons, List.flatMap_cons, List.filter_cons]
    rw [ih hk']
    by_cases h : (prim o f).id ≠ f.id
    · simp [h]
    · simp [h]

/-- **Phenotypic-abnormality validator**: one warning per (known) item that is not a strict descendant of PA. -/
theorem abnormality_spec (o : Onto κ) (pa : κ) (items : List (Feature κ)) (hk : Known o items) :
    abnormality o pa items = .ok ((items.filter (fun f => !(o.strictAnc (prim o f).id).contains pa)).map
      (fun f => ⟨.warning, .abnormality, [(prim o f).id, pa]⟩)) := by
  unfold abnormality
  congr 1
  induction items with
  | nil => rfl
  | cons f rest ih =>
    have hk' : Known o rest := fun x hx => hk x (List.mem_cons_of_mem _ hx)
    obtain ⟨p, hp⟩ := Option.isSome_iff_exists.mp (hk f List.mem_cons_self)
    have hprim : (prim o f).id = p := by simp [prim, hp]
    have hany : ((o.strictAnc p).any fun anc => decide (pa = anc)) = (o.strictAnc p).contains pa := by
      rw [Bool.eq_iff_iff]
      simp only [List.any_eq_true, decide_eq_true_eq, List.contains_iff_mem]
      constructor
      · rintro ⟨x, hx, rfl⟩; exact hx
      · intro h; exact ⟨pa, h, rfl⟩
    have hstep : abnStep o pa f = if (o.strictAnc p).contains pa then [] else [⟨.warning, .abnormality, [p, pa]⟩] := by
      simp only [abnStep, primaryFeat, hp, Option.map_some, hany]
    rw [List.flatMap_cons, ih hk', hstep, List.filter_cons, hprim]
    cases (o.strictAnc p).contains pa
    · simp [hprim]
    · simp

/-- what a validator reports (empty if it raises) -/
def resultsOf (o : Onto κ) (pa : κ) (items : List (Feature κ)) (v : Validator) : List (Result κ) :=
  match runValidator o pa items v with
  | .ok r => r
  | .error _ => []

/-- **Runner**: the concatenation of its validators' findings, in validator order. -/
theorem runner_spec (o : Onto κ) (pa : κ) (vs : List Validator) (items : List (Feature κ))
    (hok : ∀ v ∈ vs, ∃ r, runValidator o pa items v = .ok r) :
    validateAll o pa vs items = .ok (vs.flatMap (resultsOf o pa items)) := by
  unfold validateAll
  suffices h : ∀ acc : List (Result κ),
      vs.foldl (runStep o pa items) (.ok acc) = .ok (acc ++ vs.flatMap (resultsOf o pa items)) by
    simpa using h []
  induction vs with
  | nil => intro acc; simp
  | cons v rest ih =>
    intro acc
    obtain ⟨r, hr⟩ := hok v List.mem_cons_self
    simp only [List.foldl_cons, runStep, hr, List.flatMap_cons, resultsOf]
    rw [ih (fun v' hv' => hok v' (List.mem_cons_of_mem _ hv'))]
    simp [resultsOf]

/-! ### no mutation of the caller's items -/

theorem extract_frame (o : Onto κ) (h : Heap κ) (i : Nat) :
    h.length ≤ (extractAndNormalise o h i).1.length ∧ (extractAndNormalise o h i).1.take h.length = h := by
  unfold extractAndNormalise
  cases h[i]? with
  | none => simp
  | some f =>
    simp only
    cases o.primary f.id with
    | none => simp
    | some p =>
      simp only
      split
      · constructor
        · simp
        · rw [List.take_set_of_le (Nat.le_refl _)]; simp
      · simp

/-- **Validating never changes the caller's items**: whatever the validators allocate and overwrite lives beyond the
addresses of the caller's list. -/
theorem no_mutation (o : Onto κ) (h : Heap κ) (n : Nat) : (heapAfter o h n).take h.length = h := by
  unfold heapAfter
  suffices key : ∀ (l : List Nat) (hp : Heap κ), h.length ≤ hp.length → hp.take h.length = h →
      (l.foldl (fun hp i => (extractAndNormalise o hp i).1) hp).take h.length = h from
    key _ h (Nat.le_refl _) (List.take_length)
  intro l
  induction l with
  | nil => intro hp _ h2; exact h2
  | cons i rest ih =>
    intro hp h1 h2
    simp only [List.foldl_cons]
    obtain ⟨f1, f2⟩ := extract_frame o hp i
    apply ih
    · omega
    · have : ((extractAndNormalise o hp i).1.take hp.length).take h.length = hp.take h.length := by rw [f2]
      rw [List.take_take, Nat.min_eq_left h1] at this
      rw [this, h2]

end Hpv.Validate
