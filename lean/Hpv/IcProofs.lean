import Hpv.Ic

namespace Hpv.Ic
variable {κ : Type} [DecidableEq κ]

theorem mem_dedup (l : List κ) (x : κ) : x ∈ dedup l ↔ x ∈ l := by
  induction l with
  | nil => simp [dedup]
  | cons a t ih =>
    simp only [dedup, List.mem_cons, List.mem_filter, decide_eq_true_eq, ih]
    constructor
    · rintro (h | ⟨h, _⟩)
      · exact Or.inl h
      · exact Or.inr h
    · rintro (h | h)
      · exact Or.inl h
      · by_cases hx : x = a
        · exact Or.inl hx
        · exact Or.inr ⟨h, hx⟩

theorem nodup_dedup (l : List κ) : (dedup l).Nodup := by
  induction l with
  | nil => simp [dedup]
  | cons a t ih =>
    simp only [dedup, List.nodup_cons, List.mem_filter, decide_eq_true_eq]
    exact ⟨fun h => h.2 rfl, List.Pairwise.filter _ ih⟩

theorem find_map_key {β} (L : List κ) (f : κ → β) (t : κ) :
    (L.map (fun x => (x, f x))).find? (fun p => decide (p.1 = t)) = if t ∈ L then some (t, f t) else none := by
  induction L with
  | nil => simp
  | cons a rest ih =>
    simp only [List.map_cons, List.find?_cons, List.mem_cons]
    by_cases h : a = t
    · subst h; simp
    · have h' : ¬ t = a := fun e => h e.symm
      simp only [h, decide_false, ih, h', false_or]

/-- a `Counter` lookup after the annotation loops is the number of increments of that key -/
theorem lookup_rawCounts (incs : List κ) (t : κ) : lookupCount (rawCounts incs) t = incs.count t := by
  unfold lookupCount rawCounts
  rw [find_map_key]
  by_cases h : t ∈ dedup incs
  · simp [h]
  · have : t ∉ incs := fun hh => h ((mem_dedup incs t).mpr hh)
    simp [h, List.count_eq_zero.mpr this]

theorem keys_rawCounts (incs : List κ) : (rawCounts incs).map (·.1) = dedup incs := by
  simp [rawCounts, List.map_map, Function.comp_def]

/-- **What is counted**: with duplicate-free ancestor lists, the count of `t` is the number of present annotations
(inside the module) that have `t` among their ancestors-or-self — and nothing outside the module is counted. -/
theorem count_increments (anc : κ → List κ) (mod : Option (List κ)) (anns : List κ) (t : κ)
    (hnd : ∀ a, (anc a).Nodup) :
    (increments anc mod anns).count t =
      if inModule mod t then (anns.filter (inModule mod)).countP (fun a => decide (t ∈ anc a)) else 0 := by
  unfold increments
  rw [List.count_flatMap]
  by_cases hm : inModule mod t = true
  · simp only [hm, if_true]
    induction anns.filter (inModule mod) with
    | nil => rfl
    | cons a rest ih =>
      simp only [List.map_cons, List.sum_cons, Function.comp, List.countP_cons, ih]
      rw [List.count_filter hm, (hnd a).count]
      by_cases h : t ∈ anc a <;> simp [h]; omega
  · simp only [hm, Bool.false_eq_true, if_false]
    have : ∀ l : List κ, (l.map (List.count t ∘ fun a => (anc a).filter (inModule mod))).sum = 0 := by
      intro l
      induction l with
      | nil => rfl
      | cons a rest ih =>
        simp only [List.map_cons, List.sum_cons, Function.comp, ih, Nat.add_zero]
        rw [List.count_eq_zero]
        intro hin
        exact hm (List.mem_filter.mp hin).2
    exact this _

/-- **Propagation / monotonicity**: a term never has more annotations than any of its ancestors inside the module. -/
theorem count_monotone (anc : κ → List κ) (mod : Option (List κ)) (anns : List κ) (t t' : κ)
    (hnd : ∀ a, (anc a).Nodup) (hclosed : ∀ a x y, x ∈ anc a → y ∈ anc x → y ∈ anc a)
    (hanc : t' ∈ anc t) (hm' : inModule mod t' = true) :
    (increments anc mod anns).count t ≤ (increments anc mod anns).count t' := by
  rw [count_increments anc mod anns t hnd, count_increments anc mod anns t' hnd]
  simp only [hm', if_true]
  split
  · apply List.countP_mono_left
    intro a _ ha
    simp only [decide_eq_true_eq] at ha ⊢
    exact hclosed a t t' ha hanc
  · omega

/-- the order of items and annotations does not matter -/
theorem count_perm (anc : κ → List κ) (mod : Option (List κ)) (anns anns' : List κ) (h : anns.Perm anns') (t : κ) :
    (increments anc mod anns).count t = (increments anc mod anns').count t := by
  unfold increments
  exact ((h.filter _).flatMap_right _).count_eq t

theorem presentIds_perm (items items' : List (List (κ × Bool))) (h : items.Perm items') :
    (presentIds items).Perm (presentIds items') := h.flatMap_right _

/-- excluded annotations do not matter: dropping them changes nothing -/
theorem presentIds_excluded (items : List (List (κ × Bool))) :
    presentIds (items.map (fun anns => anns.filter (·.2))) = presentIds items := by
  unfold presentIds
  induction items with
  | nil => rfl
  | cons a rest ih =>
    simp only [List.map_cons, List.flatMap_cons, ih, List.filter_filter, Bool.and_self]

/-! ### the final table (with pseudocounts) -/

theorem find_append_key (cs ds : List (κ × Nat)) (t : κ) :
    lookupCount (cs ++ ds) t = if t ∈ cs.map (·.1) then lookupCount cs t else lookupCount ds t := by
  unfold lookupCount
  rw [List.find?_append]
  by_cases h : t ∈ cs.map (·.1)
  · simp only [h, if_true]
    obtain ⟨p, hp, hpt⟩ := List.mem_map.mp h
    cases hf : cs.find? (fun p => decide (p.1 = t)) with
    | none =>
      rw [List.find?_eq_none] at hf
      exact absurd (by simp [hpt]) (hf p hp)
    | some q => simp
  · simp only [h, if_false]
    have : cs.find? (fun p => decide (p.1 = t)) = none := by
      rw [List.find?_eq_none]
      intro p hp hpt
      simp only [decide_eq_true_eq] at hpt
      exact h (List.mem_map.mpr ⟨p, hp, hpt⟩)
    simp [this]

/-- **The final count of every term**: its annotation count when positive; otherwise 1 when pseudocounts are on and
the term belongs to the corpus (all ontology terms, or the module); otherwise the term is absent (count 0). -/
theorem final_count (anc : κ → List κ) (mod : Option (List κ)) (univ : List κ) (pseudo : Bool)
    (items : List (List (κ × Bool))) (t : κ) :
    lookupCount (counts anc mod univ pseudo items) t =
      if 0 < (increments anc mod (presentIds items)).count t then (increments anc mod (presentIds items)).count t
      else if pseudo = true ∧ t ∈ corpus mod univ then 1 else 0 := by
  unfold counts
  simp only
  generalize increments anc mod (presentIds items) = incs
  generalize corpus mod univ = U
  cases pseudo with
  | false =>
    simp only [Bool.false_eq_true, if_false, false_and, lookup_rawCounts]
    split <;> omega
  | true =>
    simp only [if_true, true_and]
    unfold withPseudo
    rw [find_append_key, lookup_rawCounts]
    by_cases hc : 0 < incs.count t
    · have hin : t ∈ (rawCounts incs).map (·.1) := by
        rw [keys_rawCounts, mem_dedup]; exact List.count_pos_iff.mp hc
      rw [if_pos hin, if_pos hc]
    · have hnot : t ∉ incs := fun h => hc (List.count_pos_iff.mpr h)
      have hin : t ∉ (rawCounts incs).map (·.1) := by
        rw [keys_rawCounts, mem_dedup]; exact hnot
      rw [if_neg hin, if_neg hc]
      unfold lookupCount
      rw [find_map_key (f := fun _ => 1)]
      have hmem : t ∈ (dedup U).filter (fun t => !((rawCounts incs).map (·.1)).contains t) ↔ t ∈ U := by
        rw [List.mem_filter, mem_dedup]
        constructor
        · intro h; exact h.1
        · intro h
          refine ⟨h, ?_⟩
          have : ((rawCounts incs).map (·.1)).contains t = false := by
            rw [← Bool.not_eq_true, List.contains_iff_mem]; exact hin
          show (!((rawCounts incs).map (·.1)).contains t) = true
          rw [this]; rfl
      by_cases hu : t ∈ U
      · rw [if_pos (hmem.mpr hu), if_pos hu]; rfl
      · rw [if_neg (fun h => hu (hmem.mp h)), if_neg hu]; rfl

/-- a term is a key of the result exactly when its final count is positive -/
theorem key_iff (anc : κ → List κ) (mod : Option (List κ)) (univ : List κ) (pseudo : Bool)
    (items : List (List (κ × Bool))) (t : κ) :
    t ∈ (counts anc mod univ pseudo items).map (·.1) ↔ 0 < lookupCount (counts anc mod univ pseudo items) t := by
  rw [final_count]
  unfold counts
  simp only
  generalize increments anc mod (presentIds items) = incs
  generalize corpus mod univ = U
  have hkey : t ∈ (rawCounts incs).map (·.1) ↔ 0 < incs.count t := by
    rw [keys_rawCounts, mem_dedup, List.count_pos_iff]
  cases pseudo with
  | false =>
    simp only [Bool.false_eq_true, if_false, false_and, hkey]
    constructor
    · intro h; rw [if_pos h]; exact h
    · intro h
      by_cases hc : 0 < incs.count t
      · exact hc
      · rw [if_neg hc] at h; omega
  | true =>
    simp only [if_true, true_and]
    unfold withPseudo
    rw [List.map_append, List.mem_append, hkey]
    have hsnd : t ∈ (((dedup U).filter (fun t => !((rawCounts incs).map (·.1)).contains t)).map (fun t => (t, 1))).map (·.1)
        ↔ (t ∈ U ∧ ¬ 0 < incs.count t) := by
      rw [List.map_map]
      have : ((fun (p : κ × Nat) => p.1) ∘ fun t => (t, 1)) = id := by funext x; rfl
      rw [this, List.map_id, List.mem_filter, mem_dedup, ← hkey]
      constructor
      · rintro ⟨h1, h2⟩
        refine ⟨h1, ?_⟩
        intro hin
        have : ((rawCounts incs).map (·.1)).contains t = true := List.contains_iff_mem.mpr hin
        have h2' : (!((rawCounts incs).map (·.1)).contains t) = true := h2
        rw [this] at h2'; cases h2'
      · rintro ⟨h1, h2⟩
        refine ⟨h1, ?_⟩
        have : ((rawCounts incs).map (·.1)).contains t = false := by
          rw [← Bool.not_eq_true, List.contains_iff_mem]; exact h2
        show (!((rawCounts incs).map (·.1)).contains t) = true
        rw [this]; rfl
    rw [hsnd]
    constructor
    · rintro (h | ⟨h1, h2⟩)
      · rw [if_pos h]; exact h
      · rw [if_neg h2, if_pos h1]; omega
    · intro h
      by_cases hc : 0 < incs.count t
      · exact Or.inl hc
      · rw [if_neg hc] at h
        by_cases hu : t ∈ U
        · exact Or.inr ⟨hu, hc⟩
        · rw [if_neg hu] at h; omega

end Hpv.Ic
