/-
`open_text_io_handle_for_reading` / `_for_writing` (src/hpotk/util/_io.py) as a decision procedure over the class facts of
the argument (measured on the running interpreter by the check and passed in), and the content each accepted source yields.
-/
namespace Hpv.Io

/-- `isinstance` facts of an argument, as measured at run time -/
structure Facts where
  isStr : Bool
  typingBinaryIO : Bool
  bufferedIOBase : Bool
  rawIOBase : Bool
  typingTextIO : Bool
  textIOBase : Bool
  endsWithGz : Bool := false      -- only meaningful for `str`
  looksLikeUrl : Bool := false    -- only meaningful for `str`
deriving DecidableEq, Repr

inductive Outcome
  | openPath          -- `io.TextIOWrapper(open(fh, 'rb'))`  /  `open(fh, 'w')`
  | openGzPath        -- `gzip.open(..., 'rt' / 'wt')`
  | openUrl           -- `urlopen` (reading only; out of scope: no network)
  | wrapBinary        -- `io.TextIOWrapper(fh)`
  | passText          -- `fh` itself
  | reject            -- `ValueError`
deriving DecidableEq, Repr

def dispatchRead (f : Facts) : Outcome :=
  if f.isStr then
    if f.looksLikeUrl then .openUrl
    else if f.endsWithGz then .openGzPath else .openPath
  else if f.typingBinaryIO || f.bufferedIOBase || f.rawIOBase then .wrapBinary
  else if f.typingTextIO || f.textIOBase then .passText
  else .reject

def dispatchWrite (f : Facts) : Outcome :=
  if f.isStr then
    if f.endsWithGz then .openGzPath else .openPath
  else if f.typingBinaryIO || f.bufferedIOBase || f.rawIOBase then .wrapBinary
  else if f.typingTextIO || f.textIOBase then .passText
  else .reject

/-- the kinds of argument the property lists, and "anything else" -/
inductive Kind
  | path | gzPath | textFile | binaryFile | stringIO | bytesIO | gzipText | gzipBinary | other
deriving DecidableEq, Repr

def expectedRead : Kind → Outcome
  | .path => .openPath | .gzPath => .openGzPath
  | .textFile | .stringIO | .gzipText => .passText
  | .binaryFile | .bytesIO | .gzipBinary => .wrapBinary
  | .other => .reject

/-- what must be true of the measured facts for a kind (text-like streams must not look binary, etc.) -/
def FactsFit (k : Kind) (f : Facts) : Bool :=
  match k with
  | .path => f.isStr && !f.endsWithGz && !f.looksLikeUrl
  | .gzPath => f.isStr && f.endsWithGz && !f.looksLikeUrl
  | .textFile | .stringIO | .gzipText =>
      !f.isStr && !(f.typingBinaryIO || f.bufferedIOBase || f.rawIOBase) && (f.typingTextIO || f.textIOBase)
  | .binaryFile | .bytesIO | .gzipBinary => !f.isStr && (f.typingBinaryIO || f.bufferedIOBase || f.rawIOBase)
  | .other => !f.isStr && !(f.typingBinaryIO || f.bufferedIOBase || f.rawIOBase) && !(f.typingTextIO || f.textIOBase)

/-! ### content: `decode` / `gunzip` / `gzip` are parameters -/

variable {Bytes Text : Type}

/-- what a source of kind `k` holds when the logical content is the byte string `b` -/
structure Source (Bytes Text : Type) where
  fileBytes : Bytes      -- bytes of the file behind a path / binary stream
  streamText : Text      -- what a text stream yields

/-- the text the reader ends up parsing -/
def readText (decode : Bytes → Text) (gunzip : Bytes → Bytes) (o : Outcome) (s : Source Bytes Text) : Option Text :=
  match o with
  | .openPath => some (decode s.fileBytes)
  | .openGzPath => some (decode (gunzip s.fileBytes))
  | .wrapBinary => some (decode s.fileBytes)
  | .passText => some s.streamText
  | .openUrl => none
  | .reject => none

/-- how the check materialises content `b` for each kind -/
def materialise (decode : Bytes → Text) (gzip : Bytes → Bytes) (k : Kind) (b : Bytes) : Source Bytes Text :=
  match k with
  | .gzPath => ⟨gzip b, decode b⟩
  | _ => ⟨b, decode b⟩       -- gzip streams are opened by the caller and yield the decompressed data

end Hpv.Io
