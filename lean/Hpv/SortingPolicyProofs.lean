/-
The clustering policy of `_hierarchical_cluster` (Hpv.Sorting.clusterLoop) never pops outside its list and ends with one
tree over exactly the input leaves - for EVERY similarity oracle and every epsilon. With `findIndices` this makes `argsort`
total and a permutation without any assumption about the merges.
-/
import Hpv.SortingProofs

namespace Hpv.Sorting
variable {κ : Type} [DecidableEq κ]

/-! ### argmax -/

theorem argmaxFirstAux_le (f : Nat → Int) (m : Nat) : argmaxFirstAux f m ≤ m := by
  induction m with
  | zero => simp [argmaxFirstAux]
  | succ m ih => unfold argmaxFirstAux; split <;> omega

/-- everything before the chosen position is strictly smaller -/
theorem argmaxFirstAux_first (f : Nat → Int) (m j : Nat) (hj : j < argmaxFirstAux f m) :
    f j < f (argmaxFirstAux f m) := by
  induction m with
  | zero => simp [argmaxFirstAux] at hj
  | succ m ih =>
    unfold argmaxFirstAux at hj ⊢
    split
    · rename_i hlt
      simp only [hlt, if_true] at hj
      by_cases hj' : j < argmaxFirstAux f m
      · exact Int.lt_trans (ih hj') hlt
      · -- argmax m ≤ j ≤ m : f j ≤ f (argmax m) needs the max property
        have hmax : ∀ i, i ≤ m → f i ≤ f (argmaxFirstAux f m) := by
          clear hj hj' hlt ih
          induction m with
          | zero => intro i hi; have : i = 0 := by omega
                    subst this; simp [argmaxFirstAux]
          | succ m ih2 =>
            intro i hi
            unfold argmaxFirstAux
            split
            · rename_i h
              by_cases him : i ≤ m
              · exact Int.le_of_lt (Int.lt_of_le_of_lt (ih2 i him) h)
              · have : i = m + 1 := by omega
                subst this; exact Int.le_refl _
            · rename_i h
              by_cases him : i ≤ m
              · exact ih2 i him
              · have : i = m + 1 := by omega
                subst this; omega
        exact Int.lt_of_le_of_lt (hmax j (by omega)) hlt
    · rename_i hlt
      simp only [hlt, if_false] at hj
      exact ih hj

/-! ### two pops -/

omit [DecidableEq κ] in
theorem popTwice_spec (nodes : List (Tree κ)) (i j : Nat) (hi : i < nodes.length) (hj : j + 1 < nodes.length) :
    ∃ nodes', popTwice nodes i j = some nodes' ∧ (leaves nodes').Perm (leaves nodes) ∧ nodes'.length + 1 = nodes.length := by
  unfold popTwice
  have ha : nodes[i]? = some nodes[i] := List.getElem?_eq_getElem hi
  have hlen : (nodes.eraseIdx i).length = nodes.length - 1 := List.length_eraseIdx_of_lt hi
  have hj' : j < (nodes.eraseIdx i).length := by omega
  have hb : (nodes.eraseIdx i)[j]? = some (nodes.eraseIdx i)[j] := List.getElem?_eq_getElem hj'
  rw [ha]; simp only [hb]
  refine ⟨_, rfl, ?_, ?_⟩
  · have p1 := perm_cons_eraseIdx nodes i _ ha
    have p2 := perm_cons_eraseIdx (nodes.eraseIdx i) j _ hb
    have p : nodes.Perm (nodes[i] :: (nodes.eraseIdx i)[j] :: (nodes.eraseIdx i).eraseIdx j) := p1.trans (p2.cons _)
    have q := List.Perm.flatMap_right Tree.inorder p
    refine List.Perm.trans ?_ q.symm
    simp only [leaves, List.flatMap_append, List.flatMap_cons, List.flatMap_nil, Tree.inorder, List.append_nil]
    refine (List.perm_append_comm).trans ?_
    simp [List.append_assoc]
  · have : ((nodes.eraseIdx i).eraseIdx j).length = (nodes.eraseIdx i).length - 1 := List.length_eraseIdx_of_lt hj'
    simp [this, hlen]; omega

omit [DecidableEq κ] in
/-- with `lo < hi` the two pops are the step of the trace model -/
theorem popTwice_eq_clusterStep (nodes : List (Tree κ)) (hi lo : Nat) (h : lo < hi) :
    popTwice nodes hi lo = clusterStep nodes hi lo := by
  unfold popTwice clusterStep
  cases ha : nodes[hi]? with
  | none => simp
  | some a =>
    simp only
    rw [getElem?_eraseIdx_lt _ _ _ h]
    cases hb : nodes[lo]? with
    | none => simp
    | some b => simp [h]

/-! ### the policy -/

/-- whatever the similarities are, the two positions the policy picks exist -/
theorem choose_valid (n : Nat) (hn : 2 ≤ n) (s : Nat → Nat → Int) (eps : Int) :
    (choose n s eps).1 < n ∧ (choose n s eps).2 + 1 < n := by
  unfold choose
  simp only
  split
  · constructor <;> simp <;> omega
  · rename_i hgt
    generalize hk : argmaxFirstAux (fun k => entry s (k / n) (k % n)) (n * n - 1) = k at hgt ⊢
    have hkle : k ≤ n * n - 1 := hk ▸ argmaxFirstAux_le _ _
    have hnn : 0 < n * n := Nat.mul_pos (by omega) (by omega)
    have hklt : k < n * n := by omega
    have hr : k / n < n := (Nat.div_lt_iff_lt_mul (by omega)).mpr hklt
    have hc : k % n < n := Nat.mod_lt _ (by omega)
    by_cases hrc : k / n = k % n
    · -- a diagonal maximum can only be the very first position
      have hk0 : k = 0 := by
        by_cases h0 : k = 0
        · exact h0
        · exfalso
          have hfirst := argmaxFirstAux_first (fun k => entry s (k / n) (k % n)) (n * n - 1) 0 (by rw [hk]; omega)
          rw [hk] at hfirst
          simp only [Nat.zero_div, Nat.zero_mod] at hfirst
          simp [entry, hrc] at hfirst
      subst hk0
      simp; omega
    · simp only
      constructor
      · exact Nat.max_lt.mpr ⟨hr, hc⟩
      · have : min (k / n) (k % n) < max (k / n) (k % n) := by omega
        have : max (k / n) (k % n) < n := Nat.max_lt.mpr ⟨hr, hc⟩
        omega

/-! ### the policy produces a trace of the trace model -/

/-- with a non-negative epsilon (the shipped sorters use 5e-10) the maximum that is acted upon lies off the diagonal: the second
pop is below the first -/
theorem choose_lt (n : Nat) (hn : 2 ≤ n) (s : Nat → Nat → Int) (eps : Int) (heps : 0 ≤ eps) :
    (choose n s eps).2 < (choose n s eps).1 := by
  unfold choose
  simp only
  split
  · simp; omega
  · rename_i hgt
    generalize hk : argmaxFirstAux (fun k => entry s (k / n) (k % n)) (n * n - 1) = k at hgt ⊢
    by_cases hrc : k / n = k % n
    · exfalso
      apply hgt
      simp [entry, hrc, heps]
    · simp only
      omega

omit [DecidableEq κ] in
/-- **The two models of C13 agree**: for a non-negative epsilon the clustering loop, whatever the similarity oracle answers, IS
the trace model run on the pops the policy chose - so everything proved for every merge trace holds for it. -/
theorem clusterLoop_eq_cluster (sim : List (Tree κ) → Nat → Nat → Int) (eps : Int) (heps : 0 ≤ eps) (fuel : Nat)
    (nodes : List (Tree κ)) (hf : nodes.length ≤ fuel + 1) :
    clusterLoop sim eps fuel nodes = cluster (policyTrace sim eps fuel nodes) nodes := by
  induction fuel generalizing nodes with
  | zero => simp [clusterLoop, policyTrace, cluster]
  | succ fuel ih =>
    unfold clusterLoop policyTrace
    by_cases h1 : nodes.length ≤ 1
    · simp [h1, cluster]
    · simp only [h1, if_false]
      obtain ⟨hv1, hv2⟩ := choose_valid nodes.length (by omega) (sim nodes) eps
      have hlt := choose_lt nodes.length (by omega) (sim nodes) eps heps
      obtain ⟨nodes', hp, _, hlen⟩ := popTwice_spec nodes _ _ hv1 hv2
      rw [hp]
      simp only [Option.bind_some, cluster]
      rw [← popTwice_eq_clusterStep nodes _ _ hlt, hp, Option.bind_some]
      exact ih nodes' (by omega)

omit [DecidableEq κ] in
/-- **the clustering loop is total**: for every similarity oracle, every epsilon and every non-empty list of clusters it ends
with exactly one tree, whose leaves are the leaves it started from (none lost, none twice) -/
theorem clusterLoop_total (sim : List (Tree κ) → Nat → Nat → Int) (eps : Int) (fuel : Nat) (nodes : List (Tree κ))
    (hf : nodes.length ≤ fuel + 1) (hne : nodes ≠ []) :
    ∃ t, clusterLoop sim eps fuel nodes = some [t] ∧ (leaves [t]).Perm (leaves nodes) := by
  induction fuel generalizing nodes with
  | zero =>
    cases nodes with
    | nil => exact absurd rfl hne
    | cons t rest =>
      have : rest = [] := by
        cases rest with
        | nil => rfl
        | cons _ _ => simp at hf
      subst this
      exact ⟨t, by simp [clusterLoop], List.Perm.refl _⟩
  | succ fuel ih =>
    unfold clusterLoop
    by_cases h1 : nodes.length ≤ 1
    · cases nodes with
      | nil => exact absurd rfl hne
      | cons t rest =>
        have : rest = [] := by
          cases rest with
          | nil => rfl
          | cons _ _ => simp at h1
        subst this
        exact ⟨t, by simp, List.Perm.refl _⟩
    · simp only [h1, if_false]
      obtain ⟨hv1, hv2⟩ := choose_valid nodes.length (by omega) (sim nodes) eps
      obtain ⟨nodes', hp, hperm, hlen⟩ := popTwice_spec nodes _ _ hv1 hv2
      rw [hp, Option.bind_some]
      have hne' : nodes' ≠ [] := by
        intro h; subst h; simp at hlen; omega
      obtain ⟨t, ht, htp⟩ := ih nodes' (by omega) hne'
      exact ⟨t, ht, htp.trans hperm⟩

/-- index recovery for any leaf order that is a rearrangement of the input -/
theorem findIndices_spec (source ordered : List κ) (h : ordered.Perm source) :
    ∃ res, findIndices source ordered = some res ∧ res.Perm (List.range source.length) ∧
      res.map (source[·]?) = ordered.map some := by
  obtain ⟨e1, e2⟩ := enum_map 0 source
  have hp : ordered.Perm ((enum 0 source).map Prod.snd) := by rw [e1]; exact h
  obtain ⟨res, h1, h2⟩ := assign_spec ordered (enum 0 source) hp
  refine ⟨res, h1, ?_, ?_⟩
  · rw [e2] at h2
    simpa [List.range_eq_range'] using h2
  · exact assign_points source ordered (enum 0 source) res (by simpa using enum_points 0 [] source rfl) h1

/-- **argsort with the policy inside is total and a permutation**, for every similarity oracle and every epsilon -/
theorem argsortPolicy_spec (sim : List (Tree κ) → Nat → Nat → Int) (eps : Int) (source : List κ) (hne : source ≠ []) :
    ∃ res, argsortPolicy sim eps source = some res ∧ res.Perm (List.range source.length) ∧
      (res.map (source[·]?)).Perm (source.map some) := by
  obtain ⟨t, ht, hperm⟩ := clusterLoop_total sim eps source.length (source.map Tree.leaf) (by simp) (by simpa using hne)
  have hsrc : leaves (source.map Tree.leaf) = source := by
    unfold leaves
    induction source with
    | nil => rfl
    | cons x xs _ => simp [Tree.inorder, List.flatMap_map]
  have hl : t.inorder.Perm source := by
    have : leaves [t] = t.inorder := by simp [leaves]
    rw [this, hsrc] at hperm; exact hperm
  obtain ⟨res, h1, h2, h3⟩ := findIndices_spec source t.inorder hl
  refine ⟨res, by simp [argsortPolicy, ht, h1], h2, ?_⟩
  rw [h3]; exact hl.map some

end Hpv.Sorting
