import Hpv.Graph

namespace Hpv.Graph

variable {κ : Type} [DecidableEq κ]

structure Ord.Strict (o : Ord κ) : Prop where
  irrefl : ∀ a, o.lt a a = false
  trans : ∀ a b c, o.lt a b = true → o.lt b c = true → o.lt a c = true
  total : ∀ a b, o.lt a b = true ∨ a = b ∨ o.lt b a = true

def Sorted (o : Ord κ) (l : List κ) : Prop := l.Pairwise (fun a b => o.lt a b = true)

theorem mem_ins (o : Ord κ) (x z : κ) (l : List κ) : z ∈ ins o x l ↔ z = x ∨ z ∈ l := by
  induction l with
  | nil => simp [ins]
  | cons y ys ih =>
    unfold ins
    by_cases h1 : o.lt x y = true
    · simp [h1]
    · simp only [h1]
      by_cases h2 : x = y
      · subst h2; simp
      · simp only [h2, if_false, Bool.false_eq_true, List.mem_cons, ih]
        constructor
        · rintro (h | h | h) <;> simp [h]
        · rintro (h | h | h) <;> simp [h]

theorem sorted_ins (o : Ord κ) (hs : o.Strict) (x : κ) (l : List κ) (hl : Sorted o l) :
    Sorted o (ins o x l) := by
  induction l with
  | nil => simp [ins, Sorted]
  | cons y ys ih =>
    have hy : ∀ z ∈ ys, o.lt y z = true := (List.pairwise_cons.mp hl).1
    have hys : Sorted o ys := (List.pairwise_cons.mp hl).2
    unfold ins
    by_cases h1 : o.lt x y = true
    · simp only [h1, if_true]
      refine List.pairwise_cons.mpr ⟨?_, hl⟩
      intro z hz
      rcases List.mem_cons.mp hz with rfl | hz
      · exact h1
      · exact hs.trans _ _ _ h1 (hy z hz)
    · simp only [h1]
      by_cases h2 : x = y
      · simp [h2]; exact hl
      · simp only [h2, if_false, Bool.false_eq_true]
        have hyx : o.lt y x = true := by
          rcases hs.total x y with h | h | h
          · exact absurd h h1
          · exact absurd h h2
          · exact h
        refine List.pairwise_cons.mpr ⟨?_, ih hys⟩
        intro z hz
        rcases (mem_ins o x z ys).mp hz with rfl | hz
        · exact hyx
        · exact hy z hz

theorem mem_sortDedup (o : Ord κ) (xs : List κ) (z : κ) : z ∈ sortDedup o xs ↔ z ∈ xs := by
  induction xs with
  | nil => simp [sortDedup]
  | cons x xs ih =>
    simp only [sortDedup, List.foldr_cons] at ih ⊢
    rw [mem_ins, ih]; simp

theorem sorted_sortDedup (o : Ord κ) (hs : o.Strict) (xs : List κ) : Sorted o (sortDedup o xs) := by
  induction xs with
  | nil => simp [sortDedup, Sorted]
  | cons x xs ih =>
    simp only [sortDedup, List.foldr_cons] at ih ⊢
    exact sorted_ins o hs x _ ih

theorem Sorted.nodup (o : Ord κ) (hs : o.Strict) (l : List κ) (h : Sorted o l) : l.Nodup := by
  refine List.Pairwise.imp ?_ h
  intro a b hab heq
  subst heq
  rw [hs.irrefl] at hab
  exact absurd hab (by simp)

/-- Binary search finds exactly the position of `x` in a strictly sorted array, and nothing else. -/
theorem indexOf?_spec (o : Ord κ) (hs : o.Strict) (a : List κ) (ha : Sorted o a) (x : κ) (i : Nat) :
    indexOf? o a x = some i ↔ a[i]? = some x := by
  induction a generalizing i with
  | nil => simp [indexOf?, bisectLeft]
  | cons y ys ih =>
    have hy : ∀ z ∈ ys, o.lt y z = true := (List.pairwise_cons.mp ha).1
    have hys : Sorted o ys := (List.pairwise_cons.mp ha).2
    by_cases h1 : o.lt y x = true
    · -- the search moves past y
      have hstep : indexOf? o (y :: ys) x = (indexOf? o ys x).map (· + 1) := by
        have hb : bisectLeft o (y :: ys) x = bisectLeft o ys x + 1 := by
          simp [bisectLeft, List.takeWhile_cons, h1]
        simp only [indexOf?, hb, List.getElem?_cons_succ]
        cases ys[bisectLeft o ys x]? with
        | none => simp
        | some z => by_cases hz : z = x <;> simp [hz]
      rw [hstep]
      cases i with
      | zero =>
        simp only [List.getElem?_cons_zero, Option.some.injEq]
        constructor
        · intro h; cases hh : indexOf? o ys x <;> simp [hh] at h
        · intro h; subst h; rw [hs.irrefl] at h1; exact absurd h1 (by simp)
      | succ j =>
        simp only [List.getElem?_cons_succ]
        rw [← ih hys j]
        cases hh : indexOf? o ys x <;> simp
    · -- the search stops at y
      have hstep : indexOf? o (y :: ys) x = if y = x then some 0 else none := by
        have hb : bisectLeft o (y :: ys) x = 0 := by
          simp [bisectLeft, List.takeWhile_cons, h1]
        simp [indexOf?, hb]
      rw [hstep]
      cases i with
      | zero => by_cases hyx : y = x <;> simp [hyx]
      | succ j =>
        simp only [List.getElem?_cons_succ]
        constructor
        · intro h; split at h <;> simp at h
        · intro h
          have hmem : x ∈ ys := List.mem_of_getElem? h
          exact absurd (hy x hmem) h1

theorem indexOf?_none (o : Ord κ) (hs : o.Strict) (a : List κ) (ha : Sorted o a) (x : κ) :
    indexOf? o a x = none ↔ x ∉ a := by
  constructor
  · intro h hx
    obtain ⟨i, hi⟩ := List.getElem?_of_mem hx
    have := (indexOf?_spec o hs a ha x i).mpr hi
    rw [h] at this; cases this
  · intro h
    cases hh : indexOf? o a x with
    | none => rfl
    | some i =>
      have := (indexOf?_spec o hs a ha x i).mp hh
      exact absurd (List.mem_of_getElem? this) h

/-! ### adjacency collection with the last-subject cache -/

def contrib (o : Ord κ) (nodes : List κ) (k : Option Nat) (e : Edge κ) : List (Edge κ) :=
  (if k = indexOf? o nodes e.1 then [e] else []) ++ (if k = indexOf? o nodes e.2 then [e] else [])

def CacheOk (o : Ord κ) (nodes : List κ) (st : AdjState κ) : Prop :=
  ∀ s, st.lastSub = some s → st.lastIdx = indexOf? o nodes s

theorem push_push (d : Adj κ) (k1 k2 k : Option Nat) (e : Edge κ) :
    ((d.push k1 e).push k2 e) k = d k ++ ((if k = k1 then [e] else []) ++ (if k = k2 then [e] else [])) := by
  simp only [Adj.push]
  by_cases h1 : k = k1 <;> by_cases h2 : k = k2
  · subst h1; subst h2; simp
  · subst h1
    have : ¬ k2 = k := fun h => h2 h.symm
    simp [h2]
  · subst h2
    have : ¬ k1 = k := fun h => h1 h.symm
    simp [h1]
  · simp [h1, h2]

theorem adjStep_spec (o : Ord κ) (nodes : List κ) (st : AdjState κ) (e : Edge κ)
    (hc : CacheOk o nodes st) :
    CacheOk o nodes (adjStep o nodes st e) ∧
    ∀ k, (adjStep o nodes st e).data k = st.data k ++ contrib o nodes k e := by
  unfold adjStep
  by_cases h : st.lastSub = some e.1
  · have hidx := hc e.1 h
    simp only [h, if_true]
    refine ⟨?_, ?_⟩
    · intro s hs; exact hc s (by simpa [h] using hs)
    · intro k
      rw [push_push, hidx]; rfl
  · simp only [h, if_false]
    refine ⟨?_, ?_⟩
    · intro s hs
      simp only [Option.some.injEq] at hs
      subst hs; rfl
    · intro k
      rw [push_push]; rfl

theorem foldl_adjStep_spec (o : Ord κ) (nodes : List κ) (E : List (Edge κ)) (st : AdjState κ)
    (hc : CacheOk o nodes st) (k : Option Nat) :
    (E.foldl (adjStep o nodes) st).data k = st.data k ++ E.flatMap (contrib o nodes k) := by
  induction E generalizing st with
  | nil => simp
  | cons e es ih =>
    obtain ⟨hc', hd⟩ := adjStep_spec o nodes st e hc
    simp only [List.foldl_cons, List.flatMap_cons]
    rw [ih _ hc', hd k, List.append_assoc]

/-- The cache is unobservable: the collected edges are what a cache-free scan collects. -/
theorem findAdjacent_spec (o : Ord κ) (nodes : List κ) (E : List (Edge κ)) (k : Option Nat) :
    findAdjacent o nodes E k = E.flatMap (contrib o nodes k) := by
  unfold findAdjacent
  rw [foldl_adjStep_spec o nodes E _ (by intro s hs; simp at hs) k]
  simp

/-! ### per-row assembly -/

theorem foldl_rowStep_spec (o : Ord κ) (nodes : List κ) (source : κ) (es : List (Edge κ))
    (acc : List (Option Nat) × List (Option Nat)) :
    es.foldl (rowStep o nodes source) acc =
      (acc.1 ++ (es.filter (fun e => decide (source = e.2))).map (fun e => indexOf? o nodes e.1),
       acc.2 ++ (es.filter (fun e => !decide (source = e.2))).map (fun e => indexOf? o nodes e.2)) := by
  induction es generalizing acc with
  | nil => simp
  | cons e es ih =>
    simp only [List.foldl_cons]
    rw [ih]
    unfold rowStep
    by_cases h : source = e.2
    · simp [h, List.filter_cons]
    · simp [h, List.filter_cons]

/-- Row `i` of the children / parents arrays, in terms of the edge list alone. -/
theorem rowTargets_spec (o : Ord κ) (hs : o.Strict) (E : List (Edge κ))
    (hloop : ∀ e ∈ E, e.1 ≠ e.2) (i : Nat) (source : κ)
    (hsrc : (nodesOf o E)[i]? = some source) :
    rowTargets o (nodesOf o E) (findAdjacent o (nodesOf o E) E) i source =
      ((E.filter (fun e => decide (e.2 = source))).map (fun e => indexOf? o (nodesOf o E) e.1),
       (E.filter (fun e => decide (e.1 = source))).map (fun e => indexOf? o (nodesOf o E) e.2)) := by
  have hsorted : Sorted o (nodesOf o E) := sorted_sortDedup o hs (endpoints E)
  have hidx : ∀ x, some i = indexOf? o (nodesOf o E) x ↔ x = source := by
    intro x
    rw [eq_comm, indexOf?_spec o hs _ hsorted x i, hsrc]
    simp only [Option.some.injEq]
    exact eq_comm
  have hsi : some i = indexOf? o (nodesOf o E) source := (hidx source).mpr rfl
  unfold rowTargets
  rw [findAdjacent_spec, foldl_rowStep_spec]
  simp only [List.nil_append]
  -- push the filters through the flatMap, edge by edge
  have key : ∀ (E' : List (Edge κ)), (∀ e ∈ E', e.1 ≠ e.2) →
      (E'.flatMap (contrib o (nodesOf o E) (some i))).filter (fun e => decide (source = e.2)) =
        E'.filter (fun e => decide (e.2 = source)) ∧
      (E'.flatMap (contrib o (nodesOf o E) (some i))).filter (fun e => !decide (source = e.2)) =
        E'.filter (fun e => decide (e.1 = source)) := by
    intro E' hl
    induction E' with
    | nil => simp
    | cons e es ih =>
      have hne : e.1 ≠ e.2 := hl e List.mem_cons_self
      obtain ⟨ih1, ih2⟩ := ih (fun e' he' => hl e' (List.mem_cons_of_mem _ he'))
      simp only [List.flatMap_cons, List.filter_append, ih1, ih2]
      unfold contrib
      by_cases h1 : e.1 = source <;> by_cases h2 : e.2 = source
      · exact absurd (h1.trans h2.symm) hne
      · have e1 := (hidx e.1).mpr h1
        have e2 : ¬ some i = indexOf? o (nodesOf o E) e.2 := fun h => h2 ((hidx e.2).mp h)
        have h2' : ¬ source = e.2 := fun h => h2 h.symm
        rw [if_pos e1, if_neg e2]
        simp [List.filter_cons, h1, h2, h2']
      · have e2 := (hidx e.2).mpr h2
        have e1 : ¬ some i = indexOf? o (nodesOf o E) e.1 := fun h => h1 ((hidx e.1).mp h)
        have h2' : source = e.2 := h2.symm
        rw [if_neg e1, if_pos e2]
        simp [List.filter_cons, h1, h2', hne]
      · have e1 : ¬ some i = indexOf? o (nodesOf o E) e.1 := fun h => h1 ((hidx e.1).mp h)
        have e2 : ¬ some i = indexOf? o (nodesOf o E) e.2 := fun h => h2 ((hidx e.2).mp h)
        rw [if_neg e1, if_neg e2]
        simp [List.filter_cons, h1, h2]
  obtain ⟨k1, k2⟩ := key E hloop
  rw [k1, k2]

end Hpv.Graph
