import Hpv.Store

namespace Hpv.Store

def LocalOk (w : World) (t : Nat) : PC → Prop
  | .fetched k b => w.remote k = some b
  | .haveBytes k b => w.remote k = some b
  | .written k => ∀ c, w.files (.tmp k.ty t) = some c → w.remote k = some c
  | .loaded k c => w.remote k = some c
  | _ => True

/-- **The invariant**: every file at a cache location holds exactly the bytes the remote serves for that key. -/
structure Inv (w : World) : Prop where
  cache : ∀ k c, w.files (.cache k) = some c → w.remote k = some c
  loc : ∀ t, LocalOk w t (w.pcs t)

@[simp] theorem upd_same {α β} [DecidableEq α] (f : α → β) (a : α) (b : β) : upd f a b a = b := by
  simp [upd]

theorem upd_other {α β} [DecidableEq α] (f : α → β) (a x : α) (b : β) (h : x ≠ a) : upd f a b x = f x := by
  simp [upd, h]

/-- Frame: a world that differs from `w` only in `pcs t`, `dirs`, `log`, and in thread `t`'s own temp files. -/
theorem inv_frame (w w' : World) (t : Nat) (hinv : Inv w)
    (hrem : w'.remote = w.remote)
    (hcache : ∀ k c, w'.files (.cache k) = some c → w'.remote k = some c)
    (hpcs : ∀ t', t' ≠ t → w'.pcs t' = w.pcs t')
    (htmp : ∀ ty t', t' ≠ t → w'.files (.tmp ty t') = w.files (.tmp ty t'))
    (hloc : LocalOk w' t (w'.pcs t)) : Inv w' := by
  refine ⟨hcache, ?_⟩
  intro t'
  by_cases h : t' = t
  · subst h; exact hloc
  · rw [hpcs t' h]
    have := hinv.loc t'
    cases hpc : w.pcs t' <;> simp only [hpc, LocalOk, hrem] at this ⊢ <;> try exact this
    rw [htmp _ _ h]; exact this

theorem inv_stepLoader (w : World) (t : Nat) (c : Choice) (hinv : Inv w) : Inv (stepLoader w t c) := by
  have hl := hinv.loc t
  have hc := hinv.cache
  unfold stepLoader
  simp only []
  split
  · -- die
    split
    · exact hinv
    · refine inv_frame w _ t hinv rfl hinv.cache ?_ ?_ ?_
      · intro t' h; simp [World.goto, upd_other _ _ _ _ h]
      · intro ty t' h; rfl
      · simp [World.goto, LocalOk]
  · split
    all_goals (try (split))
    all_goals (try (split))
    all_goals (try (split))
    all_goals (
      first
      | exact hinv
      | (refine inv_frame w _ t hinv rfl ?_ ?_ ?_ ?_
         · first
           | exact hinv.cache
           | (intro k' c' h'
              simp only [World.goto, upd] at h'
              split at h' <;> simp_all [LocalOk, World.goto]
              try (split at h' <;> simp_all [World.goto]))
         · intro t' h; simp [World.goto, upd_other _ _ _ _ h]
         · intro ty t' h
           simp [World.goto, upd, h]
         · simp_all [World.goto, LocalOk, upd]))

theorem inv_step (w : World) (a : Action) (hinv : Inv w) : Inv (step w a) := by
  cases a with
  | loader t c => exact inv_stepLoader w t c hinv
  | spawn t ty rel =>
    simp only [step]
    split
    all_goals (
      first
      | exact hinv
      | (refine inv_frame w _ t hinv rfl hinv.cache ?_ ?_ ?_
         · intro t' h; simp [upd_other _ _ _ _ h]
         · intro ty t' h; rfl
         · simp [LocalOk]))
  | clearTy ty =>
    refine ⟨?_, ?_⟩
    · intro k c h
      simp only [step] at h
      split at h
      · simp at h
      · exact hinv.cache k c h
    · intro t
      have := hinv.loc t
      simp only [step]
      cases hpc : w.pcs t <;> simp only [hpc, LocalOk] at this ⊢ <;> try exact this
      intro c h
      split at h
      · simp at h
      · exact this c h
  | clearAll =>
    refine ⟨by intro k c h; simp [step] at h, ?_⟩
    intro t
    have := hinv.loc t
    simp only [step]
    cases hpc : w.pcs t <;> simp only [hpc, LocalOk] at this ⊢ <;> try exact this
    intro c h; simp at h
  | stray ty name b =>
    refine ⟨?_, ?_⟩
    · intro k c h
      simp only [step, upd] at h
      split at h
      · rename_i heq; cases heq
      · exact hinv.cache k c h
    · intro t
      have := hinv.loc t
      simp only [step]
      cases hpc : w.pcs t <;> simp only [hpc, LocalOk] at this ⊢ <;> try exact this

/-- No incomplete file is ever observable at a cache location, for every interleaving, fault sequence and crash point. -/
theorem inv_run (w : World) (as : List Action) (hinv : Inv w) : Inv (run w as) := by
  induction as generalizing w with
  | nil => exact hinv
  | cons a as ih => exact ih (step w a) (inv_step w a hinv)

theorem inv_init (remote : Key → Option Bytes) (tags : Ty → List Nat) : Inv (World.init remote tags) :=
  ⟨by intro k c h; simp [World.init] at h, by intro t; simp [World.init, LocalOk]⟩

/-! ### latest release -/

theorem foldl_max_spec (l : List Nat) (x : Nat) :
    (l.foldl max x = x ∨ l.foldl max x ∈ l) ∧ x ≤ l.foldl max x ∧ ∀ y ∈ l, y ≤ l.foldl max x := by
  induction l generalizing x with
  | nil => simp
  | cons a rest ih =>
    obtain ⟨h1, h2, h3⟩ := ih (max x a)
    simp only [List.foldl_cons, List.mem_cons]
    refine ⟨?_, by omega, ?_⟩
    · rcases h1 with h | h
      · rw [h]
        rcases Nat.le_total x a with hxa | hxa
        · right; left; exact Nat.max_eq_right hxa
        · left; exact Nat.max_eq_left hxa
      · right; right; exact h
    · intro y hy
      rcases hy with rfl | hy
      · have : y ≤ max x y := Nat.le_max_right _ _
        omega
      · exact h3 y hy

/-- omitting the release selects the greatest available tag; no tag at all is an error -/
theorem maxTag_spec (l : List Nat) :
    (maxTag l = none ↔ l = []) ∧ ∀ m, maxTag l = some m → m ∈ l ∧ ∀ y ∈ l, y ≤ m := by
  cases l with
  | nil => simp [maxTag]
  | cons x xs =>
    obtain ⟨h1, h2, h3⟩ := foldl_max_spec xs x
    refine ⟨by simp [maxTag], ?_⟩
    intro m hm
    simp only [maxTag, Option.some.injEq] at hm
    subst hm
    refine ⟨?_, ?_⟩
    · rcases h1 with h | h
      · rw [h]; exact List.mem_cons_self
      · exact List.mem_cons_of_mem _ h
    · intro y hy
      rcases List.mem_cons.mp hy with rfl | hy
      · exact h2
      · exact h3 y hy

end Hpv.Store

namespace Hpv.Store

/-! ### a release is fetched only after the loader saw that no local copy exists -/

/-- thread `t` is between "isfile said False" and "fetch" for key `k` -/
def Pend (w : World) (t : Nat) (k : Key) : Prop :=
  w.pcs t = .checked k ∨ w.pcs t = .dirMade k ∨ w.pcs t = .tmpMade k

structure LogInv (w : World) : Prop where
  fetches : ∀ (i t : Nat) (k : Key), w.log[i]? = some (Ev.fetch t k) → ∃ j : Nat, j < i ∧ w.log[j]? = some (Ev.isfile t k false)
  pending : ∀ (t : Nat) (k : Key), Pend w t k → ∃ j : Nat, w.log[j]? = some (Ev.isfile t k false)

theorem getElem?_snoc {α} (l : List α) (e x : α) (i : Nat) :
    (l ++ [e])[i]? = some x ↔ l[i]? = some x ∨ (i = l.length ∧ e = x) := by
  rcases Nat.lt_trichotomy i l.length with h | h | h
  · rw [List.getElem?_append_left h]
    constructor
    · intro hh; exact Or.inl hh
    · rintro (hh | ⟨hh, _⟩)
      · exact hh
      · omega
  · subst h
    simp
  · have h1 : (l ++ [e])[i]? = none := by
      apply List.getElem?_eq_none; simp; omega
    have h2 : l[i]? = none := List.getElem?_eq_none (by omega)
    rw [h1, h2]
    constructor
    · intro hh; cases hh
    · rintro (hh | ⟨hh, _⟩)
      · cases hh
      · omega

theorem getElem?_lt {α} (l : List α) (i : Nat) (x : α) (h : l[i]? = some x) : i < l.length := by
  rcases Nat.lt_or_ge i l.length with h' | h'
  · exact h'
  · rw [List.getElem?_eq_none h'] at h; cases h

/-- the log is unchanged and no thread newly enters the pending region -/
theorem LogInv.same_log (w w' : World) (h : LogInv w) (hlog : w'.log = w.log)
    (hp : ∀ t k, Pend w' t k → Pend w t k) : LogInv w' :=
  ⟨by rw [hlog]; exact h.fetches, by intro t k hk; rw [hlog]; exact h.pending t k (hp t k hk)⟩

/-- an event other than `fetch` is appended -/
theorem LogInv.snoc_other (w w' : World) (e : Ev) (h : LogInv w) (hlog : w'.log = w.log ++ [e])
    (he : ∀ t k, e ≠ Ev.fetch t k)
    (hp : ∀ t k, Pend w' t k → Pend w t k ∨ e = Ev.isfile t k false) : LogInv w' := by
  constructor
  · intro i t k hi
    rw [hlog, getElem?_snoc] at hi
    rcases hi with hi | ⟨_, hi⟩
    · obtain ⟨j, hj, hjj⟩ := h.fetches i t k hi
      exact ⟨j, hj, by rw [hlog, getElem?_snoc]; exact Or.inl hjj⟩
    · exact absurd hi (he t k)
  · intro t k hk
    rcases hp t k hk with hk' | hk'
    · obtain ⟨j, hj⟩ := h.pending t k hk'
      exact ⟨j, by rw [hlog, getElem?_snoc]; exact Or.inl hj⟩
    · exact ⟨w.log.length, by rw [hlog, getElem?_snoc]; exact Or.inr ⟨rfl, hk'⟩⟩

/-- a `fetch` is appended by a thread that was pending on that key -/
theorem LogInv.snoc_fetch (w w' : World) (t : Nat) (k : Key) (h : LogInv w) (hlog : w'.log = w.log ++ [Ev.fetch t k])
    (hpend : Pend w t k) (hp : ∀ t' k', Pend w' t' k' → Pend w t' k') : LogInv w' := by
  constructor
  · intro i t' k' hi
    rw [hlog, getElem?_snoc] at hi
    rcases hi with hi | ⟨hil, hi⟩
    · obtain ⟨j, hj, hjj⟩ := h.fetches i t' k' hi
      exact ⟨j, hj, by rw [hlog, getElem?_snoc]; exact Or.inl hjj⟩
    · injection hi with h1 h2; subst h1 h2
      obtain ⟨j, hj⟩ := h.pending t k hpend
      exact ⟨j, by rw [hil]; exact getElem?_lt _ _ _ hj, by rw [hlog, getElem?_snoc]; exact Or.inl hj⟩
  · intro t' k' hk
    obtain ⟨j, hj⟩ := h.pending t' k' (hp t' k' hk)
    exact ⟨j, by rw [hlog, getElem?_snoc]; exact Or.inl hj⟩

theorem pend_goto_other (w : World) (t t' : Nat) (pc : PC) (k : Key) (hne : t' ≠ t) :
    Pend (w.goto t pc) t' k ↔ Pend w t' k := by
  simp [Pend, World.goto, upd, hne]

theorem pend_goto_self (w : World) (t : Nat) (pc : PC) (k : Key) :
    Pend (w.goto t pc) t k ↔ (pc = .checked k ∨ pc = .dirMade k ∨ pc = .tmpMade k) := by
  simp [Pend, World.goto, upd]

theorem logInv_stepLoader (w : World) (t : Nat) (c : Choice) (h : LogInv w) : LogInv (stepLoader w t c) := by
  -- a step of `t` that keeps the log and moves `t` to a pc outside the pending region, or along it
  have keep : ∀ (w' : World) (pc : PC), w'.log = w.log → w'.pcs = w.pcs →
      (∀ k, (pc = .checked k ∨ pc = .dirMade k ∨ pc = .tmpMade k) → Pend w t k) → LogInv (w'.goto t pc) := by
    intro w' pc hl hpcs hpc
    apply LogInv.same_log w _ h (by simp [World.goto, hl])
    intro t' k hk
    by_cases hne : t' = t
    · subst hne; exact hpc k ((pend_goto_self w' t' pc k).mp hk)
    · have := (pend_goto_other w' t t' pc k hne).mp hk
      simpa [Pend, hpcs] using this
  unfold stepLoader
  simp only []
  cases hc : c with
  | die =>
    simp only
    split
    · exact h
    · exact keep w .dead rfl rfl (by intro k hk; simp at hk)
  | ok =>
    cases hpc : w.pcs t with
    | idle => simpa [hpc] using h
    | start ty rel =>
      cases rel with
      | none =>
        simp only [hpc]
        split
        · exact keep w _ rfl rfl (by intro k hk; simp at hk)
        · exact keep w _ rfl rfl (by intro k hk; simp at hk)
      | some r => simp only [hpc]; exact keep w _ rfl rfl (by intro k hk; simp at hk)
    | resolved k =>
      simp only [hpc]
      split
      · apply LogInv.snoc_other w _ (Ev.isfile t k (w.files (.cache k)).isSome) h (by simp [World.goto]) (by intro _ _ hh; cases hh)
        intro t' k' hk
        by_cases hne : t' = t
        · subst hne; simp [Pend, World.goto, upd] at hk
        · left; simpa [Pend, World.goto, upd, hne] using hk
      · rename_i hpres
        apply LogInv.snoc_other w _ (Ev.isfile t k (w.files (.cache k)).isSome) h (by simp [World.goto]) (by intro _ _ hh; cases hh)
        intro t' k' hk
        by_cases hne : t' = t
        · subst hne
          right
          simp only [Pend, World.goto, upd, if_true, PC.checked.injEq, reduceCtorEq, or_false] at hk
          subst hk
          simp at hpres
          simp [hpres]
        · left; simpa [Pend, World.goto, upd, hne] using hk
    | checked k =>
      simp only [hpc]
      exact keep _ _ rfl rfl (by intro k' hk; simp at hk; subst hk; exact Or.inl hpc)
    | dirMade k =>
      simp only [hpc]
      split
      · exact keep _ _ rfl rfl (by intro k' hk; simp at hk; subst hk; exact Or.inr (Or.inl hpc))
      · exact keep w _ rfl rfl (by intro k' hk; simp at hk)
    | tmpMade k =>
      simp only [hpc]
      have hpend : Pend w t k := Or.inr (Or.inr hpc)
      split
      · apply LogInv.snoc_fetch w _ t k h (by simp [World.goto]) hpend
        intro t' k' hk
        by_cases hne : t' = t
        · subst hne; simp [Pend, World.goto, upd] at hk
        · simpa [Pend, World.goto, upd, hne] using hk
      · apply LogInv.snoc_fetch w _ t k h (by simp [World.goto]) hpend
        intro t' k' hk
        by_cases hne : t' = t
        · subst hne; simp [Pend, World.goto, upd] at hk
        · simpa [Pend, World.goto, upd, hne] using hk
    | fetched k b => simp only [hpc]; exact keep w _ rfl rfl (by intro k' hk; simp at hk)
    | haveBytes k b =>
      simp only [hpc]
      split
      · exact keep _ _ rfl rfl (by intro k' hk; simp at hk)
      · exact keep _ _ rfl rfl (by intro k' hk; simp at hk)
    | written k =>
      simp only [hpc]
      split
      · apply LogInv.snoc_other w _ (Ev.stored t k) h (by simp [World.goto]) (by intro _ _ hh; cases hh)
        intro t' k' hk
        by_cases hne : t' = t
        · subst hne; simp [Pend, World.goto, upd] at hk
        · left; simpa [Pend, World.goto, upd, hne] using hk
      · exact keep w _ rfl rfl (by intro k' hk; simp at hk)
    | hit k =>
      simp only [hpc]
      split
      · exact keep w _ rfl rfl (by intro k' hk; simp at hk)
      · exact keep w _ rfl rfl (by intro k' hk; simp at hk)
    | loaded k b => simpa [hpc] using h
    | cleanup k => simp only [hpc]; exact keep _ _ rfl rfl (by intro k' hk; simp at hk)
    | failed => simpa [hpc] using h
    | dead => simpa [hpc] using h
  | fail =>
    cases hpc : w.pcs t with
    | idle => simpa [hpc] using h
    | start ty rel =>
      cases rel with
      | none => simp only [hpc]; exact keep w _ rfl rfl (by intro k hk; simp at hk)
      | some r => simp only [hpc]; exact keep w _ rfl rfl (by intro k hk; simp at hk)
    | resolved k =>
      simp only [hpc]
      split
      · apply LogInv.snoc_other w _ (Ev.isfile t k (w.files (.cache k)).isSome) h (by simp [World.goto]) (by intro _ _ hh; cases hh)
        intro t' k' hk
        by_cases hne : t' = t
        · subst hne; simp [Pend, World.goto, upd] at hk
        · left; simpa [Pend, World.goto, upd, hne] using hk
      · rename_i hpres
        apply LogInv.snoc_other w _ (Ev.isfile t k (w.files (.cache k)).isSome) h (by simp [World.goto]) (by intro _ _ hh; cases hh)
        intro t' k' hk
        by_cases hne : t' = t
        · subst hne
          right
          simp only [Pend, World.goto, upd, if_true, PC.checked.injEq, reduceCtorEq, or_false] at hk
          subst hk
          simp at hpres
          simp [hpres]
        · left; simpa [Pend, World.goto, upd, hne] using hk
    | checked k =>
      simp only [hpc]
      exact keep _ _ rfl rfl (by intro k' hk; simp at hk; subst hk; exact Or.inl hpc)
    | dirMade k =>
      simp only [hpc]
      split
      · exact keep _ _ rfl rfl (by intro k' hk; simp at hk; subst hk; exact Or.inr (Or.inl hpc))
      · exact keep w _ rfl rfl (by intro k' hk; simp at hk)
    | tmpMade k =>
      simp only [hpc]
      have hpend : Pend w t k := Or.inr (Or.inr hpc)
      apply LogInv.snoc_fetch w _ t k h (by simp [World.goto]) hpend
      intro t' k' hk
      by_cases hne : t' = t
      · subst hne; simp [Pend, World.goto, upd] at hk
      · simpa [Pend, World.goto, upd, hne] using hk
    | fetched k b => simp only [hpc]; exact keep w _ rfl rfl (by intro k' hk; simp at hk)
    | haveBytes k b => simp only [hpc]; exact keep _ _ rfl rfl (by intro k' hk; simp at hk)
    | written k =>
      simp only [hpc]
      split
      · apply LogInv.snoc_other w _ (Ev.stored t k) h (by simp [World.goto]) (by intro _ _ hh; cases hh)
        intro t' k' hk
        by_cases hne : t' = t
        · subst hne; simp [Pend, World.goto, upd] at hk
        · left; simpa [Pend, World.goto, upd, hne] using hk
      · exact keep w _ rfl rfl (by intro k' hk; simp at hk)
    | hit k =>
      simp only [hpc]
      split
      · exact keep w _ rfl rfl (by intro k' hk; simp at hk)
      · exact keep w _ rfl rfl (by intro k' hk; simp at hk)
    | loaded k b => simpa [hpc] using h
    | cleanup k => simp only [hpc]; exact keep _ _ rfl rfl (by intro k' hk; simp at hk)
    | failed => simpa [hpc] using h
    | dead => simpa [hpc] using h
  | failAfter n =>
    cases hpc : w.pcs t with
    | idle => simpa [hpc] using h
    | start ty rel =>
      cases rel with
      | none => simp only [hpc]; exact keep w _ rfl rfl (by intro k hk; simp at hk)
      | some r => simp only [hpc]; exact keep w _ rfl rfl (by intro k hk; simp at hk)
    | resolved k =>
      simp only [hpc]
      split
      · apply LogInv.snoc_other w _ (Ev.isfile t k (w.files (.cache k)).isSome) h (by simp [World.goto]) (by intro _ _ hh; cases hh)
        intro t' k' hk
        by_cases hne : t' = t
        · subst hne; simp [Pend, World.goto, upd] at hk
        · left; simpa [Pend, World.goto, upd, hne] using hk
      · rename_i hpres
        apply LogInv.snoc_other w _ (Ev.isfile t k (w.files (.cache k)).isSome) h (by simp [World.goto]) (by intro _ _ hh; cases hh)
        intro t' k' hk
        by_cases hne : t' = t
        · subst hne
          right
          simp only [Pend, World.goto, upd, if_true, PC.checked.injEq, reduceCtorEq, or_false] at hk
          subst hk
          simp at hpres
          simp [hpres]
        · left; simpa [Pend, World.goto, upd, hne] using hk
    | checked k =>
      simp only [hpc]
      exact keep _ _ rfl rfl (by intro k' hk; simp at hk; subst hk; exact Or.inl hpc)
    | dirMade k =>
      simp only [hpc]
      split
      · exact keep _ _ rfl rfl (by intro k' hk; simp at hk; subst hk; exact Or.inr (Or.inl hpc))
      · exact keep w _ rfl rfl (by intro k' hk; simp at hk)
    | tmpMade k =>
      simp only [hpc]
      have hpend : Pend w t k := Or.inr (Or.inr hpc)
      apply LogInv.snoc_fetch w _ t k h (by simp [World.goto]) hpend
      intro t' k' hk
      by_cases hne : t' = t
      · subst hne; simp [Pend, World.goto, upd] at hk
      · simpa [Pend, World.goto, upd, hne] using hk
    | fetched k b => simp only [hpc]; exact keep w _ rfl rfl (by intro k' hk; simp at hk)
    | haveBytes k b =>
      simp only [hpc]
      split
      · exact keep _ _ rfl rfl (by intro k' hk; simp at hk)
      · exact keep _ _ rfl rfl (by intro k' hk; simp at hk)
    | written k =>
      simp only [hpc]
      split
      · apply LogInv.snoc_other w _ (Ev.stored t k) h (by simp [World.goto]) (by intro _ _ hh; cases hh)
        intro t' k' hk
        by_cases hne : t' = t
        · subst hne; simp [Pend, World.goto, upd] at hk
        · left; simpa [Pend, World.goto, upd, hne] using hk
      · exact keep w _ rfl rfl (by intro k' hk; simp at hk)
    | hit k =>
      simp only [hpc]
      split
      · exact keep w _ rfl rfl (by intro k' hk; simp at hk)
      · exact keep w _ rfl rfl (by intro k' hk; simp at hk)
    | loaded k b => simpa [hpc] using h
    | cleanup k => simp only [hpc]; exact keep _ _ rfl rfl (by intro k' hk; simp at hk)
    | failed => simpa [hpc] using h
    | dead => simpa [hpc] using h

end Hpv.Store

namespace Hpv.Store

theorem logInv_step (w : World) (a : Action) (h : LogInv w) : LogInv (step w a) := by
  cases a with
  | loader t c => exact logInv_stepLoader w t c h
  | spawn t ty rel =>
    simp only [step]
    split
    all_goals (
      first
      | exact h
      | (refine LogInv.same_log w _ h rfl ?_
         intro t' k hk
         by_cases hne : t' = t
         · subst hne; simp [Pend, upd] at hk
         · simpa [Pend, upd, hne] using hk))
  | clearTy ty => exact LogInv.same_log w _ h rfl (fun t k hk => hk)
  | clearAll => exact LogInv.same_log w _ h rfl (fun t k hk => hk)
  | stray ty name b => exact LogInv.same_log w _ h rfl (fun t k hk => hk)

theorem logInv_run (w : World) (as : List Action) (h : LogInv w) : LogInv (run w as) := by
  induction as generalizing w with
  | nil => exact h
  | cons a as ih => exact ih (step w a) (logInv_step w a h)

theorem logInv_init (remote : Key → Option Bytes) (tags : Ty → List Nat) : LogInv (World.init remote tags) :=
  ⟨by intro i t k h; simp [World.init] at h, by intro t k h; simp [Pend, World.init] at h⟩

/-! ### recovery: an undisturbed load from any reachable store succeeds with the remote's content -/

theorem run_replicate_fixed (w : World) (a : Action) (n : Nat) (h : step w a = w) : run w (List.replicate n a) = w := by
  induction n with
  | zero => rfl
  | succ n ih => simp only [List.replicate_succ, run, List.foldl_cons, h]; exact ih

theorem healthy_hit (w : World) (t : Nat) (k : Key) (c : Bytes) (n : Nat)
    (hpc : w.pcs t = .hit k) (hfile : w.files (.cache k) = some c) :
    (run w (List.replicate (n + 1) (.loader t .ok))).pcs t = .loaded k c := by
  have h1 : step w (.loader t .ok) = w.goto t (.loaded k c) := by
    simp [step, stepLoader, hpc, hfile]
  have h2 : step (w.goto t (.loaded k c)) (.loader t .ok) = w.goto t (.loaded k c) := by
    simp [step, stepLoader, World.goto]
  simp only [List.replicate_succ, run, List.foldl_cons, h1]
  have := run_replicate_fixed (w.goto t (.loaded k c)) (.loader t .ok) n h2
  unfold run at this
  rw [this]
  simp [World.goto]

/-- **Recovery.** From ANY world satisfying the invariant (whatever earlier failures, kills, races and clears left
behind — stray temp files, missing or existing directories, a cached copy or none) a loader `t` that is not in flight
and runs undisturbed against a remote that serves `b` for the key ends in `loaded` with exactly `b`. -/
theorem recovery (w : World) (hinv : Inv w) (t : Nat) (ty : Ty) (r : Nat) (b : Bytes)
    (hidle : w.pcs t = .idle ∨ w.pcs t = .failed ∨ ∃ k c, w.pcs t = .loaded k c)
    (hrem : w.remote ⟨ty, r⟩ = some b) :
    (run w (healthyLoad t ty (some r))).pcs t = .loaded ⟨ty, r⟩ b := by
  unfold healthyLoad
  simp only [run, List.foldl_cons]
  -- after the spawn
  have hs : ∃ w1 : World, step w (.spawn t ty (some r)) = w1 ∧ w1.pcs t = .start ty (some r) ∧
      w1.files = w.files ∧ w1.remote = w.remote := by
    refine ⟨_, rfl, ?_, ?_, ?_⟩
    · rcases hidle with h | h | ⟨k, c, h⟩ <;> simp [step, h]
    · rcases hidle with h | h | ⟨k, c, h⟩ <;> simp [step, h]
    · rcases hidle with h | h | ⟨k, c, h⟩ <;> simp [step, h]
  obtain ⟨w1, e1, p1, f1, r1⟩ := hs
  rw [e1]
  -- step 1: resolve
  have e2 : step w1 (.loader t .ok) = w1.goto t (.resolved ⟨ty, r⟩) := by simp [step, stepLoader, p1]
  cases hc : w.files (.cache ⟨ty, r⟩) with
  | some c =>
    -- a complete copy is there (by the invariant it is the remote's content): hit
    have hcb : c = b := by
      have := hinv.cache ⟨ty, r⟩ c hc
      rw [hrem] at this; exact (Option.some.inj this).symm
    subst hcb
    have hfile1 : (w1.goto t (.resolved ⟨ty, r⟩)).files (.cache ⟨ty, r⟩) = some c := by simp [World.goto, f1, hc]
    have e3 : step (w1.goto t (.resolved ⟨ty, r⟩)) (.loader t .ok) =
        ({ (w1.goto t (.resolved ⟨ty, r⟩)) with log := (w1.goto t (.resolved ⟨ty, r⟩)).log ++ [Ev.isfile t ⟨ty, r⟩ true] }).goto t (.hit ⟨ty, r⟩) := by
      simp [step, stepLoader, World.goto, f1, hc]
    have : (List.replicate 10 (Action.loader t Choice.ok)) =
        Action.loader t .ok :: Action.loader t .ok :: List.replicate (7 + 1) (Action.loader t .ok) := rfl
    rw [this]
    simp only [List.foldl_cons, e2, e3]
    exact healthy_hit _ t ⟨ty, r⟩ c 7 (by simp [World.goto]) (by simp [World.goto, f1, hc])
  | none =>
    have : (List.replicate 10 (Action.loader t Choice.ok)) =
        Action.loader t .ok :: Action.loader t .ok :: Action.loader t .ok :: Action.loader t .ok :: Action.loader t .ok ::
        Action.loader t .ok :: Action.loader t .ok :: Action.loader t .ok :: List.replicate (1 + 1) (Action.loader t .ok) := rfl
    rw [this]
    simp only [List.foldl_cons, e2]
    -- resolved -> checked -> dirMade -> tmpMade -> fetched -> haveBytes -> written -> hit
    have hk : (⟨ty, r⟩ : Key).ty = ty := rfl
    refine healthy_hit _ t ⟨ty, r⟩ b 1 ?_ ?_
    · simp [step, stepLoader, World.goto, upd, f1, r1, hc, hrem]
    · simp [step, stepLoader, World.goto, upd, f1, r1, hc, hrem]

/-! ### clearing -/

/-- clearing one ontology type removes exactly the paths under that type (cached files, stray temp files, anything
else) and nothing else; it is a no-op — not an error — when nothing was cached; clearing everything empties the store -/
theorem clear_spec (w : World) (ty : Ty) (p : Path) :
    (step w (.clearTy ty)).files p = (if p.under ty then none else w.files p) ∧
    (step w .clearAll).files p = none ∧
    ((∀ q, q.under ty = true → w.files q = none) → (step w (.clearTy ty)).files = w.files) := by
  refine ⟨rfl, rfl, ?_⟩
  intro h
  funext q
  simp only [step]
  split
  · rename_i hq; exact (h q hq).symm
  · rfl

end Hpv.Store
