import Hpv.Store

namespace Hpv.Store

def LocalOk (w : World) (t : Nat) : PC → Prop
  | .fetched k b => w.remote k = some b
  | .haveBytes k b => w.remote k = some b
  | .tmpOpen k b => w.remote k = some b
  | .tmpClosed k => ∀ c, w.files (.tmp k.ty t) = some c → w.remote k = some c
  | .loaded k c => w.remote k = some c
  | _ => True

structure Inv (w : World) : Prop where
  cache : ∀ k c, w.files (.cache k) = some c → w.remote k = some c
  loc : ∀ t, LocalOk w t (w.pcs t)

@[simp] theorem upd_same {α β} [DecidableEq α] (f : α → β) (a : α) (b : β) : upd f a b a = b := by
  simp [upd]

theorem upd_other {α β} [DecidableEq α] (f : α → β) (a x : α) (b : β) (h : x ≠ a) : upd f a b x = f x := by
  simp [upd, h]

/-- Frame: a world that differs from `w` only in `pcs t`, in `dirs`, in `log`, and in thread `t`'s own temp files. -/
theorem inv_frame (w w' : World) (t : Nat) (hinv : Inv w)
    (hrem : w'.remote = w.remote)
    (hcache : ∀ k c, w'.files (.cache k) = some c → w'.remote k = some c)
    (hpcs : ∀ t', t' ≠ t → w'.pcs t' = w.pcs t')
    (htmp : ∀ ty t', t' ≠ t → w'.files (.tmp ty t') = w.files (.tmp ty t'))
    (hloc : LocalOk w' t (w'.pcs t)) : Inv w' := by
  refine ⟨hcache, ?_⟩
  intro t'
  by_cases h : t' = t
  · subst h; exact hloc
  · rw [hpcs t' h]
    have := hinv.loc t'
    cases hpc : w.pcs t' <;> simp only [hpc, LocalOk, hrem] at this ⊢ <;> try exact this
    rw [htmp _ _ h]; exact this

theorem inv_stepLoader (w : World) (t : Nat) (c : Choice) (hinv : Inv w) : Inv (stepLoader w t c) := by
  have hl := hinv.loc t
  have hc := hinv.cache
  unfold stepLoader
  simp only []
  split
  · -- die
    refine inv_frame w _ t hinv rfl hinv.cache ?_ ?_ ?_
    · intro t' h; simp [World.goto, upd_other _ _ _ _ h]
    · intro ty t' h; rfl
    · simp [World.goto, LocalOk]
  · split
    all_goals (try (split))
    all_goals (try (split))
    all_goals (
      first
      | exact hinv
      | (refine inv_frame w _ t hinv rfl ?_ ?_ ?_ ?_
         · first
           | exact hinv.cache
           | (intro k' c' h'
              simp only [World.goto, upd] at h'
              split at h' <;> simp_all [LocalOk, World.goto]
              try (split at h' <;> simp_all [World.goto]))
         · intro t' h; simp [World.goto, upd_other _ _ _ _ h]
         · intro ty t' h
           simp [World.goto, upd, h]
         · simp_all [World.goto, LocalOk, upd]))

theorem inv_step (w : World) (a : Action) (hinv : Inv w) : Inv (step w a) := by
  cases a with
  | loader t c => exact inv_stepLoader w t c hinv
  | spawn t ty rel =>
    simp only [step]
    split
    all_goals (
      first
      | exact hinv
      | (refine inv_frame w _ t hinv rfl hinv.cache ?_ ?_ ?_
         · intro t' h; simp [upd_other _ _ _ _ h]
         · intro ty t' h; rfl
         · simp [LocalOk]))
  | clearTy ty =>
    refine ⟨?_, ?_⟩
    · intro k c h
      simp only [step] at h
      split at h
      · simp at h
      · exact hinv.cache k c h
    · intro t
      have := hinv.loc t
      simp only [step]
      cases hpc : w.pcs t <;> simp only [hpc, LocalOk] at this ⊢ <;> try exact this
      intro c h
      split at h
      · simp at h
      · exact this c h
  | clearAll =>
    refine ⟨by intro k c h; simp [step] at h, ?_⟩
    intro t
    have := hinv.loc t
    simp only [step]
    cases hpc : w.pcs t <;> simp only [hpc, LocalOk] at this ⊢ <;> try exact this
    intro c h; simp at h

/-- No incomplete file is ever observable at a cache location, for every interleaving,
fault sequence and crash point. -/
theorem inv_run (w : World) (as : List Action) (hinv : Inv w) : Inv (run w as) := by
  induction as generalizing w with
  | nil => exact hinv
  | cons a as ih => exact ih (step w a) (inv_step w a hinv)

end Hpv.Store
