/-
`IncrementalCsrGraphFactory` establishes `Represents`: per-node adjacency collection (`_partition_edges` with its cache),
`_preprocess_edges`, the per-row `sorted(...)` by label, the label→index lookups and the CSR assembly produce an adjacency
matrix that represents the rooted edge list.
-/
import Hpv.GraphModelProofs
import Hpv.MatrixProofs

namespace Hpv.GM
open Hpv.Graph Hpv.Csr Hpv.Indexed

variable {κ : Type} [DecidableEq κ]

/-- a general route to `Represents`: a well-formed row list whose dense reading is the signed adjacency matrix -/
theorem represents_of_rows (o : Graph.Ord κ) (root : κ) (nodes : List κ) (E' : List (Edge κ)) (rows : List Row)
    (hlen : rows.length = nodes.length) (hwf : RowsWF rows nodes.length) (hnz : NZ rows)
    (hsorted : Sorted o nodes) (hmem : ∀ e ∈ E', e.1 ∈ nodes ∧ e.2 ∈ nodes)
    (hcell : ∀ i j x y, nodes[i]? = some x → nodes[j]? = some y →
      (dense rows i j = 1 ↔ (x, y) ∈ E') ∧ (dense rows i j = -1 ↔ (y, x) ∈ E')) :
    Represents o ⟨root, nodes, (ofRows rows).toMatrix nodes.length nodes.length⟩ E' := by
  let n := nodes.length
  let g : MGraph κ := ⟨root, nodes, (ofRows rows).toMatrix nodes.length nodes.length⟩
  have hm : g.m = ofRowsM rows n := by
    show (ofRows rows).toMatrix nodes.length nodes.length = ofRowsM rows n
    unfold ofRowsM; rw [hlen]
  have hcols : ∀ (rel : Int) (i : Nat), i < n →
      (g.cols rel i).Pairwise (· < ·) ∧ ∀ c, c ∈ g.cols rel i ↔ c < n ∧ dense rows i c = rel := by
    intro rel i hi
    obtain ⟨cs, h1, h2', h3⟩ := colIndicesOfVal_spec rows n i rel hwf hnz (by omega)
    have : g.cols rel i = cs := by
      unfold MGraph.cols
      rw [hm, h1]
    rw [this]
    exact ⟨h2', h3⟩
  have hcols_out : ∀ (rel : Int) (i : Nat), ¬ i < n → g.cols rel i = [] := by
    intro rel i hi
    unfold MGraph.cols
    rw [hm]
    have : (ofRowsM rows n).colIndicesOfVal (i : Int) rel = .error .indexError := by
      unfold Matrix.colIndicesOfVal
      have hn : (ofRowsM rows n).nrows = rows.length := rfl
      have hi' : ¬ i < nodes.length := hi
      rw [hn, hlen, inRange_cast]
      simp [hi']
    rw [this]
  have hlt : ∀ i x, nodes[i]? = some x → i < n := by
    intro i x hi
    rcases Nat.lt_or_ge i n with h | h
    · exact h
    · rw [List.getElem?_eq_none h] at hi; cases hi
  refine ⟨hsorted, hmem, ?_, ?_, ?_, ?_⟩
  · intro i j x hi
    show j ∈ g.cols 1 i ↔ _
    rw [(hcols 1 i (hlt i x hi)).2 j]
    constructor
    · rintro ⟨hj, hv⟩
      have hget : nodes[j]? = some nodes[j] := List.getElem?_eq_getElem hj
      exact ⟨_, hget, ((hcell i j x _ hi hget).1).mp hv⟩
    · rintro ⟨y, hj, hxy⟩
      exact ⟨hlt j y hj, ((hcell i j x y hi hj).1).mpr hxy⟩
  · intro i j x hi
    show j ∈ g.cols (-1) i ↔ _
    rw [(hcols (-1) i (hlt i x hi)).2 j]
    constructor
    · rintro ⟨hj, hv⟩
      have hget : nodes[j]? = some nodes[j] := List.getElem?_eq_getElem hj
      exact ⟨_, hget, ((hcell i j x _ hi hget).2).mp hv⟩
    · rintro ⟨y, hj, hxy⟩
      exact ⟨hlt j y hj, ((hcell i j x y hi hj).2).mpr hxy⟩
  · intro r i j hj
    by_cases hi : i < n
    · exact (((hcols r i hi).2 j).mp hj).1
    · have : g.cols r i = [] := hcols_out r i hi
      rw [this] at hj; cases hj
  · intro r i
    by_cases hi : i < n
    · exact List.Pairwise.imp (fun h => Nat.ne_of_lt h) (hcols r i hi).1
    · have : g.cols r i = [] := hcols_out r i hi
      rw [this]; exact List.nodup_nil

/-! ### the pieces of `make_row_col_data` -/

/-- the edge has `node` as an endpoint -/
def touches (node : κ) (e : Edge κ) : Bool := decide (e.1 = node) || decide (e.2 = node)

/-- `_preprocess_edges` on one edge adjacent to `node`: the other endpoint and the relationship code -/
def entry (node : κ) (e : Edge κ) : κ × Int := if node = e.2 then (e.1, -1) else (e.2, 1)

theorem adj_spec (o : Graph.Ord κ) (hs : o.Strict) (E' : List (Edge κ)) (hloop : ∀ e ∈ E', e.1 ≠ e.2)
    (i : Nat) (node : κ) (hi : (nodesOf o E')[i]? = some node) :
    findAdjacent o (nodesOf o E') E' (some i) = E'.filter (touches node) := by
  have hsorted : Sorted o (nodesOf o E') := sorted_sortDedup o hs (endpoints E')
  have hidx : ∀ x, some i = indexOf? o (nodesOf o E') x ↔ x = node := by
    intro x
    rw [eq_comm, indexOf?_spec o hs _ hsorted x i, hi]
    simp only [Option.some.injEq]
    exact eq_comm
  rw [findAdjacent_spec]
  have key : ∀ (L : List (Edge κ)), (∀ e ∈ L, e.1 ≠ e.2) →
      L.flatMap (contrib o (nodesOf o E') (some i)) = L.filter (touches node) := by
    intro L hl
    induction L with
    | nil => rfl
    | cons e es ih =>
      have hne : e.1 ≠ e.2 := hl e List.mem_cons_self
      have ih' := ih (fun x hx => hl x (List.mem_cons_of_mem _ hx))
      rw [List.flatMap_cons, ih', List.filter_cons]
      have c1 : (some i = indexOf? o (nodesOf o E') e.1) = (e.1 = node) := propext (hidx e.1)
      have c2 : (some i = indexOf? o (nodesOf o E') e.2) = (e.2 = node) := propext (hidx e.2)
      simp only [contrib, touches, c1, c2]
      by_cases h1 : e.1 = node
      · have h2 : ¬ e.2 = node := fun h => hne (h1.trans h.symm)
        simp [h1, h2]
      · by_cases h2 : e.2 = node
        · simp [h1, h2]
        · simp [h1, h2]
  exact key E' hloop

theorem preprocess_spec (node : κ) (L : List (Edge κ)) (h : ∀ e ∈ L, touches node e = true ∧ e.1 ≠ e.2) :
    preprocess node L = .ok (L.map (entry node)) := by
  induction L with
  | nil => rfl
  | cons e rest ih =>
    obtain ⟨sub, obj⟩ := e
    have ⟨ht, hne⟩ := h (sub, obj) List.mem_cons_self
    have ih' := ih (fun x hx => h x (List.mem_cons_of_mem _ hx))
    simp only [touches, Bool.or_eq_true, decide_eq_true_eq] at ht
    simp only at hne
    unfold preprocess
    rw [ih']
    by_cases h2 : node = obj
    · subst h2
      have h1 : node ≠ sub := fun hh => hne hh.symm
      simp [h1, entry, Except.map]
    · have h1 : node = sub := by
        rcases ht with hh | hh
        · exact hh.symm
        · exact absurd hh.symm h2
      subst h1
      simp [entry, Except.map, h2]

/-! ### the per-row stable sort by label -/

theorem mem_insByKey (o : Graph.Ord κ) (x z : κ × Int) (l : List (κ × Int)) : z ∈ insByKey o x l ↔ z = x ∨ z ∈ l := by
  induction l with
  | nil => simp [insByKey]
  | cons y ys ih =>
    unfold insByKey
    by_cases h : o.lt y.1 x.1 = true
    · simp only [h, if_true, List.mem_cons, ih]
      constructor
      · rintro (h1 | h1 | h1)
        · exact Or.inr (Or.inl h1)
        · exact Or.inl h1
        · exact Or.inr (Or.inr h1)
      · rintro (h1 | h1 | h1)
        · exact Or.inr (Or.inl h1)
        · exact Or.inl h1
        · exact Or.inr (Or.inr h1)
    · simp only [h, List.mem_cons]; simp

theorem mem_sortByKey (o : Graph.Ord κ) (z : κ × Int) (l : List (κ × Int)) : z ∈ sortByKey o l ↔ z ∈ l := by
  induction l with
  | nil => simp [sortByKey]
  | cons x xs ih =>
    have : sortByKey o (x :: xs) = insByKey o x (sortByKey o xs) := rfl
    rw [this, mem_insByKey, ih, List.mem_cons]

/-- strictly sorted by label -/
def KeySorted (o : Graph.Ord κ) (l : List (κ × Int)) : Prop := l.Pairwise (fun a b => o.lt a.1 b.1 = true)

theorem keySorted_insByKey (o : Graph.Ord κ) (hs : o.Strict) (x : κ × Int) (l : List (κ × Int))
    (hl : KeySorted o l) (hx : ∀ y ∈ l, y.1 ≠ x.1) : KeySorted o (insByKey o x l) := by
  induction l with
  | nil => simp [insByKey, KeySorted]
  | cons y ys ih =>
    have hy : ∀ z ∈ ys, o.lt y.1 z.1 = true := (List.pairwise_cons.mp hl).1
    have hys : KeySorted o ys := (List.pairwise_cons.mp hl).2
    unfold insByKey
    by_cases h : o.lt y.1 x.1 = true
    · simp only [h, if_true]
      refine List.pairwise_cons.mpr ⟨?_, ih hys (fun z hz => hx z (List.mem_cons_of_mem _ hz))⟩
      intro z hz
      rcases (mem_insByKey o x z ys).mp hz with rfl | hz
      · exact h
      · exact hy z hz
    · simp only [h]
      have hne := hx y List.mem_cons_self
      have hxy : o.lt x.1 y.1 = true := by
        rcases hs.total x.1 y.1 with h1 | h1 | h1
        · exact h1
        · exact absurd h1.symm hne
        · exact absurd h1 h
      refine List.pairwise_cons.mpr ⟨?_, hl⟩
      intro z hz
      rcases List.mem_cons.mp hz with rfl | hz
      · exact hxy
      · exact hs.trans _ _ _ hxy (hy z hz)

theorem keySorted_sortByKey (o : Graph.Ord κ) (hs : o.Strict) (l : List (κ × Int)) (hnd : (l.map Prod.fst).Nodup) :
    KeySorted o (sortByKey o l) := by
  induction l with
  | nil => simp [sortByKey, KeySorted]
  | cons x xs ih =>
    have : sortByKey o (x :: xs) = insByKey o x (sortByKey o xs) := rfl
    rw [this]
    rw [List.map_cons, List.nodup_cons] at hnd
    apply keySorted_insByKey o hs x _ (ih hnd.2)
    intro y hy heq
    have := (mem_sortByKey o y xs).mp hy
    exact hnd.1 (heq ▸ List.mem_map_of_mem this)

/-- label order is index order -/
theorem idx!_mono (o : Graph.Ord κ) (hs : o.Strict) (E' : List (Edge κ)) (x y : κ)
    (hx : x ∈ nodesOf o E') (hy : y ∈ nodesOf o E') (hlt : o.lt x y = true) :
    idx! o (nodesOf o E') x < idx! o (nodesOf o E') y := by
  have hsorted : Sorted o (nodesOf o E') := sorted_sortDedup o hs (endpoints E')
  have hxi := (indexOf?_idx! o hs E' x hx).2
  have hyi := (indexOf?_idx! o hs E' y hy).2
  rcases Nat.lt_trichotomy (idx! o (nodesOf o E') x) (idx! o (nodesOf o E') y) with h | h | h
  · exact h
  · rw [h, hyi] at hxi
    have : y = x := Option.some.inj hxi
    subst this
    rw [hs.irrefl] at hlt; cases hlt
  · -- y sits before x in a strictly sorted list, so y < x, contradiction
    have hyl : idx! o (nodesOf o E') y < (nodesOf o E').length := by
      rcases Nat.lt_or_ge (idx! o (nodesOf o E') y) (nodesOf o E').length with h' | h'
      · exact h'
      · rw [List.getElem?_eq_none h'] at hyi; cases hyi
    have hxl : idx! o (nodesOf o E') x < (nodesOf o E').length := by
      rcases Nat.lt_or_ge (idx! o (nodesOf o E') x) (nodesOf o E').length with h' | h'
      · exact h'
      · rw [List.getElem?_eq_none h'] at hxi; cases hxi
    have hp := (List.pairwise_iff_getElem.mp hsorted) _ _ hyl hxl h
    rw [List.getElem?_eq_getElem hyl] at hyi
    rw [List.getElem?_eq_getElem hxl] at hxi
    rw [Option.some.inj hyi, Option.some.inj hxi] at hp
    have := hs.trans _ _ _ hlt hp
    rw [hs.irrefl] at this; cases this

/-! ### one row -/

/-- the row the factory assembles for `node` -/
def rowOf (o : Graph.Ord κ) (nodes : List κ) (E' : List (Edge κ)) (node : κ) : Row :=
  (sortByKey o ((E'.filter (touches node)).map (entry node))).map (fun p => (idx! o nodes p.1, p.2))

theorem incRows_spec (o : Graph.Ord κ) (hs : o.Strict) (E' : List (Edge κ)) (hloop : ∀ e ∈ E', e.1 ≠ e.2)
    (k : Nat) (l : List κ) (hl : ∀ j src, l[j]? = some src → (nodesOf o E')[k + j]? = some src) :
    incRows o (nodesOf o E') (findAdjacent o (nodesOf o E') E') k l = .ok (l.map (rowOf o (nodesOf o E') E')) := by
  induction l generalizing k with
  | nil => rfl
  | cons node rest ih =>
    have h0 : (nodesOf o E')[k]? = some node := by simpa using hl 0 node (by simp)
    have hrest := ih (k + 1) (by
      intro j s hj
      have := hl (j + 1) s (by simpa using hj)
      rw [show k + 1 + j = k + (j + 1) by omega]; exact this)
    have hadj := adj_spec o hs E' hloop k node h0
    have hpre : preprocess node (E'.filter (touches node)) = .ok ((E'.filter (touches node)).map (entry node)) := by
      apply preprocess_spec
      intro e he
      exact ⟨(List.mem_filter.mp he).2, hloop e (List.mem_filter.mp he).1⟩
    -- every label in the row is a node
    have hin : ∀ p ∈ sortByKey o ((E'.filter (touches node)).map (entry node)), p.1 ∈ nodesOf o E' := by
      intro p hp
      obtain ⟨e, he, rfl⟩ := List.mem_map.mp ((mem_sortByKey o p _).mp hp)
      have hm := mem_nodesOf o E' e (List.mem_filter.mp he).1
      unfold entry; split
      · exact hm.1
      · exact hm.2
    have hall : allSome (((sortByKey o ((E'.filter (touches node)).map (entry node))).map
        (fun p => (indexOf? o (nodesOf o E') p.1, p.2))).map (·.1)) =
        some ((sortByKey o ((E'.filter (touches node)).map (entry node))).map (fun p => idx! o (nodesOf o E') p.1)) := by
      rw [List.map_map]
      apply allSome_map
      intro p hp
      exact (indexOf?_idx! o hs E' p.1 (hin p hp)).1
    unfold incRows
    rw [hadj, hpre]
    simp only [hall, hrest, List.map_cons]
    congr 2
    unfold rowOf
    rw [List.map_map, List.zip_map']
    rfl

theorem firstOf_eq_iff (row : Row) (hnd : (row.map Prod.fst).Nodup) (c : Nat) (q : Int) (hq : q ≠ 0) :
    firstOf row c = q ↔ (c, q) ∈ row := by
  constructor
  · intro h
    rcases firstOf_mem_or_zero row c with ⟨p, hp, hpc, hv⟩ | ⟨_, hz⟩
    · have : p = (c, q) := by rw [Prod.ext_iff]; exact ⟨hpc, by rw [← hv, h]⟩
      rw [← this]; exact hp
    · rw [hz] at h; exact absurd h.symm hq
  · intro h
    exact firstOf_eq_of_mem row hnd (c, q) h

section
variable {o : Graph.Ord κ} {E' : List (Edge κ)}

/-- the labels of one row are pairwise distinct: the edge list has no duplicates and no two-cycles -/
theorem row_keys_nodup (hnd : E'.Nodup) (h2 : ∀ a b, (a, b) ∈ E' → (b, a) ∉ E') (x : κ) :
    (((E'.filter (touches x)).map (entry x)).map Prod.fst).Nodup := by
  rw [List.map_map]
  apply nodup_map_on _ _ _ (hnd.filter _)
  intro a ha b hb hab
  obtain ⟨haE, hat⟩ := List.mem_filter.mp ha
  obtain ⟨hbE, hbt⟩ := List.mem_filter.mp hb
  simp only [touches, Bool.or_eq_true, decide_eq_true_eq] at hat hbt
  simp only [Function.comp, entry] at hab
  obtain ⟨a1, a2⟩ := a
  obtain ⟨b1, b2⟩ := b
  simp only at hat hbt hab haE hbE
  by_cases ha2 : x = a2
  · subst ha2
    by_cases hb2 : x = b2
    · subst hb2
      have : a1 = b1 := by simpa using hab
      rw [this]
    · have hb1 : b1 = x := by
        rcases hbt with h | h
        · exact h
        · exact absurd h.symm hb2
      subst hb1
      have : a1 = b2 := by simpa [hb2] using hab
      subst this
      exact absurd hbE (h2 _ _ haE)
  · have ha1 : a1 = x := by
      rcases hat with h | h
      · exact h
      · exact absurd h.symm ha2
    subst ha1
    by_cases hb2 : a1 = b2
    · subst hb2
      have : a2 = b1 := by simpa [ha2] using hab
      subst this
      exact absurd haE (h2 _ _ hbE)
    · have hb1 : b1 = a1 := by
        rcases hbt with h | h
        · exact h
        · exact absurd h.symm hb2
      subst hb1
      have : a2 = b2 := by simpa [ha2, hb2] using hab
      rw [this]

theorem mem_rowOf (x : κ) (j : Nat) (v : Int) :
    (j, v) ∈ rowOf o (nodesOf o E') E' x ↔
      ∃ e ∈ E', touches x e = true ∧ idx! o (nodesOf o E') (entry x e).1 = j ∧ (entry x e).2 = v := by
  unfold rowOf
  simp only [List.mem_map, mem_sortByKey, List.mem_filter, Prod.mk.injEq]
  constructor
  · rintro ⟨p, ⟨e, ⟨he, ht⟩, rfl⟩, h1, h2⟩
    exact ⟨e, he, ht, h1, h2⟩
  · rintro ⟨e, he, ht, h1, h2⟩
    exact ⟨entry x e, ⟨e, ⟨he, ht⟩, rfl⟩, h1, h2⟩

theorem rowOf_sorted (hs : o.Strict) (hnd : E'.Nodup) (h2 : ∀ a b, (a, b) ∈ E' → (b, a) ∉ E') (x : κ) :
    SortedRow (rowOf o (nodesOf o E') E' x) := by
  unfold SortedRow rowOf
  rw [List.map_map, List.pairwise_map]
  have hks := keySorted_sortByKey o hs _ (row_keys_nodup hnd h2 x)
  refine List.Pairwise.imp_of_mem ?_ hks
  intro a b ha hb hab
  have hin : ∀ p ∈ sortByKey o ((E'.filter (touches x)).map (entry x)), p.1 ∈ nodesOf o E' := by
    intro p hp
    obtain ⟨e, he, rfl⟩ := List.mem_map.mp ((mem_sortByKey o p _).mp hp)
    have hm := mem_nodesOf o E' e (List.mem_filter.mp he).1
    unfold entry; split
    · exact hm.1
    · exact hm.2
  exact idx!_mono o hs E' a.1 b.1 (hin a ha) (hin b hb) hab

variable {owl : κ} {E : List (Edge κ)} {root : κ}

/-- **The incremental factory establishes `Represents`** for every rooted edge list without self-loops and without
two-cycles (both follow from acyclicity). -/
theorem incremental_represents (hs : o.Strict) (hroot : findRoot owl (dedup E) = .ok (root, E'))
    (hloop : ∀ e ∈ E', e.1 ≠ e.2) (h2 : ∀ a b, (a, b) ∈ E' → (b, a) ∉ E') :
    ∃ g, buildIncremental o owl E = .ok g ∧ g.root = root ∧ g.nodes = nodesOf o E' ∧ Represents o g E' := by
  have hnd : E'.Nodup := rooted_nodup owl E root E' hroot
  have hsorted : Sorted o (nodesOf o E') := sorted_sortDedup o hs _
  let nodes := nodesOf o E'
  let rows := nodes.map (rowOf o nodes E')
  have hrows : incRows o (nodesOf o E') (findAdjacent o (nodesOf o E') E') 0 (nodesOf o E') =
      .ok ((nodesOf o E').map (rowOf o (nodesOf o E') E')) :=
    incRows_spec o hs E' hloop 0 (nodesOf o E') (by intro j src h; simpa using h)
  have hg : buildIncremental o owl E = .ok ⟨root, nodes, (ofRows rows).toMatrix nodes.length nodes.length⟩ := by
    simp only [buildIncremental, hroot, hrows]; rfl
  have hlen : rows.length = nodes.length := by simp [rows]
  have hidx : ∀ z, z ∈ nodes → idx! o nodes z < nodes.length ∧ nodes[idx! o nodes z]? = some z := by
    intro z hz
    have := (indexOf?_idx! o hs E' z hz).2
    refine ⟨?_, this⟩
    rcases Nat.lt_or_ge (idx! o nodes z) nodes.length with h | h
    · exact h
    · rw [List.getElem?_eq_none h] at this; cases this
  have hentry_in : ∀ x e, e ∈ E' → (entry x e).1 ∈ nodes := by
    intro x e he
    have hm := mem_nodesOf o E' e he
    unfold entry; split
    · exact hm.1
    · exact hm.2
  have hwf : RowsWF rows nodes.length := by
    constructor
    · intro row hrow
      obtain ⟨x, _, rfl⟩ := List.mem_map.mp hrow
      exact rowOf_sorted hs hnd h2 x
    · intro row hrow p hp
      obtain ⟨x, _, rfl⟩ := List.mem_map.mp hrow
      obtain ⟨e, he, _, h1, _⟩ := (mem_rowOf x p.1 p.2).mp hp
      rw [← h1]; exact (hidx _ (hentry_in x e he)).1
  have hnz : NZ rows := by
    intro row hrow p hp
    obtain ⟨x, _, rfl⟩ := List.mem_map.mp hrow
    obtain ⟨e, _, _, _, h3⟩ := (mem_rowOf x p.1 p.2).mp hp
    rw [← h3]; unfold entry; split <;> simp
  have hcell : ∀ i j x y, nodes[i]? = some x → nodes[j]? = some y →
      (dense rows i j = 1 ↔ (x, y) ∈ E') ∧ (dense rows i j = -1 ↔ (y, x) ∈ E') := by
    intro i j x y hi hj
    have hrow : rows.getD i [] = rowOf o nodes E' x := by
      rw [List.getD_eq_getElem?_getD]
      simp [rows, hi]
    have hknd := (rowOf_sorted hs hnd h2 x).nodup
    have hyj : ∀ z, z ∈ nodes → (idx! o nodes z = j ↔ z = y) := by
      intro z hz
      constructor
      · intro h; have := (hidx z hz).2; rw [h, hj] at this; exact (Option.some.inj this).symm
      · intro h; subst h
        have h1 : indexOf? o nodes z = some j := (indexOf?_spec o hs _ hsorted z j).mpr hj
        simp [idx!, h1]
    unfold dense
    rw [hrow, firstOf_eq_iff _ hknd j 1 (by decide), firstOf_eq_iff _ hknd j (-1) (by decide), mem_rowOf, mem_rowOf]
    constructor
    · constructor
      · rintro ⟨e, he, ht, h1, h3⟩
        obtain ⟨e1, e2⟩ := e
        simp only [touches, Bool.or_eq_true, decide_eq_true_eq] at ht
        unfold entry at h1 h3
        by_cases hx : x = e2
        · simp only [hx, if_true] at h3; exact absurd h3 (by decide)
        · simp only [hx, if_false] at h1
          have h11 : e1 = x := by
            rcases ht with h | h
            · exact h
            · exact absurd h.symm hx
          have := (hyj e2 (mem_nodesOf o E' _ he).2).mp h1
          rw [← h11, ← this]; exact he
      · intro hxy
        have hne : x ≠ y := hloop _ hxy
        refine ⟨(x, y), hxy, by simp [touches], ?_, ?_⟩
        · simp only [entry, hne, if_false]
          exact (hyj y (mem_nodesOf o E' _ hxy).2).mpr rfl
        · simp only [entry, hne, if_false]
    · constructor
      · rintro ⟨e, he, ht, h1, h3⟩
        obtain ⟨e1, e2⟩ := e
        unfold entry at h1 h3
        by_cases hx : x = e2
        · simp only [hx, if_true] at h1
          have := (hyj e1 (mem_nodesOf o E' _ he).1).mp h1
          rw [hx, ← this]; exact he
        · simp only [hx, if_false] at h3; exact absurd h3 (by decide)
      · intro hyx
        refine ⟨(y, x), hyx, by simp [touches], ?_, ?_⟩
        · simp only [entry, if_true]
          exact (hyj y (mem_nodesOf o E' _ hyx).1).mpr rfl
        · simp only [entry, if_true]
  exact ⟨_, hg, rfl, rfl, represents_of_rows o root nodes E' rows hlen hwf hnz hsorted
    (fun e he => mem_nodesOf o E' e he) hcell⟩

end

end Hpv.GM
