/- Prototype: assembling the indexed graph and the label-level ancestor query. -/
import Hpv.Basic
import Hpv.Csr
import Hpv.Graph

namespace Hpv.Indexed
open Hpv.Graph Hpv.Csr

variable {κ : Type} [DecidableEq κ]

/-- rows of (children, parents) targets, one per node, in node order -/
def rowsFrom (o : Graph.Ord κ) (nodes : List κ) (adj : Adj κ) : Nat → List κ → List (List (Option Nat) × List (Option Nat))
  | _, [] => []
  | i, src :: rest => rowTargets o nodes adj i src :: rowsFrom o nodes adj (i + 1) rest

/-- `None` can never be stored (every endpoint is a node); if it were, numpy would build an object array. -/
def allSome : List (Option Nat) → Option (List Nat)
  | [] => some []
  | none :: _ => none
  | some x :: rest => (allSome rest).map (x :: ·)

def allRows : List (List (Option Nat)) → Option (List (List Nat))
  | [] => some []
  | r :: rest => match allSome r, allRows rest with
    | some r', some rest' => some (r' :: rest')
    | _, _ => none

structure IndexedGraph (κ : Type) where
  nodes : List κ
  children : Static
  parents : Static

/-- `CsrIndexedGraphFactory._build_csr_data` on an already rooted, de-duplicated edge list -/
def build (o : Graph.Ord κ) (E : List (Edge κ)) : Option (IndexedGraph κ) :=
  let nodes := nodesOf o E
  let rows := rowsFrom o nodes (findAdjacent o nodes E) 0 nodes
  match allRows (rows.map Prod.fst), allRows (rows.map Prod.snd) with
  | some ch, some pa => some ⟨nodes, Static.ofRows ch, Static.ofRows pa⟩
  | _, _ => none

/-- `get_ancestor_idx` -/
def ancestorsIdx (g : IndexedGraph κ) (i : Nat) : Option (List Nat) :=
  traverse popStack g.parents.row g.nodes.length i

/-- `get_ancestors(source, include_source)` for a `TermId` argument -/
def ancestors (o : Graph.Ord κ) (g : IndexedGraph κ) (v : κ) (incl : Bool) : Option (List κ) :=
  match indexOf? o g.nodes v with        -- node_to_idx (dict lookup; same answer as bisect on the sorted array)
  | none => none                          -- ValueError
  | some i =>
    match ancestorsIdx g i with
    | none => none
    | some idxs => some ((if incl then [v] else []) ++ idxs.filterMap (g.nodes[·]?))

end Hpv.Indexed
