/-
`ImmutableCsrMatrix` and the bound-checked `CsrMatrixBuilder.__setitem__`
(src/hpotk/graph/csr/_csr.py).  Values are `Int` (the harness maps float/bool dtypes onto exact ints);
the dtype's default is `0`.
-/
import Hpv.Csr

namespace Hpv

inductive Err | valueError | indexError | typeError | keyError | other
deriving DecidableEq, Repr

namespace Csr

structure Matrix where
  indptr : List Nat
  col : List Nat
  dat : List Int
  nrows : Nat
  ncols : Nat
deriving Repr

/-- `(self._col[start:end], self._data[start:end])` with `start, end = self._row[r : r + 2]` -/
def Matrix.slice (m : Matrix) (r : Nat) : List (Nat × Int) :=
  let s := m.indptr.getD r 0
  let e := m.indptr.getD (r + 1) 0
  ((m.col.drop s).take (e - s)).zip ((m.dat.drop s).take (e - s))

/-- first match in the row slice (the `for i, col_idx in enumerate(...)` loop of `__getitem__`) -/
def firstOf (row : List (Nat × Int)) (c : Nat) : Int := ((row.find? (fun p => p.1 = c)).map (·.2)).getD 0

/-- numpy fancy assignment `row[idxs] = vals`: the last value written to a position wins -/
def lastOf (row : List (Nat × Int)) (c : Nat) : Int := ((row.reverse.find? (fun p => p.1 = c)).map (·.2)).getD 0

def inRange (i : Int) (n : Nat) : Bool := 0 ≤ i ∧ i < n

/-- `m[r]` -/
def Matrix.getRow (m : Matrix) (r : Int) : Except Err (List Int) :=
  if inRange r m.nrows then
    let row := m.slice r.toNat
    if row.any (fun p => m.ncols ≤ p.1) then .error .indexError      -- numpy: index out of bounds
    else .ok ((List.range m.ncols).map (lastOf row))
  else if r < 0 then .error .valueError else .error .indexError

/-- `m[r, c]` -/
def Matrix.getCell (m : Matrix) (r c : Int) : Except Err Int :=
  if !inRange r m.nrows then .error .indexError
  else if !inRange c m.ncols then .error .indexError
  else .ok (firstOf (m.slice r.toNat) c.toNat)

/-- `m.col_indices_of_val(r, q)` -/
def Matrix.colIndicesOfVal (m : Matrix) (r : Int) (q : Int) : Except Err (List Nat) :=
  if !inRange r m.nrows then .error .indexError
  else
    let row := m.slice r.toNat
    if q = 0 then
      -- the default value is not stored: complement of the stored columns
      if row.any (fun p => m.ncols ≤ p.1) then .error .indexError
      else .ok ((List.range m.ncols).filter (fun c => !(row.map (·.1)).contains c))
    else .ok ((row.filter (fun p => p.2 = q)).map (·.1))

/-- bound-checked `builder[r, c] = v` -/
def setItemChecked (nrows ncols : Nat) (b : Builder) (r c : Int) (v : Int) : Except Err Builder :=
  if !inRange r nrows then .error .indexError
  else if !inRange c ncols then .error .indexError
  else .ok (setItem b r.toNat c.toNat v)

def Builder.empty (nrows : Nat) : Builder := ⟨List.replicate (nrows + 1) 0, [], []⟩

/-- `ImmutableCsrMatrix(builder.row, builder.col, builder.data, shape)` -/
def Builder.toMatrix (b : Builder) (nrows ncols : Nat) : Matrix := ⟨b.indptr, b.col, b.dat, nrows, ncols⟩

/-- one assignment of a history; an out-of-shape assignment raises and leaves the builder unchanged -/
def stepB (nrows ncols : Nat) (b : Builder) (op : Int × Int × Int) : Builder :=
  match setItemChecked nrows ncols b op.1 op.2.1 op.2.2 with
  | .ok b' => b'
  | .error _ => b

def runOps (nrows ncols : Nat) (ops : List (Int × Int × Int)) : Builder :=
  ops.foldl (stepB nrows ncols) (Builder.empty nrows)

/-! The dense specification: last write wins, unset cells are 0. -/
def validOp (nrows ncols : Nat) (op : Int × Int × Int) : Bool := inRange op.1 nrows && inRange op.2.1 ncols

def stepSpec (nrows ncols : Nat) (f : Nat → Nat → Int) (op : Int × Int × Int) : Nat → Nat → Int :=
  if validOp nrows ncols op then fun r c => if r = op.1.toNat ∧ c = op.2.1.toNat then op.2.2 else f r c else f

def specOps (nrows ncols : Nat) (ops : List (Int × Int × Int)) : Nat → Nat → Int :=
  ops.foldl (stepSpec nrows ncols) (fun _ _ => 0)

end Csr
end Hpv
