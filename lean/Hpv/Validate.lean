/-
Validators (src/hpotk/validate/_hpo.py, _model.py, _util.py).  Generic over the term key type.
`primary k` = `hpo.get_term(k).identifier` (C06: the current term owning `k` as primary or alternate id; `none` = unknown id),
`strictAnc k` = `hpo.graph.get_ancestors(k)` (C01: the strict ancestors, duplicate-free), `pa` = Phenotypic abnormality.
Messages are reduced to the term ids they name, in order.
-/
import Hpv.Matrix      -- for `Hpv.Err`

namespace Hpv.Validate

variable {κ : Type} [DecidableEq κ]

structure Feature (κ : Type) where
  id : κ
  present : Bool
deriving DecidableEq, Repr

structure Onto (κ : Type) where
  primary : κ → Option κ
  strictAnc : κ → List κ

inductive Level | warning | error
deriving DecidableEq, Repr

inductive Category | propagation | abnormality | obsolete
deriving DecidableEq, Repr

structure Result (κ : Type) where
  level : Level
  category : Category
  ids : List κ
deriving DecidableEq, Repr

/-- `_primary_term_id(_extract_stateful_feature(item))`: a fresh copy whose id is replaced by the primary id -/
def primaryFeat (o : Onto κ) (f : Feature κ) : Option (Feature κ) := (o.primary f.id).map (fun p => ⟨p, f.present⟩)

def allSome {α} : List (Option α) → Option (List α)
  | [] => some []
  | none :: _ => none
  | some x :: rest => (allSome rest).map (x :: ·)

/-- the inner loops of `AnnotationPropagationValidator.validate` for one feature -/
def offending (o : Onto κ) (feats : List (Feature κ)) (f : Feature κ) : List κ :=
  if f.present then
    (o.strictAnc f.id).filter (fun anc => feats.any (fun sf => anc = sf.id))
  else
    (o.strictAnc f.id).filter (fun anc => (feats.filter (fun sf => !sf.present)).any (fun sf => anc = sf.id))

def propResults (o : Onto κ) (feats : List (Feature κ)) : List (Result κ) :=
  feats.flatMap (fun f => (offending o feats f).map (fun anc => ⟨.error, .propagation, [f.id, anc]⟩))

def propagation (o : Onto κ) (items : List (Feature κ)) : Except Err (List (Result κ)) :=
  match allSome (items.map (primaryFeat o)) with
  | none => .error .other                                   -- `None.is_present`
  | some feats => .ok (propResults o feats)

def abnStep (o : Onto κ) (pa : κ) (it : Feature κ) : List (Result κ) :=
  match primaryFeat o it with
  | none => []                                              -- `if primary is None: continue`
  | some p => if (o.strictAnc p.id).any (fun anc => pa = anc) then [] else [⟨.warning, .abnormality, [p.id, pa]⟩]

def abnormality (o : Onto κ) (pa : κ) (items : List (Feature κ)) : Except Err (List (Result κ)) :=
  .ok (items.flatMap (abnStep o pa))

def obsoleteIds (o : Onto κ) (items : List (Feature κ)) : Except Err (List (Result κ)) :=
  match allSome (items.map (primaryFeat o)) with
  | none => .error .other                                   -- `None.identifier`
  | some feats => .ok ((items.zip feats).flatMap (fun p =>
      if p.2.id ≠ p.1.id then [⟨.warning, .obsolete, [p.1.id, p.2.id]⟩] else []))

inductive Validator | propagation | abnormality | obsolete
deriving DecidableEq, Repr

def runValidator (o : Onto κ) (pa : κ) (items : List (Feature κ)) : Validator → Except Err (List (Result κ))
  | .propagation => propagation o items
  | .abnormality => abnormality o pa items
  | .obsolete => obsoleteIds o items

/-- `ValidationRunner.validate_all`: concatenation in validator order -/
def runStep (o : Onto κ) (pa : κ) (items : List (Feature κ)) (acc : Except Err (List (Result κ))) (v : Validator) :
    Except Err (List (Result κ)) :=
  match acc, runValidator o pa items v with
  | .ok a, .ok r => .ok (a ++ r)
  | .error e, _ => .error e
  | _, .error e => .error e

def validateAll (o : Onto κ) (pa : κ) (vs : List Validator) (items : List (Feature κ)) : Except Err (List (Result κ)) :=
  vs.foldl (runStep o pa items) (.ok [])

def isOk (rs : List (Result κ)) : Bool := rs.isEmpty

/-! ### aliasing: the caller's items live in heap cells; validators work on fresh copies -/

abbrev Heap (κ : Type) := List (Feature κ)

/-- `map_to_stateful_feature(item)` allocates a new `SimpleFeature`; `_primary_term_id` then assigns to THAT cell -/
def extractAndNormalise (o : Onto κ) (h : Heap κ) (i : Nat) : Heap κ × Option Nat :=
  match h[i]? with
  | none => (h, none)
  | some f =>
    let h1 := h ++ [f]                    -- the copy, at address `h.length`
    match o.primary f.id with
    | none => (h1, none)
    | some p => (if p ≠ f.id then h1.set h.length ⟨p, f.present⟩ else h1, some h.length)

/-- all the writes any validator performs for a caller's item list stored at addresses `0..n-1` -/
def heapAfter (o : Onto κ) (h : Heap κ) (n : Nat) : Heap κ :=
  (List.range n).foldl (fun hp i => (extractAndNormalise o hp i).1) h

end Hpv.Validate
