import Hpv.Sorting
namespace Hpv.Sorting
variable {κ : Type} [DecidableEq κ]

theorem perm_cons_eraseIdx {α} (l : List α) (i : Nat) (a : α) (h : l[i]? = some a) : l.Perm (a :: l.eraseIdx i) := by
  induction l generalizing i with
  | nil => simp at h
  | cons x xs ih =>
    cases i with
    | zero => simp at h; subst h; simp
    | succ j =>
      simp only [List.getElem?_cons_succ] at h
      simp only [List.eraseIdx_cons_succ]
      exact ((ih j h).cons x).trans (List.Perm.swap a x _)

theorem getElem?_eraseIdx_lt {α} (l : List α) (hi lo : Nat) (h : lo < hi) : (l.eraseIdx hi)[lo]? = l[lo]? := by
  induction l generalizing hi lo with
  | nil => simp
  | cons x xs ih =>
    cases hi with
    | zero => omega
    | succ hi' =>
      cases lo with
      | zero => simp
      | succ lo' => simp only [List.eraseIdx_cons_succ, List.getElem?_cons_succ]; exact ih hi' lo' (by omega)

def leaves (nodes : List (Tree κ)) : List κ := nodes.flatMap Tree.inorder

omit [DecidableEq κ] in
theorem clusterStep_leaves (nodes nodes' : List (Tree κ)) (hi lo : Nat)
    (h : clusterStep nodes hi lo = some nodes') : (leaves nodes').Perm (leaves nodes) ∧ nodes'.length + 1 = nodes.length := by
  unfold clusterStep at h
  cases ha : nodes[hi]? with
  | none => simp [ha] at h
  | some a =>
    cases hb : nodes[lo]? with
    | none => simp [ha, hb] at h
    | some b =>
      simp only [ha, hb] at h
      by_cases hlt : lo < hi
      · simp only [hlt, if_true, Option.some.injEq] at h
        subst h
        have p1 := perm_cons_eraseIdx nodes hi a ha
        have hb' : (nodes.eraseIdx hi)[lo]? = some b := by rw [getElem?_eraseIdx_lt _ _ _ hlt]; exact hb
        have p2 := perm_cons_eraseIdx (nodes.eraseIdx hi) lo b hb'
        have p : nodes.Perm (a :: b :: (nodes.eraseIdx hi).eraseIdx lo) := p1.trans (p2.cons a)
        constructor
        · have q := List.Perm.flatMap_right Tree.inorder p
          refine List.Perm.trans ?_ q.symm
          simp only [leaves, List.flatMap_append, List.flatMap_cons, List.flatMap_nil, Tree.inorder,
            List.append_nil]
          refine (List.perm_append_comm).trans ?_
          simp [List.append_assoc]
        · have := p.length_eq
          simp at this ⊢; omega
      · simp [hlt] at h

omit [DecidableEq κ] in
/-- Whatever pairs are merged, in whatever order, no leaf is lost or duplicated. -/
theorem cluster_leaves (trace : List (Nat × Nat)) (nodes nodes' : List (Tree κ))
    (h : cluster trace nodes = some nodes') : (leaves nodes').Perm (leaves nodes) := by
  induction trace generalizing nodes with
  | nil => simp [cluster] at h; subst h; exact List.Perm.refl _
  | cons p rest ih =>
    obtain ⟨hi, lo⟩ := p
    simp only [cluster] at h
    cases hs : clusterStep nodes hi lo with
    | none => simp [hs] at h
    | some mid =>
      simp only [hs, Option.bind_some] at h
      exact (ih mid h).trans (clusterStep_leaves nodes mid hi lo hs).1

theorem takeFirst_spec (s : κ) (pool : List (Nat × κ)) (h : s ∈ pool.map Prod.snd) :
    ∃ i pool', takeFirst s pool = some (i, pool') ∧ pool.Perm ((i, s) :: pool') := by
  induction pool with
  | nil => simp at h
  | cons p rest ih =>
    obtain ⟨j, x⟩ := p
    unfold takeFirst
    by_cases hx : x = s
    · subst hx; exact ⟨j, rest, by simp, List.Perm.refl _⟩
    · have : s ∈ rest.map Prod.snd := by
        simp only [List.map_cons, List.mem_cons] at h
        rcases h with h | h
        · exact absurd h.symm hx
        · exact h
      obtain ⟨i, pool', h1, h2⟩ := ih this
      refine ⟨i, (j, x) :: pool', by simp [hx, h1], ?_⟩
      exact (h2.cons (j, x)).trans (List.Perm.swap _ _ _)

/-- If `ordered` is a rearrangement of the ids in the pool, every id gets a distinct pool position carrying that id. -/
theorem assign_spec (ordered : List κ) (pool : List (Nat × κ)) (h : ordered.Perm (pool.map Prod.snd)) :
    ∃ res, assign ordered pool = some res ∧ res.Perm (pool.map Prod.fst) := by
  induction ordered generalizing pool with
  | nil =>
    have : pool = [] := by
      have := h.length_eq; simp at this; exact List.eq_nil_of_length_eq_zero this.symm
    subst this; exact ⟨[], rfl, List.Perm.refl _⟩
  | cons s rest ih =>
    have hs : s ∈ pool.map Prod.snd := h.subset List.mem_cons_self
    obtain ⟨i, pool', h1, h2⟩ := takeFirst_spec s pool hs
    have h3 : (s :: rest).Perm (s :: pool'.map Prod.snd) := by
      have := (List.Perm.map Prod.snd h2)
      simpa using h.trans this
    obtain ⟨res, hr1, hr2⟩ := ih pool' h3.cons_inv
    refine ⟨i :: res, by simp [assign, h1, hr1], ?_⟩
    have := (List.Perm.map Prod.fst h2).symm
    exact (hr2.cons i).trans (by simpa using this)

omit [DecidableEq κ] in
theorem enum_map (k : Nat) (xs : List κ) : (enum k xs).map Prod.snd = xs ∧ (enum k xs).map Prod.fst = List.range' k xs.length := by
  induction xs generalizing k with
  | nil => simp [enum]
  | cons x xs ih => simp [enum, (ih (k+1)).1, (ih (k+1)).2, List.range'_succ]

/-- argsort: for any merge trace that reduces the input to a single tree, the result is a permutation of 0..n-1. -/
theorem argsort_perm (source : List κ) (trace : List (Nat × Nat)) (t : Tree κ)
    (h : cluster trace (source.map Tree.leaf) = some [t]) :
    ∃ res, findIndices source t.inorder = some res ∧ res.Perm (List.range source.length) := by
  have hl := cluster_leaves trace _ _ h
  have hsrc : ∀ (l : List κ), leaves (l.map Tree.leaf) = l := by
    intro l
    unfold leaves
    induction l with
    | nil => rfl
    | cons x xs ih => simp [Tree.inorder, ih]
  have hsrc := hsrc source
  have ht : leaves [t] = t.inorder := by simp [leaves]
  rw [hsrc, ht] at hl
  obtain ⟨e1, e2⟩ := enum_map 0 source
  have hp : t.inorder.Perm ((enum 0 source).map Prod.snd) := by rw [e1]; exact hl
  obtain ⟨res, h1, h2⟩ := assign_spec t.inorder (enum 0 source) hp
  refine ⟨res, h1, ?_⟩
  rw [e2] at h2
  simpa [List.range_eq_range'] using h2

theorem takeFirst_mem (s : κ) (pool : List (Nat × κ)) (i : Nat) (pool' : List (Nat × κ))
    (h : takeFirst s pool = some (i, pool')) : (i, s) ∈ pool ∧ ∀ p ∈ pool', p ∈ pool := by
  induction pool generalizing i pool' with
  | nil => simp [takeFirst] at h
  | cons p rest ih =>
    obtain ⟨j, x⟩ := p
    unfold takeFirst at h
    by_cases hx : x = s
    · simp only [hx, if_true, Option.some.injEq, Prod.mk.injEq] at h
      obtain ⟨h1, h2⟩ := h
      subst h1 h2 hx
      exact ⟨List.mem_cons_self, fun p hp => List.mem_cons_of_mem _ hp⟩
    · simp only [hx, if_false] at h
      cases hr : takeFirst s rest with
      | none => rw [hr] at h; simp at h
      | some r =>
        rw [hr] at h
        simp only [Option.map_some, Option.some.injEq, Prod.mk.injEq] at h
        obtain ⟨h1, h2⟩ := h
        obtain ⟨m1, m2⟩ := ih r.1 r.2 (by rw [hr])
        subst h1 h2
        refine ⟨List.mem_cons_of_mem _ m1, ?_⟩
        intro p hp
        rcases List.mem_cons.mp hp with rfl | hp
        · exact List.mem_cons_self
        · exact List.mem_cons_of_mem _ (m2 p hp)

/-- every assigned position carries the id it was assigned to: indexing the source with the result gives `ordered` -/
theorem assign_points (source ordered : List κ) (pool : List (Nat × κ)) (res : List Nat)
    (hpool : ∀ p ∈ pool, source[p.1]? = some p.2) (h : assign ordered pool = some res) :
    res.map (source[·]?) = ordered.map some := by
  induction ordered generalizing pool res with
  | nil => simp [assign] at h; subst h; rfl
  | cons s rest ih =>
    unfold assign at h
    cases ht : takeFirst s pool with
    | none => rw [ht] at h; simp at h
    | some r =>
      obtain ⟨i, pool'⟩ := r
      rw [ht] at h
      simp only at h
      cases ha : assign rest pool' with
      | none => rw [ha] at h; simp at h
      | some res' =>
        rw [ha] at h
        simp only [Option.map_some, Option.some.injEq] at h
        subst h
        obtain ⟨m1, m2⟩ := takeFirst_mem s pool i pool' ht
        simp only [List.map_cons]
        rw [hpool (i, s) m1, ih pool' res' (fun p hp => hpool p (m2 p hp)) ha]

theorem enum_points (k : Nat) (pre xs : List κ) (hk : pre.length = k) :
    ∀ p ∈ enum k xs, (pre ++ xs)[p.1]? = some p.2 := by
  induction xs generalizing k pre with
  | nil => intro p hp; simp [enum] at hp
  | cons x xs ih =>
    intro p hp
    simp only [enum, List.mem_cons] at hp
    rcases hp with rfl | hp
    · simp [← hk]
    · have := ih (k + 1) (pre ++ [x]) (by simp [hk]) p hp
      simpa using this

/-- **argsort, full statement**: for every merge trace that reduces the tagged leaves to one tree, the result is a
permutation of `0..n-1` and indexing the input with it yields the in-order leaf sequence (nothing lost or duplicated). -/
theorem argsort_spec (source : List κ) (trace : List (Nat × Nat)) (t : Tree κ)
    (h : cluster trace (source.map Tree.leaf) = some [t]) :
    ∃ res, findIndices source t.inorder = some res ∧ res.Perm (List.range source.length) ∧
      res.map (source[·]?) = t.inorder.map some ∧ t.inorder.Perm source := by
  obtain ⟨res, h1, h2⟩ := argsort_perm source trace t h
  refine ⟨res, h1, h2, ?_, ?_⟩
  · exact assign_points source t.inorder (enum 0 source) res (by simpa using enum_points 0 [] source rfl) h1
  · have hl := cluster_leaves trace _ _ h
    have hsrc : ∀ (l : List κ), leaves (l.map Tree.leaf) = l := by
      intro l
      unfold leaves
      induction l with
      | nil => rfl
      | cons x xs ih => simp [Tree.inorder, ih]
    have ht : leaves [t] = t.inorder := by simp [leaves]
    rw [hsrc source, ht] at hl
    exact hl

/-- every successful clustering step removes exactly one node, so a trace ending in a single tree has `n - 1` steps -/
theorem cluster_length (trace : List (Nat × Nat)) (nodes nodes' : List (Tree κ))
    (h : cluster trace nodes = some nodes') : nodes'.length + trace.length = nodes.length := by
  induction trace generalizing nodes with
  | nil => simp [cluster] at h; subst h; simp
  | cons p rest ih =>
    obtain ⟨hi, lo⟩ := p
    simp only [cluster] at h
    cases hs : clusterStep nodes hi lo with
    | none => simp [hs] at h
    | some mid =>
      simp only [hs, Option.bind_some] at h
      have := ih mid h
      have := (clusterStep_leaves nodes mid hi lo hs).2
      simp only [List.length_cons]
      omega

/-- the position-carrying scheme: for any merge trace that reduces the input to a single tree, the positions of its leaves,
left to right, are a permutation of 0..n-1 -/
theorem argsortPos_perm (n : Nat) (trace : List (Nat × Nat)) (t : Tree Nat)
    (h : cluster trace ((List.range n).map Tree.leaf) = some [t]) :
    argsortPos n trace = some t.inorder ∧ t.inorder.Perm (List.range n) := by
  refine ⟨by simp [argsortPos, h], ?_⟩
  have hl := cluster_leaves trace _ _ h
  have hsrc : ∀ (l : List Nat), leaves (l.map Tree.leaf) = l := by
    intro l
    unfold leaves
    induction l with
    | nil => rfl
    | cons x xs ih => simp [Tree.inorder, ih]
  have ht : leaves [t] = t.inorder := by simp [leaves]
  rw [hsrc, ht] at hl
  exact hl

end Hpv.Sorting
