import Hpv.StoreTrace
namespace Hpv.StoreTrace

theorem upd_same (fs : FS) (p : Path) (v : Option Bytes) : upd fs p v p = v := by simp [upd]

theorem upd_other (fs : FS) (p q : Path) (v : Option Bytes) (h : q ≠ p) : upd fs p v q = fs q := by simp [upd, h]

theorem inv_upd_other (remote : Nat → Option Bytes) (fs : FS) (p : Nat) (v : Option Bytes) (h : Inv remote fs) :
    Inv remote (upd fs (.other p) v) := by
  intro k c hc
  rw [upd_other _ _ _ _ (by intro e; cases e)] at hc
  exact h k c hc

theorem inv_upd_none (remote : Nat → Option Bytes) (fs : FS) (p : Path) (h : Inv remote fs) : Inv remote (upd fs p none) := by
  intro k c hc
  by_cases e : Path.cache k = p
  · subst e; rw [upd_same] at hc; cases hc
  · rw [upd_other _ _ _ _ e] at hc; exact h k c hc

/-- one disciplined operation preserves the invariant -/
theorem inv_step (remote : Nat → Option Bytes) (fs : FS) (op : Op) (h : Inv remote fs) (hok : okOp remote fs op = true) :
    Inv remote (step fs op) := by
  cases op with
  | create p =>
    cases p with
    | cache k => simp [okOp] at hok
    | other p => exact inv_upd_other remote fs p _ h
  | append p b =>
    cases p with
    | cache k => simp [okOp] at hok
    | other p =>
      simp only [step]
      cases fs (.other p) with
      | none => exact h
      | some c => exact inv_upd_other remote fs p _ h
  | rename s d =>
    simp only [step]
    cases hs : fs s with
    | none => exact h
    | some c =>
      apply inv_upd_none
      cases d with
      | other p => exact inv_upd_other remote fs p _ h
      | cache k =>
        have hk : remote k = some c := by
          simp only [okOp, hs] at hok
          exact eq_of_beq hok
        intro k' c' hc'
        by_cases e : k' = k
        · subst e; rw [upd_same] at hc'; cases hc'; exact hk
        · rw [upd_other _ _ _ _ (by intro e'; cases e'; exact e rfl)] at hc'; exact h k' c' hc'
  | remove p => exact inv_upd_none remote fs p h
  | noop => exact h

theorem disciplined_take (remote : Nat → Option Bytes) (fs : FS) (ops : List Op) (n : Nat)
    (h : Disciplined remote fs ops = true) : Disciplined remote fs (ops.take n) = true := by
  induction ops generalizing fs n with
  | nil => simp [Disciplined]
  | cons op ops ih =>
    cases n with
    | zero => simp [Disciplined]
    | succ n =>
      simp only [Disciplined, Bool.and_eq_true] at h
      simp only [List.take_succ_cons, Disciplined, Bool.and_eq_true]
      exact ⟨h.1, ih (step fs op) n h.2⟩

theorem inv_run (remote : Nat → Option Bytes) (fs : FS) (ops : List Op) (h : Inv remote fs)
    (hd : Disciplined remote fs ops = true) : Inv remote (run fs ops) := by
  induction ops generalizing fs with
  | nil => exact h
  | cons op ops ih =>
    simp only [Disciplined, Bool.and_eq_true] at hd
    simp only [run, List.foldl_cons]
    exact ih (step fs op) (inv_step remote fs op h hd.1) hd.2

/-- **Crash at any point**: after any prefix of a disciplined trace, followed by a torn write to a file that is not a cache
location, every file at a cache location is complete. -/
theorem inv_crash (remote : Nat → Option Bytes) (fs : FS) (ops : List Op) (h : Inv remote fs)
    (hd : Disciplined remote fs ops = true) (n : Nat) (p : Nat) (torn : Bytes) :
    Inv remote (run fs (ops.take n)) ∧ Inv remote (step (run fs (ops.take n)) (.append (.other p) torn)) := by
  have h1 := inv_run remote fs (ops.take n) h (disciplined_take remote fs ops n hd)
  exact ⟨h1, inv_step remote _ _ h1 (by simp [okOp])⟩

theorem firstBad_none (remote : Nat → Option Bytes) (fs : FS) (ops : List Op) (i : Nat) :
    firstBad remote fs ops i = none ↔ Disciplined remote fs ops = true := by
  induction ops generalizing fs i with
  | nil => simp [firstBad, Disciplined]
  | cons op ops ih =>
    simp only [firstBad, Disciplined, Bool.and_eq_true]
    cases hok : okOp remote fs op with
    | true => simp [ih]
    | false => simp

theorem inv_empty (remote : Nat → Option Bytes) : Inv remote emptyFS := by
  intro k c hc; simp [emptyFS] at hc

end Hpv.StoreTrace
