/-
CSR triples whose rows list their columns in ANY order (legal, non-canonical CSR: no column twice in a row, every column
inside the shape): the reads still equal the dense matrix; only the ORDER of the value-to-columns answer is the storage
order instead of ascending.
-/
import Hpv.MatrixProofs

namespace Hpv.Csr

/-- every row lists each of its columns once, all inside the shape - in whatever order -/
structure RowsND (rows : List Row) (ncols : Nat) : Prop where
  nodup : ∀ row ∈ rows, (row.map Prod.fst).Nodup
  bounded : ∀ row ∈ rows, ∀ p ∈ row, p.1 < ncols

theorem RowsWF.toND {rows : List Row} {ncols : Nat} (h : RowsWF rows ncols) : RowsND rows ncols :=
  ⟨fun row hr => (h.sorted row hr).nodup, h.bounded⟩

theorem getRow_spec_nd (rows : List Row) (n r : Nat) (hwf : RowsND rows n) (hr : r < rows.length) :
    (ofRowsM rows n).getRow (r : Int) = .ok ((List.range n).map (dense rows r)) := by
  obtain ⟨hd, hget, hmem⟩ := getD_of_lt rows r hr
  unfold Matrix.getRow
  have hn : (ofRowsM rows n).nrows = rows.length := rfl
  have hc : (ofRowsM rows n).ncols = n := rfl
  rw [hn, hc, inRange_cast, decide_eq_true hr, if_pos rfl]
  simp only [Int.toNat_natCast]
  rw [slice_ofRows rows n r rows[r] hget]
  have hany : (rows[r].any fun p => decide (n ≤ p.1)) = false := by
    rw [List.any_eq_false]
    intro p hp
    have := hwf.bounded _ hmem p hp
    simp; omega
  rw [hany]
  simp only [Bool.false_eq_true, if_false]
  congr 1
  apply List.map_congr_left
  intro c _
  unfold dense
  rw [hd, lastOf_eq_firstOf _ (hwf.nodup _ hmem)]

/-- value-to-columns query on rows in any column order: duplicate-free, and exactly the columns whose dense value is `q` -/
theorem colIndicesOfVal_spec_nd (rows : List Row) (n r : Nat) (q : Int) (hwf : RowsND rows n) (hnz : NZ rows)
    (hr : r < rows.length) :
    ∃ cs, (ofRowsM rows n).colIndicesOfVal (r : Int) q = .ok cs ∧ cs.Nodup ∧
      ∀ c, c ∈ cs ↔ c < n ∧ dense rows r c = q := by
  obtain ⟨hd, hget, hmem⟩ := getD_of_lt rows r hr
  have hnodup := hwf.nodup _ hmem
  unfold Matrix.colIndicesOfVal
  have hn : (ofRowsM rows n).nrows = rows.length := rfl
  have hcn : (ofRowsM rows n).ncols = n := rfl
  rw [hn, hcn, inRange_cast, decide_eq_true hr]
  simp only [Bool.not_true, Bool.false_eq_true, if_false, Int.toNat_natCast]
  rw [slice_ofRows rows n r rows[r] hget]
  unfold dense
  rw [hd]
  by_cases hq : q = 0
  · subst hq
    have hany : (rows[r].any fun p => decide (n ≤ p.1)) = false := by
      rw [List.any_eq_false]
      intro p hp
      have := hwf.bounded _ hmem p hp
      simp; omega
    simp only [if_true, hany, Bool.false_eq_true, if_false]
    refine ⟨_, rfl, (List.filter_sublist (l := List.range n)).nodup List.nodup_range, ?_⟩
    intro c
    have hcont : ((rows[r].map (·.1)).contains c = false) ↔ c ∉ rows[r].map Prod.fst := by
      rw [← Bool.not_eq_true, List.contains_iff_mem]
    simp only [List.mem_filter, List.mem_range, Bool.not_eq_true', hcont]
    constructor
    · rintro ⟨h1, h2⟩
      exact ⟨h1, firstOf_of_not_mem _ _ h2⟩
    · rintro ⟨h1, h2⟩
      refine ⟨h1, ?_⟩
      intro hin
      rcases firstOf_mem_or_zero rows[r] c with ⟨p, hp, _, hv⟩ | ⟨hno, _⟩
      · exact hnz _ hmem p hp (by rw [← hv, h2])
      · exact hno hin
  · simp only [hq, if_false]
    refine ⟨_, rfl, ?_, ?_⟩
    · have hsub : ((rows[r].filter fun p => decide (p.2 = q)).map Prod.fst).Sublist (rows[r].map Prod.fst) :=
        List.Sublist.map _ List.filter_sublist
      exact hsub.nodup hnodup
    · intro c
      simp only [List.mem_map, List.mem_filter, decide_eq_true_eq]
      constructor
      · rintro ⟨p, ⟨hp, hv⟩, rfl⟩
        exact ⟨hwf.bounded _ hmem p hp, by rw [firstOf_eq_of_mem _ hnodup p hp, hv]⟩
      · rintro ⟨_, hv⟩
        rcases firstOf_mem_or_zero rows[r] c with ⟨p, hp, hpc, hv'⟩ | ⟨_, hz⟩
        · exact ⟨p, ⟨hp, by rw [← hv', hv]⟩, hpc⟩
        · exact absurd (by rw [← hv, hz]) hq

end Hpv.Csr
