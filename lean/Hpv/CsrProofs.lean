import Hpv.Csr

namespace Hpv.Csr

theorem scan_skip (pre l : List Nat) (i start stop q adj : Nat) (h : i + pre.length ≤ start) :
    scan (pre ++ l) i start stop q adj = scan l (i + pre.length) start stop q adj := by
  induction pre generalizing i with
  | nil => simp
  | cons p ps ih =>
    simp only [List.cons_append, List.length_cons] at h ⊢
    have : start > i := by omega
    rw [show scan (p :: (ps ++ l)) i start stop q adj = scan (ps ++ l) (i+1) start stop q adj from by
      simp [scan, this]]
    rw [ih (i+1) (by omega)]
    rw [show i + 1 + ps.length = i + (ps.length + 1) by omega]

theorem scan_row (row post : List Nat) (i start stop q adj : Nat) (hs : start ≤ i)
    (hi : i + row.length = stop) :
    scan (row ++ post) i start stop q adj = (adj + (scanRow q row).1, (scanRow q row).2) := by
  induction row generalizing i adj with
  | nil =>
    simp only [List.nil_append, List.length_nil, Nat.add_zero] at hi ⊢
    cases post with
    | nil => simp [scan, scanRow]
    | cons c rest =>
      unfold scan
      have h1 : ¬ start > i := by omega
      have h2 : i ≥ stop := by omega
      simp [h1, h2, scanRow]
  | cons c rest ih =>
    simp only [List.cons_append, List.length_cons] at hi ⊢
    unfold scan
    have h1 : ¬ start > i := by omega
    have h2 : ¬ i ≥ stop := by omega
    simp only [h1, h2, if_false]
    unfold scanRow
    by_cases hc : c < q
    · simp only [hc, if_true]
      rw [ih (i+1) (adj+1) (by omega) (by omega)]
      simp; omega
    · simp only [hc, if_false]
      by_cases he : c = q
      · simp [he]
      · simp [he]

theorem psums_getD_mid (acc : Nat) (xs : List Nat) (y : Nat) (ys : List Nat) :
    (psums acc (xs ++ y :: ys)).getD xs.length 0 = acc + xs.sum ∧
    (psums acc (xs ++ y :: ys)).getD (xs.length + 1) 0 = acc + xs.sum + y := by
  induction xs generalizing acc with
  | nil =>
    cases ys <;> simp [psums]
  | cons x xs ih =>
    simp only [List.cons_append, psums, List.length_cons, List.sum_cons]
    have := ih (acc + x)
    simp only [List.getD_cons_succ]
    constructor
    · rw [this.1]; omega
    · rw [this.2]; omega

theorem psums_succ (acc : Nat) (zs : List Nat) : (psums acc zs).map (· + 1) = psums (acc + 1) zs := by
  induction zs generalizing acc with
  | nil => simp [psums]
  | cons z zs ih =>
    simp only [psums, List.map_cons]
    rw [ih (acc + z), show acc + z + 1 = acc + 1 + z by omega]

theorem bump_psums (acc : Nat) (xs : List Nat) (y : Nat) (ys : List Nat) :
    bump xs.length (psums acc (xs ++ y :: ys)) = psums acc (xs ++ (y + 1) :: ys) := by
  induction xs generalizing acc with
  | nil =>
    simp only [List.nil_append, List.length_nil, psums, bump]
    rw [psums_succ, show acc + y + 1 = acc + (y + 1) by omega]
  | cons x xs ih =>
    simp only [List.cons_append, psums, List.length_cons, bump]
    rw [ih (acc + x)]

theorem map_insertIdx' {α β} (f : α → β) (l : List α) (k : Nat) (x : α) :
    (l.insertIdx k x).map f = (l.map f).insertIdx k (f x) := by
  induction l generalizing k with
  | nil => cases k <;> simp
  | cons a l ih =>
    cases k with
    | zero => simp
    | succ k => simp [List.insertIdx_succ_cons, ih]

theorem insertIdx_append_right {α} (s t : List α) (k : Nat) (x : α) :
    (s ++ t).insertIdx (s.length + k) x = s ++ t.insertIdx k x := by
  induction s with
  | nil => simp
  | cons a s ih =>
    simp only [List.cons_append, List.length_cons]
    rw [show s.length + 1 + k = (s.length + k) + 1 by omega, List.insertIdx_succ_cons, ih]

theorem insertIdx_append_left {α} (s t : List α) (k : Nat) (x : α) (h : k ≤ s.length) :
    (s ++ t).insertIdx k x = s.insertIdx k x ++ t := by
  induction s generalizing k with
  | nil => simp at h; subst h; simp
  | cons a s ih =>
    cases k with
    | zero => simp
    | succ k =>
      simp only [List.cons_append, List.insertIdx_succ_cons, List.length_cons] at h ⊢
      rw [ih k (by omega)]

theorem insRow_upd (c : Nat) (v : Int) (row : Row) (h : (scanRow c (row.map Prod.fst)).2 = true) :
    insRow c v row = row.set (scanRow c (row.map Prod.fst)).1 (c, v) ∧
    (scanRow c (row.map Prod.fst)).1 < row.length ∧
    (row.map Prod.fst).set (scanRow c (row.map Prod.fst)).1 c = row.map Prod.fst := by
  induction row with
  | nil => simp [scanRow] at h
  | cons p rest ih =>
    obtain ⟨c', v'⟩ := p
    simp only [List.map_cons, scanRow] at h ⊢
    unfold insRow
    by_cases hc : c' < c
    · simp only [hc, if_true] at h ⊢
      obtain ⟨h1, h2, h3⟩ := ih h
      refine ⟨by simp [h1], by simp; omega, by simp [h3]⟩
    · simp only [hc, if_false] at h ⊢
      by_cases he : c' = c
      · subst he; simp
      · simp [he] at h

theorem insRow_new (c : Nat) (v : Int) (row : Row) (h : (scanRow c (row.map Prod.fst)).2 = false) :
    insRow c v row = row.insertIdx (scanRow c (row.map Prod.fst)).1 (c, v) ∧
    (scanRow c (row.map Prod.fst)).1 ≤ row.length := by
  induction row with
  | nil => simp [scanRow, insRow]
  | cons p rest ih =>
    obtain ⟨c', v'⟩ := p
    simp only [List.map_cons, scanRow] at h ⊢
    unfold insRow
    by_cases hc : c' < c
    · simp only [hc, if_true] at h ⊢
      obtain ⟨h1, h2⟩ := ih h
      refine ⟨by simp [h1], by simp; omega⟩
    · simp only [hc, if_false] at h ⊢
      by_cases he : c' = c
      · simp [he] at h
      · simp [he]

/-- Flat-array step in terms of an explicit (pre, row, post) decomposition. -/
theorem setItem_flat (ip : List Nat) (pre row post : Row) (r c : Nat) (v : Int)
    (hs : ip.getD r 0 = pre.length) (he : ip.getD (r+1) 0 = pre.length + row.length) :
    setItem ⟨ip, (pre ++ (row ++ post)).map Prod.fst, (pre ++ (row ++ post)).map Prod.snd⟩ r c v =
      ⟨if (scanRow c (row.map Prod.fst)).2 then ip else bump r ip,
       (pre ++ (insRow c v row ++ post)).map Prod.fst,
       (pre ++ (insRow c v row ++ post)).map Prod.snd⟩ := by
  unfold setItem
  simp only [hs, he, List.map_append]
  rw [scan_skip _ _ 0 _ _ _ _ (by simp)]
  rw [scan_row _ _ _ _ _ _ _ (by simp) (by simp)]
  simp only [Nat.zero_add]
  cases hupd : (scanRow c (row.map Prod.fst)).2 with
  | true =>
    obtain ⟨h1, h2, h3⟩ := insRow_upd c v row hupd
    simp only [if_true]
    rw [h1]
    congr 1
    · rw [List.map_set]; simp only; rw [h3]
    · have e1 : (List.map Prod.snd pre).length ≤ pre.length + (scanRow c (row.map Prod.fst)).1 := by simp
      rw [List.set_append_right _ _ e1]
      simp only [List.length_map, Nat.add_sub_cancel_left]
      rw [List.set_append_left _ _ (by simpa using h2)]
      simp [List.map_set]
  | false =>
    obtain ⟨h1, h2⟩ := insRow_new c v row hupd
    simp only [Bool.false_eq_true, if_false]
    rw [h1]
    have l1 : pre.length = (List.map Prod.fst pre).length := by simp
    have l2 : pre.length = (List.map Prod.snd pre).length := by simp
    congr 1
    · conv => lhs; rw [l1]
      rw [insertIdx_append_right, insertIdx_append_left _ _ _ _ (by simpa using h2)]
      simp [map_insertIdx']
    · conv => lhs; rw [l2]
      rw [insertIdx_append_right, insertIdx_append_left _ _ _ _ (by simpa using h2)]
      simp [map_insertIdx']

/-- The flat-array `__setitem__` is the row-wise sorted insert/overwrite. -/
theorem setItem_ofRows (A B : List Row) (row : Row) (c : Nat) (v : Int) :
    setItem (ofRows (A ++ row :: B)) A.length c v = ofRows (A ++ insRow c v row :: B) := by
  have hlen : (A.map List.length).length = A.length := by simp
  have hp := psums_getD_mid 0 (A.map List.length) row.length (B.map List.length)
  rw [hlen] at hp
  have hsum : (A.map List.length).sum = A.flatten.length := by
    rw [List.length_flatten]
  simp only [Nat.zero_add, hsum] at hp
  have hb := bump_psums 0 (A.map List.length) row.length (B.map List.length)
  rw [hlen] at hb
  have hflat := setItem_flat (psums 0 (A.map List.length ++ row.length :: B.map List.length))
    A.flatten row B.flatten A.length c v hp.1 hp.2
  have e1 : ofRows (A ++ row :: B) =
      ⟨psums 0 (A.map List.length ++ row.length :: B.map List.length),
       (A.flatten ++ (row ++ B.flatten)).map Prod.fst, (A.flatten ++ (row ++ B.flatten)).map Prod.snd⟩ := by
    simp [ofRows]
  rw [e1, hflat]
  cases hupd : (scanRow c (row.map Prod.fst)).2 with
  | true =>
    obtain ⟨h1, h2, _⟩ := insRow_upd c v row hupd
    simp [ofRows, h1]
  | false =>
    obtain ⟨h1, h2⟩ := insRow_new c v row hupd
    simp only [Bool.false_eq_true, if_false, hb]
    simp [ofRows, h1, List.length_insertIdx, h2]

end Hpv.Csr

namespace Hpv.Csr
/-- Slicing the flat array with the row pointers gives back exactly the row that was appended. -/
theorem Static.row_ofRows (A B : List (List Nat)) (r : List Nat) :
    (Static.ofRows (A ++ r :: B)).row A.length = r := by
  have hlen : (A.map List.length).length = A.length := by simp
  have hp := psums_getD_mid 0 (A.map List.length) r.length (B.map List.length)
  rw [hlen] at hp
  have hsum : (A.map List.length).sum = A.flatten.length := by rw [List.length_flatten]
  simp only [Nat.zero_add, hsum] at hp
  unfold Static.row Static.ofRows
  simp only [List.map_append, List.map_cons, hp.1, hp.2, List.flatten_append, List.flatten_cons]
  rw [List.drop_left' rfl]
  simp

theorem Static.row_ofRows_getElem (rows : List (List Nat)) (i : Nat) (r : List Nat) (h : rows[i]? = some r) :
    (Static.ofRows rows).row i = r := by
  have hi : i < rows.length := by
    rcases Nat.lt_or_ge i rows.length with h' | h'
    · exact h'
    · rw [List.getElem?_eq_none h'] at h; cases h
  have hsplit : rows = rows.take i ++ r :: rows.drop (i + 1) := by
    have hr : rows[i] = r := by
      have := List.getElem?_eq_getElem hi
      rw [this] at h; exact Option.some.inj h
    rw [← hr, ← List.drop_eq_getElem_cons hi, List.take_append_drop]
  have hl : (rows.take i).length = i := by simp; omega
  have := Static.row_ofRows (rows.take i) (rows.drop (i + 1)) r
  rw [hl, ← hsplit] at this
  exact this
end Hpv.Csr
