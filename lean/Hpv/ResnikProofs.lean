import Hpv.Resnik
import Hpv.SimProofs
namespace Hpv.Resnik
open Hpv.Sim

/-- characterisation of a running maximum with floor `init` -/
theorem foldl_max_spec (ic : Str → Int) (l : List Str) (init : Int) :
    init ≤ l.foldl (fun m t => max m (ic t)) init ∧
    (∀ t ∈ l, ic t ≤ l.foldl (fun m t => max m (ic t)) init) ∧
    (l.foldl (fun m t => max m (ic t)) init = init ∨ ∃ t ∈ l, ic t = l.foldl (fun m t => max m (ic t)) init) := by
  induction l generalizing init with
  | nil => simp
  | cons x xs ih =>
    simp only [List.foldl_cons]
    obtain ⟨h1, h2, h3⟩ := ih (max init (ic x))
    refine ⟨by omega, ?_, ?_⟩
    · intro t ht
      rcases List.mem_cons.mp ht with rfl | ht
      · omega
      · exact h2 t ht
    · rcases h3 with h | ⟨t, ht, he⟩
      · by_cases hc : init ≤ ic x
        · right; exact ⟨x, List.mem_cons_self, by rw [h]; omega⟩
        · left; rw [h]; omega
      · right; exact ⟨t, List.mem_cons_of_mem _ ht, he⟩

theorem mica_spec (anc : Str → List Str) (ic : Str → Int) (l r : Str) (m : Int) :
    mica anc ic l r = m ↔
      (0 ≤ m ∧ (∀ t, t ∈ anc l → t ∈ anc r → ic t ≤ m) ∧ (m = 0 ∨ ∃ t, t ∈ anc l ∧ t ∈ anc r ∧ ic t = m)) := by
  unfold mica
  obtain ⟨h1, h2, h3⟩ := foldl_max_spec ic ((anc l).filter (fun t => decide (t ∈ anc r))) 0
  constructor
  · intro h; subst h
    refine ⟨h1, ?_, ?_⟩
    · intro t hl hr; exact h2 t (List.mem_filter.mpr ⟨hl, by simpa using hr⟩)
    · rcases h3 with h | ⟨t, ht, he⟩
      · left; exact h
      · right
        have := List.mem_filter.mp ht
        exact ⟨t, this.1, by simpa using this.2, he⟩
  · rintro ⟨g1, g2, g3⟩
    -- both are the maximum of the same finite set with floor 0
    have le1 : List.foldl (fun m t => max m (ic t)) 0 ((anc l).filter (fun t => decide (t ∈ anc r))) ≤ m := by
      rcases h3 with h | ⟨t, ht, he⟩
      · rw [h]; exact g1
      · have := List.mem_filter.mp ht
        rw [← he]; exact g2 t this.1 (by simpa using this.2)
    have le2 : m ≤ List.foldl (fun m t => max m (ic t)) 0 ((anc l).filter (fun t => decide (t ∈ anc r))) := by
      rcases g3 with h | ⟨t, hl, hr, he⟩
      · rw [h]; exact h1
      · rw [← he]; exact h2 t (List.mem_filter.mpr ⟨hl, by simpa using hr⟩)
    omega

/-- the MICA value does not depend on the order of the two terms -/
theorem mica_comm (anc : Str → List Str) (ic : Str → Int) (l r : Str) : mica anc ic l r = mica anc ic r l := by
  rw [mica_spec]
  obtain ⟨h1, h2, h3⟩ := (mica_spec anc ic r l (mica anc ic r l)).mp rfl
  refine ⟨h1, fun t hl hr => h2 t hr hl, ?_⟩
  rcases h3 with h | ⟨t, hr, hl, he⟩
  · exact Or.inl h
  · exact Or.inr ⟨t, hl, hr, he⟩

theorem mica_nonneg (anc : Str → List Str) (ic : Str → Int) (l r : Str) : 0 ≤ mica anc ic l r :=
  ((mica_spec anc ic l r _).mp rfl).1

/-- "the unordered pair {x, y} has been visited" -/
def Visited (P : List (Str × Str)) (x y : Str) : Prop := ∃ p ∈ P, norm p.1 p.2 = norm x y

/-- value the container must hold for {x, y} after visiting the pairs in `P` -/
def expected (anc : Str → List Str) (ic : Str → Int) (P : List (Str × Str)) (x y : Str) [Decidable (Visited P x y)] : Int :=
  if Visited P x y then mica anc ic x y else 0

theorem norm_eq_mica (anc : Str → List Str) (ic : Str → Int) (a b x y : Str) (h : norm a b = norm x y) :
    mica anc ic a b = mica anc ic x y := by
  unfold norm at h
  by_cases h1 : sle a b = true <;> by_cases h2 : sle x y = true
  · simp [h1, h2] at h; rw [h.1, h.2]
  · simp [h1, h2] at h; rw [h.1, h.2, mica_comm]
  · simp [h1, h2] at h; rw [h.1, h.2, mica_comm]
  · simp [h1, h2] at h; rw [h.1, h.2]

theorem stepPair_spec (anc : Str → List Str) (ic : Str → Int) (s : State) (p : Str × Str)
    (hs : ∀ x y, get s x y = 0 ∨ get s x y = mica anc ic x y) (x y : Str) :
    get (stepPair anc ic s p) x y =
      if norm p.1 p.2 = norm x y then mica anc ic x y else get s x y := by
  unfold stepPair
  have hnorm : norm (if slt p.1 p.2 then (p.1, p.2) else (p.2, p.1)).1 (if slt p.1 p.2 then (p.1, p.2) else (p.2, p.1)).2
      = norm p.1 p.2 := by
    split
    · rfl
    · exact norm_comm _ _
  have hget : get s (if slt p.1 p.2 then (p.1, p.2) else (p.2, p.1)).1 (if slt p.1 p.2 then (p.1, p.2) else (p.2, p.1)).2
      = get s p.1 p.2 := by
    split
    · rfl
    · exact get_comm _ _ _
  simp only [hget]
  by_cases hm : mica anc ic p.1 p.2 > 0
  · simp only [hm, if_true]
    have hv : ¬ (max (mica anc ic p.1 p.2) (get s p.1 p.2) < 0) := by omega
    cases hset : set s (if slt p.1 p.2 then (p.1, p.2) else (p.2, p.1)).1
        (if slt p.1 p.2 then (p.1, p.2) else (p.2, p.1)).2 (max (mica anc ic p.1 p.2) (get s p.1 p.2)) with
    | error e =>
      exfalso
      unfold Sim.set at hset
      simp [hv] at hset
    | ok s' =>
      simp only []
      rw [get_set _ _ _ _ x y _ hset, hnorm]
      by_cases hn : norm p.1 p.2 = norm x y
      · simp only [hn, if_true]
        have hmx := norm_eq_mica anc ic _ _ _ _ hn
        rcases hs p.1 p.2 with h | h
        · rw [h, ← hmx]; omega
        · rw [h, ← hmx]; omega
      · simp [hn]
  · simp only [hm, if_false]
    by_cases hn : norm p.1 p.2 = norm x y
    · simp only [hn, if_true]
      have hmx := norm_eq_mica anc ic _ _ _ _ hn
      have h0 : mica anc ic p.1 p.2 = 0 := by have := mica_nonneg anc ic p.1 p.2; omega
      rcases hs x y with h | h
      · rw [h, ← hmx, h0]
      · rw [h]
    · simp [hn]

/-- After visiting the pairs in `P`, the container holds the MICA value for every visited unordered pair and 0 elsewhere. -/
theorem foldl_stepPair_spec (anc : Str → List Str) (ic : Str → Int) (P : List (Str × Str)) :
    ∀ x y, (get (P.foldl (stepPair anc ic) []) x y = mica anc ic x y ∧ Visited P x y) ∨
           (get (P.foldl (stepPair anc ic) []) x y = 0 ∧ (Visited P x y → mica anc ic x y = 0)) := by
  suffices h : ∀ (Q : List (Str × Str)) (s : State) (done : List (Str × Str)),
      (∀ x y, (get s x y = mica anc ic x y ∧ Visited done x y) ∨ (get s x y = 0 ∧ (Visited done x y → mica anc ic x y = 0))) →
      ∀ x y, (get (Q.foldl (stepPair anc ic) s) x y = mica anc ic x y ∧ Visited (done ++ Q) x y) ∨
             (get (Q.foldl (stepPair anc ic) s) x y = 0 ∧ (Visited (done ++ Q) x y → mica anc ic x y = 0)) by
    have := h P [] [] (by
      intro x y; right
      refine ⟨by simp [Sim.get, Sim.lookup], ?_⟩
      rintro ⟨p, hp, _⟩; simp at hp)
    simpa using this
  intro Q
  induction Q with
  | nil => intro s done h x y; simpa using h x y
  | cons p rest ih =>
    intro s done h x y
    simp only [List.foldl_cons]
    have hs : ∀ x y, get s x y = 0 ∨ get s x y = mica anc ic x y := by
      intro x y
      rcases h x y with ⟨h1, _⟩ | ⟨h1, _⟩
      · exact Or.inr h1
      · exact Or.inl h1
    have := ih (stepPair anc ic s p) (done ++ [p]) (by
      intro x y
      rw [stepPair_spec anc ic s p hs x y]
      by_cases hn : norm p.1 p.2 = norm x y
      · simp only [hn, if_true]
        left
        refine ⟨by first | rfl | trivial, p, by simp, hn⟩
      · simp only [hn, if_false]
        rcases h x y with ⟨h1, q, hq, hqn⟩ | ⟨h1, h2⟩
        · left; exact ⟨h1, q, by simp [hq], hqn⟩
        · right
          refine ⟨h1, ?_⟩
          rintro ⟨q, hq, hqn⟩
          rcases List.mem_append.mp hq with hq | hq
          · exact h2 ⟨q, hq, hqn⟩
          · simp at hq; subst hq; exact absurd hqn hn) x y
    simpa [List.append_assoc] using this

theorem mem_pairsFrom (l : List Str) (x y : Str) (hx : x ∈ l) (hy : y ∈ l) :
    (x, y) ∈ pairsFrom l ∨ (y, x) ∈ pairsFrom l := by
  induction l with
  | nil => simp at hx
  | cons a as ih =>
    simp only [pairsFrom, List.mem_append, List.mem_map]
    rcases List.mem_cons.mp hx with hxa | hx' <;> rcases List.mem_cons.mp hy with hya | hy'
    · left; left; exact ⟨y, hy, by rw [hxa]⟩
    · left; left; exact ⟨y, hy, by rw [hxa]⟩
    · right; left; exact ⟨x, hx, by rw [hya]⟩
    · rcases ih hx' hy' with h | h
      · left; right; exact h
      · right; right; exact h

theorem pairsFrom_mem (l : List Str) (p : Str × Str) (hp : p ∈ pairsFrom l) : p.1 ∈ l ∧ p.2 ∈ l := by
  induction l with
  | nil => simp [pairsFrom] at hp
  | cons a as ih =>
    simp only [pairsFrom, List.mem_append, List.mem_map] at hp
    rcases hp with ⟨y, hy, rfl⟩ | hp
    · exact ⟨List.mem_cons_self, hy⟩
    · obtain ⟨h1, h2⟩ := ih hp
      exact ⟨List.mem_cons_of_mem _ h1, List.mem_cons_of_mem _ h2⟩

def SameBranch (groups : List Str) (desc : Str → List Str) (x y : Str) : Prop :=
  ∃ g ∈ groups, x ∈ desc g ∧ y ∈ desc g

theorem norm_eq_cases (a b x y : Str) (h : norm a b = norm x y) : (a = x ∧ b = y) ∨ (a = y ∧ b = x) := by
  unfold norm at h
  by_cases h1 : sle a b = true <;> by_cases h2 : sle x y = true <;> simp [h1, h2] at h
  · exact Or.inl h
  · exact Or.inr h
  · exact Or.inr ⟨h.2, h.1⟩
  · exact Or.inl ⟨h.2, h.1⟩

theorem visited_iff (groups : List Str) (desc : Str → List Str) (x y : Str) :
    Visited (allPairs groups desc) x y ↔ SameBranch groups desc x y := by
  unfold Visited allPairs SameBranch
  constructor
  · rintro ⟨p, hp, hn⟩
    obtain ⟨g, hg, hpg⟩ := List.mem_flatMap.mp hp
    obtain ⟨h1, h2⟩ := pairsFrom_mem _ p hpg
    rcases norm_eq_cases _ _ _ _ hn with ⟨e1, e2⟩ | ⟨e1, e2⟩
    · exact ⟨g, hg, e1 ▸ h1, e2 ▸ h2⟩
    · exact ⟨g, hg, e2 ▸ h2, e1 ▸ h1⟩
  · rintro ⟨g, hg, hx, hy⟩
    rcases mem_pairsFrom (desc g) x y hx hy with h | h
    · exact ⟨(x, y), List.mem_flatMap.mpr ⟨g, hg, h⟩, rfl⟩
    · exact ⟨(y, x), List.mem_flatMap.mpr ⟨g, hg, h⟩, norm_comm y x⟩

/-- C10: same-branch pairs read the MICA value; every other pair reads 0; always symmetric, non-negative, bounded by MICA. -/
theorem precalc_spec (groups : List Str) (desc anc : Str → List Str) (ic : Str → Int) (x y : Str) :
    (SameBranch groups desc x y → get (precalc groups desc anc ic) x y = mica anc ic x y) ∧
    (¬ SameBranch groups desc x y → get (precalc groups desc anc ic) x y = 0) ∧
    get (precalc groups desc anc ic) x y = get (precalc groups desc anc ic) y x ∧
    0 ≤ get (precalc groups desc anc ic) x y ∧ get (precalc groups desc anc ic) x y ≤ mica anc ic x y := by
  unfold precalc
  have h := foldl_stepPair_spec anc ic (allPairs groups desc) x y
  rw [visited_iff] at h
  have hnn := mica_nonneg anc ic x y
  refine ⟨?_, ?_, get_comm _ _ _, ?_, ?_⟩
  · intro hb
    rcases h with ⟨h1, _⟩ | ⟨h1, h2⟩
    · exact h1
    · rw [h1, h2 hb]
  · intro hb
    rcases h with ⟨_, h2⟩ | ⟨h1, _⟩
    · exact absurd h2 hb
    · exact h1
  · rcases h with ⟨h1, _⟩ | ⟨h1, _⟩ <;> omega
  · rcases h with ⟨h1, _⟩ | ⟨h1, _⟩ <;> omega

end Hpv.Resnik

namespace Hpv.Resnik
open Hpv.Sim

/-- every stored value is positive -/
def AllPos (s : State) : Prop := ∀ o i v, (o, i, v) ∈ items s → 0 < v

theorem allPos_set (s s' : State) (a b : Str) (w : Int) (hwf : WF s) (hpos : AllPos s) (hw : 0 < w)
    (h : Sim.set s a b w = .ok s') : AllPos s' := by
  have hwf' := wf_set s s' a b w hwf h
  intro o i v hv
  obtain ⟨hs, hg, _⟩ := (items_spec s' hwf').2 o i v hv
  rw [get_set s s' a b o i w h] at hg
  by_cases hn : norm a b = norm o i
  · simp only [hn, if_true] at hg; omega
  · simp only [hn, if_false] at hg
    have hst : Stored s' o i := by
      obtain ⟨inner, h1, h2⟩ := (mem_items_iff s' hwf' o i v).mp hv
      exact ⟨inner, v, h1, h2⟩
    rcases (stored_set s s' a b w h o i).mp hst with heq | hold
    · exact absurd (by rw [← heq, norm_of_sle o i hs]) hn
    · obtain ⟨inner, v', h1, h2⟩ := hold
      have hmem := (mem_items_iff s hwf o i v').mpr ⟨inner, h1, h2⟩
      obtain ⟨_, hg', _⟩ := (items_spec s hwf).2 o i v' hmem
      have := hpos o i v' hmem
      omega

theorem stepPair_inv (anc : Str → List Str) (ic : Str → Int) (s : State) (p : Str × Str) (hwf : WF s) (hpos : AllPos s) :
    WF (stepPair anc ic s p) ∧ AllPos (stepPair anc ic s p) := by
  unfold stepPair
  simp only
  by_cases hm : mica anc ic p.1 p.2 > 0
  · simp only [hm, if_true]
    split
    · rename_i s' hset
      refine ⟨wf_set _ _ _ _ _ hwf hset, allPos_set _ _ _ _ _ hwf hpos ?_ hset⟩
      omega
    · exact ⟨hwf, hpos⟩
  · simp only [hm, if_false]; exact ⟨hwf, hpos⟩

/-- **Only pairs with positive similarity are stored.** -/
theorem precalc_stored_positive (groups : List Str) (desc anc : Str → List Str) (ic : Str → Int) :
    WF (precalc groups desc anc ic) ∧ AllPos (precalc groups desc anc ic) := by
  unfold precalc
  suffices h : ∀ (P : List (Str × Str)) (s : State), WF s → AllPos s →
      WF (P.foldl (stepPair anc ic) s) ∧ AllPos (P.foldl (stepPair anc ic) s) from
    h _ [] ⟨by simp, by intro p hp; cases hp⟩ (by intro o i v hv; simp [items] at hv)
  intro P
  induction P with
  | nil => intro s h1 h2; exact ⟨h1, h2⟩
  | cons p rest ih =>
    intro s h1 h2
    obtain ⟨h3, h4⟩ := stepPair_inv anc ic s p h1 h2
    exact ih _ h3 h4

end Hpv.Resnik
