import Mathlib.Data.Fintype.Card
import Mathlib.Data.Set.Finite.Basic
import Mathlib.Data.Fintype.Basic
import Mathlib.Data.Finite.Defs
import Mathlib.Order.RelClasses
import Mathlib.Logic.Relation

open Relation

theorem exists_parentless_ancestor {κ : Type} (nodes : List κ) (isA : κ → κ → Prop)
    (hclosed : ∀ a b, isA a b → a ∈ nodes ∧ b ∈ nodes)
    (hacyc : ∀ x, ¬ TransGen isA x x) :
    ∀ v ∈ nodes, ∃ r ∈ nodes, (r = v ∨ TransGen isA v r) ∧ ∀ p, ¬ isA r p := by
  classical
  let S := {x // x ∈ nodes}
  have : Finite S := (List.finite_toSet nodes).to_subtype
  let rel : S → S → Prop := fun a b => TransGen isA b.1 a.1
  have : IsTrans S rel := ⟨fun a b c hab hbc => TransGen.trans hbc hab⟩
  have : Std.Irrefl rel := ⟨fun a h => hacyc a.1 h⟩
  have wf : WellFounded rel := Finite.wellFounded_of_trans_of_irrefl rel
  intro v hv
  have key : ∀ s : S, ∃ r ∈ nodes, (r = s.1 ∨ TransGen isA s.1 r) ∧ ∀ p, ¬ isA r p := by
    intro s
    induction s using wf.induction with
    | _ s ih =>
      by_cases hp : ∃ p, isA s.1 p
      · obtain ⟨p, hsp⟩ := hp
        have hpn := (hclosed _ _ hsp).2
        obtain ⟨r, hr, hreach, hnone⟩ := ih ⟨p, hpn⟩ (TransGen.single hsp)
        refine ⟨r, hr, Or.inr ?_, hnone⟩
        rcases hreach with rfl | h
        · exact TransGen.single hsp
        · exact TransGen.head hsp h
      · exact ⟨s.1, s.2, Or.inl rfl, fun p h => hp ⟨p, h⟩⟩
  exact key ⟨v, hv⟩
#print axioms exists_parentless_ancestor
