/- C07, second model: the store as ANY program over file-system primitives.

`Hpv.Store` models the loader the code has today, step by step. This file makes no assumption about the order or number of the
loader's steps: whatever any number of loaders and clearers do is a list of primitive operations on a file system, and the only
thing asked of that list is a discipline that can be CHECKED on an observed trace (`Disciplined`): a cache location is never
created or written in place, and it is the target of a rename only when the source holds, at that moment, exactly what the
remote serves for that key. Under that discipline every prefix of the trace - a crash at any point, a torn last write - leaves
only complete files at cache locations. -/
namespace Hpv.StoreTrace

abbrev Bytes := List Nat

inductive Path
  | cache (k : Nat)     -- the cache location of key `k` (ontology type x release)
  | other (p : Nat)     -- anything else below the store directory (temp files, strays)
  deriving DecidableEq, Repr

abbrev FS := Path → Option Bytes

def upd (fs : FS) (p : Path) (v : Option Bytes) : FS := fun q => if q = p then v else fs q

inductive Op
  | create (p : Path)                 -- `open(p, 'w')`, `mkstemp`: the file exists and is empty
  | append (p : Path) (b : Bytes)     -- a write call (or its torn beginning) reaches the file
  | rename (src dst : Path)           -- `os.replace(src, dst)`: atomic
  | remove (p : Path)                 -- `os.remove`, part of `rmtree`
  | noop                              -- stat, mkdir, fetch, read, close, fsync, open for reading, listdir
  deriving Repr

def step (fs : FS) : Op → FS
  | .create p => upd fs p (some [])
  | .append p b => match fs p with
    | some c => upd fs p (some (c ++ b))
    | none => fs
  | .rename s d => match fs s with
    | some c => upd (upd fs d (some c)) s none
    | none => fs                       -- the call fails, nothing moves
  | .remove p => upd fs p none
  | .noop => fs

def run (fs : FS) (ops : List Op) : FS := ops.foldl step fs

/-- what one operation must respect, given the file system it is applied to -/
def okOp (remote : Nat → Option Bytes) (fs : FS) : Op → Bool
  | .create (.cache _) => false
  | .append (.cache _) _ => false
  | .rename s (.cache k) => match fs s with
    | some c => remote k == some c
    | none => true
  | _ => true

def Disciplined (remote : Nat → Option Bytes) : FS → List Op → Bool
  | _, [] => true
  | fs, op :: ops => okOp remote fs op && Disciplined remote (step fs op) ops

/-- index of the first operation that breaks the discipline -/
def firstBad (remote : Nat → Option Bytes) : FS → List Op → Nat → Option Nat
  | _, [], _ => none
  | fs, op :: ops, i => if okOp remote fs op then firstBad remote (step fs op) ops (i + 1) else some i

/-- every file at a cache location is a complete copy of what the remote serves for its key -/
def Inv (remote : Nat → Option Bytes) (fs : FS) : Prop := ∀ k c, fs (.cache k) = some c → remote k = some c

def emptyFS : FS := fun _ => none

end Hpv.StoreTrace
