/- Prototype: sorted unique node array, bisect lookup, CsrIndexedGraphFactory row assembly. -/
namespace Hpv.Graph

variable {κ : Type} [DecidableEq κ]

structure Ord (κ : Type) where
  lt : κ → κ → Bool

/-- insertion with duplicate drop: the element-wise spec of `np.unique` -/
def ins (o : Ord κ) (x : κ) : List κ → List κ
  | [] => [x]
  | y :: ys => if o.lt x y then x :: y :: ys else if x = y then y :: ys else y :: ins o x ys

def sortDedup (o : Ord κ) (xs : List κ) : List κ := xs.foldr (ins o) []

/-- `bisect.bisect_left` on a sorted array: the number of elements `< x` (they form a prefix). -/
def bisectLeft (o : Ord κ) (a : List κ) (x : κ) : Nat := (a.takeWhile (fun y => o.lt y x)).length

/-- `_index_of_using_binary_search` -/
def indexOf? (o : Ord κ) (a : List κ) (x : κ) : Option Nat :=
  let i := bisectLeft o a x
  -- `idx != len(a) and a[idx] == x` (the index is never beyond `len(a)`)
  match a[i]? with
  | some y => if y = x then some i else none
  | none => none

abbrev Edge (κ : Type) := κ × κ   -- (subject, object): subject is_a object

def endpoints (E : List (Edge κ)) : List κ := E.flatMap (fun e => [e.1, e.2])

def nodesOf (o : Ord κ) (E : List (Edge κ)) : List κ := sortDedup o (endpoints E)

/-- `defaultdict(list)` keyed by `Optional[int]` -/
abbrev Adj (κ : Type) := Option Nat → List (Edge κ)

def Adj.push (d : Adj κ) (k : Option Nat) (e : Edge κ) : Adj κ := fun k' => if k' = k then d k' ++ [e] else d k'

structure AdjState (κ : Type) where
  lastSub : Option κ
  lastIdx : Option Nat
  data : Adj κ

/-- one iteration of `_find_adjacent_edges`, including the last-subject cache -/
def adjStep (o : Ord κ) (nodes : List κ) (st : AdjState κ) (e : Edge κ) : AdjState κ :=
  let st1 : AdjState κ :=
    if st.lastSub = some e.1 then st
    else { st with lastSub := some e.1, lastIdx := indexOf? o nodes e.1 }
  let objIdx := indexOf? o nodes e.2
  { st1 with data := (st1.data.push st1.lastIdx e).push objIdx e }

def findAdjacent (o : Ord κ) (nodes : List κ) (E : List (Edge κ)) : Adj κ :=
  (E.foldl (adjStep o nodes) ⟨none, none, fun _ => []⟩).data

/-- inner loop of `_build_csr_data` for one row: (children, parents) -/
def rowStep (o : Ord κ) (nodes : List κ) (source : κ)
    (acc : List (Option Nat) × List (Option Nat)) (e : Edge κ) : List (Option Nat) × List (Option Nat) :=
  let isChild := decide (source = e.2)
  let target := if isChild then e.1 else e.2
  let idx := indexOf? o nodes target
  if isChild then (acc.1 ++ [idx], acc.2) else (acc.1, acc.2 ++ [idx])

def rowTargets (o : Ord κ) (nodes : List κ) (adj : Adj κ) (rowIdx : Nat) (source : κ) :
    List (Option Nat) × List (Option Nat) :=
  (adj (some rowIdx)).foldl (rowStep o nodes source) ([], [])

end Hpv.Graph
