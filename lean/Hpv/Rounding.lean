/-- Python `round(N / D)` on exact rationals: half to even. -/
def roundHalfEven (N D : Nat) : Nat :=
  let q := N / D
  let r := N % D
  if 2 * r < D then q else if D < 2 * r then q + 1 else if q % 2 = 0 then q else q + 1

theorem roundHalfEven_close (N D : Nat) (hD : 0 < D) :
    2 * (roundHalfEven N D * D) ≤ 2 * N + D ∧ 2 * N ≤ 2 * (roundHalfEven N D * D) + D := by
  unfold roundHalfEven
  have h1 : D * (N / D) + N % D = N := Nat.div_add_mod N D
  have h2 : N % D < D := Nat.mod_lt N hD
  simp only []
  generalize N / D = q at *
  generalize N % D = r at *
  have e1 : q * D = D * q := Nat.mul_comm _ _
  have e2 : (q + 1) * D = D * q + D := by rw [Nat.add_mul, Nat.one_mul, Nat.mul_comm]
  split
  · rw [e1]; omega
  · split
    · rw [e2]; omega
    · split
      · rw [e1]; omega
      · rw [e2]; omega

/-- frequency term: numerator = round(mid * c) with mid = (lo + hi)/200 given in percent units -/
theorem freq_in_range (lo hi c : Nat) (hle : lo ≤ hi) :
    2 * (lo * c) ≤ 2 * (roundHalfEven ((lo + hi) * c) 200 * 100) + 100 ∧
    2 * (roundHalfEven ((lo + hi) * c) 200 * 100) ≤ 2 * (hi * c) + 100 := by
  have h := roundHalfEven_close ((lo + hi) * c) 200 (by omega)
  have e : (lo + hi) * c = lo * c + hi * c := Nat.add_mul _ _ _
  have hm : lo * c ≤ hi * c := Nat.mul_le_mul_right c hle
  generalize roundHalfEven ((lo + hi) * c) 200 = m at *
  omega

def table : List (Nat × Nat) := [(0,0),(1,4),(5,29),(30,79),(80,99),(100,100)]
theorem table_ok : ∀ p ∈ table, p.1 ≤ p.2 ∧ p.2 ≤ 100 := by decide
#print axioms freq_in_range
#eval [roundHalfEven 17 2, roundHalfEven 5 2, roundHalfEven 7 2, roundHalfEven (17*50) 100]
