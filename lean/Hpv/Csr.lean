/- Prototype: CsrMatrixBuilder.__setitem__ on flat arrays commutes with row-wise sorted insert. -/
namespace Hpv.Csr

structure Builder where
  indptr : List Nat
  col : List Nat
  dat : List Int
deriving Repr, DecidableEq

/-- The scan loop of `__setitem__` over the *whole* column deque. Returns (col_idx_adjustment, value_will_be_updated). -/
def scan : List Nat → Nat → Nat → Nat → Nat → Nat → Nat × Bool
  | [], _, _, _, _, adj => (adj, false)
  | c :: rest, i, start, stop, q, adj =>
    if start > i then scan rest (i+1) start stop q adj
    else if i ≥ stop then (adj, false)
    else if c < q then scan rest (i+1) start stop q (adj+1)
    else if c = q then (adj, true)
    else (adj, false)

/-- `mask = arange(len) > qrow; row[mask] += 1` -/
def bump : Nat → List Nat → List Nat
  | _, [] => []
  | 0, p :: ps => p :: ps.map (· + 1)
  | r + 1, p :: ps => p :: bump r ps

def setItem (b : Builder) (r c : Nat) (v : Int) : Builder :=
  let start := b.indptr.getD r 0
  let stop := b.indptr.getD (r+1) 0
  let res := scan b.col 0 start stop c 0
  let idx := start + res.1
  if res.2 then { b with dat := b.dat.set idx v }
  else { indptr := bump r b.indptr, col := b.col.insertIdx idx c, dat := b.dat.insertIdx idx v }

/-! Row-level view -/

abbrev Row := List (Nat × Int)

def psums : Nat → List Nat → List Nat
  | acc, [] => [acc]
  | acc, l :: ls => acc :: psums (acc + l) ls

def ofRows (rows : List Row) : Builder :=
  { indptr := psums 0 (rows.map List.length),
    col := rows.flatten.map Prod.fst,
    dat := rows.flatten.map Prod.snd }

def insRow (c : Nat) (v : Int) : Row → Row
  | [] => [(c, v)]
  | (c', v') :: rest =>
    if c' < c then (c', v') :: insRow c v rest
    else if c' = c then (c, v) :: rest
    else (c, v) :: (c', v') :: rest

/-- What the scan computes, on a single row. -/
def scanRow (q : Nat) : List Nat → Nat × Bool
  | [] => (0, false)
  | c :: rest => if c < q then ((scanRow q rest).1 + 1, (scanRow q rest).2) else if c = q then (0, true) else (0, false)

end Hpv.Csr

namespace Hpv.Csr
/-- `StaticCsrArray`: `indptr` + `data`; `outgoing_nodes(row) = data[indptr[row] : indptr[row+1]]` -/
structure Static where
  indptr : List Nat
  data : List Nat

def Static.row (c : Static) (i : Nat) : List Nat :=
  (c.data.drop (c.indptr.getD i 0)).take (c.indptr.getD (i + 1) 0 - c.indptr.getD i 0)

/-- what `_build_csr_data` produces from the per-row target lists -/
def Static.ofRows (rows : List (List Nat)) : Static := ⟨psums 0 (rows.map List.length), rows.flatten⟩
end Hpv.Csr
