/-
Prototype: worklist traversal over a successor function, generic in the pop discipline.
-/
namespace Hpv

/-- Push the not-yet-seen successors (in row order) to the end of the buffer. -/
def pushNew : List Nat → List Nat → List Nat → List Nat × List Nat
  | [], seen, buf => (seen, buf)
  | i :: rest, seen, buf =>
    if i ∈ seen then pushNew rest seen buf else pushNew rest (i :: seen) (buf ++ [i])

/-- A pop discipline: where the worklist takes the next element from. -/
structure Pop where
  pop : List Nat → Option (Nat × List Nat)

def popStack : Pop := ⟨fun b => match b.getLast? with
  | none => none
  | some x => some (x, b.dropLast)⟩

def popQueue : Pop := ⟨fun b => match b with
  | [] => none
  | x :: r => some (x, r)⟩

def loop (P : Pop) (succ : Nat → List Nat) : Nat → List Nat → List Nat → List Nat → Option (List Nat)
  | 0, _, _, _ => none
  | fuel + 1, seen, buf, out =>
    match P.pop buf with
    | none => some out
    | some (cur, buf') =>
      let sb := pushNew (succ cur) seen buf'
      loop P succ fuel sb.1 sb.2 (out ++ [cur])

def dedupInto : List Nat → List Nat → List Nat
  | [], seen => seen
  | i :: r, seen => if i ∈ seen then dedupInto r seen else dedupInto r (i :: seen)

def traverse (P : Pop) (succ : Nat → List Nat) (n : Nat) (src : Nat) : Option (List Nat) :=
  let init := succ src
  loop P succ (init.length + n + 1) (dedupInto init []) init []

end Hpv
