/- Prototype: SimilarityContainer as a history machine. -/
namespace Hpv.Sim

abbrev Str := List Nat

/-- Python `a <= b` on str (code-point lexicographic) -/
def sle : Str → Str → Bool
  | [], _ => true
  | _ :: _, [] => false
  | a :: as, b :: bs => if a < b then true else if a = b then sle as bs else false

/-- nested dict `outer -> inner -> value`; values are integers standing for exactly representable floats -/
abbrev State := List (Str × List (Str × Int))

def lookup {β} (k : Str) : List (Str × β) → Option β
  | [] => none
  | (k', v) :: rest => if k' = k then some v else lookup k rest

/-- `d[k] = v` keeping insertion order, replacing in place -/
def upsert {β} (k : Str) (v : β) : List (Str × β) → List (Str × β)
  | [] => [(k, v)]
  | (k', v') :: rest => if k' = k then (k, v) :: rest else (k', v') :: upsert k v rest

def norm (a b : Str) : Str × Str := if sle a b then (a, b) else (b, a)

def get (s : State) (a b : Str) : Int :=
  let (o, i) := norm a b
  match lookup o s with
  | some inner => if inner.isEmpty then 0 else (lookup i inner).getD 0     -- `if outer:` then `outer.get(i, 0.)`
  | none => 0

inductive Err | valueError deriving DecidableEq, Repr

def set (s : State) (a b : Str) (v : Int) : Except Err State :=
  if v < 0 then .error .valueError
  else
    let (o, i) := norm a b
    let inner := (lookup o s).getD []          -- defaultdict creates the inner dict on access
    .ok (upsert o (upsert i v inner) s)

def len (s : State) : Nat := (s.map (fun p => p.2.length)).sum

inductive Op | set (a b : Str) (v : Int) | get (a b : Str) | len

def stepOp (s : State) : Op → State
  | .set a b v => match set s a b v with | .ok s' => s' | .error _ => s
  | .get _ _ => s
  | .len => s

def run (ops : List Op) : State := ops.foldl stepOp []

/-- the abstract symmetric map: last accepted write on the unordered pair -/
def spec : List Op → Str → Str → Int
  | [], _, _ => 0
  | op :: rest, a, b =>
    -- `rest` is the *earlier* history when the list is given most-recent-first
    match op with
    | .set x y v => if v < 0 then spec rest a b else if norm x y = norm a b then v else spec rest a b
    | _ => spec rest a b

end Hpv.Sim
