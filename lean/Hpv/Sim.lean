/- Prototype: SimilarityContainer as a history machine. -/
namespace Hpv.Sim

abbrev Str := List Nat

/-- Python `a <= b` on str (code-point lexicographic) -/
def sle : Str → Str → Bool
  | [], _ => true
  | _ :: _, [] => false
  | a :: as, b :: bs => if a < b then true else if a = b then sle as bs else false

/-- nested dict `outer -> inner -> value`; values are integers standing for exactly representable floats -/
abbrev State := List (Str × List (Str × Int))

def lookup {β} (k : Str) : List (Str × β) → Option β
  | [] => none
  | (k', v) :: rest => if k' = k then some v else lookup k rest

/-- `d[k] = v` keeping insertion order, replacing in place -/
def upsert {β} (k : Str) (v : β) : List (Str × β) → List (Str × β)
  | [] => [(k, v)]
  | (k', v') :: rest => if k' = k then (k, v) :: rest else (k', v') :: upsert k v rest

def norm (a b : Str) : Str × Str := if sle a b then (a, b) else (b, a)

def get (s : State) (a b : Str) : Int :=
  let (o, i) := norm a b
  match lookup o s with
  | some inner => if inner.isEmpty then 0 else (lookup i inner).getD 0     -- `if outer:` then `outer.get(i, 0.)`
  | none => 0

inductive Err | valueError deriving DecidableEq, Repr

def set (s : State) (a b : Str) (v : Int) : Except Err State :=
  if v < 0 then .error .valueError
  else
    let (o, i) := norm a b
    let inner := (lookup o s).getD []          -- defaultdict creates the inner dict on access
    .ok (upsert o (upsert i v inner) s)

def len (s : State) : Nat := (s.map (fun p => p.2.length)).sum

inductive Op | set (a b : Str) (v : Int) | get (a b : Str) | len

def stepOp (s : State) : Op → State
  | .set a b v => match set s a b v with | .ok s' => s' | .error _ => s
  | .get _ _ => s
  | .len => s

def run (ops : List Op) : State := ops.foldl stepOp []

/-- the abstract symmetric map: last accepted write on the unordered pair -/
def spec : List Op → Str → Str → Int
  | [], _, _ => 0
  | op :: rest, a, b =>
    -- `rest` is the *earlier* history when the list is given most-recent-first
    match op with
    | .set x y v => if v < 0 then spec rest a b else if norm x y = norm a b then v else spec rest a b
    | _ => spec rest a b

end Hpv.Sim

namespace Hpv.Sim

/-- `items()`: every stored (outer, inner, value) triple, in dict order -/
def items (s : State) : List (Str × Str × Int) := s.flatMap (fun p => p.2.map (fun q => (p.1, q.1, q.2)))

/-! ### metadata codec (`MetadataAware.metadata_to_str` / `metadata_from_str`) -/

/-- Python `s.split(c)` for a single separator character -/
def splitOn (c : Nat) : Str → List Str
  | [] => [[]]
  | x :: xs =>
    if x = c then [] :: splitOn c xs
    else match splitOn c xs with
      | [] => [[x]]
      | p :: ps => (x :: p) :: ps

/-- Python `c.join(parts)` -/
def joinWith (c : Nat) : List Str → Str
  | [] => []
  | [p] => p
  | p :: q :: ps => p ++ c :: joinWith c (q :: ps)

def semicolon : Nat := 59
def equals : Nat := 61

abbrev Meta := List (Str × Str)

def hasForbidden (forb : List Nat) (s : Str) : Bool := s.any (fun c => forb.contains c)

/-- `metadata_to_str`; `forb` is the set of forbidden characters as found in the source -/
def encodeMeta (forb : List Nat) (m : Meta) : Except Err Str :=
  if m.any (fun kv => hasForbidden forb kv.1 || hasForbidden forb kv.2) then .error .valueError
  else .ok (joinWith semicolon (m.map (fun kv => kv.1 ++ equals :: kv.2)))

def decodeItem (d : Except Err Meta) (item : Str) : Except Err Meta :=
  match d, splitOn equals item with
  | .ok d', [k, v] => .ok (upsert k v d')          -- `k, v = item.split('=')`; `data[k] = v`
  | .error e, _ => .error e
  | _, _ => .error .valueError                      -- unpacking fails

/-- `metadata_from_str` -/
def decodeMeta (s : Str) : Except Err Meta := (splitOn semicolon s).foldl decodeItem (.ok [])

/-- what the reader needs from the table of forbidden characters: both separators and both line breaks -/
def TableOk (forb : List Nat) : Bool := forb.contains semicolon && forb.contains equals && forb.contains 10 && forb.contains 13

/-! ### file framing of `to_csv` / `from_csv`

`to_csv` writes a title comment, the metadata comment and then whatever `csv.DictWriter` produces (the header row
`term_a,term_b,ic_mica` first); `from_csv` iterates over the PHYSICAL lines of the text (terminators included), keeps the
leading lines that begin with `#` as header and hands every other line to `csv.DictReader`. A physical line is never
empty (it holds at least its terminator, or it is the unterminated non-empty tail of the text). -/

def hash : Nat := 35
def lf : Nat := 10
def cr : Nat := 13

/-- `row[0] == '#'` -/
def isComment : Str → Bool
  | c :: _ => c == hash
  | [] => false

/-- the physical lines of the text written by `to_csv`; `body` = the lines written through the csv writer -/
def frame (title metaLine : Str) (body : List Str) : List Str :=
  (hash :: title ++ [lf]) :: (hash :: metaLine ++ [lf]) :: body

/-- `filter(store_header, handle)`: `(header, lines passed on to the csv reader)`; the flag is `in_header` -/
def unframeAux : Bool → List Str → List Str × List Str
  | _, [] => ([], [])
  | true, l :: ls =>
    if isComment l then ((unframeAux true ls).1.cons l, (unframeAux true ls).2)
    else ((unframeAux false ls).1, l :: (unframeAux false ls).2)
  | false, l :: ls => ((unframeAux false ls).1, l :: (unframeAux false ls).2)

def unframe (ls : List Str) : List Str × List Str := unframeAux true ls

/-- Python `s.rstrip('\r\n')` -/
def rstripNl (s : Str) : Str := (s.reverse.dropWhile (fun c => c == lf || c == cr)).reverse

/-- `SimilarityContainer._parse_meta` -/
def parseMeta (header : List Str) : Except Err Meta :=
  match header with
  | _ :: h1 :: _ => if h1.length < 2 then .ok [] else decodeMeta (rstripNl (h1.drop 1))
  | _ => .ok []

/-- the key under which `to_csv` stamps the time of writing: `created` -/
def createdKey : Str := [99, 114, 101, 97, 116, 101, 100]

end Hpv.Sim
