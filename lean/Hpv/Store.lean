/- Prototype: OntologyStore cache protocol (atomic-rename variant) as a small-step system. -/
namespace Hpv.Store

inductive Ty | hpo | maxo | mondo deriving DecidableEq, Repr

abbrev Bytes := List Nat

structure Key where
  ty : Ty
  rel : Nat
deriving DecidableEq, Repr

inductive Path
  | cache (k : Key)
  | tmp (ty : Ty) (owner : Nat)
  | foreign (ty : Option Ty) (name : Nat)
deriving DecidableEq, Repr

def Path.under (p : Path) (t : Ty) : Bool :=
  match p with
  | .cache k => k.ty == t
  | .tmp ty _ => ty == t
  | .foreign (some ty) _ => ty == t
  | .foreign none _ => false

inductive PC
  | start (ty : Ty) (rel : Option Nat)
  | resolved (k : Key)
  | checked (k : Key)
  | dirMade (k : Key)
  | fetched (k : Key) (resp : Bytes)
  | haveBytes (k : Key) (b : Bytes)
  | tmpOpen (k : Key) (b : Bytes)
  | tmpClosed (k : Key)
  | hit (k : Key)
  | loaded (k : Key) (content : Bytes)
  | failed
  | dead
deriving DecidableEq, Repr

inductive Choice | ok | fail | failAfter (n : Nat) | die deriving DecidableEq, Repr

inductive Ev
  | isfile (t : Nat) (k : Key) (present : Bool)
  | fetch (t : Nat) (k : Key)
deriving DecidableEq, Repr

structure World where
  files : Path → Option Bytes
  dirs : Ty → Bool
  remote : Key → Option Bytes
  tags : Ty → List Nat
  pcs : Nat → PC
  log : List Ev

def upd {α β} [DecidableEq α] (f : α → β) (a : α) (b : β) : α → β := fun x => if x = a then b else f x

def maxTag : List Nat → Option Nat
  | [] => none
  | x :: xs => some (xs.foldl max x)

def World.goto (w : World) (t : Nat) (pc : PC) : World := { w with pcs := upd w.pcs t pc }

/-- One step of loader thread `t` under fault choice `c`. -/
def stepLoader (w : World) (t : Nat) (c : Choice) : World :=
  let go (pc : PC) (w : World) : World := w.goto t pc
  match c with
  | .die => go .dead w
  | _ =>
  match w.pcs t with
  | .start ty none =>
    match c with
    | .ok => match maxTag (w.tags ty) with
      | some r => go (.resolved ⟨ty, r⟩) w
      | none => go .failed w
    | _ => go .failed w
  | .start ty (some r) => go (.resolved ⟨ty, r⟩) w
  | .resolved k =>
    let present := (w.files (.cache k)).isSome
    let w := { w with log := w.log ++ [.isfile t k present] }
    if present then go (.hit k) w else go (.checked k) w
  | .checked k => go (.dirMade k) { w with dirs := upd w.dirs k.ty true }
  | .dirMade k =>
    match c with
    | .ok =>
      let w := { w with log := w.log ++ [.fetch t k] }
      match w.remote k with
      | some b => go (.fetched k b) w
      | none => go .failed w
    | _ => go .failed { w with log := w.log ++ [.fetch t k] }
  | .fetched k b =>
    match c with
    | .ok => go (.haveBytes k b) w
    | _ => go .failed w
  | .haveBytes k b =>
    if w.dirs k.ty then go (.tmpOpen k b) { w with files := upd w.files (.tmp k.ty t) (some []) }
    else go .failed w
  | .tmpOpen k b =>
    match c with
    | .ok => go (.tmpClosed k) { w with files := upd w.files (.tmp k.ty t) (some b) }
    | .failAfter n => go .failed { w with files := upd w.files (.tmp k.ty t) (some (b.take n)) }
    | _ => go .failed w
  | .tmpClosed k =>
    match w.files (.tmp k.ty t) with
    | some content =>
      go (.hit k) { w with files := upd (upd w.files (.cache k) (some content)) (.tmp k.ty t) none }
    | none => go .failed w
  | .hit k =>
    match w.files (.cache k) with
    | some content => go (.loaded k content) w
    | none => go .failed w
  | .loaded _ _ => w
  | .failed => w
  | .dead => w

inductive Action
  | loader (t : Nat) (c : Choice)
  | spawn (t : Nat) (ty : Ty) (rel : Option Nat)      -- thread t starts a (new) load
  | clearTy (ty : Ty)
  | clearAll
deriving Repr

def step (w : World) : Action → World
  | .loader t c => stepLoader w t c
  | .spawn t ty rel =>
    match w.pcs t with
    | .loaded _ _ | .failed | .dead => { w with pcs := upd w.pcs t (.start ty rel) }
    | _ => w
  | .clearTy ty => { w with files := fun p => if p.under ty then none else w.files p, dirs := upd w.dirs ty false }
  | .clearAll => { w with files := fun _ => none, dirs := fun _ => false }

def run (w : World) (as : List Action) : World := as.foldl step w

end Hpv.Store
