/-
`OntologyStore` cache protocol (src/hpotk/store/_api.py) as a small-step transition system at I/O-boundary granularity:
any number of loader threads / processes, fault choices at every boundary, kills, clears.  The loader steps follow
`_impl_load_ontology` as it is in the working tree (unique temp file in the target directory, `os.replace`, clean-up on error).
Core Lean only.
-/
namespace Hpv.Store

inductive Ty | hpo | maxo | mondo deriving DecidableEq, Repr

abbrev Bytes := List Nat

structure Key where
  ty : Ty
  rel : Nat
deriving DecidableEq, Repr

inductive Path
  | cache (k : Key)                      -- `<store>/<TY>/<ty>.<release>.json`
  | tmp (ty : Ty) (owner : Nat)          -- `tempfile.mkstemp(dir=<store>/<TY>)`: unique per owner
  | foreign (ty : Option Ty) (name : Nat) -- anything else below the store dir
deriving DecidableEq, Repr

def Path.under (p : Path) (t : Ty) : Bool :=
  match p with
  | .cache k => k.ty == t
  | .tmp ty _ => ty == t
  | .foreign (some ty) _ => ty == t
  | .foreign none _ => false

inductive PC
  | idle
  | start (ty : Ty) (rel : Option Nat)
  | resolved (k : Key)
  | checked (k : Key)                    -- `os.path.isfile` said False
  | dirMade (k : Key)                    -- `os.makedirs(..., exist_ok=True)`
  | tmpMade (k : Key)                    -- `tempfile.mkstemp` created the (empty) temp file
  | fetched (k : Key) (resp : Bytes)     -- `fetch_ontology` returned a response
  | haveBytes (k : Key) (b : Bytes)      -- `response.read()` returned
  | written (k : Key)                    -- temp file written and closed
  | hit (k : Key)                        -- the cache path holds the file (found, or just renamed into place)
  | loaded (k : Key) (content : Bytes)   -- `loader_func(fpath)` read `content`
  | cleanup (k : Key)                    -- `except BaseException:` about to remove the temp file
  | failed
  | dead
deriving DecidableEq, Repr

inductive Choice | ok | fail | failAfter (n : Nat) | die deriving DecidableEq, Repr

inductive Ev
  | isfile (t : Nat) (k : Key) (present : Bool)
  | fetch (t : Nat) (k : Key)
  | stored (t : Nat) (k : Key)
deriving DecidableEq, Repr

structure World where
  files : Path → Option Bytes
  dirs : Ty → Bool
  remote : Key → Option Bytes
  tags : Ty → List Nat
  pcs : Nat → PC
  log : List Ev

def upd {α β} [DecidableEq α] (f : α → β) (a : α) (b : β) : α → β := fun x => if x = a then b else f x

/-- `max(tags, default=None)` -/
def maxTag : List Nat → Option Nat
  | [] => none
  | x :: xs => some (xs.foldl max x)

def World.goto (w : World) (t : Nat) (pc : PC) : World := { w with pcs := upd w.pcs t pc }

/-- One step of loader `t` under fault choice `c`. -/
def stepLoader (w : World) (t : Nat) (c : Choice) : World :=
  let go (pc : PC) (w : World) : World := w.goto t pc
  match c with
  | .die =>
    match w.pcs t with
    | .idle => w
    | _ => go .dead w
  | _ =>
  match w.pcs t with
  | .idle => w
  | .start ty none =>
    match c with
    | .ok => match maxTag (w.tags ty) with
      | some r => go (.resolved ⟨ty, r⟩) w
      | none => go .failed w                    -- ValueError: unable to retrieve the latest tag
    | _ => go .failed w                         -- the release service raised
  | .start ty (some r) => go (.resolved ⟨ty, r⟩) w
  | .resolved k =>
    let present := (w.files (.cache k)).isSome
    let w := { w with log := w.log ++ [.isfile t k present] }
    if present then go (.hit k) w else go (.checked k) w
  | .checked k => go (.dirMade k) { w with dirs := upd w.dirs k.ty true }
  | .dirMade k =>
    if w.dirs k.ty then go (.tmpMade k) { w with files := upd w.files (.tmp k.ty t) (some []) }
    else go .failed w                           -- the directory vanished (concurrent clear)
  | .tmpMade k =>
    let w := { w with log := w.log ++ [.fetch t k] }
    match c with
    | .ok =>
      match w.remote k with
      | some b => go (.fetched k b) w
      | none => go (.cleanup k) w               -- unknown release: the remote service raises
    | _ => go (.cleanup k) w                    -- fetch raises
  | .fetched k b =>
    match c with
    | .ok => go (.haveBytes k b) w
    | _ => go (.cleanup k) w                    -- `response.read()` raises
  | .haveBytes k b =>
    let put (content : Bytes) (w : World) : World :=
      if (w.files (.tmp k.ty t)).isSome then { w with files := upd w.files (.tmp k.ty t) (some content) } else w
    match c with
    | .ok => go (.written k) (put b w)
    | .failAfter n => go (.cleanup k) (put (b.take n) w)     -- the write fails after `n` bytes
    | _ => go (.cleanup k) w
  | .written k =>
    match w.files (.tmp k.ty t) with
    | some content =>                            -- `os.replace(tmp, fpath)`: atomic
      go (.hit k) { w with files := upd (upd w.files (.cache k) (some content)) (.tmp k.ty t) none,
                           log := w.log ++ [.stored t k] }
    | none => go (.cleanup k) w                  -- the temp file vanished (concurrent clear)
  | .hit k =>
    match w.files (.cache k) with
    | some content => go (.loaded k content) w
    | none => go .failed w                       -- cleared in between
  | .cleanup k => go .failed { w with files := upd w.files (.tmp k.ty t) none }
  | .loaded _ _ => w
  | .failed => w
  | .dead => w

inductive Action
  | loader (t : Nat) (c : Choice)
  | spawn (t : Nat) (ty : Ty) (rel : Option Nat)      -- thread / process `t` starts a (new) load
  | clearTy (ty : Ty)
  | clearAll
  | stray (ty : Option Ty) (name : Nat) (b : Bytes)   -- somebody else drops a file below the store dir (top level or a type dir)
deriving Repr

def step (w : World) : Action → World
  | .loader t c => stepLoader w t c
  | .spawn t ty rel =>
    match w.pcs t with
    | .idle | .loaded _ _ | .failed => { w with pcs := upd w.pcs t (.start ty rel) }
    | _ => w
  | .clearTy ty => { w with files := fun p => if p.under ty then none else w.files p, dirs := upd w.dirs ty false }
  | .clearAll => { w with files := fun _ => none, dirs := fun _ => false }
  | .stray ty name b =>
    { w with files := upd w.files (.foreign ty name) (some b),
             dirs := match ty with | some t => upd w.dirs t true | none => w.dirs }

def run (w : World) (as : List Action) : World := as.foldl step w

/-- an empty store in front of a remote -/
def World.init (remote : Key → Option Bytes) (tags : Ty → List Nat) : World :=
  ⟨fun _ => none, fun _ => false, remote, tags, fun _ => .idle, []⟩

/-- a load that nothing disturbs: spawn, then enough fault-free steps -/
def healthyLoad (t : Nat) (ty : Ty) (rel : Option Nat) : List Action :=
  .spawn t ty rel :: List.replicate 10 (.loader t .ok)

end Hpv.Store
