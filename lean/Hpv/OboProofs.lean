import Hpv.Obo

namespace Hpv.Obo

/-- a node that survives `extract_terms`, with its dictionary entry and its term -/
def keptOf (L : Loader) (P : List String) (n : NodeJ) : Option ((String × (String × String)) × Term) :=
  match retained P n with
  | none => none
  | some (w, tid) =>
    match mkTerm L tid n with
    | .ok t => some ((w, tid), t)
    | .error _ => none

/-- no retained node makes the term factory raise (alternate ids / xrefs are CURIEs, definitions have text) -/
def FactoryOk (L : Loader) (P : List String) (nodes : List NodeJ) : Prop :=
  ∀ n ∈ nodes, ∀ w tid, retained P n = some (w, tid) → ∃ t, mkTerm L tid n = .ok t

theorem extractTerms_spec (L : Loader) (P : List String) (nodes : List NodeJ) (hok : FactoryOk L P nodes) :
    ∃ ex, extractTerms L P nodes = .ok ex ∧
      ex.curieToTerm = (nodes.filterMap (keptOf L P)).map (·.1) ∧ ex.terms = (nodes.filterMap (keptOf L P)).map (·.2) := by
  unfold extractTerms
  suffices h : ∀ (a : Extract), ∃ ex, nodes.foldl (extractStep L P) (.ok a) = .ok ex ∧
      ex.curieToTerm = a.curieToTerm ++ (nodes.filterMap (keptOf L P)).map (·.1) ∧
      ex.terms = a.terms ++ (nodes.filterMap (keptOf L P)).map (·.2) by
    obtain ⟨ex, h1, h2, h3⟩ := h ⟨[], []⟩
    exact ⟨ex, h1, by simpa using h2, by simpa using h3⟩
  induction nodes with
  | nil => intro a; exact ⟨a, rfl, by simp, by simp⟩
  | cons n rest ih =>
    intro a
    have hok' : FactoryOk L P rest := fun m hm => hok m (List.mem_cons_of_mem _ hm)
    simp only [List.foldl_cons, extractStep]
    cases hr : retained P n with
    | none =>
      obtain ⟨ex, h1, h2, h3⟩ := ih hok' a
      refine ⟨ex, h1, ?_, ?_⟩
      · rw [h2]; simp [List.filterMap_cons, keptOf, hr]
      · rw [h3]; simp [List.filterMap_cons, keptOf, hr]
    | some p =>
      obtain ⟨w, tid⟩ := p
      obtain ⟨t, ht⟩ := hok n List.mem_cons_self w tid hr
      simp only [ht]
      obtain ⟨ex, h1, h2, h3⟩ := ih hok' ⟨a.curieToTerm ++ [(w, tid)], a.terms ++ [t]⟩
      refine ⟨ex, h1, ?_, ?_⟩
      · rw [h2]; simp [List.filterMap_cons, keptOf, hr, ht]
      · rw [h3]; simp [List.filterMap_cons, keptOf, hr, ht]

/-- what both factories put into every term -/
theorem mkTerm_core (L : Loader) (tid : String × String) (n : NodeJ) (t : Term) (h : mkTerm L tid n = .ok t) :
    t.id = tid ∧ t.name = n.lbl.getD "" ∧ t.obsolete = isDeprecated n.mta ∧ altIds n.mta = some t.alts := by
  unfold mkTerm at h
  cases ha : altIds n.mta with
  | none => simp [ha] at h
  | some alts =>
    simp only [ha] at h
    cases L with
    | minimal =>
      simp only at h
      injection h with h; subst h
      exact ⟨rfl, rfl, rfl, rfl⟩
    | full =>
      cases hm : n.mta with
      | none =>
        simp only [hm] at h
        injection h with h; subst h
        refine ⟨rfl, rfl, rfl, ?_⟩
        rw [hm] at ha
        simp only [altIds] at ha
        injection ha with ha
        simp [← ha]
      | some mj =>
        simp only [hm] at h
        split at h
        · injection h with h; subst h
          exact ⟨rfl, rfl, by rw [← hm], rfl⟩
        · cases h
        · cases h

/-- the part of a term that the minimal and the full loader share -/
def Term.core (t : Term) : (String × String) × String × List (String × String) × Bool := (t.id, t.name, t.alts, t.obsolete)

theorem min_full_term (tid : String × String) (n : NodeJ) (t1 t2 : Term)
    (h1 : mkTerm .minimal tid n = .ok t1) (h2 : mkTerm .full tid n = .ok t2) : t1.core = t2.core := by
  obtain ⟨a1, a2, a3, a4⟩ := mkTerm_core _ tid n t1 h1
  obtain ⟨b1, b2, b3, b4⟩ := mkTerm_core _ tid n t2 h2
  unfold Term.core
  rw [a1, a2, a3, b1, b2, b3]
  rw [a4] at b4
  injection b4 with b4
  rw [b4]

theorem lookupLast_of_nodup (d : List (String × (String × String))) (hnd : (d.map (·.1)).Nodup) (k : String)
    (v : String × String) : lookupLast d k = some v ↔ (k, v) ∈ d := by
  unfold lookupLast
  induction d with
  | nil => simp
  | cons p rest ih =>
    simp only [List.map_cons, List.nodup_cons] at hnd
    simp only [List.reverse_cons, List.find?_append, List.find?_cons, List.find?_nil]
    by_cases hp : p.1 = k
    · have hnone : rest.reverse.find? (fun q => decide (q.1 = k)) = none := by
        rw [List.find?_eq_none]
        intro x hx hxk
        simp only [decide_eq_true_eq] at hxk
        apply hnd.1
        rw [hp, ← hxk]
        exact List.mem_map.mpr ⟨x, List.mem_reverse.mp hx, rfl⟩
      simp only [hnone, hp, decide_true, Option.none_or, Option.map_some, Option.some.injEq, List.mem_cons]
      constructor
      · intro h; left; rw [← h, ← hp]
      · rintro (h | h)
        · rw [← h]
        · exfalso; apply hnd.1; rw [hp]; exact List.mem_map.mpr ⟨(k, v), h, rfl⟩
    · simp only [hp, decide_false, Option.or_none, List.mem_cons]
      rw [ih hnd.2]
      constructor
      · intro h; exact Or.inr h
      · rintro (h | h)
        · exact absurd (by rw [← h]) hp
        · exact h

/-- **Hierarchy**: an edge is produced exactly for the `is_a` edges of the document whose two endpoints resolve to
retained nodes. -/
theorem mem_createEdgeList (d : List (String × (String × String))) (edges : List EdgeJ)
    (e : (String × String) × (String × String)) :
    e ∈ createEdgeList d edges ↔ ∃ ej ∈ edges, ej.pred = "is_a" ∧
      ∃ sc oc, purlCurie ej.sub = some sc ∧ lookupLast d sc = some e.1 ∧
               purlCurie ej.obj = some oc ∧ lookupLast d oc = some e.2 := by
  unfold createEdgeList
  simp only [List.mem_filterMap]
  constructor
  · rintro ⟨ej, hej, h⟩
    refine ⟨ej, hej, ?_⟩
    unfold edgeOf at h
    by_cases hp : ej.pred ≠ "is_a"
    · simp [hp] at h
    · simp only [hp, if_false] at h
      cases h1 : purlCurie ej.sub with
      | none => simp [h1] at h
      | some sc =>
        simp only [h1] at h
        cases h2 : lookupLast d sc with
        | none => simp [h2] at h
        | some src =>
          simp only [h2] at h
          cases h3 : purlCurie ej.obj with
          | none => simp [h3] at h
          | some oc =>
            simp only [h3] at h
            cases h4 : lookupLast d oc with
            | none => simp [h4] at h
            | some dst =>
              simp only [h4, Option.some.injEq] at h
              subst h
              exact ⟨by simpa using hp, sc, oc, rfl, h2, rfl, h4⟩
  · rintro ⟨ej, hej, hp, sc, oc, h1, h2, h3, h4⟩
    refine ⟨ej, hej, ?_⟩
    simp [edgeOf, hp, h1, h2, h3, h4]

/-- what the FULL term factory adds to the core: definition (text and its cross-references), comment (the document's
comments joined by ", "), synonyms (each parsed: name, scope, type, cross-references) and the term's cross-references,
each exactly as stated in the node's `meta` (absent parts give `none`) -/
theorem mkTerm_full_content (tid : String × String) (n : NodeJ) (t : Term) (h : mkTerm .full tid n = .ok t) :
    match n.mta with
    | none => t.definition = none ∧ t.comment = none ∧ t.synonyms = none ∧ t.xrefs = none
    | some mj =>
      t.definition = mj.definition.bind (fun d => d.val.map (fun v => (v, d.xrefs))) ∧
      t.comment = (if mj.comments.isEmpty then none else some (", ".intercalate mj.comments)) ∧
      t.synonyms = (if mj.synonyms.isEmpty then none else some (mj.synonyms.map parseSynonym)) ∧
      (if mj.xrefs.isEmpty then t.xrefs = none
       else ∃ l, mapM' xrefTid mj.xrefs = some l ∧
            t.xrefs = some l) := by
  unfold mkTerm at h
  cases ha : altIds n.mta with
  | none => simp [ha] at h
  | some alts =>
    simp only [ha] at h
    cases hm : n.mta with
    | none =>
      simp only [hm] at h
      injection h with h; subst h
      exact ⟨rfl, rfl, rfl, rfl⟩
    | some mj =>
      simp only [hm] at h
      -- the definition part
      cases hd : mj.definition with
      | none =>
        simp only [hd] at h
        by_cases hx : mj.xrefs.isEmpty
        · simp only [hx, if_true] at h
          injection h with h; subst h
          simp [hd, hx]
        · simp only [hx] at h
          cases hmm : mapM' xrefTid mj.xrefs with
          | none => simp [hmm] at h
          | some l =>
            simp only [hmm] at h
            injection h with h; subst h
            simp [hd, hx, hmm]
      | some d =>
        simp only [hd] at h
        cases hv : d.val with
        | none => simp [hv] at h
        | some v =>
          simp only [hv] at h
          by_cases hx : mj.xrefs.isEmpty
          · simp only [hx, if_true] at h
            injection h with h; subst h
            simp [hd, hv, hx]
          · simp only [hx] at h
            cases hmm : mapM' xrefTid mj.xrefs with
            | none => simp [hmm] at h
            | some l =>
              simp only [hmm] at h
              injection h with h; subst h
              simp [hd, hv, hx, hmm]

end Hpv.Obo
