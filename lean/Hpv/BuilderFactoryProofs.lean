/-
`CsrGraphFactory` (builder-based) establishes `Represents`: the adjacency matrix it assembles through
`CsrMatrixBuilder.__setitem__` represents the rooted edge list.  A client of C17's refinement theorem.
-/
import Hpv.GraphModelProofs
import Hpv.MatrixProofs

namespace Hpv.GM
open Hpv.Graph Hpv.Csr Hpv.Indexed

variable {κ : Type} [DecidableEq κ]

/-- the two assignments per edge, as the factory issues them -/
def edgeOps (o : Graph.Ord κ) (nodes : List κ) (e : Edge κ) : List (Int × Int × Int) :=
  [(((idx! o nodes e.1 : Nat) : Int), ((idx! o nodes e.2 : Nat) : Int), 1), (((idx! o nodes e.2 : Nat) : Int), ((idx! o nodes e.1 : Nat) : Int), -1)]

theorem builderOps_spec (o : Graph.Ord κ) (hs : o.Strict) (E : List (Edge κ)) (L : List (Edge κ)) (hL : ∀ e ∈ L, e ∈ E) :
    builderOps o (nodesOf o E) L = .ok (L.flatMap (edgeOps o (nodesOf o E))) := by
  induction L with
  | nil => rfl
  | cons e rest ih =>
    have he := hL e List.mem_cons_self
    have h1 := (indexOf?_idx! o hs E e.1 (mem_nodesOf o E e he).1).1
    have h2 := (indexOf?_idx! o hs E e.2 (mem_nodesOf o E e he).2).1
    have ih' := ih (fun x hx => hL x (List.mem_cons_of_mem _ hx))
    unfold builderOps at ih' ⊢
    simp only [List.foldr_cons, ih', h1, h2, List.flatMap_cons, edgeOps, List.cons_append, List.nil_append]

/-- the address of an assignment -/
def addr (op : Int × Int × Int) : Nat × Nat := (op.1.toNat, op.2.1.toNat)

/-- if every valid assignment to cell `(r, c)` carries the value `v`, the dense reading of the cell is `v` when the cell
was ever assigned, and the initial value otherwise (last-write-wins collapses) -/
theorem foldl_stepSpec_const (nrows ncols : Nat) (ops : List (Int × Int × Int)) (f : Nat → Nat → Int) (r c : Nat) (v : Int)
    (h : ∀ op ∈ ops, validOp nrows ncols op = true → addr op = (r, c) → op.2.2 = v) :
    ops.foldl (stepSpec nrows ncols) f r c =
      if (∃ op ∈ ops, validOp nrows ncols op = true ∧ addr op = (r, c)) then v else f r c := by
  induction ops generalizing f with
  | nil => simp
  | cons op rest ih =>
    simp only [List.foldl_cons]
    rw [ih (stepSpec nrows ncols f op) (fun x hx => h x (List.mem_cons_of_mem _ hx))]
    by_cases hrest : ∃ x ∈ rest, validOp nrows ncols x = true ∧ addr x = (r, c)
    · have : ∃ x ∈ op :: rest, validOp nrows ncols x = true ∧ addr x = (r, c) := by
        obtain ⟨x, hx, hv⟩ := hrest; exact ⟨x, List.mem_cons_of_mem _ hx, hv⟩
      rw [if_pos hrest, if_pos this]
    · rw [if_neg hrest]
      by_cases hop : validOp nrows ncols op = true ∧ addr op = (r, c)
      · have : ∃ x ∈ op :: rest, validOp nrows ncols x = true ∧ addr x = (r, c) := ⟨op, List.mem_cons_self, hop⟩
        rw [if_pos this]
        have hv := h op List.mem_cons_self hop.1 hop.2
        unfold stepSpec
        rw [if_pos hop.1]
        have ha : r = op.1.toNat ∧ c = op.2.1.toNat := by
          have := hop.2; unfold addr at this
          exact ⟨(Prod.mk.inj this).1.symm, (Prod.mk.inj this).2.symm⟩
        simp only [ha, and_self, if_true]
        rw [← hv]
      · have : ¬ ∃ x ∈ op :: rest, validOp nrows ncols x = true ∧ addr x = (r, c) := by
          rintro ⟨x, hx, hv⟩
          rcases List.mem_cons.mp hx with rfl | hx
          · exact hop hv
          · exact hrest ⟨x, hx, hv⟩
        rw [if_neg this]
        unfold stepSpec
        by_cases hval : validOp nrows ncols op = true
        · rw [if_pos hval]
          have : ¬ (r = op.1.toNat ∧ c = op.2.1.toNat) := by
            rintro ⟨h1, h2⟩
            exact hop ⟨hval, by unfold addr; rw [h1, h2]⟩
          simp only [this, if_false]
        · rw [if_neg hval]

section
variable {o : Graph.Ord κ} {owl : κ} {E : List (Edge κ)} {root : κ} {E' : List (Edge κ)}

/-- membership of an assignment in the factory's op list -/
theorem mem_builder_ops (o : Graph.Ord κ) (nodes : List κ) (L : List (Edge κ)) (op : Int × Int × Int) :
    op ∈ L.flatMap (edgeOps o nodes) ↔
      ∃ e ∈ L, op = (((idx! o nodes e.1 : Nat) : Int), ((idx! o nodes e.2 : Nat) : Int), 1) ∨
               op = (((idx! o nodes e.2 : Nat) : Int), ((idx! o nodes e.1 : Nat) : Int), -1) := by
  simp only [List.mem_flatMap, edgeOps, List.mem_cons, List.not_mem_nil, or_false]

/-- **The builder-based factory establishes `Represents`** for every rooted edge list without self-loops and without
two-cycles (both follow from acyclicity). -/
theorem builder_represents (hs : o.Strict) (hroot : findRoot owl (dedup E) = .ok (root, E'))
    (hloop : ∀ e ∈ E', e.1 ≠ e.2) (h2 : ∀ a b, (a, b) ∈ E' → (b, a) ∉ E') :
    ∃ g, buildBuilder o owl E = .ok g ∧ g.root = root ∧ g.nodes = nodesOf o E' ∧ Represents o g E' := by
  have hops := builderOps_spec o hs E' E' (fun e he => he)
  let n := (nodesOf o E').length
  let ops := E'.flatMap (edgeOps o (nodesOf o E'))
  obtain ⟨rows, hrun, hlen, hwf, hnz, hdense⟩ := runOps_spec n n ops
  have hsorted : Sorted o (nodesOf o E') := sorted_sortDedup o hs _
  have hnd : (nodesOf o E').Nodup := Sorted.nodup o hs _ hsorted
  -- every assigned value is ±1, hence non-zero
  have hnzall : ∀ op ∈ ops, op.2.2 ≠ 0 := by
    intro op hop
    obtain ⟨e, _, h | h⟩ := (mem_builder_ops o _ E' op).mp hop <;> rw [h] <;> simp
  have hNZ := hnz hnzall
  -- index facts
  have hidx : ∀ x, x ∈ nodesOf o E' → idx! o (nodesOf o E') x < n ∧ (nodesOf o E')[idx! o (nodesOf o E') x]? = some x := by
    intro x hx
    have := (indexOf?_idx! o hs E' x hx).2
    refine ⟨?_, this⟩
    rcases Nat.lt_or_ge (idx! o (nodesOf o E') x) n with h | h
    · exact h
    · rw [List.getElem?_eq_none h] at this; cases this
  have hvalid : ∀ op ∈ ops, validOp n n op = true := by
    intro op hop
    obtain ⟨e, he, h | h⟩ := (mem_builder_ops o _ E' op).mp hop
    · rw [h]; simp only [validOp, inRange_cast, Bool.and_eq_true, decide_eq_true_eq]
      exact ⟨(hidx _ (mem_nodesOf o E' e he).1).1, (hidx _ (mem_nodesOf o E' e he).2).1⟩
    · rw [h]; simp only [validOp, inRange_cast, Bool.and_eq_true, decide_eq_true_eq]
      exact ⟨(hidx _ (mem_nodesOf o E' e he).2).1, (hidx _ (mem_nodesOf o E' e he).1).1⟩
  -- the cell (i, j) for labels x = nodes[i], y = nodes[j]
  have hcell : ∀ i j x y, (nodesOf o E')[i]? = some x → (nodesOf o E')[j]? = some y →
      (specOps n n ops i j = 1 ↔ (x, y) ∈ E') ∧ (specOps n n ops i j = -1 ↔ (y, x) ∈ E') := by
    intro i j x y hi hj
    have hxi : ∀ z, z ∈ nodesOf o E' → (idx! o (nodesOf o E') z = i ↔ z = x) := by
      intro z hz
      constructor
      · intro h; have := (hidx z hz).2; rw [h, hi] at this; exact (Option.some.inj this).symm
      · intro h; subst h
        have h1 := (indexOf?_spec o hs _ hsorted z i).mpr hi
        simp [idx!, h1]
    have hyj : ∀ z, z ∈ nodesOf o E' → (idx! o (nodesOf o E') z = j ↔ z = y) := by
      intro z hz
      constructor
      · intro h; have := (hidx z hz).2; rw [h, hj] at this; exact (Option.some.inj this).symm
      · intro h; subst h
        have h1 := (indexOf?_spec o hs _ hsorted z j).mpr hj
        simp [idx!, h1]
    -- which ops address (i, j)?
    have haddr : ∀ op ∈ ops, addr op = (i, j) → (op.2.2 = 1 ∧ (x, y) ∈ E') ∨ (op.2.2 = -1 ∧ (y, x) ∈ E') := by
      intro op hop ha
      obtain ⟨e, he, h | h⟩ := (mem_builder_ops o _ E' op).mp hop
      · rw [h] at ha ⊢
        simp only [addr, Int.toNat_natCast, Prod.mk.injEq] at ha
        have e1 := (hxi e.1 (mem_nodesOf o E' e he).1).mp ha.1
        have e2 := (hyj e.2 (mem_nodesOf o E' e he).2).mp ha.2
        left; exact ⟨rfl, by rw [← e1, ← e2]; exact he⟩
      · rw [h] at ha ⊢
        simp only [addr, Int.toNat_natCast, Prod.mk.injEq] at ha
        have e1 := (hxi e.2 (mem_nodesOf o E' e he).2).mp ha.1
        have e2 := (hyj e.1 (mem_nodesOf o E' e he).1).mp ha.2
        right; exact ⟨rfl, by rw [← e1, ← e2]; exact he⟩
    unfold specOps
    by_cases hxy : (x, y) ∈ E'
    · -- all writes to (i, j) carry 1, and there is one
      have hno : (y, x) ∉ E' := h2 x y hxy
      have hconst := foldl_stepSpec_const n n ops (fun _ _ => 0) i j 1 (by
        intro op hop _ ha
        rcases haddr op hop ha with ⟨h, _⟩ | ⟨_, h⟩
        · exact h
        · exact absurd h hno)
      have hex : ∃ op ∈ ops, validOp n n op = true ∧ addr op = (i, j) := by
        refine ⟨(((idx! o (nodesOf o E') x : Nat) : Int), ((idx! o (nodesOf o E') y : Nat) : Int), 1), ?_, ?_, ?_⟩
        · exact (mem_builder_ops o _ E' _).mpr ⟨(x, y), hxy, Or.inl rfl⟩
        · exact hvalid _ ((mem_builder_ops o _ E' _).mpr ⟨(x, y), hxy, Or.inl rfl⟩)
        · simp only [addr, Int.toNat_natCast, Prod.mk.injEq]
          exact ⟨(hxi x (mem_nodesOf o E' _ hxy).1).mpr rfl, (hyj y (mem_nodesOf o E' _ hxy).2).mpr rfl⟩
      rw [hconst, if_pos hex]
      exact ⟨⟨fun _ => hxy, fun _ => rfl⟩, ⟨fun h => absurd h (by decide), fun h => absurd h hno⟩⟩
    · by_cases hyx : (y, x) ∈ E'
      · have hconst := foldl_stepSpec_const n n ops (fun _ _ => 0) i j (-1) (by
          intro op hop _ ha
          rcases haddr op hop ha with ⟨_, h⟩ | ⟨h, _⟩
          · exact absurd h hxy
          · exact h)
        have hex : ∃ op ∈ ops, validOp n n op = true ∧ addr op = (i, j) := by
          refine ⟨(((idx! o (nodesOf o E') x : Nat) : Int), ((idx! o (nodesOf o E') y : Nat) : Int), -1), ?_, ?_, ?_⟩
          · exact (mem_builder_ops o _ E' _).mpr ⟨(y, x), hyx, Or.inr rfl⟩
          · exact hvalid _ ((mem_builder_ops o _ E' _).mpr ⟨(y, x), hyx, Or.inr rfl⟩)
          · simp only [addr, Int.toNat_natCast, Prod.mk.injEq]
            exact ⟨(hxi x (mem_nodesOf o E' _ hyx).2).mpr rfl, (hyj y (mem_nodesOf o E' _ hyx).1).mpr rfl⟩
        rw [hconst, if_pos hex]
        exact ⟨⟨fun h => absurd h (by decide), fun h => absurd h hxy⟩, ⟨fun _ => hyx, fun _ => rfl⟩⟩
      · have hconst := foldl_stepSpec_const n n ops (fun _ _ => 0) i j 0 (by
          intro op hop _ ha
          rcases haddr op hop ha with ⟨_, h⟩ | ⟨_, h⟩
          · exact absurd h hxy
          · exact absurd h hyx)
        have hval : (if (∃ op ∈ ops, validOp n n op = true ∧ addr op = (i, j)) then (0 : Int) else 0) = 0 := by split <;> rfl
        rw [hconst, hval]
        exact ⟨⟨fun h => absurd h (by decide), fun h => absurd h hxy⟩, ⟨fun h => absurd h (by decide), fun h => absurd h hyx⟩⟩
  -- assemble
  let g : MGraph κ := ⟨root, nodesOf o E', (runOps n n ops).toMatrix n n⟩
  have hg : buildBuilder o owl E = .ok g := by
    simp only [buildBuilder, hroot, hops]; rfl
  have hm : g.m = ofRowsM rows n := by
    show (runOps n n ops).toMatrix n n = ofRowsM rows n
    rw [hrun]; unfold ofRowsM; rw [hlen]
  -- the column lists of the assembled matrix
  have hcols : ∀ (rel : Int) (i : Nat), i < n →
      (g.cols rel i).Pairwise (· < ·) ∧ ∀ c, c ∈ g.cols rel i ↔ c < n ∧ specOps n n ops i c = rel := by
    intro rel i hi
    obtain ⟨cs, h1, h2', h3⟩ := colIndicesOfVal_spec rows n i rel hwf hNZ (by omega)
    have : g.cols rel i = cs := by
      unfold MGraph.cols
      rw [hm, h1]
    rw [this]
    refine ⟨h2', fun c => ?_⟩
    rw [h3 c, hdense i c]
  have hcols_out : ∀ (rel : Int) (i : Nat), ¬ i < n → g.cols rel i = [] := by
    intro rel i hi
    unfold MGraph.cols
    rw [hm]
    have : (ofRowsM rows n).colIndicesOfVal (i : Int) rel = .error .indexError := by
      unfold Matrix.colIndicesOfVal
      have hn : (ofRowsM rows n).nrows = rows.length := rfl
      rw [hn, hlen, inRange_cast]
      simp [hi]
    rw [this]
  refine ⟨g, hg, rfl, rfl, ⟨hsorted, fun e he => mem_nodesOf o E' e he, ?_, ?_, ?_, ?_⟩⟩
  · intro i j x hi
    have hil : i < n := by
      rcases Nat.lt_or_ge i n with h | h
      · exact h
      · rw [List.getElem?_eq_none h] at hi; cases hi
    rw [(hcols 1 i hil).2 j]
    constructor
    · rintro ⟨hj, hv⟩
      have hget : (nodesOf o E')[j]? = some (nodesOf o E')[j] := List.getElem?_eq_getElem hj
      exact ⟨_, hget, ((hcell i j x _ hi hget).1).mp hv⟩
    · rintro ⟨y, hj, hxy⟩
      have hjl : j < n := by
        rcases Nat.lt_or_ge j n with h | h
        · exact h
        · rw [List.getElem?_eq_none h] at hj; cases hj
      exact ⟨hjl, ((hcell i j x y hi hj).1).mpr hxy⟩
  · intro i j x hi
    have hil : i < n := by
      rcases Nat.lt_or_ge i n with h | h
      · exact h
      · rw [List.getElem?_eq_none h] at hi; cases hi
    rw [(hcols (-1) i hil).2 j]
    constructor
    · rintro ⟨hj, hv⟩
      have hget : (nodesOf o E')[j]? = some (nodesOf o E')[j] := List.getElem?_eq_getElem hj
      exact ⟨_, hget, ((hcell i j x _ hi hget).2).mp hv⟩
    · rintro ⟨y, hj, hxy⟩
      have hjl : j < n := by
        rcases Nat.lt_or_ge j n with h | h
        · exact h
        · rw [List.getElem?_eq_none h] at hj; cases hj
      exact ⟨hjl, ((hcell i j x y hi hj).2).mpr hxy⟩
  · intro r i j hj
    by_cases hi : i < n
    · exact ((hcols r i hi).2 j).mp hj |>.1
    · rw [hcols_out r i hi] at hj; cases hj
  · intro r i
    by_cases hi : i < n
    · exact List.Pairwise.imp (fun h => Nat.ne_of_lt h) (hcols r i hi).1
    · rw [hcols_out r i hi]; exact List.nodup_nil

end
end Hpv.GM
