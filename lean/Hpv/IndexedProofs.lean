import Hpv.Indexed
import Hpv.Proofs
import Hpv.CsrProofs
import Hpv.GraphProofs

namespace Hpv.Indexed
open Hpv.Graph Hpv.Csr

variable {κ : Type} [DecidableEq κ]

theorem allSome_map {α} (l : List α) (f : α → Option Nat) (g : α → Nat) (h : ∀ x, x ∈ l → f x = some (g x)) :
    allSome (l.map f) = some (l.map g) := by
  induction l with
  | nil => rfl
  | cons a rest ih =>
    have ha := h a List.mem_cons_self
    have := ih (fun x hx => h x (List.mem_cons_of_mem _ hx))
    simp [allSome, ha, this]

theorem allRows_map {β} (rows : List β) (F : β → List (Option Nat)) (G : β → List Nat)
    (h : ∀ r, r ∈ rows → allSome (F r) = some (G r)) : allRows (rows.map F) = some (rows.map G) := by
  induction rows with
  | nil => rfl
  | cons a rest ih =>
    have ha := h a List.mem_cons_self
    have := ih (fun x hx => h x (List.mem_cons_of_mem _ hx))
    simp [allRows, ha, this]

/-- unwrapped index of a label (only used for labels that are nodes) -/
def idx! (o : Graph.Ord κ) (nodes : List κ) (x : κ) : Nat := (indexOf? o nodes x).getD 0

theorem mem_nodesOf (o : Graph.Ord κ) (E : List (Edge κ)) (e : Edge κ) (he : e ∈ E) :
    e.1 ∈ nodesOf o E ∧ e.2 ∈ nodesOf o E := by
  unfold nodesOf
  rw [mem_sortDedup, mem_sortDedup]
  unfold endpoints
  constructor
  · exact List.mem_flatMap.mpr ⟨e, he, by simp⟩
  · exact List.mem_flatMap.mpr ⟨e, he, by simp⟩

theorem indexOf?_idx! (o : Graph.Ord κ) (hs : o.Strict) (E : List (Edge κ)) (x : κ) (hx : x ∈ nodesOf o E) :
    indexOf? o (nodesOf o E) x = some (idx! o (nodesOf o E) x) ∧ (nodesOf o E)[idx! o (nodesOf o E) x]? = some x := by
  have hsorted : Sorted o (nodesOf o E) := sorted_sortDedup o hs (endpoints E)
  cases h : indexOf? o (nodesOf o E) x with
  | none => exact absurd hx ((indexOf?_none o hs _ hsorted x).mp h)
  | some i =>
    have := (indexOf?_spec o hs _ hsorted x i).mp h
    simp [idx!, h, this]

/-- the rows handed to the parents array, before unwrapping -/
theorem rowsFrom_snd (o : Graph.Ord κ) (hs : o.Strict) (E : List (Edge κ)) (hloop : ∀ e ∈ E, e.1 ≠ e.2)
    (k : Nat) (l : List κ) (hl : ∀ j src, l[j]? = some src → (nodesOf o E)[k + j]? = some src) :
    (rowsFrom o (nodesOf o E) (findAdjacent o (nodesOf o E) E) k l).map Prod.snd =
      l.map (fun src => (E.filter (fun e => decide (e.1 = src))).map (fun e => indexOf? o (nodesOf o E) e.2)) ∧
    (rowsFrom o (nodesOf o E) (findAdjacent o (nodesOf o E) E) k l).map Prod.fst =
      l.map (fun src => (E.filter (fun e => decide (e.2 = src))).map (fun e => indexOf? o (nodesOf o E) e.1)) := by
  induction l generalizing k with
  | nil => simp [rowsFrom]
  | cons src rest ih =>
    have h0 : (nodesOf o E)[k]? = some src := by simpa using hl 0 src (by simp)
    have hrest := ih (k + 1) (by
      intro j s hj
      have := hl (j + 1) s (by simpa using hj)
      rw [show k + 1 + j = k + (j + 1) by omega]; exact this)
    have hrow := rowTargets_spec o hs E hloop k src h0
    simp only [rowsFrom, List.map_cons, hrow, hrest.1, hrest.2, and_self]

/-- The parents array built by the factory, as a function of the edge list alone. -/
theorem build_spec (o : Graph.Ord κ) (hs : o.Strict) (E : List (Edge κ)) (hloop : ∀ e ∈ E, e.1 ≠ e.2) :
    ∃ g, build o E = some g ∧ g.nodes = nodesOf o E ∧
      g.parents = Static.ofRows ((nodesOf o E).map (fun src =>
        (E.filter (fun e => decide (e.1 = src))).map (fun e => idx! o (nodesOf o E) e.2))) ∧
      g.children = Static.ofRows ((nodesOf o E).map (fun src =>
        (E.filter (fun e => decide (e.2 = src))).map (fun e => idx! o (nodesOf o E) e.1))) := by
  obtain ⟨h2, h1⟩ := rowsFrom_snd o hs E hloop 0 (nodesOf o E) (by intro j src h; simpa using h)
  have hp : allRows ((rowsFrom o (nodesOf o E) (findAdjacent o (nodesOf o E) E) 0 (nodesOf o E)).map Prod.snd) =
      some ((nodesOf o E).map (fun src =>
        (E.filter (fun e => decide (e.1 = src))).map (fun e => idx! o (nodesOf o E) e.2))) := by
    rw [h2]
    apply allRows_map
    intro src _
    apply allSome_map
    intro e he
    exact (indexOf?_idx! o hs E e.2 (mem_nodesOf o E e (List.mem_filter.mp he).1).2).1
  have hc : allRows ((rowsFrom o (nodesOf o E) (findAdjacent o (nodesOf o E) E) 0 (nodesOf o E)).map Prod.fst) =
      some ((nodesOf o E).map (fun src =>
        (E.filter (fun e => decide (e.2 = src))).map (fun e => idx! o (nodesOf o E) e.1))) := by
    rw [h1]
    apply allRows_map
    intro src _
    apply allSome_map
    intro e he
    exact (indexOf?_idx! o hs E e.1 (mem_nodesOf o E e (List.mem_filter.mp he).1).1).1
  refine ⟨⟨nodesOf o E, Static.ofRows _, Static.ofRows _⟩, ?_, rfl, rfl, rfl⟩
  simp only [build, hp, hc]

/-- One CSR step upward is one `is_a` edge between the corresponding labels. -/
theorem mem_parents_row (o : Graph.Ord κ) (hs : o.Strict) (E : List (Edge κ)) (hloop : ∀ e ∈ E, e.1 ≠ e.2)
    (g : IndexedGraph κ) (hg : build o E = some g) (a b : Nat) (x : κ) (hx : g.nodes[a]? = some x) :
    b ∈ g.parents.row a ↔ ∃ y, g.nodes[b]? = some y ∧ (x, y) ∈ E := by
  obtain ⟨g', hg', hn, hp, _⟩ := build_spec o hs E hloop
  rw [hg] at hg'; injection hg' with hg'; subst hg'
  rw [hn] at hx ⊢
  have hrow : g.parents.row a = (E.filter (fun e => decide (e.1 = x))).map (fun e => idx! o (nodesOf o E) e.2) := by
    rw [hp]
    apply Static.row_ofRows_getElem
    simp [hx]
  rw [hrow]
  simp only [List.mem_map, List.mem_filter, decide_eq_true_eq]
  constructor
  · rintro ⟨e, ⟨he, h1⟩, hb⟩
    refine ⟨e.2, ?_, ?_⟩
    · rw [← hb]; exact (indexOf?_idx! o hs E e.2 (mem_nodesOf o E e he).2).2
    · rw [← h1]; exact he
  · rintro ⟨y, hy, hxy⟩
    refine ⟨(x, y), ⟨hxy, rfl⟩, ?_⟩
    have hsorted : Sorted o (nodesOf o E) := sorted_sortDedup o hs (endpoints E)
    have h1 := (indexOf?_spec o hs _ hsorted y b).mpr hy
    simp [idx!, h1]

theorem parents_row_bound (o : Graph.Ord κ) (hs : o.Strict) (E : List (Edge κ)) (hloop : ∀ e ∈ E, e.1 ≠ e.2)
    (g : IndexedGraph κ) (hg : build o E = some g) (a b : Nat) (hb : b ∈ g.parents.row a) : b < g.nodes.length := by
  obtain ⟨g', hg', hn, hp, _⟩ := build_spec o hs E hloop
  rw [hg] at hg'; injection hg' with hg'; subst hg'
  -- every stored index is the index of an endpoint
  have hall : ∀ row ∈ ((nodesOf o E).map (fun src =>
        (E.filter (fun e => decide (e.1 = src))).map (fun e => idx! o (nodesOf o E) e.2))), ∀ z ∈ row, z < (nodesOf o E).length := by
    intro row hrow z hz
    obtain ⟨src, _, rfl⟩ := List.mem_map.mp hrow
    obtain ⟨e, he, rfl⟩ := List.mem_map.mp hz
    have := (indexOf?_idx! o hs E e.2 (mem_nodesOf o E e (List.mem_filter.mp he).1).2).2
    rcases Nat.lt_or_ge (idx! o (nodesOf o E) e.2) (nodesOf o E).length with h | h
    · exact h
    · rw [List.getElem?_eq_none h] at this; cases this
  rw [hn]
  -- the row is a slice of the flattened rows
  have hsub : ∀ z ∈ g.parents.row a, z ∈ g.parents.data := by
    intro z hz
    unfold Static.row at hz
    exact List.mem_of_mem_drop (List.mem_of_mem_take hz)
  have hz := hsub b hb
  rw [hp] at hz
  simp only [Static.ofRows, List.mem_flatten] at hz
  obtain ⟨row, hrow, hzrow⟩ := hz
  exact hall row hrow b hzrow

/-- Ancestors over the CSR arrays are exactly the labels reachable over one or more `is_a` edges. -/
theorem ancestors_spec (o : Graph.Ord κ) (hs : o.Strict) (E : List (Edge κ)) (hloop : ∀ e ∈ E, e.1 ≠ e.2)
    (g : IndexedGraph κ) (hg : build o E = some g) (v : κ) (hv : v ∈ g.nodes) :
    ∃ res, ancestors o g v false = some res ∧
      ∀ x, x ∈ res ↔ Relation.TransGen (fun a b => (a, b) ∈ E) v x := by
  obtain ⟨g', hg', hn, _, _⟩ := build_spec o hs E hloop
  rw [hg] at hg'; injection hg' with hg'; subst hg'
  have hsorted : Sorted o g.nodes := by rw [hn]; exact sorted_sortDedup o hs (endpoints E)
  obtain ⟨i, hi⟩ := List.getElem?_of_mem hv
  have hidx : indexOf? o g.nodes v = some i := (indexOf?_spec o hs _ hsorted v i).mpr hi
  obtain ⟨idxs, htr, hmem⟩ := traverse_correct popStack popStack_lawful g.parents.row g.nodes.length i
    (fun a b hb => parents_row_bound o hs E hloop g hg a b hb)
  refine ⟨idxs.filterMap (g.nodes[·]?), by simp [ancestors, hidx, ancestorsIdx, htr], ?_⟩
  -- transfer reachability between indices and labels
  have fwd : ∀ b, Reach g.parents.row i b → ∃ y, g.nodes[b]? = some y ∧ Relation.TransGen (fun a b => (a, b) ∈ E) v y := by
    intro b hb
    induction hb with
    | single h =>
      obtain ⟨y, hy, hxy⟩ := (mem_parents_row o hs E hloop g hg i _ v hi).mp h
      exact ⟨y, hy, Relation.TransGen.single hxy⟩
    | tail _ h ih =>
      obtain ⟨y, hy, hr⟩ := ih
      obtain ⟨z, hz, hyz⟩ := (mem_parents_row o hs E hloop g hg _ _ y hy).mp h
      exact ⟨z, hz, Relation.TransGen.tail hr hyz⟩
  have bwd : ∀ y, Relation.TransGen (fun a b => (a, b) ∈ E) v y → ∃ b, g.nodes[b]? = some y ∧ Reach g.parents.row i b := by
    intro y hy
    induction hy with
    | @single y' h =>
      have hyn : y' ∈ g.nodes := by rw [hn]; exact (mem_nodesOf o E _ h).2
      obtain ⟨b, hb⟩ := List.getElem?_of_mem hyn
      exact ⟨b, hb, Relation.TransGen.single ((mem_parents_row o hs E hloop g hg i b v hi).mpr ⟨y', hb, h⟩)⟩
    | @tail m y' _ h ih =>
      obtain ⟨b', hb', hr⟩ := ih
      have hyn : y' ∈ g.nodes := by rw [hn]; exact (mem_nodesOf o E _ h).2
      obtain ⟨b, hb⟩ := List.getElem?_of_mem hyn
      exact ⟨b, hb, Relation.TransGen.tail hr ((mem_parents_row o hs E hloop g hg b' b m hb').mpr ⟨y', hb, h⟩)⟩
  intro x
  simp only [List.mem_filterMap]
  constructor
  · rintro ⟨b, hb, hx⟩
    obtain ⟨y, hy, hr⟩ := fwd b ((hmem b).mp hb)
    rw [hx] at hy; injection hy with hy; subst hy; exact hr
  · intro hr
    obtain ⟨b, hb, hreach⟩ := bwd x hr
    exact ⟨b, (hmem b).mpr hreach, hb⟩

end Hpv.Indexed
