/-
The real-number layer of C09: information content `-log_b (c / p)` of positive counts `c ≤ p`.
(Mathlib: `Real.logb`.)  Floats are not modelled; the correspondence run compares with a relative tolerance of 1e-9.
-/
import Mathlib.Analysis.SpecialFunctions.Log.Base

namespace Hpv.Ic

/-- `-log_b (c / p)`; `b = e` for `base=None` -/
noncomputable def icOf (b : ℝ) (c p : ℕ) : ℝ := - Real.logb b ((c : ℝ) / (p : ℝ))

theorem icOf_root (b : ℝ) (p : ℕ) (hp : 0 < p) : icOf b p p = 0 := by
  unfold icOf
  have : ((p : ℝ) / (p : ℝ)) = 1 := div_self (by exact_mod_cast Nat.pos_iff_ne_zero.mp hp)
  rw [this, Real.logb_one, neg_zero]

theorem icOf_nonneg (b : ℝ) (hb : 1 < b) (c p : ℕ) (hc : 0 < c) (hcp : c ≤ p) : 0 ≤ icOf b c p := by
  unfold icOf
  have hp : (0 : ℝ) < p := by exact_mod_cast Nat.lt_of_lt_of_le hc hcp
  have hc' : (0 : ℝ) < c := by exact_mod_cast hc
  have h1 : (c : ℝ) / p ≤ 1 := by
    rw [div_le_one hp]; exact_mod_cast hcp
  have := Real.logb_nonpos hb (le_of_lt (div_pos hc' hp)) h1
  linarith

theorem icOf_antitone (b : ℝ) (hb : 1 < b) (c c' p : ℕ) (hc : 0 < c) (hcc : c ≤ c') (hp : 0 < p) :
    icOf b c' p ≤ icOf b c p := by
  unfold icOf
  have hp' : (0 : ℝ) < p := by exact_mod_cast hp
  have hc' : (0 : ℝ) < c := by exact_mod_cast hc
  have h1 : (c : ℝ) / p ≤ (c' : ℝ) / p := by
    apply div_le_div_of_nonneg_right _ (le_of_lt hp')
    exact_mod_cast hcc
  have := Real.logb_le_logb_of_le hb (div_pos hc' hp') h1
  linarith

/-- `math.log(x)` is `log_e`, with `1 < e` -/
theorem exp_one_gt_one : (1 : ℝ) < Real.exp 1 := by
  have := Real.add_one_lt_exp (x := (1 : ℝ)) (by norm_num)
  linarith

end Hpv.Ic
