/- Prototype: TermId over code-point strings. -/
namespace Hpv.TermId

abbrev Str := List Nat

def colon : Nat := 58   -- ':'
def underscore : Nat := 95   -- '_'

/-- `str.index(c)` -/
def index? (c : Nat) : Str → Option Nat
  | [] => none
  | x :: xs => if x = c then some 0 else (index? c xs).map (· + 1)

structure TermId where
  value : Str
  idx : Nat
deriving DecidableEq, Repr

def TermId.pfx (t : TermId) : Str := t.value.take t.idx
def TermId.id (t : TermId) : Str := t.value.drop (t.idx + 1)
def TermId.curie (t : TermId) : Str := t.pfx ++ colon :: t.id     -- `.value` property / `str()`

def fromCurie (s : Str) : Option TermId :=
  match index? colon s with
  | some i => some ⟨s, i⟩
  | none => match index? underscore s with
    | some i => some ⟨s, i⟩
    | none => none

/-- lexicographic `<` on code-point strings (Python `str.__lt__`) -/
def slt : Str → Str → Bool
  | [], [] => false
  | [], _ :: _ => true
  | _ :: _, [] => false
  | a :: as, b :: bs => if a < b then true else if a = b then slt as bs else false

def TermId.beq (a b : TermId) : Bool := a.pfx = b.pfx ∧ a.id = b.id
def TermId.lt (a b : TermId) : Bool := if a.pfx = b.pfx then slt a.id b.id else slt a.pfx b.pfx

end Hpv.TermId

namespace Hpv.TermId

/-- The two shipped classes: `SimpleTermId` recomputes the hash, `DefaultTermId` caches
`hash((value[:idx], value[idx+1:]))` at construction.  `H` is Python's tuple hash (a parameter). -/
structure DefaultTermId (β : Type) where
  value : Str
  idx : Nat
  cached : β

def DefaultTermId.mk' {β} (H : Str × Str → β) (value : Str) (idx : Nat) : DefaultTermId β :=
  ⟨value, idx, H (value.take idx, value.drop (idx + 1))⟩

def DefaultTermId.toTermId {β} (t : DefaultTermId β) : TermId := ⟨t.value, t.idx⟩
def DefaultTermId.hash {β} (t : DefaultTermId β) : β := t.cached            -- `__hash__` of DefaultTermId
def TermId.hash {β} (H : Str × Str → β) (t : TermId) : β := H (t.pfx, t.id)  -- `TermId.__hash__`

/-- `sorted()` / `np.unique` use only `<`: insertion sort as executable reference -/
def insSorted (x : TermId) : List TermId → List TermId
  | [] => [x]
  | y :: ys => if x.lt y then x :: y :: ys else y :: insSorted x ys

def sortIds (xs : List TermId) : List TermId := xs.foldr insSorted []

end Hpv.TermId
