/- Prototype: precalculate_ic_mica_for_hpo_concept_pairs over the SimilarityContainer model. -/
import Hpv.Sim
namespace Hpv.Resnik
open Hpv.Sim

/-- `functools.reduce(max, map(ic.get(t, 0), common_ancestors), 0)`; IC values are integers (exact floats) -/
def mica (anc : Str → List Str) (ic : Str → Int) (l r : Str) : Int :=
  ((anc l).filter (fun t => decide (t ∈ anc r))).foldl (fun m t => max m (ic t)) 0

/-- `for i in range(n): for j in range(i, n)` -/
def pairsFrom : List Str → List (Str × Str)
  | [] => []
  | x :: xs => (x :: xs).map (fun y => (x, y)) ++ pairsFrom xs

/-- strict `<` on code-point strings (`left.value < right.value`) -/
def slt (a b : Str) : Bool := sle a b && !(decide (a = b))

def stepPair (anc : Str → List Str) (ic : Str → Int) (s : State) (p : Str × Str) : State :=
  let m := mica anc ic p.1 p.2
  let ab := if slt p.1 p.2 then (p.1, p.2) else (p.2, p.1)
  if m > 0 then
    match set s ab.1 ab.2 (max m (get s ab.1 ab.2)) with
    | .ok s' => s'
    | .error _ => s
  else s

def allPairs (groups : List Str) (desc : Str → List Str) : List (Str × Str) :=
  groups.flatMap (fun g => pairsFrom (desc g))

def precalc (groups : List Str) (desc anc : Str → List Str) (ic : Str → Int) : State :=
  (allPairs groups desc).foldl (stepPair anc ic) []

end Hpv.Resnik
