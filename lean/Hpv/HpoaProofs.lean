import Hpv.Hpoa

namespace Hpv.Hpoa

/-! ### generic list facts -/

theorem mem_dedupS (l : List String) (x : String) : x ∈ dedupS l ↔ x ∈ l := by
  induction l with
  | nil => simp [dedupS]
  | cons a t ih =>
    simp only [dedupS, List.mem_cons, List.mem_filter, decide_eq_true_eq, ih]
    constructor
    · rintro (h | ⟨h, _⟩)
      · exact Or.inl h
      · exact Or.inr h
    · rintro (h | h)
      · exact Or.inl h
      · by_cases hx : x = a
        · exact Or.inl hx
        · exact Or.inr ⟨h, hx⟩

theorem nodup_dedupS (l : List String) : (dedupS l).Nodup := by
  induction l with
  | nil => simp [dedupS]
  | cons a t ih =>
    simp only [dedupS, List.nodup_cons, List.mem_filter, decide_eq_true_eq]
    exact ⟨fun h => h.2 rfl, List.Pairwise.filter _ ih⟩

theorem dedupS_perm (l l' : List String) (h : ∀ x, x ∈ l ↔ x ∈ l') : (dedupS l).Perm (dedupS l') :=
  (List.perm_ext_iff_of_nodup (nodup_dedupS l) (nodup_dedupS l')).mpr (fun x => by rw [mem_dedupS, mem_dedupS, h])

/-- element-wise "the function succeeded with this result" -/
inductive AllOk {α β} (f : α → Except Err β) : List α → List β → Prop
  | nil : AllOk f [] []
  | cons {x y xs ys} : f x = .ok y → AllOk f xs ys → AllOk f (x :: xs) (y :: ys)

theorem mapExcept_ok {α β} (f : α → Except Err β) (l : List α) (ys : List β) (h : mapExcept f l = .ok ys) :
    AllOk f l ys := by
  induction l generalizing ys with
  | nil => simp [mapExcept] at h; subst h; exact AllOk.nil
  | cons x xs ih =>
    unfold mapExcept at h
    cases hx : f x with
    | error e => simp [hx] at h
    | ok y =>
      cases hxs : mapExcept f xs with
      | error e => simp [hx, hxs] at h
      | ok ys' =>
        simp only [hx, hxs] at h
        injection h with h; subst h
        exact AllOk.cons hx (ih ys' hxs)

theorem mapExcept_of_forall {α β} (f : α → Except Err β) (l : List α) (ys : List β)
    (h : AllOk f l ys) : mapExcept f l = .ok ys := by
  induction h with
  | nil => rfl
  | cons hx _ ih => simp [mapExcept, hx, ih]

theorem forall₂_map_eq {α β γ} (f : α → Except Err β) (g : β → γ) (k : α → γ) (l : List α) (ys : List β)
    (h : AllOk f l ys) (hk : ∀ x y, f x = .ok y → g y = k x) : ys.map g = l.map k := by
  induction h with
  | nil => rfl
  | cons hx _ ih => simp [hk _ _ hx, ih]

theorem forall₂_map_eq' {α β γ} (f : α → Except Err β) (g : β → γ) (k : α → γ) (l : List α) (ys : List β)
    (h : AllOk f l ys) (hk : ∀ x y, f x = .ok y → g y = k x) : ys.map g = l.map k :=
  forall₂_map_eq f g k l ys h hk

/-- a permuted input gives permuted outputs (or fails as well) -/
theorem mapExcept_perm {α β} (f : α → Except Err β) (l l' : List α) (hp : l.Perm l') (ys : List β)
    (h : mapExcept f l = .ok ys) : ∃ ys', mapExcept f l' = .ok ys' ∧ ys.Perm ys' := by
  induction hp generalizing ys with
  | nil => exact ⟨ys, h, List.Perm.refl _⟩
  | cons x _ ih =>
    have hf := mapExcept_ok f _ ys h
    cases hf with
    | cons hx hrest =>
      obtain ⟨ys', h1, h2⟩ := ih _ (mapExcept_of_forall f _ _ hrest)
      exact ⟨_ :: ys', by simp [mapExcept, hx, h1], h2.cons _⟩
  | swap x y l =>
    have hf := mapExcept_ok f _ ys h
    cases hf with
    | cons hy hrest =>
      cases hrest with
      | cons hx hrest =>
        exact ⟨_, by simp [mapExcept, hx, hy, mapExcept_of_forall f _ _ hrest], List.Perm.swap _ _ _⟩
  | trans _ _ ih1 ih2 =>
    obtain ⟨ys1, h1, p1⟩ := ih1 ys h
    obtain ⟨ys2, h2, p2⟩ := ih2 ys1 h1
    exact ⟨ys2, h2, p1.trans p2⟩

/-! ### `Ratio.fold` is component-wise addition -/

theorem foldl_ratio (rs : List (Int × Int)) (a : Int × Int) :
    rs.foldl (fun a r => (a.1 + r.1, a.2 + r.2)) a = (a.1 + (rs.map (·.1)).sum, a.2 + (rs.map (·.2)).sum) := by
  induction rs generalizing a with
  | nil => simp
  | cons r rest ih =>
    simp only [List.foldl_cons, ih, List.map_cons, List.sum_cons]
    ext <;> simp <;> omega

theorem sumRatios_eq (rs : List (Int × Int)) : sumRatios rs = ((rs.map (·.1)).sum, (rs.map (·.2)).sum) := by
  unfold sumRatios; rw [foldl_ratio]; simp

theorem sum_perm (l l' : List Int) (h : l.Perm l') : l.sum = l'.sum := by
  induction h with
  | nil => rfl
  | cons x _ ih => simp [ih]
  | swap x y l => simp; omega
  | trans _ _ ih1 ih2 => rw [ih1, ih2]

theorem sumRatios_perm (rs rs' : List (Int × Int)) (h : rs.Perm rs') : sumRatios rs = sumRatios rs' := by
  rw [sumRatios_eq, sumRatios_eq, sum_perm _ _ (h.map _), sum_perm _ _ (h.map _)]

/-- sums of ratios that are each within `0 ≤ n ≤ d`, with at least one `0 < d` -/
theorem sumRatios_bounds (rs : List (Int × Int)) (h : ∀ r ∈ rs, 0 ≤ r.1 ∧ r.1 ≤ r.2) :
    0 ≤ (sumRatios rs).1 ∧ (sumRatios rs).1 ≤ (sumRatios rs).2 := by
  rw [sumRatios_eq]
  induction rs with
  | nil => simp
  | cons r rest ih =>
    have := h r List.mem_cons_self
    have := ih (fun x hx => h x (List.mem_cons_of_mem _ hx))
    simp only [List.map_cons, List.sum_cons] at *
    omega

theorem sumRatios_den_pos (rs : List (Int × Int)) (hne : rs ≠ []) (h : ∀ r ∈ rs, 0 < r.2) : 0 < (sumRatios rs).2 := by
  rw [sumRatios_eq]
  induction rs with
  | nil => exact absurd rfl hne
  | cons r rest ih =>
    have h1 := h r List.mem_cons_self
    simp only [List.map_cons, List.sum_cons]
    cases rest with
    | nil => simp; exact h1
    | cons q qs =>
      have := ih (by simp) (fun x hx => h x (List.mem_cons_of_mem _ hx))
      simp only [List.map_cons, List.sum_cons] at this ⊢
      omega

/-! ### rounding to the cohort size -/

theorem round_le_of_le (F D c : Nat) (hD : 0 < D) (h : F ≤ D) : roundHalfEven (F * c) D ≤ c := by
  obtain ⟨h1, _⟩ := roundHalfEven_close (F * c) D hD
  have hm : F * c ≤ D * c := Nat.mul_le_mul_right c h
  generalize roundHalfEven (F * c) D = n at *
  -- 2 n D ≤ 2 F c + D ≤ 2 D c + D, so n ≤ c
  have h2 : 2 * (n * D) ≤ 2 * (D * c) + D := by omega
  have h3 : n * D ≤ c * D + D / 2 := by
    have : D * c = c * D := Nat.mul_comm _ _
    omega
  -- if n ≥ c + 1 then n D ≥ c D + D > c D + D/2
  apply Classical.byContradiction
  intro hn
  have hn' : c + 1 ≤ n := by omega
  have : (c + 1) * D ≤ n * D := Nat.mul_le_mul_right D hn'
  have e : (c + 1) * D = c * D + D := by rw [Nat.add_mul, Nat.one_mul]
  omega

/-- **Frequency term**: the numerator lands inside the term's range, up to rounding to the cohort size
(`lower·c − ½ ≤ n ≤ upper·c + ½`, all over the common denominator `D`). -/
theorem term_in_range (r : FreqRow) (c : Nat) (hD : 0 < r.denom) (hlo : r.lower ≤ r.freq) (hhi : r.freq ≤ r.upper) :
    2 * (r.lower * c) ≤ 2 * (roundHalfEven (r.freq * c) r.denom * r.denom) + r.denom ∧
    2 * (roundHalfEven (r.freq * c) r.denom * r.denom) ≤ 2 * (r.upper * c) + r.denom := by
  obtain ⟨h1, h2⟩ := roundHalfEven_close (r.freq * c) r.denom hD
  have a : r.lower * c ≤ r.freq * c := Nat.mul_le_mul_right c hlo
  have b : r.freq * c ≤ r.upper * c := Nat.mul_le_mul_right c hhi
  generalize roundHalfEven (r.freq * c) r.denom = n at *
  omega

/-- **Percentage** `pn/pd` percent: the numerator is within half a cohort unit of `pn·c/(100·pd)`. -/
theorem percent_close (pn pd c : Nat) (hpd : 0 < pd) :
    2 * (roundHalfEven (pn * c) (pd * 100) * (pd * 100)) ≤ 2 * (pn * c) + pd * 100 ∧
    2 * (pn * c) ≤ 2 * (roundHalfEven (pn * c) (pd * 100) * (pd * 100)) + pd * 100 :=
  roundHalfEven_close (pn * c) (pd * 100) (by omega)

end Hpv.Hpoa

namespace Hpv.Hpoa

/-! ### grouping -/

theorem group_perm {α} (key : α → String) (l l' : List α) (h : l.Perm l') (k : String) :
    (group key l k).Perm (group key l' k) := h.filter _

theorem keys_perm {α} (key : α → String) (l l' : List α) (h : l.Perm l') : (keys key l).Perm (keys key l') :=
  dedupS_perm _ _ (fun x => ⟨fun hx => (h.map key).subset hx, fun hx => (h.map key).symm.subset hx⟩)

theorem keys_spec {α} (key : α → String) (l : List α) :
    (keys key l).Nodup ∧ ∀ k, k ∈ keys key l ↔ ∃ x ∈ l, key x = k := by
  refine ⟨nodup_dedupS _, fun k => ?_⟩
  unfold keys
  rw [mem_dedupS, List.mem_map]

/-- **One annotation per distinct phenotype id, with summed counts and united references / modifiers.** -/
theorem mkAnn_spec (cfg : Config) (freqOf : String → Freq) (lines : List Line) (pheno : String) (a : Ann)
    (h : mkAnn cfg freqOf lines pheno = .ok a) :
    ∃ rs, AllOk (fun l => lineRatio cfg l.neg (freqOf l.freq)) (group (·.pheno) lines pheno) rs ∧
      a.id = pheno ∧ a.num = (rs.map (·.1)).sum ∧ a.den = (rs.map (·.2)).sum ∧ 0 ≤ a.num ∧ 0 < a.den ∧
      (∀ x, x ∈ a.refs ↔ ∃ l ∈ group (·.pheno) lines pheno, x ∈ l.refs) ∧ a.refs.Nodup ∧
      (∀ x, x ∈ a.mods ↔ ∃ l ∈ group (·.pheno) lines pheno, x ∈ l.mods) ∧ a.mods.Nodup := by
  unfold mkAnn at h
  simp only at h
  cases hm : mapExcept (fun l => lineRatio cfg l.neg (freqOf l.freq)) (group (·.pheno) lines pheno) with
  | error e => simp [hm] at h
  | ok rs =>
    simp only [hm] at h
    cases hc : checkRatio (sumRatios rs) with
    | error e => simp [hc] at h
    | ok r =>
      simp only [hc] at h
      injection h with h; subst h
      have hr : r = sumRatios rs ∧ 0 ≤ (sumRatios rs).1 ∧ 0 < (sumRatios rs).2 := by
        unfold checkRatio at hc
        by_cases h1 : (sumRatios rs).1 < 0
        · simp [h1] at hc
        · by_cases h2 : (sumRatios rs).2 ≤ 0
          · simp [h1, h2] at hc
          · simp only [h1, h2, if_false] at hc
            injection hc with hc
            exact ⟨hc.symm, by omega, by omega⟩
      obtain ⟨hr1, hr2, hr3⟩ := hr
      subst hr1
      refine ⟨rs, mapExcept_ok _ _ _ hm, rfl, by simp [sumRatios_eq], by simp [sumRatios_eq], hr2, hr3, ?_, nodup_dedupS _, ?_, nodup_dedupS _⟩
      · intro x; simp only [mem_dedupS, List.mem_flatMap]
      · intro x; simp only [mem_dedupS, List.mem_flatMap]

/-- **One disease per distinct database id** (first-seen order), each with one annotation per distinct aspect-P phenotype
id and the aspect-I ids as modes of inheritance. -/
theorem aggregate_spec (cfg : Config) (freqOf : String → Freq) (lines : List Line) (ds : List Disease)
    (h : aggregate cfg freqOf lines = .ok ds) :
    ds.map (·.id) = keys (·.disease) lines ∧ (ds.map (·.id)).Nodup ∧
    ∀ d ∈ ds,
      let ls := group (·.disease) lines d.id
      let pl := ls.filter (fun l => l.aspect = some .P)
      d.anns.map (·.id) = keys (·.pheno) pl ∧ (d.anns.map (·.id)).Nodup ∧
      (∀ a ∈ d.anns, mkAnn cfg freqOf pl a.id = .ok a) ∧
      d.name = (ls.head?.map (·.name)).getD "" ∧
      d.moi.Nodup ∧ ∀ x, x ∈ d.moi ↔ ∃ l ∈ ls, l.aspect = some .I ∧ l.pheno = x := by
  unfold aggregate at h
  have hall := mapExcept_ok _ _ _ h
  have hid : ∀ did d, mkDisease cfg freqOf lines did = .ok d → d.id = did := by
    intro did d hd
    unfold mkDisease at hd
    simp only at hd
    split at hd
    · cases hd
    · injection hd with hd; subst hd; rfl
  have hids : ds.map (·.id) = keys (·.disease) lines := by
    have := forall₂_map_eq' _ (·.id) id _ _ hall (fun x y hxy => hid x y hxy)
    simpa using this
  refine ⟨hids, by rw [hids]; exact nodup_dedupS _, ?_⟩
  intro d hd
  -- recover the equation that produced `d`
  have hprod : mkDisease cfg freqOf lines d.id = .ok d := by
    have key : ∀ (l : List String) (ys : List Disease), AllOk (mkDisease cfg freqOf lines) l ys → ∀ y ∈ ys,
        mkDisease cfg freqOf lines y.id = .ok y := by
      intro l ys hl
      induction hl with
      | nil => intro y hy; cases hy
      | cons hx _ ih =>
        intro y hy
        rcases List.mem_cons.mp hy with rfl | hy
        · rw [hid _ _ hx]; exact hx
        · exact ih y hy
    exact key _ _ hall d hd
  unfold mkDisease at hprod
  simp only at hprod
  cases hm : mapExcept (mkAnn cfg freqOf ((group (·.disease) lines d.id).filter (fun l => l.aspect = some .P)))
      (keys (·.pheno) ((group (·.disease) lines d.id).filter (fun l => l.aspect = some .P))) with
  | error e => simp [hm] at hprod
  | ok anns =>
    simp only [hm] at hprod
    injection hprod with hprod
    have hanns : d.anns = anns := by rw [← hprod]
    have hname : d.name = ((group (·.disease) lines d.id).head?.map (·.name)).getD "" := by rw [← hprod]
    have hmoi : d.moi = dedupS (((group (·.disease) lines d.id).filter (fun l => l.aspect = some .I)).map (·.pheno)) := by
      rw [← hprod]
    have hallA := mapExcept_ok _ _ _ hm
    have haid : ∀ p a, mkAnn cfg freqOf ((group (·.disease) lines d.id).filter (fun l => l.aspect = some .P)) p = .ok a → a.id = p := by
      intro p a ha
      obtain ⟨_, _, h1, _⟩ := mkAnn_spec cfg freqOf _ p a ha
      exact h1
    simp only
    refine ⟨?_, ?_, ?_, hname, by rw [hmoi]; exact nodup_dedupS _, ?_⟩
    · rw [hanns]
      have := forall₂_map_eq' _ (·.id) id _ _ hallA (fun x y hxy => haid x y hxy)
      simpa using this
    · rw [hanns]
      have := forall₂_map_eq' _ (·.id) id _ _ hallA (fun x y hxy => haid x y hxy)
      simp only [List.map_id] at this
      rw [this]; exact nodup_dedupS _
    · rw [hanns]
      have key : ∀ (l : List String) (ys : List Ann), AllOk (mkAnn cfg freqOf ((group (·.disease) lines d.id).filter (fun l => l.aspect = some .P))) l ys →
          ∀ y ∈ ys, mkAnn cfg freqOf ((group (·.disease) lines d.id).filter (fun l => l.aspect = some .P)) y.id = .ok y := by
        intro l ys hl
        induction hl with
        | nil => intro y hy; cases hy
        | cons hx _ ih =>
          intro y hy
          rcases List.mem_cons.mp hy with rfl | hy
          · rw [haid _ _ hx]; exact hx
          · exact ih y hy
      exact key _ _ hallA
    · intro x
      rw [hmoi, mem_dedupS, List.mem_map]
      constructor
      · rintro ⟨l, hl, rfl⟩
        obtain ⟨h1, h2⟩ := List.mem_filter.mp hl
        exact ⟨l, h1, by simpa using h2, rfl⟩
      · rintro ⟨l, h1, h2, rfl⟩
        exact ⟨l, List.mem_filter.mpr ⟨h1, by simp [h2]⟩, rfl⟩

end Hpv.Hpoa

namespace Hpv.Hpoa

theorem allOk_mem {α β} (f : α → Except Err β) (l : List α) (ys : List β) (h : AllOk f l ys) :
    ∀ y ∈ ys, ∃ x ∈ l, f x = .ok y := by
  induction h with
  | nil => intro y hy; cases hy
  | cons hx _ ih =>
    intro y hy
    rcases List.mem_cons.mp hy with rfl | hy
    · exact ⟨_, List.mem_cons_self, hx⟩
    · obtain ⟨x, hx', hf⟩ := ih y hy
      exact ⟨x, List.mem_cons_of_mem _ hx', hf⟩

theorem allOk_length {α β} (f : α → Except Err β) (l : List α) (ys : List β) (h : AllOk f l ys) : ys.length = l.length := by
  induction h with
  | nil => rfl
  | cons _ _ ih => simp [ih]

/-- a well-formed frequency cell (the property's "well-formed HPOA file") -/
def WfFreq (cfg : Config) (neg : Bool) : Freq → Prop
  | .empty => True
  | .term id => ∃ r, cfg.table.find? (fun r => r.id = id) = some r ∧ 0 < r.denom ∧ r.freq ≤ r.denom
  | .ratio i m => if neg then (0 < m ∧ i ≤ m) ∨ (m = 0 ∧ i = 0) else 0 < m ∧ i ≤ m
  | .percent pn pd => 0 < pd ∧ pn ≤ 100 * pd
  | .bad => False

/-- every well-formed cell parses to a ratio with `0 ≤ n ≤ d` and `0 < d` -/
theorem lineRatio_wf (cfg : Config) (hc : 0 < cfg.cohort) (neg : Bool) (f : Freq) (h : WfFreq cfg neg f) :
    ∃ r, lineRatio cfg neg f = .ok r ∧ 0 ≤ r.1 ∧ r.1 ≤ r.2 ∧ 0 < r.2 := by
  cases f with
  | empty => cases neg <;> exact ⟨_, rfl, by simp, by simp, by simp⟩
  | term id =>
    obtain ⟨r, hr, hd, hf⟩ := h
    have hle := round_le_of_le r.freq r.denom cfg.cohort hd hf
    refine ⟨(if neg = true then 0 else ((roundHalfEven (r.freq * cfg.cohort) r.denom : Nat) : Int), (cfg.cohort : Int)),
      by simp only [lineRatio, hr], ?_, ?_, ?_⟩
    · cases neg <;> simp
    · cases neg
      · simp only [Bool.false_eq_true, if_false]; exact_mod_cast hle
      · simp
    · simp only; exact_mod_cast hc
  | ratio i m =>
    unfold WfFreq at h
    cases neg with
    | false =>
      simp only [Bool.false_eq_true, if_false] at h
      exact ⟨_, rfl, by simp, by simp only; exact_mod_cast h.2, by simp only; exact_mod_cast h.1⟩
    | true =>
      simp only [if_true] at h
      refine ⟨_, rfl, ?_, ?_, ?_⟩
      · simp only
        rcases h with ⟨h1, h2⟩ | ⟨h1, h2⟩
        · have : ¬ m = 0 := by omega
          simp only [this, if_false]
          split <;> omega
        · subst h1 h2
          simp only [if_true]
          split <;> simp
      · simp only
        rcases h with ⟨h1, h2⟩ | ⟨h1, h2⟩
        · have : ¬ m = 0 := by omega
          simp only [this, if_false]
          split <;> omega
        · subst h1 h2
          simp only [if_true]
          split <;> simp
      · simp only
        rcases h with ⟨h1, _⟩ | ⟨h1, _⟩
        · have : ¬ m = 0 := by omega
          simp only [this, if_false]; exact_mod_cast h1
        · subst h1; simp only [if_true]; exact_mod_cast hc
  | percent pn pd =>
    obtain ⟨hpd, hp⟩ := h
    have hle : roundHalfEven (pn * cfg.cohort) (pd * 100) ≤ cfg.cohort :=
      round_le_of_le pn (pd * 100) cfg.cohort (by omega) (by omega)
    exact ⟨_, rfl, by simp, by simp only; exact_mod_cast hle, by simp only; exact_mod_cast hc⟩
  | bad => cases h

/-- **Invariant**: if every line of a phenotype group is well formed, the annotation satisfies
`0 ≤ numerator ≤ denominator`, `0 < denominator`. -/
theorem ann_invariant (cfg : Config) (hc : 0 < cfg.cohort) (freqOf : String → Freq) (lines : List Line) (pheno : String)
    (hne : group (·.pheno) lines pheno ≠ [])
    (hwf : ∀ l ∈ group (·.pheno) lines pheno, WfFreq cfg l.neg (freqOf l.freq)) :
    ∃ a, mkAnn cfg freqOf lines pheno = .ok a ∧ 0 ≤ a.num ∧ a.num ≤ a.den ∧ 0 < a.den := by
  -- every line parses
  have hall : ∀ ls : List Line, (∀ l ∈ ls, WfFreq cfg l.neg (freqOf l.freq)) →
      ∃ rs, mapExcept (fun l => lineRatio cfg l.neg (freqOf l.freq)) ls = .ok rs ∧ rs.length = ls.length ∧
        ∀ r ∈ rs, 0 ≤ r.1 ∧ r.1 ≤ r.2 ∧ 0 < r.2 := by
    intro ls
    induction ls with
    | nil => intro _; exact ⟨[], rfl, rfl, by intro r hr; cases hr⟩
    | cons l rest ih =>
      intro h
      obtain ⟨r, h1, h2⟩ := lineRatio_wf cfg hc l.neg (freqOf l.freq) (h l List.mem_cons_self)
      obtain ⟨rs, h3, h4, h5⟩ := ih (fun x hx => h x (List.mem_cons_of_mem _ hx))
      refine ⟨r :: rs, by simp [mapExcept, h1, h3], by simp [h4], ?_⟩
      intro x hx
      rcases List.mem_cons.mp hx with rfl | hx
      · exact h2
      · exact h5 x hx
  obtain ⟨rs, h1, h2, h3⟩ := hall _ hwf
  have hb := sumRatios_bounds rs (fun r hr => ⟨(h3 r hr).1, (h3 r hr).2.1⟩)
  have hrs : rs ≠ [] := by
    intro e; rw [e] at h2; simp at h2
    exact hne (List.eq_nil_of_length_eq_zero h2.symm)
  have hd := sumRatios_den_pos rs hrs (fun r hr => (h3 r hr).2.2)
  have hcheck : checkRatio (sumRatios rs) = .ok (sumRatios rs) := by
    unfold checkRatio
    have a1 : ¬ (sumRatios rs).1 < 0 := by omega
    have a2 : ¬ (sumRatios rs).2 ≤ 0 := by omega
    simp [a1, a2]
  have hmk : mkAnn cfg freqOf lines pheno = .ok ⟨pheno, (sumRatios rs).1, (sumRatios rs).2,
      dedupS ((group (·.pheno) lines pheno).flatMap (·.refs)), dedupS ((group (·.pheno) lines pheno).flatMap (·.mods))⟩ := by
    simp only [mkAnn, h1, hcheck]
  exact ⟨_, hmk, hb.1, hb.2, hd⟩

/-- **Line order does not matter** (annotation level): permuting the lines of a disease leaves the annotation of every
phenotype unchanged — same sums, same sets of references and modifiers. -/
theorem mkAnn_perm (cfg : Config) (freqOf : String → Freq) (lines lines' : List Line) (hp : lines.Perm lines')
    (pheno : String) (a : Ann) (h : mkAnn cfg freqOf lines pheno = .ok a) :
    ∃ a', mkAnn cfg freqOf lines' pheno = .ok a' ∧ a'.id = a.id ∧ a'.num = a.num ∧ a'.den = a.den ∧
      a'.refs.Perm a.refs ∧ a'.mods.Perm a.mods := by
  have hg := group_perm (·.pheno) lines lines' hp pheno
  unfold mkAnn at h ⊢
  simp only at h ⊢
  cases hm : mapExcept (fun l => lineRatio cfg l.neg (freqOf l.freq)) (group (·.pheno) lines pheno) with
  | error e => simp [hm] at h
  | ok rs =>
    obtain ⟨rs', hm', hperm⟩ := mapExcept_perm _ _ _ hg rs hm
    simp only [hm] at h
    simp only [hm', ← sumRatios_perm rs rs' hperm]
    cases hc : checkRatio (sumRatios rs) with
    | error e => simp [hc] at h
    | ok r =>
      simp only [hc] at h ⊢
      injection h with h; subst h
      refine ⟨_, rfl, rfl, rfl, rfl, ?_, ?_⟩
      · exact dedupS_perm _ _ (fun x => by
          simp only [List.mem_flatMap]
          exact ⟨fun ⟨l, hl, hx⟩ => ⟨l, hg.symm.subset hl, hx⟩, fun ⟨l, hl, hx⟩ => ⟨l, hg.subset hl, hx⟩⟩)
      · exact dedupS_perm _ _ (fun x => by
          simp only [List.mem_flatMap]
          exact ⟨fun ⟨l, hl, hx⟩ => ⟨l, hg.symm.subset hl, hx⟩, fun ⟨l, hl, hx⟩ => ⟨l, hg.subset hl, hx⟩⟩)

end Hpv.Hpoa
