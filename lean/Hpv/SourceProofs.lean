/-
`include_source=True` on the matrix-backed graphs: the source index is put in front of the first row and passed through
the `seen` set of the worklist.  Proof by the virtual-node trick: the run equals an ordinary traversal from a fresh
node whose successors are `source :: succ source`.
-/
import Hpv.GraphModelProofs

namespace Hpv
open Hpv.Graph

/-- the loop only consults `succ` at nodes it pops; two successor functions that agree below `n` give the same run
when everything in the buffer is below `n` -/
theorem loop_congr (P : Pop) (hP : P.Lawful) (succ succ' : Nat → List Nat) (n : Nat)
    (hagree : ∀ a, a < n → succ' a = succ a) (hbound : ∀ a b, b ∈ succ a → b < n) :
    ∀ fuel seen buf out, (∀ x ∈ buf, x < n) → loop P succ' fuel seen buf out = loop P succ fuel seen buf out := by
  intro fuel
  induction fuel with
  | zero => intro _ _ _ _; rfl
  | succ fuel ih =>
    intro seen buf out hbuf
    unfold loop
    cases hp : P.pop buf with
    | none => rfl
    | some pr =>
      obtain ⟨cur, buf'⟩ := pr
      have hperm := hP.perm buf cur buf' hp
      have hcur : cur < n := hbuf cur (hperm.mem_iff.mpr List.mem_cons_self)
      simp only [hagree cur hcur]
      obtain ⟨new, hpn, _, hnew, _⟩ := pushNew_spec (succ cur) seen buf'
      rw [hpn]
      apply ih
      intro x hx
      rcases List.mem_append.mp hx with h | h
      · exact hbuf x (hperm.mem_iff.mpr (List.mem_cons_of_mem _ h))
      · exact hbound cur x (hnew x h).1

/-- the traversal that starts with the source in the buffer yields the source and its closure, each node once -/
theorem traverseFrom_source (P : Pop) (hP : P.Lawful) (succ : Nat → List Nat) (n i : Nat) (hi : i < n)
    (hbound : ∀ a b, b ∈ succ a → b < n) (hself : i ∉ succ i) (hnd : (succ i).Nodup) :
    ∃ res, Hpv.GM.traverseFrom P succ n (i :: succ i) = some res ∧ res.Nodup ∧ ∀ x, x ∈ res ↔ x = i ∨ Reach succ i x := by
  -- the virtual node is `n`
  let succ' : Nat → List Nat := fun a => if a = n then i :: succ i else succ a
  have hagree : ∀ a, a < n → succ' a = succ a := by
    intro a ha
    have : a ≠ n := Nat.ne_of_lt ha
    simp [succ', this]
  have hvirt : succ' n = i :: succ i := by simp [succ']
  have hbound' : ∀ a b, b ∈ succ' a → b < n + 1 := by
    intro a b hb
    by_cases ha : a = n
    · subst ha
      rw [hvirt] at hb
      rcases List.mem_cons.mp hb with rfl | hb
      · omega
      · have := hbound _ _ hb; omega
    · have : succ' a = succ a := by simp [succ', ha]
      rw [this] at hb
      have := hbound _ _ hb; omega
  have hinit_lt : ∀ x ∈ i :: succ i, x < n := by
    intro x hx
    rcases List.mem_cons.mp hx with rfl | hx
    · exact hi
    · exact hbound _ _ hx
  have hinit_nd : (i :: succ i).Nodup := List.nodup_cons.mpr ⟨hself, hnd⟩
  obtain ⟨h1, h2, _⟩ := dedupInto_spec (i :: succ i) [] List.nodup_nil
  have hseen_pos : 1 ≤ (dedupInto (i :: succ i) []).length := by
    have : i ∈ dedupInto (i :: succ i) [] := (h2 i).mpr (Or.inr List.mem_cons_self)
    exact List.length_pos_of_mem this
  have hinv : Inv succ' (n + 1) n (dedupInto (i :: succ i) []) (i :: succ i) [] := by
    constructor
    · exact h1
    · intro x; rw [h2 x]; simp
    · intro x hx
      have hx' : x ∈ i :: succ i := by simpa using (h2 x).mp hx
      refine ⟨by have := hinit_lt x hx'; omega, Relation.TransGen.single ?_⟩
      show x ∈ succ' n
      rw [hvirt]; exact hx'
    · intro x hx; simp at hx
    · intro y hy
      rw [hvirt] at hy
      exact (h2 y).mpr (Or.inr hy)
  obtain ⟨res, hres, hmem⟩ := loop_correct P hP succ' (n + 1) n hbound'
    ((i :: succ i).length + n + 1) (dedupInto (i :: succ i) []) (i :: succ i) [] hinv (by omega)
  have hsame := loop_congr P hP succ succ' n hagree hbound
    ((i :: succ i).length + n + 1) (dedupInto (i :: succ i) []) (i :: succ i) [] hinit_lt
  rw [hsame] at hres
  refine ⟨res, hres, ?_, ?_⟩
  · refine loop_nodup P hP succ _ _ _ _ res h1 ?_ hres
    simpa using dedupInto_perm (i :: succ i) [] hinit_nd (by intro x _ hx; simp at hx)
  · intro x
    rw [hmem x]
    constructor
    · intro hr
      -- every node reached from the virtual node is the source or reachable from it
      have key : ∀ y, Reach succ' n y → (y = i ∨ Reach succ i y) := by
        intro y hy
        induction hy with
        | single h =>
          have h' : _ ∈ succ' n := h
          rw [hvirt] at h'
          rcases List.mem_cons.mp h' with rfl | h'
          · exact Or.inl rfl
          · exact Or.inr (Relation.TransGen.single h')
        | @tail b c _ hbc ih =>
          have hb : b < n := by
            rcases ih with rfl | h
            · exact hi
            · cases h with
              | single hh => exact hbound _ _ hh
              | tail _ hh => exact hbound _ _ hh
          have hbc' : c ∈ succ b := by
            have : c ∈ succ' b := hbc
            rwa [hagree b hb] at this
          rcases ih with rfl | h
          · exact Or.inr (Relation.TransGen.single hbc')
          · exact Or.inr (Relation.TransGen.tail h hbc')
      exact key x hr
    · rintro (rfl | hr)
      · apply Relation.TransGen.single
        show x ∈ succ' n
        rw [hvirt]; exact List.mem_cons_self
      · induction hr with
        | single h =>
          apply Relation.TransGen.single
          show _ ∈ succ' n
          rw [hvirt]; exact List.mem_cons_of_mem _ h
        | @tail b c hb hbc ih =>
          have hblt : b < n := by
            cases hb with
            | single hh => exact hbound _ _ hh
            | tail _ hh => exact hbound _ _ hh
          refine Relation.TransGen.tail ih ?_
          show c ∈ succ' b
          rw [hagree b hblt]; exact hbc

end Hpv

namespace Hpv.GM
open Hpv.Graph Hpv.Csr Hpv.Indexed

variable {κ : Type} [DecidableEq κ]
variable {o : Graph.Ord κ} {g : MGraph κ} {E' : List (Edge κ)}

/-- **`include_source` on a matrix-backed graph** adds the source itself, exactly once, and nothing else — for all
four queries, on every graph whose matrix represents a loop-free edge list. -/
theorem Represents.include_source (h : Represents o g E') (hs : o.Strict) (hloop : ∀ e ∈ E', e.1 ≠ e.2)
    (q : Q) (v : κ) (hv : v ∈ g.nodes) :
    ∃ res res', g.query o q (some v) false = .ok res ∧ g.query o q (some v) true = .ok res' ∧
      res'.Nodup ∧ ∀ x, x ∈ res' ↔ x = v ∨ x ∈ res := by
  obtain ⟨i, hi, hidx⟩ := h.lookup hs v hv
  have hnd := Sorted.nodup o hs _ h.sorted
  have hilt : i < g.nodes.length := by
    rcases Nat.lt_or_ge i g.nodes.length with h' | h'
    · exact h'
    · rw [List.getElem?_eq_none h'] at hi; cases hi
  -- no self-loop: the source is not in its own row, whichever relationship code
  have hself : ∀ r : Int, (r = 1 ∨ r = -1) → i ∉ g.cols r i := by
    intro r hr hin
    rcases hr with rfl | rfl
    · obtain ⟨y, hy, hxy⟩ := (h.up i i v hi).mp hin
      rw [hi] at hy; injection hy with hy; subst hy
      exact hloop _ hxy rfl
    · obtain ⟨y, hy, hxy⟩ := (h.down i i v hi).mp hin
      rw [hi] at hy; injection hy with hy; subst hy
      exact hloop _ hxy rfl
  have hcode : relCode q = 1 ∨ relCode q = -1 := by cases q <;> simp [relCode]
  have hsrc := hself (relCode q) hcode
  -- labels of the first row plus the source
  have hdirect : mapNodes g.nodes (i :: g.cols (relCode q) i) = v :: mapNodes g.nodes (g.cols (relCode q) i) := by
    simp [mapNodes, hi]
  have hv_notin : v ∉ mapNodes g.nodes (g.cols (relCode q) i) := by
    intro hin
    unfold mapNodes at hin
    obtain ⟨j, hj, hjv⟩ := List.mem_filterMap.mp hin
    have hjl : j < g.nodes.length := h.bound _ _ _ hj
    have : j = i := by
      have e1 : g.nodes[j]? = g.nodes[i]? := by rw [hjv, hi]
      rw [List.getElem?_eq_getElem hjl, List.getElem?_eq_getElem hilt] at e1
      exact (List.getElem_inj hnd).mp (Option.some.inj e1)
    subst this
    exact hsrc hj
  have direct_case : (q = .children ∨ q = .parents) →
      ∃ res res', g.query o q (some v) false = .ok res ∧ g.query o q (some v) true = .ok res' ∧
        res'.Nodup ∧ ∀ x, x ∈ res' ↔ x = v ∨ x ∈ res := by
    intro hq
    refine ⟨mapNodes g.nodes (g.cols (relCode q) i), v :: mapNodes g.nodes (g.cols (relCode q) i), ?_, ?_, ?_, ?_⟩
    · rcases hq with rfl | rfl <;> simp [MGraph.query, hidx]
    · rcases hq with rfl | rfl <;> simp [MGraph.query, hidx, ← hdirect]
    · exact List.nodup_cons.mpr ⟨hv_notin, nodup_mapNodes _ hnd _ (h.nodup _ i)⟩
    · intro x; simp
  have closure_case : (q = .ancestors ∨ q = .descendants) →
      ∃ res res', g.query o q (some v) false = .ok res ∧ g.query o q (some v) true = .ok res' ∧
        res'.Nodup ∧ ∀ x, x ∈ res' ↔ x = v ∨ x ∈ res := by
    intro hq
    have hbound : ∀ a b, b ∈ g.cols (relCode q) a → b < g.nodes.length := fun a b hb => h.bound _ a b hb
    obtain ⟨r0, hr0, hm0⟩ := traverse_correct popQueue popQueue_lawful (g.cols (relCode q)) g.nodes.length i hbound
    obtain ⟨r1, hr1, hnd1, hm1⟩ := Hpv.traverseFrom_source popQueue popQueue_lawful (g.cols (relCode q)) g.nodes.length i hilt
      hbound hsrc (h.nodup _ i)
    refine ⟨mapNodes g.nodes r0, mapNodes g.nodes r1, ?_, ?_, nodup_mapNodes _ hnd _ hnd1, ?_⟩
    · rcases hq with rfl | rfl <;>
        simp only [MGraph.query, hidx, Bool.false_eq_true, if_false, List.nil_append, traverseFrom_eq_traverse, hr0]
    · rcases hq with rfl | rfl <;>
        simp only [MGraph.query, hidx, if_true, List.singleton_append, hr1]
    · intro x
      unfold mapNodes
      simp only [List.mem_filterMap]
      constructor
      · rintro ⟨j, hj, hjx⟩
        rcases (hm1 j).mp hj with rfl | hr
        · rw [hi] at hjx; exact Or.inl (Option.some.inj hjx).symm
        · exact Or.inr ⟨j, (hm0 j).mpr hr, hjx⟩
      · rintro (rfl | ⟨j, hj, hjx⟩)
        · exact ⟨i, (hm1 i).mpr (Or.inl rfl), hi⟩
        · exact ⟨j, (hm1 j).mpr (Or.inr ((hm0 j).mp hj)), hjx⟩
  cases q with
  | children => exact direct_case (Or.inl rfl)
  | parents => exact direct_case (Or.inr rfl)
  | ancestors => exact closure_case (Or.inl rfl)
  | descendants => exact closure_case (Or.inr rfl)

end Hpv.GM
