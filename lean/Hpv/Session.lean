/-
Lazy traversal iterators as explicit state machines, and a session of several open iterators over one immutable graph
(src/hpotk/graph/_csr_idx_graph.py `_traverse_graph`, _csr_graph.py `_traverse_graph`).  Core Lean only.
-/
import Hpv.Basic

namespace Hpv.Session

/-- the local variables of one suspended generator frame -/
structure IterState where
  seen : List Nat
  buf : List Nat
deriving DecidableEq, Repr

/-- generator start: `for idx in supplier(source): seen.add(idx); buffer.append(idx)` -/
def start (succ : Nat → List Nat) (src : Nat) : IterState := ⟨dedupInto (succ src) [], succ src⟩

/-- one `next()`: pop, push the unseen successors, yield -/
def next (P : Pop) (succ : Nat → List Nat) (s : IterState) : Option (Nat × IterState) :=
  match P.pop s.buf with
  | none => none
  | some (cur, buf') =>
    let sb := pushNew (succ cur) s.seen buf'
    some (cur, ⟨sb.1, sb.2⟩)

/-- consume up to `fuel` items -/
def drain (P : Pop) (succ : Nat → List Nat) : Nat → IterState → List Nat
  | 0, _ => []
  | fuel + 1, s =>
    match next P succ s with
    | none => []
    | some (x, s') => x :: drain P succ fuel s'

inductive Op
  | opn (src : Nat)        -- open a new iterator (it gets the next free handle)
  | nxt (i : Nat)          -- advance iterator `i`
  | eval (src : Nat)       -- a complete query, consumed on the spot
deriving DecidableEq, Repr

structure Sess where
  iters : List IterState
  out : List (Option Nat × List Nat)      -- per op: value yielded by `nxt` / full result of `eval`

def step (P : Pop) (succ : Nat → List Nat) (n : Nat) (s : Sess) : Op → Sess
  | .opn src => ⟨s.iters ++ [start succ src], s.out ++ [(none, [])]⟩
  | .nxt i =>
    match s.iters[i]? with
    | none => ⟨s.iters, s.out ++ [(none, [])]⟩
    | some it =>
      match next P succ it with
      | none => ⟨s.iters, s.out ++ [(none, [])]⟩
      | some (x, it') => ⟨s.iters.set i it', s.out ++ [(some x, [])]⟩
  | .eval src => ⟨s.iters, s.out ++ [(none, drain P succ (n + (succ src).length + 1) (start succ src))]⟩

def run (P : Pop) (succ : Nat → List Nat) (n : Nat) (ops : List Op) : Sess :=
  ops.foldl (step P succ n) ⟨[], []⟩

/-- the ops that concern iterator `i` when it is the `k`-th opened one: its own `nxt`s -/
def stepsOf (i : Nat) (ops : List Op) : Nat := (ops.filter (fun o => o = .nxt i)).length

end Hpv.Session
