/- Prototype: hierarchical clustering driven by an arbitrary merge trace, in-order walk, index recovery. -/
namespace Hpv.Sorting

variable {κ : Type} [DecidableEq κ]

inductive Tree (κ : Type)
  | leaf (id : κ)                 -- tagged node
  | node (l r : Tree κ)           -- merged (untagged) node; its own identifier is irrelevant to the walk

def Tree.inorder : Tree κ → List κ
  | .leaf id => [id]
  | .node l r => l.inorder ++ r.inorder

/-- `a = nodes.pop(hi); b = nodes.pop(lo); nodes.append(merge(a, b))` with `lo < hi < len(nodes)` -/
def clusterStep (nodes : List (Tree κ)) (hi lo : Nat) : Option (List (Tree κ)) :=
  match nodes[hi]?, nodes[lo]? with
  | some a, some b => if lo < hi then some (((nodes.eraseIdx hi).eraseIdx lo) ++ [Tree.node a b]) else none
  | _, _ => none

def cluster : List (Nat × Nat) → List (Tree κ) → Option (List (Tree κ))
  | [], nodes => some nodes
  | (hi, lo) :: rest, nodes => (clusterStep nodes hi lo).bind (cluster rest)

/-- remove the first pool entry carrying id `s` -/
def takeFirst (s : κ) : List (Nat × κ) → Option (Nat × List (Nat × κ))
  | [] => none
  | (i, x) :: rest => if x = s then some (i, rest) else (takeFirst s rest).map (fun r => (r.1, (i, x) :: r.2))

def assign : List κ → List (Nat × κ) → Option (List Nat)
  | [], _ => some []
  | s :: rest, pool => match takeFirst s pool with
    | some (i, pool') => (assign rest pool').map (i :: ·)
    | none => none

def enum : Nat → List κ → List (Nat × κ)
  | _, [] => []
  | k, x :: xs => (k, x) :: enum (k + 1) xs

/-- `_find_indices` (position-queue version): each id takes its first not-yet-used position. -/
def findIndices (source ordered : List κ) : Option (List Nat) := assign ordered (enum 0 source)

/-- the whole `argsort` for a recorded merge trace -/
def argsort (source : List κ) (trace : List (Nat × Nat)) : Option (List Nat) :=
  match cluster trace (source.map Tree.leaf) with
  | some [t] => findIndices source t.inorder
  | _ => none

/-- a second scheme for the same job: every cluster carries the input POSITIONS of its leaves and a merge concatenates them
(left, then right); nothing has to be recovered from ids afterwards -/
def argsortPos (n : Nat) (trace : List (Nat × Nat)) : Option (List Nat) :=
  match cluster trace ((List.range n).map Tree.leaf) with
  | some [t] => some t.inorder
  | _ => none

/-! ### the clustering policy (`_hierarchical_cluster`) for an arbitrary similarity measure

The similarity measure is an oracle: in every round it may give any value to any pair of the current clusters (it may look
at the whole current list - merged clusters carry the identifier a previous round gave them). Values are integers standing
for doubles under an order-preserving injection (only `<`, `<=` and `argmax` are applied to them). -/

/-- two `pop`s in a row: `a = nodes.pop(i); b = nodes.pop(j); nodes.append(merge(a, b))` - `j` indexes the SHORTENED list -/
def popTwice (nodes : List (Tree κ)) (i j : Nat) : Option (List (Tree κ)) :=
  match nodes[i]? with
  | none => none                                   -- IndexError
  | some a => match (nodes.eraseIdx i)[j]? with
    | none => none                                 -- IndexError
    | some b => some (((nodes.eraseIdx i).eraseIdx j) ++ [Tree.node a b])

/-- the `sims` matrix: zero diagonal, the oracle's value for `row < col` mirrored -/
def entry (s : Nat → Nat → Int) (r c : Nat) : Int := if r = c then 0 else if r < c then s r c else s c r

/-- `np.argmax`: the FIRST position of the maximum among positions `0..m` -/
def argmaxFirstAux (f : Nat → Int) : Nat → Nat
  | 0 => 0
  | m + 1 => if f (argmaxFirstAux f m) < f (m + 1) then m + 1 else argmaxFirstAux f m

/-- which two positions one round pops (the second one indexes the shortened list), for `n >= 2` clusters -/
def choose (n : Nat) (s : Nat → Nat → Int) (eps : Int) : Nat × Nat :=
  let k := argmaxFirstAux (fun k => entry s (k / n) (k % n)) (n * n - 1)
  let r := k / n
  let c := k % n
  if entry s r c ≤ eps then (n - 1, n - 2)          -- nothing similar is left: the last two
  else (max r c, min r c)

/-- `while len(nodes) > 1: ...`; `fuel` bounds the rounds (`len(nodes)` suffices: theorem) -/
def clusterLoop (sim : List (Tree κ) → Nat → Nat → Int) (eps : Int) : Nat → List (Tree κ) → Option (List (Tree κ))
  | 0, nodes => some nodes
  | fuel + 1, nodes =>
    if nodes.length ≤ 1 then some nodes
    else (popTwice nodes (choose nodes.length (sim nodes) eps).1 (choose nodes.length (sim nodes) eps).2).bind
      (clusterLoop sim eps fuel)

/-- the whole `argsort` with the clustering policy inside -/
def argsortPolicy (sim : List (Tree κ) → Nat → Nat → Int) (eps : Int) (source : List κ) : Option (List Nat) :=
  match clusterLoop sim eps source.length (source.map Tree.leaf) with
  | some [t] => findIndices source t.inorder
  | _ => none

/-- the pops of every round, for the correspondence run -/
def policyTrace (sim : List (Tree κ) → Nat → Nat → Int) (eps : Int) : Nat → List (Tree κ) → List (Nat × Nat)
  | 0, _ => []
  | fuel + 1, nodes =>
    if nodes.length ≤ 1 then []
    else
      let ij := choose nodes.length (sim nodes) eps
      match popTwice nodes ij.1 ij.2 with
      | none => [ij]
      | some nodes' => ij :: policyTrace sim eps fuel nodes'

end Hpv.Sorting
