/- Prototype: hierarchical clustering driven by an arbitrary merge trace, in-order walk, index recovery. -/
namespace Hpv.Sorting

variable {κ : Type} [DecidableEq κ]

inductive Tree (κ : Type)
  | leaf (id : κ)                 -- tagged node
  | node (l r : Tree κ)           -- merged (untagged) node; its own identifier is irrelevant to the walk

def Tree.inorder : Tree κ → List κ
  | .leaf id => [id]
  | .node l r => l.inorder ++ r.inorder

/-- `a = nodes.pop(hi); b = nodes.pop(lo); nodes.append(merge(a, b))` with `lo < hi < len(nodes)` -/
def clusterStep (nodes : List (Tree κ)) (hi lo : Nat) : Option (List (Tree κ)) :=
  match nodes[hi]?, nodes[lo]? with
  | some a, some b => if lo < hi then some (((nodes.eraseIdx hi).eraseIdx lo) ++ [Tree.node a b]) else none
  | _, _ => none

def cluster : List (Nat × Nat) → List (Tree κ) → Option (List (Tree κ))
  | [], nodes => some nodes
  | (hi, lo) :: rest, nodes => (clusterStep nodes hi lo).bind (cluster rest)

/-- remove the first pool entry carrying id `s` -/
def takeFirst (s : κ) : List (Nat × κ) → Option (Nat × List (Nat × κ))
  | [] => none
  | (i, x) :: rest => if x = s then some (i, rest) else (takeFirst s rest).map (fun r => (r.1, (i, x) :: r.2))

def assign : List κ → List (Nat × κ) → Option (List Nat)
  | [], _ => some []
  | s :: rest, pool => match takeFirst s pool with
    | some (i, pool') => (assign rest pool').map (i :: ·)
    | none => none

def enum : Nat → List κ → List (Nat × κ)
  | _, [] => []
  | k, x :: xs => (k, x) :: enum (k + 1) xs

/-- `_find_indices` (position-queue version): each id takes its first not-yet-used position. -/
def findIndices (source ordered : List κ) : Option (List Nat) := assign ordered (enum 0 source)

/-- the whole `argsort` for a recorded merge trace -/
def argsort (source : List κ) (trace : List (Nat × Nat)) : Option (List Nat) :=
  match cluster trace (source.map Tree.leaf) with
  | some [t] => findIndices source t.inorder
  | _ => none

/-- a second scheme for the same job: every cluster carries the input POSITIONS of its leaves and a merge concatenates them
(left, then right); nothing has to be recovered from ids afterwards -/
def argsortPos (n : Nat) (trace : List (Nat × Nat)) : Option (List Nat) :=
  match cluster trace ((List.range n).map Tree.leaf) with
  | some [t] => some t.inorder
  | _ => none

end Hpv.Sorting
