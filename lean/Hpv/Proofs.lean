import Hpv.Basic

namespace Hpv

structure Pop.Lawful (P : Pop) : Prop where
  none_iff : ∀ b, P.pop b = none ↔ b = []
  perm : ∀ b x b', P.pop b = some (x, b') → List.Perm b (x :: b')

theorem popQueue_lawful : popQueue.Lawful := by
  constructor
  · intro b; cases b <;> simp [popQueue]
  · intro b x b' h
    cases b with
    | nil => simp [popQueue] at h
    | cons y r =>
      simp [popQueue] at h
      obtain ⟨rfl, rfl⟩ := h
      exact List.Perm.refl _

theorem popStack_lawful : popStack.Lawful := by
  constructor
  · intro b
    simp only [popStack]
    cases h : b.getLast? with
    | none => simpa using h
    | some x =>
      simp
      intro hb; subst hb; simp at h
  · intro b x b' h
    simp only [popStack] at h
    cases hl : b.getLast? with
    | none => simp [hl] at h
    | some y =>
      simp [hl] at h
      obtain ⟨rfl, rfl⟩ := h
      obtain ⟨ys, rfl⟩ := List.getLast?_eq_some_iff.mp hl
      simp only [List.dropLast_concat]
      exact List.perm_append_singleton y ys

theorem pushNew_spec (row seen buf : List Nat) :
    ∃ new, pushNew row seen buf = (new.reverse ++ seen, buf ++ new) ∧ new.Nodup ∧
      (∀ x, x ∈ new → x ∈ row ∧ x ∉ seen) ∧ (∀ x, x ∈ row → x ∈ seen ∨ x ∈ new) := by
  induction row generalizing seen buf with
  | nil => exact ⟨[], by simp [pushNew]⟩
  | cons i rest ih =>
    unfold pushNew
    by_cases hi : i ∈ seen
    · simp only [hi, if_true]
      obtain ⟨new, h1, h2, h3, h4⟩ := ih seen buf
      refine ⟨new, h1, h2, ?_, ?_⟩
      · intro x hx; exact ⟨List.mem_cons_of_mem _ (h3 x hx).1, (h3 x hx).2⟩
      · intro x hx
        rcases List.mem_cons.mp hx with rfl | hx
        · exact Or.inl hi
        · exact h4 x hx
    · simp only [hi, if_false]
      obtain ⟨new, h1, h2, h3, h4⟩ := ih (i :: seen) (buf ++ [i])
      refine ⟨i :: new, ?_, ?_, ?_, ?_⟩
      · rw [h1]; simp
      · refine List.nodup_cons.mpr ⟨?_, h2⟩
        intro hin
        exact (h3 i hin).2 (List.mem_cons_self)
      · intro x hx
        rcases List.mem_cons.mp hx with rfl | hx
        · exact ⟨List.mem_cons_self, hi⟩
        · refine ⟨List.mem_cons_of_mem _ (h3 x hx).1, ?_⟩
          intro hs; exact (h3 x hx).2 (List.mem_cons_of_mem _ hs)
      · intro x hx
        rcases List.mem_cons.mp hx with rfl | hx
        · exact Or.inr List.mem_cons_self
        · rcases h4 x hx with h | h
          · rcases List.mem_cons.mp h with rfl | h
            · exact Or.inr List.mem_cons_self
            · exact Or.inl h
          · exact Or.inr (List.mem_cons_of_mem _ h)

/-- Edge relation induced by the successor function. -/
def R (succ : Nat → List Nat) (a b : Nat) : Prop := b ∈ succ a

abbrev Reach (succ : Nat → List Nat) := Relation.TransGen (R succ)

structure Inv (succ : Nat → List Nat) (n src : Nat) (seen buf out : List Nat) : Prop where
  nodup : seen.Nodup
  cover : ∀ x, x ∈ seen ↔ x ∈ buf ∨ x ∈ out
  sound : ∀ x, x ∈ seen → x < n ∧ Reach succ src x
  closed : ∀ x, x ∈ out → ∀ y, y ∈ succ x → y ∈ seen
  init : ∀ y, y ∈ succ src → y ∈ seen

theorem loop_correct (P : Pop) (hP : P.Lawful) (succ : Nat → List Nat) (n src : Nat)
    (hbound : ∀ a b, b ∈ succ a → b < n) :
    ∀ fuel seen buf out, Inv succ n src seen buf out →
      buf.length + (n - seen.length) + 1 ≤ fuel →
      ∃ res, loop P succ fuel seen buf out = some res ∧ ∀ x, x ∈ res ↔ Reach succ src x := by
  intro fuel
  induction fuel with
  | zero => intro seen buf out _ h; omega
  | succ fuel ih =>
    intro seen buf out hinv hfuel
    unfold loop
    cases hp : P.pop buf with
    | none =>
      have hb : buf = [] := (hP.none_iff buf).mp hp
      subst hb
      refine ⟨out, rfl, ?_⟩
      intro x
      constructor
      · intro hx
        exact (hinv.sound x ((hinv.cover x).mpr (Or.inr hx))).2
      · intro hr
        have key : ∀ y, Reach succ src y → y ∈ seen := by
          intro y hy
          induction hy with
          | single h => exact hinv.init _ h
          | @tail b c _ hbc ihb =>
            have hbout : b ∈ out := by
              rcases (hinv.cover b).mp ihb with h | h
              · simp at h
              · exact h
            exact hinv.closed b hbout c hbc
        rcases (hinv.cover x).mp (key x hr) with h | h
        · simp at h
        · exact h
    | some pr =>
      obtain ⟨cur, buf'⟩ := pr
      have hperm := hP.perm buf cur buf' hp
      obtain ⟨new, hpn, hnd, hnew, hrow⟩ := pushNew_spec (succ cur) seen buf'
      simp only [hpn]
      have hcur_buf : cur ∈ buf := hperm.mem_iff.mpr List.mem_cons_self
      have hcur_seen : cur ∈ seen := (hinv.cover cur).mpr (Or.inl hcur_buf)
      have hcur_reach := (hinv.sound cur hcur_seen).2
      have hinv' : Inv succ n src (new.reverse ++ seen) (buf' ++ new) (out ++ [cur]) := by
        constructor
        · rw [List.nodup_append]
          refine ⟨(List.reverse_perm new).symm.nodup hnd, hinv.nodup, ?_⟩
          intro a ha b hb hab
          subst hab
          exact (hnew a (List.mem_reverse.mp ha)).2 hb
        · intro x
          simp only [List.mem_append, List.mem_reverse, List.mem_singleton]
          constructor
          · rintro (h | h)
            · exact Or.inl (Or.inr h)
            · rcases (hinv.cover x).mp h with h | h
              · rcases List.mem_cons.mp (hperm.mem_iff.mp h) with rfl | h
                · exact Or.inr (Or.inr rfl)
                · exact Or.inl (Or.inl h)
              · exact Or.inr (Or.inl h)
          · rintro ((h | h) | (h | h))
            · exact Or.inr ((hinv.cover x).mpr (Or.inl (hperm.mem_iff.mpr (List.mem_cons_of_mem _ h))))
            · exact Or.inl h
            · exact Or.inr ((hinv.cover x).mpr (Or.inr h))
            · subst h; exact Or.inr hcur_seen
        · intro x hx
          rcases List.mem_append.mp hx with h | h
          · have hx' := (hnew x (List.mem_reverse.mp h)).1
            exact ⟨hbound _ _ hx', Relation.TransGen.tail hcur_reach hx'⟩
          · exact hinv.sound x h
        · intro x hx y hy
          rcases List.mem_append.mp hx with h | h
          · exact List.mem_append_right _ (hinv.closed x h y hy)
          · have : x = cur := by simpa using h
            subst this
            rcases hrow y hy with h | h
            · exact List.mem_append_right _ h
            · exact List.mem_append_left _ (List.mem_reverse.mpr h)
        · intro y hy
          exact List.mem_append_right _ (hinv.init y hy)
      have hlen : buf.length = buf'.length + 1 := by
        have := hperm.length_eq; simpa using this
      have hseen_le : (new.reverse ++ seen).length ≤ n := by
        -- a nodup list of numbers below n has length at most n
        have hnd' := hinv'.nodup
        have hlt : ∀ x, x ∈ (new.reverse ++ seen) → x < n := fun x hx => (hinv'.sound x hx).1
        have hsub : (new.reverse ++ seen) ⊆ List.range n := by
          intro x hx; exact List.mem_range.mpr (hlt x hx)
        have := List.Nodup.length_le_of_subset hnd' hsub
        simpa using this
      have hfuel' : (buf' ++ new).length + (n - (new.reverse ++ seen).length) + 1 ≤ fuel := by
        simp only [List.length_append, List.length_reverse] at hseen_le ⊢
        omega
      exact ih _ _ _ hinv' hfuel'

/-- Same induction with the stronger bookkeeping `seen ~ buf ++ out`: every node is yielded once. -/
theorem loop_nodup (P : Pop) (hP : P.Lawful) (succ : Nat → List Nat) :
    ∀ fuel seen buf out res, seen.Nodup → seen.Perm (buf ++ out) →
      loop P succ fuel seen buf out = some res → res.Nodup := by
  intro fuel
  induction fuel with
  | zero => intro seen buf out res _ _ h; simp [loop] at h
  | succ fuel ih =>
    intro seen buf out res hnd hperm h
    unfold loop at h
    cases hp : P.pop buf with
    | none =>
      have hb : buf = [] := (hP.none_iff buf).mp hp
      subst hb
      simp only [hp, Option.some.injEq] at h
      subst h
      simpa using hperm.nodup hnd
    | some pr =>
      obtain ⟨cur, buf'⟩ := pr
      have hpop := hP.perm buf cur buf' hp
      obtain ⟨new, hpn, hndn, hnew, _⟩ := pushNew_spec (succ cur) seen buf'
      simp only [hp, hpn] at h
      refine ih _ _ _ res ?_ ?_ h
      · rw [List.nodup_append]
        refine ⟨(List.reverse_perm new).symm.nodup hndn, hnd, ?_⟩
        intro a ha b hb hab
        subst hab
        exact (hnew a (List.mem_reverse.mp ha)).2 hb
      · -- new.reverse ++ seen ~ (buf' ++ new) ++ (out ++ [cur])
        have s1 : (new.reverse ++ seen).Perm (new ++ (cur :: (buf' ++ out))) :=
          ((List.reverse_perm new).append_right seen).trans
            (List.Perm.append_left new (hperm.trans (hpop.append_right out)))
        have s2 : (new ++ (cur :: (buf' ++ out))).Perm (cur :: (new ++ (buf' ++ out))) := List.perm_middle
        have s3 : (new ++ (buf' ++ out)).Perm ((buf' ++ new) ++ out) := by
          rw [← List.append_assoc]
          exact List.Perm.append_right out List.perm_append_comm
        have s4 : ((buf' ++ new) ++ (out ++ [cur])).Perm (cur :: ((buf' ++ new) ++ out)) := by
          rw [← List.append_assoc]
          exact List.perm_append_singleton cur _
        exact s1.trans (s2.trans ((s3.cons cur).trans s4.symm))

theorem dedupInto_perm (row seen : List Nat) (hr : row.Nodup) (hdis : ∀ x, x ∈ row → x ∉ seen) :
    (dedupInto row seen).Perm (row ++ seen) := by
  induction row generalizing seen with
  | nil => simp [dedupInto]
  | cons i r ih =>
    have hi : i ∉ seen := hdis i List.mem_cons_self
    have hir : i ∉ r := (List.nodup_cons.mp hr).1
    unfold dedupInto
    simp only [hi, if_false]
    have := ih (i :: seen) (List.nodup_cons.mp hr).2 (by
      intro x hx hmem
      rcases List.mem_cons.mp hmem with rfl | h
      · exact hir hx
      · exact hdis x (List.mem_cons_of_mem _ hx) h)
    exact this.trans List.perm_middle

/-- Each reachable node is yielded exactly once when the first row has no repeats. -/
theorem traverse_nodup (P : Pop) (hP : P.Lawful) (succ : Nat → List Nat) (n src : Nat)
    (h0 : (succ src).Nodup) (res : List Nat) (h : traverse P succ n src = some res) : res.Nodup := by
  unfold traverse at h
  have hd : (dedupInto (succ src) []).Nodup := by
    have := dedupInto_perm (succ src) [] h0 (by intro x _ hx; simp at hx)
    exact this.symm.nodup (by simpa using h0)
  refine loop_nodup P hP succ _ _ _ _ res hd ?_ h
  simpa using dedupInto_perm (succ src) [] h0 (by intro x _ hx; simp at hx)

theorem dedupInto_spec (row seen : List Nat) (hs : seen.Nodup) :
    (dedupInto row seen).Nodup ∧ (∀ x, x ∈ dedupInto row seen ↔ x ∈ seen ∨ x ∈ row) ∧
    (dedupInto row seen).length ≤ seen.length + row.length := by
  induction row generalizing seen with
  | nil => simp [dedupInto, hs]
  | cons i r ih =>
    unfold dedupInto
    by_cases hi : i ∈ seen
    · simp only [hi, if_true]
      obtain ⟨h1, h2, h3⟩ := ih seen hs
      refine ⟨h1, ?_, by simp; omega⟩
      intro x; rw [h2 x]; simp
      constructor
      · rintro (h | h); exact Or.inl h; exact Or.inr (Or.inr h)
      · rintro (h | rfl | h); exact Or.inl h; exact Or.inl hi; exact Or.inr h
    · simp only [hi, if_false]
      obtain ⟨h1, h2, h3⟩ := ih (i :: seen) (List.nodup_cons.mpr ⟨hi, hs⟩)
      refine ⟨h1, ?_, by simp at h3 ⊢; omega⟩
      intro x; rw [h2 x]; simp
      constructor
      · rintro ((rfl | h) | h); exact Or.inr (Or.inl rfl); exact Or.inl h; exact Or.inr (Or.inr h)
      · rintro (h | rfl | h); exact Or.inl (Or.inr h); exact Or.inl (Or.inl rfl); exact Or.inr h

/-- Main theorem: the traversal returns exactly the nodes reachable over one or more edges. -/
theorem traverse_correct (P : Pop) (hP : P.Lawful) (succ : Nat → List Nat) (n src : Nat)
    (hbound : ∀ a b, b ∈ succ a → b < n) :
    ∃ res, traverse P succ n src = some res ∧ ∀ x, x ∈ res ↔ Reach succ src x := by
  unfold traverse
  obtain ⟨h1, h2, h3⟩ := dedupInto_spec (succ src) [] List.nodup_nil
  apply loop_correct P hP succ n src hbound
  · constructor
    · exact h1
    · intro x; rw [h2 x]; simp
    · intro x hx
      have : x ∈ succ src := by simpa using (h2 x).mp hx
      exact ⟨hbound _ _ this, Relation.TransGen.single this⟩
    · intro x hx; simp at hx
    · intro y hy; exact (h2 y).mpr (Or.inr hy)
  · omega

end Hpv
