/-
C13 — term-id argsort always returns a permutation of the input positions.
Model: Hpv/Sorting.lean (`HierarchicalSorting.argsort`: tagged leaves, the clustering loop, the in-order walk and
`_find_indices`).  The similarity measure, `argmax`, the epsilon branch and the identifiers given to merged clusters only
decide WHICH two current nodes are merged at each step; they are an oracle: the theorems quantify over every merge trace.
Identified inputs are normalised to their ids before anything else happens, so both input forms share this model.
-/
import Hpv.SortingProofs
import Hpv.SortingPolicyProofs

namespace Hpv.Props.C13
open Hpv.Sorting

variable {κ : Type} [DecidableEq κ]

/-- For every non-empty input (repeats allowed) and every merge trace that ends in a single tree, argsort returns each
position `0..n-1` exactly once, and indexing the input with the result re-orders it without losing or duplicating an item. -/
theorem permutation (source : List κ) (trace : List (Nat × Nat)) (t : Tree κ)
    (h : cluster trace (source.map Tree.leaf) = some [t]) :
    ∃ res, argsort source trace = some res ∧ res.Perm (List.range source.length) ∧
      res.map (source[·]?) = t.inorder.map some ∧ (res.map (source[·]?)).Perm (source.map some) := by
  obtain ⟨res, h1, h2, h3, h4⟩ := argsort_spec source trace t h
  refine ⟨res, by simp [argsort, h, h1], h2, h3, ?_⟩
  rw [h3]
  exact List.Perm.map some h4

/-- the clustering loop runs exactly `n - 1` merges -/
theorem trace_length (source : List κ) (trace : List (Nat × Nat)) (t : Tree κ)
    (h : cluster trace (source.map Tree.leaf) = some [t]) : trace.length + 1 = source.length := by
  have := cluster_length trace _ _ h
  simp at this; omega

/-- a single item gives `(0,)` -/
theorem singleton (x : κ) : argsort [x] [] = some [0] := by
  simp [argsort, cluster, Tree.inorder, findIndices, enum, assign, takeFirst]

/-- the result is a function of the ids and the merge trace only, so the same ids (given as TermIds or as identified
objects) with the same trace give the same answer, and a second call with the same trace gives it again -/
theorem deterministic (source : List κ) (trace : List (Nat × Nat)) (r1 r2 : List Nat)
    (h1 : argsort source trace = some r1) (h2 : argsort source trace = some r2) : r1 = r2 := by
  rw [h1] at h2; exact Option.some.inj h2

/-- The same clause for the OTHER way to recover positions (clusters carry the positions of their leaves, a merge concatenates
them): also a permutation for every merge trace. The check accepts a working tree whose answers replay through either scheme. -/
theorem permutation_positions (n : Nat) (trace : List (Nat × Nat)) (t : Tree Nat)
    (h : cluster trace ((List.range n).map Tree.leaf) = some [t]) :
    ∃ res, argsortPos n trace = some res ∧ res.Perm (List.range n) :=
  ⟨t.inorder, (argsortPos_perm n trace t h).1, (argsortPos_perm n trace t h).2⟩

/-- **The clustering policy is total** (`_hierarchical_cluster`: similarity matrix with zero diagonal, first maximum, the
"nothing similar is left" branch that merges the last two clusters): for EVERY similarity measure - an oracle that may
answer anything for any pair of current clusters in any round - and every epsilon, negative ones included, no round pops
outside its list, and the loop ends with one tree whose leaves are exactly the input items. So `argsort` as a whole
returns a permutation of `0..n-1` for every non-empty input, with no assumption about which merges happen. -/
theorem policy_permutation (sim : List (Tree κ) → Nat → Nat → Int) (eps : Int) (source : List κ) (hne : source ≠ []) :
    ∃ res, argsortPolicy sim eps source = some res ∧ res.Perm (List.range source.length) ∧
      (res.map (source[·]?)).Perm (source.map some) :=
  argsortPolicy_spec sim eps source hne

/-- what the policy pops in one round always exists (`n >= 2` clusters), whatever the similarities are -/
theorem policy_pops_valid (n : Nat) (hn : 2 ≤ n) (s : Nat → Nat → Int) (eps : Int) :
    (choose n s eps).1 < n ∧ (choose n s eps).2 + 1 < n :=
  choose_valid n hn s eps

/-- a round that pops a higher and then a lower position is a step of the trace model the other theorems speak about -/
theorem policy_step_is_trace_step (nodes : List (Tree κ)) (hi lo : Nat) (h : lo < hi) :
    popTwice nodes hi lo = clusterStep nodes hi lo :=
  popTwice_eq_clusterStep nodes hi lo h

/-- **The two models agree.** With a non-negative epsilon (the shipped sorters use 5e-10) the policy's loop is the trace model run on
the pops the policy chose, so `argsort` with the policy inside is `argsort` for that merge trace - whatever the similarity measure answers. -/
theorem policy_is_a_trace (sim : List (Tree κ) → Nat → Nat → Int) (eps : Int) (heps : 0 ≤ eps) (source : List κ) :
    argsortPolicy sim eps source = argsort source (policyTrace sim eps source.length (source.map Tree.leaf)) := by
  unfold argsortPolicy argsort
  rw [clusterLoop_eq_cluster sim eps heps source.length (source.map Tree.leaf) (by simp)]

-- non-vacuity: the recorded trace of a 5-item run, and an input with a repeated id
example : argsort [10, 20, 30, 40, 50] [(4, 0), (3, 1), (2, 1), (1, 0)] = some [4, 0, 2, 3, 1] := by decide
example : argsort [7, 7, 8] [(2, 1), (1, 0)] = some [2, 0, 1] := by decide
example : argsortPos 3 [(2, 1), (1, 0)] = some [2, 1, 0] ∧ argsortPos 2 [(1, 0)] = some [1, 0] := by decide
example : ∃ t, cluster [(2, 1), (1, 0)] ([7, 7, 8].map Tree.leaf) = some [t] := ⟨_, rfl⟩
-- the policy on three items: similarity 5 for the pair (0, 2), nothing else similar; then the epsilon branch
example : argsortPolicy (fun nodes r c => if nodes.length = 3 ∧ r = 0 ∧ c = 2 then 5 else 0) 0 [10, 20, 30] = some [2, 0, 1] := by decide
-- a NEGATIVE epsilon with no similarity at all: the maximum is the diagonal's zero at (0, 0), position 0 is popped twice
example : choose 3 (fun _ _ => 0) (-1) = (0, 0) ∧ argsortPolicy (fun _ _ _ => 0) (-1) [10, 20, 30] = some [2, 0, 1] := by decide

end Hpv.Props.C13
