/-
C12 — queries are pure: results independent of history and iterator interleaving.
Model: Hpv/Session.lean.  A lazily evaluated traversal is an explicit generator frame (`seen`, `buffer`); a session holds
any number of open frames over ONE immutable graph.  The theorems say that in this model nothing an operation does can be
seen by another iterator or by a later query.  Whether the CODE keeps all traversal state in the frame (and the factories
keep none between loads) is exactly what the correspondence run probes by interleaving real iterators, sharing one
factory between loads and running reader threads; pre-emptive switches inside a bytecode are not exhibited (partial).
-/
import Hpv.Session
import Hpv.Proofs

namespace Hpv.Props.C12
open Hpv Hpv.Session

/-- stepping a frame to the end yields what the whole-loop traversal yields (so a lazily consumed iterator and an
eagerly evaluated query agree) -/
theorem drain_eq_loop (P : Pop) (succ : Nat → List Nat) :
    ∀ fuel (s : IterState) (out res : List Nat), loop P succ fuel s.seen s.buf out = some res →
      res = out ++ drain P succ fuel s := by
  intro fuel
  induction fuel with
  | zero => intro s out res h; simp [loop] at h
  | succ fuel ih =>
    intro s out res h
    unfold loop at h
    unfold drain next
    cases hp : P.pop s.buf with
    | none => simp only [hp] at h ⊢; injection h with h; simp [h]
    | some pr =>
      obtain ⟨cur, buf'⟩ := pr
      simp only [hp] at h ⊢
      have := ih ⟨(pushNew (succ cur) s.seen buf').1, (pushNew (succ cur) s.seen buf').2⟩ (out ++ [cur]) res h
      rw [this]; simp

/-- **Frame**: an operation changes at most the frame it addresses; `opn` and `eval` change no existing frame. -/
theorem step_frame (P : Pop) (succ : Nat → List Nat) (n : Nat) (s : Sess) (op : Op) (j : Nat) (hj : j < s.iters.length) :
    (∀ i, op = .nxt i → i ≠ j → (step P succ n s op).iters[j]? = s.iters[j]?) ∧
    (∀ src, op = .opn src → (step P succ n s op).iters[j]? = s.iters[j]?) ∧
    (∀ src, op = .eval src → (step P succ n s op).iters[j]? = s.iters[j]?) := by
  refine ⟨?_, ?_, ?_⟩
  · intro i hop hij
    subst hop
    cases hi : s.iters[i]? with
    | none => simp only [step, hi]
    | some it =>
      cases hn : next P succ it with
      | none => simp only [step, hi, hn]
      | some p => simp only [step, hi, hn]; rw [List.getElem?_set_ne hij]
  · intro src hop; subst hop
    simp only [step]
    rw [List.getElem?_append_left hj]
  · intro src hop; subst hop; rfl

/-- **Non-interference (per step)**: what `nxt j` yields and the frame it leaves depend only on frame `j`. -/
theorem next_local (P : Pop) (succ : Nat → List Nat) (n : Nat) (s s' : Sess) (j : Nat) (h : s.iters[j]? = s'.iters[j]?) :
    ((step P succ n s (.nxt j)).out.getLast?.map (·.1)) = ((step P succ n s' (.nxt j)).out.getLast?.map (·.1)) ∧
    (step P succ n s (.nxt j)).iters[j]? = (step P succ n s' (.nxt j)).iters[j]? := by
  cases hi : s.iters[j]? with
  | none =>
    have hi' : s'.iters[j]? = none := by rw [← h, hi]
    simp [step, hi, hi']
  | some it =>
    have hi' : s'.iters[j]? = some it := by rw [← h, hi]
    cases hn : next P succ it with
    | none => simp [step, hi, hi', hn]
    | some p =>
      have hj : j < s.iters.length := by
        rcases Nat.lt_or_ge j s.iters.length with h' | h'
        · exact h'
        · rw [List.getElem?_eq_none h'] at hi; cases hi
      have hj' : j < s'.iters.length := by
        rcases Nat.lt_or_ge j s'.iters.length with h' | h'
        · exact h'
        · rw [List.getElem?_eq_none h'] at hi'; cases hi'
      simp [step, hi, hi', hn, List.getElem?_set_self hj, List.getElem?_set_self hj']

/-- **A complete query is a function of the graph and its argument only**: whatever ops ran before, whatever frames
are open, `eval src` appends the standalone result. -/
theorem eval_history_free (P : Pop) (succ : Nat → List Nat) (n : Nat) (s s' : Sess) (src : Nat) :
    (step P succ n s (.eval src)).out.getLast? = (step P succ n s' (.eval src)).out.getLast? ∧
    (step P succ n s (.eval src)).iters = s.iters := by
  simp [step]

/-- loading has no factory state in the model: the result of a load is a function of the document alone -/
theorem load_history_free {Doc Onto : Type} (load : Unit → Doc → Onto) (h h' : Unit) (d : Doc) : load h d = load h' d := by
  cases h; cases h'; rfl

-- non-vacuity: two interleaved ancestor iterators over the diamond 3 -> {1, 2} -> 0, plus a complete query in between
def exSucc : Nat → List Nat := fun i => if i = 3 then [1, 2] else if i = 1 ∨ i = 2 then [0] else []
example : (run popStack exSucc 4 [.opn 3, .opn 3, .nxt 0, .eval 3, .nxt 1, .nxt 0, .nxt 1, .nxt 0, .nxt 0]).out.map (·.1) =
    [none, none, some 2, none, some 2, some 0, some 0, some 1, none] := by decide
example : drain popStack exSucc 10 (start exSucc 3) = [2, 0, 1] := by decide

end Hpv.Props.C12
