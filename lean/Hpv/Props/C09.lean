/-
C09 — information content equals -log of the propagated annotation frequency.
Model: Hpv/Ic.lean (`calculate_ic_for_annotated_items`): the Counter after the nested loops, the module filter on the
annotation AND on each ancestor, the pseudocount pass, the population count.  `anc t` is the ancestor list including `t`
(C01: duplicate-free and equal to the reflexive-transitive closure, hence closed under taking ancestors); `mod` is the
module set.  Real-number layer (Mathlib): Hpv/IcReal.lean.  Floats / math.log are not modelled (tolerance 1e-9 in the tie).
-/
import Hpv.IcProofs
import Hpv.IcReal

namespace Hpv.Props.C09
open Hpv.Ic

variable {κ : Type} [DecidableEq κ]

/-- c(t) counts the present annotations (inside the module) to `t` or to any of its descendants, once each;
terms outside the module are never counted. -/
theorem count_spec (anc : κ → List κ) (mod : Option (List κ)) (items : List (List (κ × Bool))) (t : κ)
    (hnd : ∀ a, (anc a).Nodup) :
    (increments anc mod (presentIds items)).count t =
      if inModule mod t then ((presentIds items).filter (inModule mod)).countP (fun a => decide (t ∈ anc a)) else 0 :=
  count_increments anc mod (presentIds items) t hnd

/-- The final table: c(t) when positive, raised to 1 for every corpus term when pseudocounts are requested, absent
otherwise — so never-annotated terms are absent unless pseudocounts are on; keys = terms with a positive final count. -/
theorem table_spec (anc : κ → List κ) (mod : Option (List κ)) (univ : List κ) (pseudo : Bool)
    (items : List (List (κ × Bool))) (t : κ) :
    lookupCount (counts anc mod univ pseudo items) t =
      (if 0 < (increments anc mod (presentIds items)).count t then (increments anc mod (presentIds items)).count t
       else if pseudo = true ∧ t ∈ corpus mod univ then 1 else 0) ∧
    (t ∈ (counts anc mod univ pseudo items).map (·.1) ↔ 0 < lookupCount (counts anc mod univ pseudo items) t) :=
  ⟨final_count anc mod univ pseudo items t, key_iff anc mod univ pseudo items t⟩

/-- Counts never decrease from a term to its ancestors (inside the module), also after the pseudocount pass;
in particular no count exceeds the count of the (module) root, which is every term's ancestor. -/
theorem monotone (anc : κ → List κ) (mod : Option (List κ)) (univ : List κ) (pseudo : Bool)
    (items : List (List (κ × Bool))) (t t' : κ)
    (hnd : ∀ a, (anc a).Nodup) (hclosed : ∀ a x y, x ∈ anc a → y ∈ anc x → y ∈ anc a)
    (hanc : t' ∈ anc t) (hm' : inModule mod t' = true) (hu : pseudo = true → t ∈ corpus mod univ → t' ∈ corpus mod univ) :
    lookupCount (counts anc mod univ pseudo items) t ≤ lookupCount (counts anc mod univ pseudo items) t' := by
  rw [final_count, final_count]
  have hmono := count_monotone anc mod (presentIds items) t t' hnd hclosed hanc hm'
  generalize (increments anc mod (presentIds items)).count t = c at *
  generalize (increments anc mod (presentIds items)).count t' = c' at *
  by_cases h1 : 0 < c
  · have h2 : 0 < c' := by omega
    rw [if_pos h1, if_pos h2]; exact hmono
  · rw [if_neg h1]
    by_cases h2 : 0 < c'
    · rw [if_pos h2]; split <;> omega
    · rw [if_neg h2]
      by_cases h3 : pseudo = true ∧ t ∈ corpus mod univ
      · rw [if_pos h3, if_pos ⟨h3.1, hu h3.1 h3.2⟩]
      · rw [if_neg h3]; omega

/-- Excluded annotations and the order of items do not matter. -/
theorem irrelevant (anc : κ → List κ) (mod : Option (List κ)) (items items' : List (List (κ × Bool))) (t : κ) :
    presentIds (items.map (fun anns => anns.filter (·.2))) = presentIds items ∧
    (items.Perm items' → (increments anc mod (presentIds items)).count t = (increments anc mod (presentIds items')).count t) :=
  ⟨presentIds_excluded items, fun h => count_perm anc mod _ _ (presentIds_perm items items' h) t⟩

/-- **Consequences in ℝ** for counts `0 < c ≤ c' ≤ p` and any base `b > 1` (`math.log` is base `e > 1`):
the (module) root has IC 0, no IC is negative, and IC never decreases from a term to its descendants. -/
theorem ic_real (b : ℝ) (hb : 1 < b) (c c' p : ℕ) (hc : 0 < c) (hcc : c ≤ c') (hcp : c' ≤ p) :
    icOf b p p = 0 ∧ 0 ≤ icOf b c p ∧ icOf b c' p ≤ icOf b c p ∧ (1 : ℝ) < Real.exp 1 :=
  ⟨icOf_root b p (by omega), icOf_nonneg b hb c p hc (by omega), icOf_antitone b hb c c' p hc hcc (by omega),
   exp_one_gt_one⟩

-- non-vacuity: chain 3 -> 2 -> 1 (root), annotations: item A {3 present, 2 excluded}, item B {2 present}
def exAnc : Nat → List Nat := fun t => if t = 3 then [3, 2, 1] else if t = 2 then [2, 1] else [t]
example : counts exAnc none [1, 2, 3, 4] false [[(3, true), (2, false)], [(2, true)]] = [(3, 1), (2, 2), (1, 2)] := by decide
example : counts exAnc none [1, 2, 3, 4] true [[(3, true)]] = [(3, 1), (2, 1), (1, 1), (4, 1)] := by decide
example : counts exAnc (some [2, 3]) [1, 2, 3, 4] false [[(3, true)], [(1, true)]] = [(3, 1), (2, 1)] := by decide
example : (∀ a, (exAnc a).Nodup) := by
  intro a; unfold exAnc; split
  · decide
  · split
    · decide
    · simp

end Hpv.Props.C09
