/-
C02 — graph construction depends only on the edge set; the root is unique or owl:Thing.
Model: `findRoot`, `dedup`, `nodesOf`, `buildIndexed` (Hpv/GraphModel.lean).  This file imports Mathlib modules
(finite + acyclic ⇒ well-founded) for `root_top` and `factory_total`; everything else is core Lean.
Hypothesis `OwlOk owl E`: the synthetic root must be a fresh node WHEN IT IS ADDED, i.e. when two or more terms are
parentless; an edge list that mentions `owl:Thing` and has a single parentless term (e.g. `owl:Thing` itself as the top
of the hierarchy) is inside the domain.  At the excluded point the real code fails (self-loop owl:Thing → owl:Thing) —
recorded as an open known finding, see DESIGN.md.
-/
import Hpv.GraphModelProofs
import Hpv.Props.C01
import Hpv.Props.C03
import Hpv.WfRoot

namespace Hpv.Props.C02
open Hpv.Graph Hpv.Csr Hpv.Indexed Hpv.GM Hpv.Props.C01 Relation

variable {κ : Type} [DecidableEq κ]
variable {o : Graph.Ord κ} {owl : κ} {E : List (Edge κ)} {root : κ} {E' : List (Edge κ)} {g : IGraph κ}

theorem mem_endpoints (l : List (Edge κ)) (x : κ) : x ∈ endpoints l ↔ ∃ e ∈ l, x = e.1 ∨ x = e.2 := by
  unfold endpoints
  simp only [List.mem_flatMap, List.mem_cons, List.not_mem_nil, or_false]

/-- the domain condition on `owl:Thing`: it is not mentioned in the edges, unless no synthetic root is needed -/
def OwlOk (owl : κ) (E : List (Edge κ)) : Prop := 2 ≤ (candidates (dedup E)).length → owl ∉ endpoints E

theorem owlOk_of_fresh (h : owl ∉ endpoints E) : OwlOk owl E := fun _ => h

/-- **Nodes.** The graph contains exactly the terms mentioned in the edges, each once, in ascending order, plus the
synthetic root exactly when at least two terms have no parent. -/
theorem nodes_spec (h : BuiltIx o owl E root E' g) :
    Sorted o g.nodes ∧ g.nodes.Nodup ∧
    ∀ x, x ∈ g.nodes ↔ x ∈ endpoints E ∨ (x = owl ∧ 2 ≤ (candidates (dedup E)).length) := by
  obtain ⟨_, _, hn, _, _, _, _, _, _, hsorted⟩ := h.facts
  refine ⟨hsorted, Sorted.nodup o h.strict _ hsorted, ?_⟩
  intro x
  rw [hn]
  unfold nodesOf
  rw [mem_sortDedup, mem_endpoints, mem_endpoints]
  constructor
  · rintro ⟨e, he, hx⟩
    rcases (findRoot_mem owl (dedup E) root E' h.hroot e).mp he with h1 | ⟨h2, ho, hp⟩
    · exact Or.inl ⟨e, (mem_dedup E e).mp h1, hx⟩
    · rcases hx with hx | hx
      · obtain ⟨⟨e', he', h3⟩, _⟩ := hp
        exact Or.inl ⟨e', (mem_dedup E e').mp he', Or.inr (by rw [hx, h3])⟩
      · exact Or.inr ⟨by rw [hx, ho], h2⟩
  · rintro (⟨e, he, hx⟩ | ⟨rfl, h2⟩)
    · exact ⟨e, (findRoot_mem owl (dedup E) root E' h.hroot e).mpr (Or.inl ((mem_dedup E e).mpr he)), hx⟩
    · cases hcs : candidates (dedup E) with
      | nil => rw [hcs] at h2; simp at h2
      | cons c t =>
        have hc : c ∈ candidates (dedup E) := by rw [hcs]; simp
        exact ⟨(c, x), (findRoot_mem x (dedup E) root E' h.hroot (c, x)).mpr
          (Or.inr ⟨h2, rfl, (mem_candidates _ c).mp hc⟩), Or.inr rfl⟩

/-- **Root.** The root is the single parentless term, or — when several terms have no parent — the added
`owl:Thing`, whose children are exactly the parentless terms; the root is a node and has no parents. -/
theorem root_spec (h : BuiltIx o owl E root E' g) (howl : OwlOk owl E) :
    ((candidates (dedup E) = [root]) ∨
     (2 ≤ (candidates (dedup E)).length ∧ root = owl ∧
       ∃ res, g.query o .children (some owl) false = .ok res ∧ res.Nodup ∧ ∀ x, x ∈ res ↔ Parentless (dedup E) x)) ∧
    G.root (.ix g) = .ok root ∧ root ∈ g.nodes ∧
    g.query o .parents (some root) false = .ok [] := by
  obtain ⟨_, _, _, _, _, _, hrootidx, _, _, _⟩ := h.facts
  have hrootmem : root ∈ g.nodes := List.mem_of_getElem? hrootidx
  have hnoE : 2 ≤ (candidates (dedup E)).length → ∀ e ∈ dedup E, e.1 ≠ owl ∧ e.2 ≠ owl := by
    intro h2 e he
    have he' := (mem_dedup E e).mp he
    constructor
    · intro hh; exact howl h2 ((mem_endpoints E owl).mpr ⟨e, he', Or.inl hh.symm⟩)
    · intro hh; exact howl h2 ((mem_endpoints E owl).mpr ⟨e, he', Or.inr hh.symm⟩)
  -- the root is never the subject of an edge of the rooted list
  have hnosub : ∀ e ∈ E', e.1 ≠ root := by
    intro e he
    rcases findRoot_spec owl (dedup E) root E' h.hroot with ⟨h1, rfl⟩ | ⟨h2', rfl, rfl⟩
    · have : root ∈ candidates (dedup E) := by rw [h1]; simp
      exact ((mem_candidates _ _).mp this).2 e he
    · have hnoE := hnoE h2'
      rcases List.mem_append.mp he with h1 | h1
      · exact (hnoE e h1).1
      · obtain ⟨c, hc, rfl⟩ := List.mem_map.mp h1
        obtain ⟨⟨e', he', h3⟩, _⟩ := (mem_candidates _ c).mp hc
        intro hh
        exact (hnoE e' he').2 (by rw [h3]; exact hh)
  refine ⟨?_, (Hpv.Props.C03.index_bijection h).2.2.1, hrootmem, ?_⟩
  · rcases findRoot_spec owl (dedup E) root E' h.hroot with ⟨h1, _⟩ | ⟨h2, hr, hE'⟩
    · exact Or.inl h1
    · refine Or.inr ⟨h2, hr, ?_⟩
      have hnoE := hnoE h2
      subst hr
      obtain ⟨hq, hnd, hmem⟩ := children_exact h root hrootmem
      refine ⟨_, hq, hnd, ?_⟩
      intro x
      rw [hmem x]
      unfold IsA
      rw [findRoot_mem root (dedup E) root E' h.hroot (x, root)]
      constructor
      · rintro (h1 | ⟨_, _, hp⟩)
        · exact absurd rfl (hnoE _ h1).2
        · exact hp
      · intro hp; exact Or.inr ⟨h2, rfl, hp⟩
  · obtain ⟨hq, _, _⟩ := parents_exact h root hrootmem
    rw [hq]
    congr 1
    have : E'.filter (fun e => decide (e.1 = root)) = [] := by
      rw [List.filter_eq_nil_iff]
      intro e he
      simpa using hnosub e he
    rw [this]; rfl

/-- Root finding keeps the hierarchy acyclic (and hence free of self-loops) when `owl:Thing` is fresh. -/
theorem acyclic_rooted_fresh (hroot : findRoot owl (dedup E) = .ok (root, E')) (howl : owl ∉ endpoints E)
    (hacyc : ∀ x, ¬ TransGen (fun a b => (a, b) ∈ E) x x) :
    (∀ x, ¬ TransGen (IsA E') x x) ∧ ∀ e ∈ E', e.1 ≠ e.2 := by
  have hnoE : ∀ a b, (a, b) ∈ E → a ≠ owl ∧ b ≠ owl := by
    intro a b he
    constructor
    · intro hh; exact howl ((mem_endpoints E owl).mpr ⟨(a, b), he, Or.inl hh.symm⟩)
    · intro hh; exact howl ((mem_endpoints E owl).mpr ⟨(a, b), he, Or.inr hh.symm⟩)
  have hstep : ∀ a b, IsA E' a b → (a, b) ∈ E ∨ (b = owl ∧ Parentless (dedup E) a) := by
    intro a b hab
    rcases (findRoot_mem owl (dedup E) root E' hroot (a, b)).mp hab with h1 | ⟨_, h2, h3⟩
    · exact Or.inl ((mem_dedup E _).mp h1)
    · exact Or.inr ⟨h2, h3⟩
  -- a path in the rooted list is a path in E, or ends in owl:Thing
  have hpath : ∀ a b, TransGen (IsA E') a b → TransGen (fun a b => (a, b) ∈ E) a b ∨ b = owl := by
    intro a b hab
    induction hab with
    | single hh =>
      rcases hstep _ _ hh with h1 | ⟨h1, _⟩
      · exact Or.inl (TransGen.single h1)
      · exact Or.inr h1
    | @tail m c _ hh ih =>
      rcases hstep _ _ hh with h1 | ⟨h1, _⟩
      · rcases ih with h2 | h2
        · exact Or.inl (TransGen.tail h2 h1)
        · exact absurd h2 (hnoE _ _ h1).1
      · exact Or.inr h1
  have hac : ∀ x, ¬ TransGen (IsA E') x x := by
    intro x hx
    rcases hpath x x hx with h1 | h1
    · exact hacyc x h1
    · subst h1
      -- the first step leaves owl:Thing: impossible
      obtain ⟨y, hy, _⟩ := TransGen.head'_iff.mp hx
      rcases hstep _ _ hy with h2 | ⟨_, h3⟩
      · exact (hnoE _ _ h2).1 rfl
      · obtain ⟨⟨e, he, h4⟩, _⟩ := h3
        exact (hnoE e.1 e.2 ((mem_dedup E e).mp he)).2 h4
  refine ⟨hac, ?_⟩
  intro e he heq
  apply hac e.1
  apply TransGen.single
  show (e.1, e.1) ∈ E'
  have : (e.1, e.1) = e := Prod.ext rfl heq
  rw [this]; exact he

/-- Root finding keeps the hierarchy acyclic on the whole domain: with a single parentless term nothing is added (whether
or not the edges mention `owl:Thing`), with several the fresh `owl:Thing` is put on top. -/
theorem acyclic_rooted (hroot : findRoot owl (dedup E) = .ok (root, E')) (howl : OwlOk owl E)
    (hacyc : ∀ x, ¬ TransGen (fun a b => (a, b) ∈ E) x x) :
    (∀ x, ¬ TransGen (IsA E') x x) ∧ ∀ e ∈ E', e.1 ≠ e.2 := by
  rcases findRoot_spec owl (dedup E) root E' hroot with ⟨_, hE'⟩ | ⟨h2, _, _⟩
  · subst hE'
    have hac : ∀ x, ¬ TransGen (IsA (dedup E)) x x := by
      intro x hx
      exact hacyc x (TransGen.mono (fun a b hh => (mem_dedup E (a, b)).mp hh) x x hx)
    refine ⟨hac, ?_⟩
    intro e he heq
    apply hac e.1
    apply TransGen.single
    show (e.1, e.1) ∈ dedup E
    have : (e.1, e.1) = e := Prod.ext rfl heq
    rw [this]; exact he
  · exact acyclic_rooted_fresh hroot (howl h2) hacyc

/-- **Every other node is a descendant of the root** (finite + acyclic ⇒ every upward walk ends, and it can only
end in the root). -/
theorem root_top (h : BuiltIx o owl E root E' g) (hacyc : ∀ x, ¬ TransGen (IsA E') x x)
    (v : κ) (hv : v ∈ g.nodes) (hne : v ≠ root) :
    TransGen (IsA E') v root ∧
    ∃ res, g.query o .ancestors (some v) false = .ok res ∧ root ∈ res := by
  obtain ⟨_, _, hn, _, _, _, _, _, _, _⟩ := h.facts
  have hclosed : ∀ a b, IsA E' a b → a ∈ g.nodes ∧ b ∈ g.nodes := by
    intro a b hab; rw [hn]; exact mem_nodesOf o E' (a, b) hab
  obtain ⟨r, hr, hreach, hnone⟩ := exists_parentless_ancestor g.nodes (IsA E') hclosed hacyc v hv
  -- a node without parents in the rooted list is the root
  have hr_root : r = root := by
    rw [hn] at hr
    unfold nodesOf at hr
    rw [mem_sortDedup, mem_endpoints] at hr
    obtain ⟨e, he, hre⟩ := hr
    rcases hre with hre | hre
    · exact absurd (show IsA E' r e.2 by rw [hre]; exact he) (hnone e.2)
    · -- r is an object of an edge of E' and the subject of none
      rcases findRoot_spec owl (dedup E) root E' h.hroot with ⟨h1, hE⟩ | ⟨h2, hro, hE⟩
      · subst hE
        have : r ∈ candidates (dedup E) := (mem_candidates _ r).mpr
          ⟨⟨e, he, hre.symm⟩, fun e' he' heq => hnone e'.2 (by show (r, e'.2) ∈ _; rw [← heq]; exact he')⟩
        rw [h1] at this; simpa using this
      · subst hE
        rcases List.mem_append.mp he with h3 | h3
        · -- r would be a candidate, hence a subject of a synthetic edge
          have hc : r ∈ candidates (dedup E) := (mem_candidates _ r).mpr
            ⟨⟨e, h3, hre.symm⟩, fun e' he' heq => hnone e'.2 (by
              show (r, e'.2) ∈ _
              rw [← heq]; exact List.mem_append_left _ he')⟩
          exact absurd (show IsA (dedup E ++ (candidates (dedup E)).map (fun c => (c, owl))) r owl from
            List.mem_append_right _ (List.mem_map.mpr ⟨r, hc, rfl⟩)) (hnone owl)
        · obtain ⟨c, _, rfl⟩ := List.mem_map.mp h3
          rw [hre, hro]
  subst hr_root
  have hreach' : TransGen (IsA E') v r := by
    rcases hreach with h1 | h1
    · exact absurd h1.symm hne
    · exact h1
  refine ⟨hreach', ?_⟩
  obtain ⟨res, hq, _, hmem⟩ := ancestors_closure h v hv
  exact ⟨res, hq, (hmem r).mpr hreach'⟩

/-- **The factory is total on the property's domain**: every acyclic edge list with at least one edge, not
mentioning `owl:Thing`, is built successfully (so the `BuiltIx` hypothesis of all graph theorems is never vacuous). -/
theorem factory_total (o : Graph.Ord κ) (hs : o.Strict) (owl : κ) (E : List (Edge κ)) (hne : E ≠ [])
    (howl : OwlOk owl E) (hacyc : ∀ x, ¬ TransGen (fun a b => (a, b) ∈ E) x x) :
    ∃ root E' g, BuiltIx o owl E root E' g := by
  -- some term is parentless: walk up from the subject of the first edge
  obtain ⟨e0, he0⟩ := List.exists_mem_of_ne_nil E hne
  have hclosed : ∀ a b, (a, b) ∈ E → a ∈ endpoints E ∧ b ∈ endpoints E := by
    intro a b hab
    exact ⟨(mem_endpoints E a).mpr ⟨(a, b), hab, Or.inl rfl⟩, (mem_endpoints E b).mpr ⟨(a, b), hab, Or.inr rfl⟩⟩
  obtain ⟨r, _, hreach, hnone⟩ := exists_parentless_ancestor (endpoints E) (fun a b => (a, b) ∈ E) hclosed hacyc e0.1
    ((mem_endpoints E e0.1).mpr ⟨e0, he0, Or.inl rfl⟩)
  have hrobj : ∃ e ∈ E, e.2 = r := by
    rcases hreach with h1 | h1
    · exact absurd (show (r, e0.2) ∈ E by rw [h1]; exact he0) (hnone e0.2)
    · obtain ⟨y, _, hy⟩ := TransGen.tail'_iff.mp h1
      exact ⟨(y, r), hy, rfl⟩
  have hcand : r ∈ candidates (dedup E) := by
    rw [mem_candidates]
    obtain ⟨e, he, her⟩ := hrobj
    refine ⟨⟨e, (mem_dedup E e).mpr he, her⟩, ?_⟩
    intro e' he' heq
    exact hnone e'.2 (by show (r, e'.2) ∈ E; rw [← heq]; exact (mem_dedup E e').mp he')
  obtain ⟨root, E', hroot⟩ := findRoot_ok owl (dedup E) (List.ne_nil_of_mem hcand)
  obtain ⟨_, hloop⟩ := acyclic_rooted hroot howl hacyc
  obtain ⟨g, _, hg, _⟩ := buildIndexed_spec o hs owl E root E' hroot hloop
  exact ⟨root, E', g, ⟨hs, hroot, hloop, hg⟩⟩

/-! ### invariance under re-ordering and repetition of edges -/

theorem sorted_ext (o : Graph.Ord κ) (hs : o.Strict) (l1 l2 : List κ) (h1 : Sorted o l1) (h2 : Sorted o l2)
    (hmem : ∀ x, x ∈ l1 ↔ x ∈ l2) : l1 = l2 := by
  induction l1 generalizing l2 with
  | nil =>
    cases l2 with
    | nil => rfl
    | cons b t => exact absurd ((hmem b).mpr List.mem_cons_self) (by simp)
  | cons a t1 ih =>
    cases l2 with
    | nil => exact absurd ((hmem a).mp List.mem_cons_self) (by simp)
    | cons b t2 =>
      unfold Sorted at h1 h2
      rw [List.pairwise_cons] at h1 h2
      have hab : a = b := by
        rcases List.mem_cons.mp ((hmem a).mp List.mem_cons_self) with h | h
        · exact h
        · rcases List.mem_cons.mp ((hmem b).mpr List.mem_cons_self) with h' | h'
          · exact h'.symm
          · have l1 := h2.1 a h
            have l2 := h1.1 b h'
            have := hs.trans _ _ _ l1 l2
            rw [hs.irrefl] at this; cases this
      subst hab
      congr 1
      apply ih t2 h1.2 h2.2
      intro x
      constructor
      · intro hx
        rcases List.mem_cons.mp ((hmem x).mp (List.mem_cons_of_mem _ hx)) with h | h
        · subst h; have := h1.1 x hx; rw [hs.irrefl] at this; cases this
        · exact h
      · intro hx
        rcases List.mem_cons.mp ((hmem x).mpr (List.mem_cons_of_mem _ hx)) with h | h
        · subst h; have := h2.1 x hx; rw [hs.irrefl] at this; cases this
        · exact h

theorem transGen_congr {r s : κ → κ → Prop} (h : ∀ a b, r a b ↔ s a b) (a b : κ) : TransGen r a b ↔ TransGen s a b :=
  ⟨fun hab => TransGen.mono (fun a b hh => (h a b).mp hh) a b hab, fun hab => TransGen.mono (fun a b hh => (h a b).mpr hh) a b hab⟩

/-- **Invariance.**  Two edge lists with the same edge SET (any permutation, any multiset of repeats) give the same
node list, the same root, and — for every query and every node — the same answer up to order. -/
theorem invariance {E₁ E₂ : List (Edge κ)} {root₁ root₂ : κ} {E₁' E₂' : List (Edge κ)} {g₁ g₂ : IGraph κ}
    (h₁ : BuiltIx o owl E₁ root₁ E₁' g₁) (h₂ : BuiltIx o owl E₂ root₂ E₂' g₂) (hE : ∀ e, e ∈ E₁ ↔ e ∈ E₂) :
    g₁.nodes = g₂.nodes ∧ root₁ = root₂ ∧ (∀ e, e ∈ E₁' ↔ e ∈ E₂') ∧
    ∀ (q : Q) (v : κ) (incl : Bool), v ∈ g₁.nodes →
      ∃ r₁ r₂, g₁.query o q (some v) incl = .ok r₁ ∧ g₂.query o q (some v) incl = .ok r₂ ∧ r₁.Perm r₂ := by
  have hD : ∀ e, e ∈ dedup E₁ ↔ e ∈ dedup E₂ := fun e => by rw [mem_dedup, mem_dedup, hE]
  have hP : ∀ x, Parentless (dedup E₁) x ↔ Parentless (dedup E₂) x := by
    intro x
    unfold Parentless
    constructor
    · rintro ⟨⟨e, he, hx⟩, h2⟩; exact ⟨⟨e, (hD e).mp he, hx⟩, fun e' he' => h2 e' ((hD e').mpr he')⟩
    · rintro ⟨⟨e, he, hx⟩, h2⟩; exact ⟨⟨e, (hD e).mpr he, hx⟩, fun e' he' => h2 e' ((hD e').mp he')⟩
  have hC : (candidates (dedup E₁)).Perm (candidates (dedup E₂)) :=
    (List.perm_ext_iff_of_nodup (nodup_candidates _) (nodup_candidates _)).mpr
      (fun x => by rw [mem_candidates, mem_candidates, hP])
  have hlen := hC.length_eq
  have hE' : ∀ e, e ∈ E₁' ↔ e ∈ E₂' := by
    intro e
    rw [findRoot_mem owl _ _ _ h₁.hroot, findRoot_mem owl _ _ _ h₂.hroot, hD e, hP e.1, hlen]
  have hroot : root₁ = root₂ := by
    rcases findRoot_spec owl _ _ _ h₁.hroot with ⟨a1, _⟩ | ⟨a1, a2, _⟩ <;>
      rcases findRoot_spec owl _ _ _ h₂.hroot with ⟨b1, _⟩ | ⟨b1, b2, _⟩
    · have : root₁ ∈ candidates (dedup E₂) := hC.subset (by rw [a1]; simp)
      rw [b1] at this; simpa using this
    · rw [a1] at hlen; rw [← hlen] at b1; simp at b1
    · rw [b1] at hlen; rw [hlen] at a1; simp at a1
    · rw [a2, b2]
  obtain ⟨_, _, hn1, _, _, _, _, _, _, hs1⟩ := h₁.facts
  obtain ⟨_, _, hn2, _, _, _, _, _, _, hs2⟩ := h₂.facts
  have hnodes : g₁.nodes = g₂.nodes := by
    apply sorted_ext o h₁.strict _ _ hs1 hs2
    intro x
    rw [hn1, hn2]
    unfold nodesOf
    rw [mem_sortDedup, mem_sortDedup, mem_endpoints, mem_endpoints]
    constructor
    · rintro ⟨e, he, hx⟩; exact ⟨e, (hE' e).mp he, hx⟩
    · rintro ⟨e, he, hx⟩; exact ⟨e, (hE' e).mpr he, hx⟩
  refine ⟨hnodes, hroot, hE', ?_⟩
  intro q v incl hv
  have hv2 : v ∈ g₂.nodes := hnodes ▸ hv
  have hIsA : ∀ a b, IsA E₁' a b ↔ IsA E₂' a b := fun a b => hE' (a, b)
  -- the four queries without the source: same members, both duplicate-free
  have core : ∃ r₁ r₂, g₁.query o q (some v) false = .ok r₁ ∧ g₂.query o q (some v) false = .ok r₂ ∧ r₁.Perm r₂ := by
    cases q with
    | parents =>
      obtain ⟨q1, n1, m1⟩ := parents_exact h₁ v hv
      obtain ⟨q2, n2, m2⟩ := parents_exact h₂ v hv2
      exact ⟨_, _, q1, q2, (List.perm_ext_iff_of_nodup n1 n2).mpr (fun x => by rw [m1, m2, hIsA])⟩
    | children =>
      obtain ⟨q1, n1, m1⟩ := children_exact h₁ v hv
      obtain ⟨q2, n2, m2⟩ := children_exact h₂ v hv2
      exact ⟨_, _, q1, q2, (List.perm_ext_iff_of_nodup n1 n2).mpr (fun x => by rw [m1, m2, hIsA])⟩
    | ancestors =>
      obtain ⟨r1, q1, n1, m1⟩ := ancestors_closure h₁ v hv
      obtain ⟨r2, q2, n2, m2⟩ := ancestors_closure h₂ v hv2
      exact ⟨r1, r2, q1, q2, (List.perm_ext_iff_of_nodup n1 n2).mpr (fun x => by rw [m1, m2, transGen_congr hIsA])⟩
    | descendants =>
      obtain ⟨r1, q1, n1, m1⟩ := descendants_closure h₁ v hv
      obtain ⟨r2, q2, n2, m2⟩ := descendants_closure h₂ v hv2
      exact ⟨r1, r2, q1, q2, (List.perm_ext_iff_of_nodup n1 n2).mpr
        (fun x => by rw [m1, m2, transGen_congr (fun a b => hIsA b a)])⟩
  cases incl with
  | false => exact core
  | true =>
    obtain ⟨r₁, r₂, c1, c2, cp⟩ := core
    obtain ⟨s1, a1, b1⟩ := include_source h₁ q v hv
    obtain ⟨s2, a2, b2⟩ := include_source h₂ q v hv2
    rw [c1] at a1; injection a1 with a1; subst a1
    rw [c2] at a2; injection a2 with a2; subst a2
    exact ⟨_, _, b1, b2, List.Perm.cons v cp⟩

/-- two duplicate-free lists with the same members are permutations of each other -/
theorem perm_of_same_members {l₁ l₂ : List κ} (n₁ : l₁.Nodup) (n₂ : l₂.Nodup) (h : ∀ x, x ∈ l₁ ↔ x ∈ l₂) : l₁.Perm l₂ :=
  (List.perm_ext_iff_of_nodup n₁ n₂).mpr h

/-- **Totality and invariance for ALL THREE factories.**  On the property's domain (non-empty acyclic edge list not
mentioning `owl:Thing`) every shipped factory succeeds, and two lists with the same edge SET (any permutation, any
multiset of repeats) give - for each factory - the same node array, the same root and, for every query, every node
and both values of `include_source`, the same answer up to order. -/
theorem invariance_all_factories (hs : o.Strict) {E₁ E₂ : List (Edge κ)} (hne : E₁ ≠ []) (howl : OwlOk owl E₁)
    (hacyc : ∀ x, ¬ TransGen (fun a b => (a, b) ∈ E₁) x x) (hE : ∀ e, e ∈ E₁ ↔ e ∈ E₂) (f : Factory) :
    ∃ G₁ G₂, GM.build o owl f E₁ = .ok G₁ ∧ GM.build o owl f E₂ = .ok G₂ ∧ G₁.nodes = G₂.nodes ∧ G₁.root = G₂.root ∧
      ∀ (q : Q) (v : κ) (incl : Bool), v ∈ G₁.nodes →
        ∃ r₁ r₂, G₁.query o q (some v) incl = .ok r₁ ∧ G₂.query o q (some v) incl = .ok r₂ ∧ r₁.Perm r₂ := by
  -- the second list is in the domain as well
  have hne₂ : E₂ ≠ [] := by
    obtain ⟨e, he⟩ := List.exists_mem_of_ne_nil E₁ hne
    exact List.ne_nil_of_mem ((hE e).mp he)
  have howl₂ : OwlOk owl E₂ := by
    intro h2 h
    have hD : ∀ e, e ∈ dedup E₁ ↔ e ∈ dedup E₂ := fun e => by rw [mem_dedup, mem_dedup, hE]
    have hP : ∀ x, Parentless (dedup E₁) x ↔ Parentless (dedup E₂) x := by
      intro x
      unfold Parentless
      constructor
      · rintro ⟨⟨e, he, hx⟩, h2⟩; exact ⟨⟨e, (hD e).mp he, hx⟩, fun e' he' => h2 e' ((hD e').mpr he')⟩
      · rintro ⟨⟨e, he, hx⟩, h2⟩; exact ⟨⟨e, (hD e).mpr he, hx⟩, fun e' he' => h2 e' ((hD e').mp he')⟩
    have hC : (candidates (dedup E₁)).Perm (candidates (dedup E₂)) :=
      (List.perm_ext_iff_of_nodup (nodup_candidates _) (nodup_candidates _)).mpr
        (fun x => by rw [mem_candidates, mem_candidates, hP])
    obtain ⟨e, he, hx⟩ := (mem_endpoints E₂ owl).mp h
    exact howl (by rw [hC.length_eq]; exact h2) ((mem_endpoints E₁ owl).mpr ⟨e, (hE e).mpr he, hx⟩)
  have hacyc₂ : ∀ x, ¬ TransGen (fun a b => (a, b) ∈ E₂) x x := by
    intro x hx
    exact hacyc x ((transGen_congr (fun a b => hE (a, b)) x x).mpr hx)
  obtain ⟨root₁, E₁', g₁, h₁⟩ := factory_total o hs owl E₁ hne howl hacyc
  obtain ⟨root₂, E₂', g₂, h₂⟩ := factory_total o hs owl E₂ hne₂ howl₂ hacyc₂
  obtain ⟨hnodes, hroot, hE', hq⟩ := invariance h₁ h₂ hE
  obtain ⟨hac₁, hloop₁⟩ := acyclic_rooted h₁.hroot howl hacyc
  obtain ⟨hac₂, hloop₂⟩ := acyclic_rooted h₂.hroot howl₂ hacyc₂
  obtain ⟨_, h2c₁⟩ := acyclic_simple hac₁
  obtain ⟨_, h2c₂⟩ := acyclic_simple hac₂
  have hIsA : ∀ a b, IsA E₁' a b ↔ IsA E₂' a b := fun a b => hE' (a, b)
  obtain ⟨_, _, hn1, _, _, _, hr1, _, _, _⟩ := h₁.facts
  obtain ⟨_, _, hn2, _, _, _, hr2, _, _, _⟩ := h₂.facts
  -- the matrix-backed case, for any pair of graphs representing the two rooted lists over the same node array
  have matrix_case : ∀ (m₁ m₂ : MGraph κ), Represents o m₁ E₁' → Represents o m₂ E₂' → m₁.nodes = nodesOf o E₁' →
      m₂.nodes = nodesOf o E₂' → ∀ (q : Q) (v : κ) (incl : Bool), v ∈ m₁.nodes →
        ∃ r₁ r₂, m₁.query o q (some v) incl = .ok r₁ ∧ m₂.query o q (some v) incl = .ok r₂ ∧ r₁.Perm r₂ := by
    intro m₁ m₂ rep₁ rep₂ e₁ e₂ q v incl hv
    have hv₂ : v ∈ m₂.nodes := by rw [e₂, ← hn2, ← hnodes, hn1, ← e₁]; exact hv
    have core : ∃ r₁ r₂, m₁.query o q (some v) false = .ok r₁ ∧ m₂.query o q (some v) false = .ok r₂ ∧
        r₁.Nodup ∧ r₂.Nodup ∧ ∀ x, x ∈ r₁ ↔ x ∈ r₂ := by
      obtain ⟨⟨p1, hp1, np1, mp1⟩, ⟨c1, hc1, nc1, mc1⟩⟩ := rep₁.direct hs v hv
      obtain ⟨⟨a1, ha1, na1, ma1⟩, ⟨d1, hd1, nd1, md1⟩⟩ := rep₁.closure hs v hv
      obtain ⟨⟨p2, hp2, np2, mp2⟩, ⟨c2, hc2, nc2, mc2⟩⟩ := rep₂.direct hs v hv₂
      obtain ⟨⟨a2, ha2, na2, ma2⟩, ⟨d2, hd2, nd2, md2⟩⟩ := rep₂.closure hs v hv₂
      cases q with
      | parents => exact ⟨p1, p2, hp1, hp2, np1, np2, fun x => by rw [mp1, mp2]; exact hIsA v x⟩
      | children => exact ⟨c1, c2, hc1, hc2, nc1, nc2, fun x => by rw [mc1, mc2]; exact hIsA x v⟩
      | ancestors => exact ⟨a1, a2, ha1, ha2, na1, na2, fun x => by rw [ma1, ma2]; exact transGen_congr hIsA v x⟩
      | descendants =>
        exact ⟨d1, d2, hd1, hd2, nd1, nd2, fun x => by rw [md1, md2]; exact transGen_congr (fun a b => hIsA b a) v x⟩
    obtain ⟨r₁, r₂, q1, q2, n1, n2, hm⟩ := core
    cases incl with
    | false => exact ⟨r₁, r₂, q1, q2, perm_of_same_members n1 n2 hm⟩
    | true =>
      obtain ⟨s1, s1', a1, b1, nd1, m1⟩ := rep₁.include_source hs hloop₁ q v hv
      obtain ⟨s2, s2', a2, b2, nd2, m2⟩ := rep₂.include_source hs hloop₂ q v hv₂
      rw [q1] at a1; injection a1 with a1; subst a1
      rw [q2] at a2; injection a2 with a2; subst a2
      exact ⟨s1', s2', b1, b2, perm_of_same_members nd1 nd2 (fun x => by rw [m1, m2, hm])⟩
  cases f with
  | indexed =>
    refine ⟨.ix g₁, .ix g₂, by simp [GM.build, h₁.hg, Except.map], by simp [GM.build, h₂.hg, Except.map], hnodes, ?_, hq⟩
    -- root: idx_to_node(root_idx)
    have r1 : G.root (.ix g₁) = .ok root₁ := (root_spec h₁ howl).2.1
    have r2 : G.root (.ix g₂) = .ok root₂ := (root_spec h₂ howl₂).2.1
    rw [r1, r2, hroot]
  | incremental =>
    obtain ⟨m₁, hm₁, hr₁, hnm₁, rep₁⟩ := incremental_represents hs h₁.hroot hloop₁ h2c₁
    obtain ⟨m₂, hm₂, hr₂, hnm₂, rep₂⟩ := incremental_represents hs h₂.hroot hloop₂ h2c₂
    refine ⟨.mx m₁, .mx m₂, by simp [GM.build, hm₁, Except.map], by simp [GM.build, hm₂, Except.map], ?_, ?_,
      matrix_case m₁ m₂ rep₁ rep₂ hnm₁ hnm₂⟩
    · show m₁.nodes = m₂.nodes
      rw [hnm₁, hnm₂, ← hn1, ← hn2, hnodes]
    · show Except.ok m₁.root = Except.ok m₂.root
      rw [hr₁, hr₂, hroot]
  | builder =>
    obtain ⟨m₁, hm₁, hr₁, hnm₁, rep₁⟩ := builder_represents hs h₁.hroot hloop₁ h2c₁
    obtain ⟨m₂, hm₂, hr₂, hnm₂, rep₂⟩ := builder_represents hs h₂.hroot hloop₂ h2c₂
    refine ⟨.mx m₁, .mx m₂, by simp [GM.build, hm₁, Except.map], by simp [GM.build, hm₂, Except.map], ?_, ?_,
      matrix_case m₁ m₂ rep₁ rep₂ hnm₁ hnm₂⟩
    · show m₁.nodes = m₂.nodes
      rw [hnm₁, hnm₂, ← hn1, ← hn2, hnodes]
    · show Except.ok m₁.root = Except.ok m₂.root
      rw [hr₁, hr₂, hroot]

/-- **The structural clauses for ALL THREE factories**: on the property's domain every factory succeeds with the node
set "endpoints, plus `owl:Thing` exactly when several terms are parentless", each node once; the root is the single
parentless term or `owl:Thing`; the root has no parents and every other node has the root among its ancestors and is
among the root's descendants. -/
theorem structure_all_factories (hs : o.Strict) (hne : E ≠ []) (howl : OwlOk owl E)
    (hacyc : ∀ x, ¬ TransGen (fun a b => (a, b) ∈ E) x x) (f : Factory) :
    ∃ G root, GM.build o owl f E = .ok G ∧ G.root = .ok root ∧ root ∈ G.nodes ∧ G.nodes.Nodup ∧
      (∀ x, x ∈ G.nodes ↔ x ∈ endpoints E ∨ (x = owl ∧ 2 ≤ (candidates (dedup E)).length)) ∧
      (candidates (dedup E) = [root] ∨ (2 ≤ (candidates (dedup E)).length ∧ root = owl)) ∧
      G.query o .parents (some root) false = .ok [] ∧
      ∀ v ∈ G.nodes, v ≠ root →
        (∃ r, G.query o .ancestors (some v) false = .ok r ∧ root ∈ r) ∧
        (∃ r, G.query o .descendants (some root) false = .ok r ∧ v ∈ r) := by
  obtain ⟨root, E', g, h⟩ := factory_total o hs owl E hne howl hacyc
  obtain ⟨hac, _⟩ := acyclic_rooted h.hroot howl hacyc
  obtain ⟨_, hnd, hnodes⟩ := nodes_spec h
  obtain ⟨hcand, hroot, hrootmem, hnopar⟩ := root_spec h howl
  have hcand' : candidates (dedup E) = [root] ∨ (2 ≤ (candidates (dedup E)).length ∧ root = owl) := by
    rcases hcand with h1 | ⟨h1, h2, _⟩
    · exact Or.inl h1
    · exact Or.inr ⟨h1, h2⟩
  obtain ⟨gi, gb, hgi, hgb, hni, hnb, hri, hrb, _, hagree⟩ := Hpv.Props.C03.factories_agree h hac
  -- what the indexed graph says about root and the others
  have hix : ∀ v ∈ g.nodes, v ≠ root →
      (∃ r, g.query o .ancestors (some v) false = .ok r ∧ root ∈ r) ∧
      (∃ r, g.query o .descendants (some root) false = .ok r ∧ v ∈ r) := by
    intro v hv hvr
    obtain ⟨hreach, hanc⟩ := root_top h hac v hv hvr
    refine ⟨hanc, ?_⟩
    obtain ⟨r, hq, _, hm⟩ := descendants_closure h root hrootmem
    refine ⟨r, hq, (hm v).mpr ?_⟩
    -- an upward path from v to root is a downward path from root to v
    have flip : ∀ a b, TransGen (IsA E') a b → TransGen (fun a b => IsA E' b a) b a := by
      intro a b hab
      induction hab with
      | single hh => exact TransGen.single hh
      | tail _ hh ih => exact TransGen.trans (TransGen.single hh) ih
    exact flip v root hreach
  -- transfer to a matrix graph that agrees with the indexed one
  have transfer : ∀ (mg : MGraph κ), mg.nodes = g.nodes → mg.root = root →
      (∀ (q : Q) (v : κ), v ∈ g.nodes → ∃ r rm, g.query o q (some v) false = .ok r ∧ mg.query o q (some v) false = .ok rm ∧
        rm.Nodup ∧ ∀ x, x ∈ r ↔ x ∈ rm) →
      G.root (.mx mg) = .ok root ∧ root ∈ G.nodes (.mx mg) ∧ (G.nodes (.mx mg)).Nodup ∧
      (∀ x, x ∈ G.nodes (.mx mg) ↔ x ∈ endpoints E ∨ (x = owl ∧ 2 ≤ (candidates (dedup E)).length)) ∧
      G.query o (.mx mg) .parents (some root) false = .ok [] ∧
      ∀ v ∈ G.nodes (.mx mg), v ≠ root →
        (∃ r, G.query o (.mx mg) .ancestors (some v) false = .ok r ∧ root ∈ r) ∧
        (∃ r, G.query o (.mx mg) .descendants (some root) false = .ok r ∧ v ∈ r) := by
    intro mg hn hr hag
    have hnn : G.nodes (.mx mg) = g.nodes := hn
    refine ⟨by show Except.ok mg.root = Except.ok root; rw [hr], by rw [hnn]; exact hrootmem, by rw [hnn]; exact hnd,
      by intro x; rw [hnn]; exact hnodes x, ?_, ?_⟩
    · obtain ⟨r, rm, q1, q2, _, hm⟩ := hag .parents root hrootmem
      rw [hnopar] at q1; injection q1 with q1; subst q1
      show mg.query o .parents (some root) false = .ok []
      rw [q2]
      congr 1
      apply List.eq_nil_iff_forall_not_mem.mpr
      intro x hx
      exact absurd ((hm x).mpr hx) (by simp)
    · intro v hv hvr
      rw [hnn] at hv
      obtain ⟨⟨ra, hqa, hra⟩, ⟨rd, hqd, hrd⟩⟩ := hix v hv hvr
      obtain ⟨r1, rm1, q1, q2, _, hm1⟩ := hag .ancestors v hv
      obtain ⟨r2, rm2, q3, q4, _, hm2⟩ := hag .descendants root hrootmem
      rw [hqa] at q1; injection q1 with q1; subst q1
      rw [hqd] at q3; injection q3 with q3; subst q3
      exact ⟨⟨rm1, q2, (hm1 root).mp hra⟩, ⟨rm2, q4, (hm2 v).mp hrd⟩⟩
  cases f with
  | indexed =>
    exact ⟨.ix g, root, by simp [GM.build, h.hg, Except.map], hroot, hrootmem, hnd, hnodes, hcand', hnopar, hix⟩
  | incremental =>
    obtain ⟨t1, t2, t3, t4, t5, t6⟩ := transfer gi hni hri (by
      intro q v hv
      obtain ⟨r, ri, rb, q1, q2, _, _, n2, _, hm⟩ := hagree q v hv
      exact ⟨r, ri, q1, q2, n2, fun x => (hm x).1⟩)
    exact ⟨.mx gi, root, by simp [GM.build, hgi, Except.map], t1, t2, t3, t4, hcand', t5, t6⟩
  | builder =>
    obtain ⟨t1, t2, t3, t4, t5, t6⟩ := transfer gb hnb hrb (by
      intro q v hv
      obtain ⟨r, ri, rb, q1, _, q3, _, _, n3, hm⟩ := hagree q v hv
      exact ⟨r, rb, q1, q3, n3, fun x => (hm x).2⟩)
    exact ⟨.mx gb, root, by simp [GM.build, hgb, Except.map], t1, t2, t3, t4, hcand', t5, t6⟩

-- non-vacuity: the two-root forest of C01.Example meets every hypothesis used above
open Hpv.Props.C01.Example in
example : (0 : Nat) ∉ endpoints forest ∧ (∀ x, ¬ TransGen (fun a b => (a, b) ∈ forest) x x) ∧
    candidates (dedup forest) = [4, 6] ∧ forestGraph.nodes = [0, 4, 5, 6, 7] ∧
    forestGraph.query natOrd .children (some 0) false = .ok [4, 6] := by
  refine ⟨by decide, ?_, by rfl, by rfl, by rfl⟩
  intro x hx
  -- every edge goes from a larger to a smaller key, so a cycle is impossible
  have mono : ∀ a b, TransGen (fun a b => (a, b) ∈ forest) a b → b < a := by
    intro a b hab
    induction hab with
    | single hh => simp [forest] at hh; omega
    | tail _ hh ih => simp [forest] at hh; omega
  exact absurd (mono x x hx) (Nat.lt_irrefl x)

-- the domain includes edge lists that MENTION the synthetic root's key when a single term is parentless (key 0 on top of 1 <- 2)
example : OwlOk (0 : Nat) [(1, 0), (2, 1)] ∧ (0 : Nat) ∈ endpoints [(1, 0), (2, 1)] ∧ candidates (dedup [((1 : Nat), (0 : Nat)), (2, 1)]) = [0] := by
  refine ⟨?_, by decide, by rfl⟩
  intro h
  have : candidates (dedup [((1 : Nat), (0 : Nat)), (2, 1)]) = [0] := by rfl
  rw [this] at h
  simp at h

end Hpv.Props.C02
