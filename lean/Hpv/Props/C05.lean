/-
C05 — Obographs loading is faithful to the document.
Model: Hpv/Obo.lean (`_load_impl` up to the graph factory and `create_(minimal_)ontology`, which are C01/C02 and C06).
Regex recognisers (`purlCurie`, `dateOf`, `parseSynType`) are executable definitions compared with the compiled patterns
of the running code on every run; the theorems below do not depend on what they compute.
Hypotheses are the property's "well-formed document": `FactoryOk` (alternate ids / xrefs of retained nodes are CURIEs,
definitions carry text — otherwise the real loader raises) and distinct CURIE keys among retained nodes.
-/
import Hpv.OboProofs

namespace Hpv.Props.C05
open Hpv.Obo

/-- **Terms.** The loaded terms are exactly the CLASS nodes with an OBO PURL in a requested prefix, in document order,
each carrying the identifier, label (empty when absent), alternate ids and obsoletion flag (the VALUE of `deprecated`)
stated in the document; the current terms are the non-deprecated ones. -/
theorem terms_spec (L : Loader) (P : List String) (doc : Doc) (hok : FactoryOk L P doc.nodes) :
    ∃ l, load L P doc = .ok l ∧
      l.allTerms = (doc.nodes.filterMap (keptOf L P)).map (·.2) ∧
      l.current = ((doc.nodes.filterMap (keptOf L P)).map (·.2)).filter (fun t => !t.obsolete) ∧
      l.version = extractVersion doc.mta ∧
      l.edges = createEdgeList ((doc.nodes.filterMap (keptOf L P)).map (·.1)) doc.edges := by
  obtain ⟨ex, h1, h2, h3⟩ := extractTerms_spec L P doc.nodes hok
  refine ⟨⟨extractVersion doc.mta, ex.terms, createEdgeList ex.curieToTerm doc.edges⟩, by simp [load, h1], h3, ?_, rfl, ?_⟩
  · simp [Loaded.current, h3]
  · simp [h2]

/-- what a kept node contributes: it is a CLASS node with a PURL whose prefix is requested, and its term has the
document's identifier / label / alternate ids / `deprecated` value -/
theorem kept_spec (L : Loader) (P : List String) (n : NodeJ) (w : String) (tid : String × String) (t : Term)
    (h : keptOf L P n = some ((w, tid), t)) :
    n.type = some "CLASS" ∧ purlCurie n.id = some w ∧ termIdOf w = some tid ∧ P.contains tid.1 = true ∧
    t.id = tid ∧ t.name = n.lbl.getD "" ∧ t.obsolete = isDeprecated n.mta ∧ altIds n.mta = some t.alts := by
  unfold keptOf at h
  cases hr : retained P n with
  | none => simp [hr] at h
  | some p =>
    obtain ⟨w', tid'⟩ := p
    simp only [hr] at h
    cases hm : mkTerm L tid' n with
    | error e => simp [hm] at h
    | ok t' =>
      simp only [hm, Option.some.injEq, Prod.mk.injEq] at h
      obtain ⟨⟨rfl, rfl⟩, rfl⟩ := h
      obtain ⟨c1, c2, c3, c4⟩ := mkTerm_core L tid' n t' hm
      unfold retained at hr
      split at hr
      · rename_i hty
        cases hpu : purlCurie n.id with
        | none => simp [hpu] at hr
        | some ww =>
          simp only [hpu] at hr
          cases hti : termIdOf ww with
          | none => simp [hti] at hr
          | some tt =>
            simp only [hti] at hr
            split at hr
            · rename_i hpre
              simp only [Option.some.injEq, Prod.mk.injEq] at hr
              obtain ⟨rfl, rfl⟩ := hr
              refine ⟨?_, rfl, hti, hpre, c1, c2, c3, c4⟩
              -- `knownType t = some "CLASS"` only for the literal "CLASS"
              revert hty
              unfold knownType
              split <;> simp_all
            · cases hr
      · cases hr

/-- **What the full ontology carries in addition**: for a node kept by the FULL loader, the term's definition (text and
its cross-references), comment (the document's comments joined by ", "), synonyms (each parsed into name, scope, type
and cross-references - `parseSynonym`, incl. the ORCID form) and cross-references are exactly those stated in the
node's `meta`; absent parts are `none`, a node without `meta` has none of them. -/
theorem full_content_spec (P : List String) (n : NodeJ) (w : String) (tid : String × String) (t : Term)
    (h : keptOf .full P n = some ((w, tid), t)) :
    match n.mta with
    | none => t.definition = none ∧ t.comment = none ∧ t.synonyms = none ∧ t.xrefs = none
    | some mj =>
      t.definition = mj.definition.bind (fun d => d.val.map (fun v => (v, d.xrefs))) ∧
      t.comment = (if mj.comments.isEmpty then none else some (", ".intercalate mj.comments)) ∧
      t.synonyms = (if mj.synonyms.isEmpty then none else some (mj.synonyms.map parseSynonym)) ∧
      (if mj.xrefs.isEmpty then t.xrefs = none
       else ∃ l, mapM' xrefTid mj.xrefs = some l ∧ t.xrefs = some l) := by
  unfold keptOf at h
  cases hr : retained P n with
  | none => simp [hr] at h
  | some p =>
    obtain ⟨w', tid'⟩ := p
    simp only [hr] at h
    cases hm : mkTerm .full tid' n with
    | error e => simp [hm] at h
    | ok t' =>
      simp only [hm, Option.some.injEq, Prod.mk.injEq] at h
      obtain ⟨_, rfl⟩ := h
      exact mkTerm_full_content tid' n t' hm

/-- a node that is not a CLASS node, has no OBO PURL, or a foreign prefix contributes nothing — whatever else it carries -/
theorem ignored_nodes (L : Loader) (P : List String) (n : NodeJ)
    (h : n.type ≠ some "CLASS" ∨ purlCurie n.id = none ∨
         (∀ w tid, purlCurie n.id = some w → termIdOf w = some tid → P.contains tid.1 = false)) :
    keptOf L P n = none := by
  cases hk : keptOf L P n with
  | none => rfl
  | some p =>
    obtain ⟨⟨w, tid⟩, t⟩ := p
    obtain ⟨h1, h2, h3, h4, _⟩ := kept_spec L P n w tid t hk
    rcases h with h | h | h
    · exact absurd h1 h
    · rw [h2] at h; cases h
    · rw [h w tid h2 h3] at h4; cases h4

/-- **Hierarchy.** With distinct CURIE keys among the retained nodes, the edge list contains exactly the `is_a` edges
whose subject and object are retained nodes (deprecated ones included); every other predicate, dangling edge and
foreign prefix is ignored. -/
theorem edges_spec (L : Loader) (P : List String) (doc : Doc) (hok : FactoryOk L P doc.nodes)
    (hnd : (((doc.nodes.filterMap (keptOf L P)).map (·.1)).map (·.1)).Nodup) (l : Loaded) (hl : load L P doc = .ok l)
    (e : (String × String) × (String × String)) :
    e ∈ l.edges ↔ ∃ ej ∈ doc.edges, ej.pred = "is_a" ∧ ∃ sc oc, purlCurie ej.sub = some sc ∧ purlCurie ej.obj = some oc ∧
      (sc, e.1) ∈ (doc.nodes.filterMap (keptOf L P)).map (·.1) ∧ (oc, e.2) ∈ (doc.nodes.filterMap (keptOf L P)).map (·.1) := by
  obtain ⟨l', h1, _, _, _, h5⟩ := terms_spec L P doc hok
  rw [hl] at h1; injection h1 with h1; subst h1
  rw [h5, mem_createEdgeList]
  constructor
  · rintro ⟨ej, hej, hp, sc, oc, a1, a2, a3, a4⟩
    exact ⟨ej, hej, hp, sc, oc, a1, a3, (lookupLast_of_nodup _ hnd sc e.1).mp a2, (lookupLast_of_nodup _ hnd oc e.2).mp a4⟩
  · rintro ⟨ej, hej, hp, sc, oc, a1, a3, a2, a4⟩
    exact ⟨ej, hej, hp, sc, oc, a1, (lookupLast_of_nodup _ hnd sc e.1).mpr a2, a3, (lookupLast_of_nodup _ hnd oc e.2).mpr a4⟩

/-- **Version**: the release date inside `meta.version`, otherwise the value of the `…#versionInfo` property. -/
theorem version_spec (v : String) (bs : Option (List Bpv)) (bl : List Bpv) :
    extractVersion ⟨some v, bs⟩ = dateOf v ∧
    extractVersion ⟨none, some bl⟩ = ((bl.filter (fun b => match b.pred, b.val with
        | some p, some _ => p.endsWith "#versionInfo"
        | _, _ => false)).head?).bind (·.val) ∧
    extractVersion ⟨none, none⟩ = none := ⟨rfl, rfl, rfl⟩

/-- **Minimal and full loader agree** on every retained node's identifier, name, alternate ids and obsoletion flag, on
the set of retained nodes, hence on the hierarchy and the version. -/
theorem minimal_full_agree (P : List String) (doc : Doc)
    (hmin : FactoryOk .minimal P doc.nodes) (hfull : FactoryOk .full P doc.nodes) :
    ∃ lm lf, load .minimal P doc = .ok lm ∧ load .full P doc = .ok lf ∧
      lm.allTerms.map Term.core = lf.allTerms.map Term.core ∧ lm.edges = lf.edges ∧ lm.version = lf.version := by
  obtain ⟨lm, a1, a2, _, a4, a5⟩ := terms_spec .minimal P doc hmin
  obtain ⟨lf, b1, b2, _, b4, b5⟩ := terms_spec .full P doc hfull
  -- node by node, the two loaders keep the same nodes with the same dictionary entry and the same core
  have key : ∀ nodes : List NodeJ, FactoryOk .minimal P nodes → FactoryOk .full P nodes →
      (nodes.filterMap (keptOf .minimal P)).map (·.1) = (nodes.filterMap (keptOf .full P)).map (·.1) ∧
      ((nodes.filterMap (keptOf .minimal P)).map (·.2)).map Term.core =
        ((nodes.filterMap (keptOf .full P)).map (·.2)).map Term.core := by
    intro nodes
    induction nodes with
    | nil => intro _ _; exact ⟨rfl, rfl⟩
    | cons n rest ih =>
      intro h1 h2
      obtain ⟨i1, i2⟩ := ih (fun m hm => h1 m (List.mem_cons_of_mem _ hm)) (fun m hm => h2 m (List.mem_cons_of_mem _ hm))
      cases hr : retained P n with
      | none => simp [List.filterMap_cons, keptOf, hr, i1, i2]
      | some p =>
        obtain ⟨w, tid⟩ := p
        obtain ⟨t1, ht1⟩ := h1 n List.mem_cons_self w tid hr
        obtain ⟨t2, ht2⟩ := h2 n List.mem_cons_self w tid hr
        have hc := min_full_term tid n t1 t2 ht1 ht2
        simp [List.filterMap_cons, keptOf, hr, ht1, ht2, i1, i2, hc]
  obtain ⟨k1, k2⟩ := key doc.nodes hmin hfull
  refine ⟨lm, lf, a1, b1, by rw [a2, b2]; exact k2, by rw [a5, b5, k1], by rw [a4, b4]⟩

/-- **Order of nodes and edges does not matter**: permuting them permutes the loaded terms and — with distinct CURIE
keys — the produced edge list, so (C02.invariance, C06) the ontology is the same. -/
theorem order_irrelevant (L : Loader) (P : List String) (doc doc' : Doc)
    (hok : FactoryOk L P doc.nodes) (hn : doc.nodes.Perm doc'.nodes) (he : doc.edges.Perm doc'.edges) (hm : doc.mta = doc'.mta)
    (hnd : (((doc.nodes.filterMap (keptOf L P)).map (·.1)).map (·.1)).Nodup) :
    ∃ l l', load L P doc = .ok l ∧ load L P doc' = .ok l' ∧ l.allTerms.Perm l'.allTerms ∧ l.current.Perm l'.current ∧
      l.edges.Perm l'.edges ∧ l.version = l'.version := by
  have hok' : FactoryOk L P doc'.nodes := fun n hn' => hok n (hn.symm.subset hn')
  obtain ⟨l, a1, a2, a3, a4, a5⟩ := terms_spec L P doc hok
  obtain ⟨l', b1, b2, b3, b4, b5⟩ := terms_spec L P doc' hok'
  have hk : (doc.nodes.filterMap (keptOf L P)).Perm (doc'.nodes.filterMap (keptOf L P)) := hn.filterMap _
  have hd : ((doc.nodes.filterMap (keptOf L P)).map (·.1)).Perm ((doc'.nodes.filterMap (keptOf L P)).map (·.1)) := hk.map _
  have hnd' : (((doc'.nodes.filterMap (keptOf L P)).map (·.1)).map (·.1)).Nodup := (hd.map _).nodup_iff.mp hnd
  -- with unique keys the two dictionaries answer every lookup alike
  have hlook : ∀ k, lookupLast ((doc.nodes.filterMap (keptOf L P)).map (·.1)) k =
      lookupLast ((doc'.nodes.filterMap (keptOf L P)).map (·.1)) k := by
    intro k
    apply Option.ext
    intro v
    rw [lookupLast_of_nodup _ hnd, lookupLast_of_nodup _ hnd']
    exact ⟨fun h => hd.subset h, fun h => hd.symm.subset h⟩
  have hedge : ∀ ej, edgeOf ((doc.nodes.filterMap (keptOf L P)).map (·.1)) ej =
      edgeOf ((doc'.nodes.filterMap (keptOf L P)).map (·.1)) ej := by
    intro ej; unfold edgeOf; simp only [hlook]
  refine ⟨l, l', a1, b1, ?_, ?_, ?_, by rw [a4, b4, hm]⟩
  · rw [a2, b2]; exact hk.map _
  · rw [a3, b3]; exact (hk.map _).filter _
  · rw [a5, b5]
    unfold createEdgeList
    have : (doc.edges.filterMap (edgeOf ((doc.nodes.filterMap (keptOf L P)).map (·.1)))) =
        (doc.edges.filterMap (edgeOf ((doc'.nodes.filterMap (keptOf L P)).map (·.1)))) := by
      congr 1; funext ej; exact hedge ej
    rw [this]
    exact he.filterMap _

-- non-vacuity: a document with a CLASS node (deprecated: false), a deprecated CLASS node, a PROPERTY node, a foreign
-- prefix, a non-PURL id, an is_a edge, a part_of edge and a dangling edge
def exDoc : Doc :=
  { nodes := [ { id := "http://purl.obolibrary.org/obo/HP_0000001", lbl := some "All", type := some "CLASS" },
               { id := "http://purl.obolibrary.org/obo/HP_0000118", lbl := some "PA", type := some "CLASS",
                 mta := some { deprecated := some false, bpvs := [⟨some "http://x#hasAlternativeId", some "HP:0000999"⟩] } },
               { id := "http://purl.obolibrary.org/obo/HP_0000002", type := some "CLASS", mta := some { deprecated := some true } },
               { id := "http://purl.obolibrary.org/obo/HP_0000003", lbl := some "p", type := some "PROPERTY" },
               { id := "http://purl.obolibrary.org/obo/MONDO_0000001", lbl := some "m", type := some "CLASS" },
               { id := "http://example.org/HP_0000004", lbl := some "x", type := some "CLASS" } ],
    edges := [ ⟨"http://purl.obolibrary.org/obo/HP_0000118", "is_a", "http://purl.obolibrary.org/obo/HP_0000001"⟩,
               ⟨"http://purl.obolibrary.org/obo/HP_0000118", "part_of", "http://purl.obolibrary.org/obo/HP_0000002"⟩,
               ⟨"http://purl.obolibrary.org/obo/HP_0000118", "is_a", "http://purl.obolibrary.org/obo/MONDO_0000001"⟩ ],
    mta := { version := some "http://purl.obolibrary.org/obo/hp/releases/2024-04-26/hp.json" } }

-- evaluated by the compiled code at build time (`String` functions do not reduce in the kernel): a test, not a theorem
#guard (match load .minimal ["HP"] exDoc with
    | .ok l => (l.current.map (fun t => curieValue t.id), l.allTerms.length, l.edges.map (fun e => (curieValue e.1, curieValue e.2)), l.version)
    | .error _ => ([], 0, [], none)) ==
    (["HP:0000001", "HP:0000118"], 3, [("HP:0000118", "HP:0000001")], some "2024-04-26")
#guard (match load .full ["HP", "MONDO"] exDoc with
    | .ok l => (l.current.length, l.edges.length)
    | .error _ => (0, 0)) == (3, 2)

end Hpv.Props.C05
