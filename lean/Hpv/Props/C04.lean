/-
C04 — TermId parsing, equality, hashing and ordering are mutually consistent.
Model: Hpv/TermId.lean (src/hpotk/model/_term_id.py).  Strings are code-point lists.
Only property theorems and non-vacuity examples live here; helper lemmas are in Hpv/TermIdProofs.lean.
-/
import Hpv.TermIdProofs

namespace Hpv.Props.C04
open Hpv.TermId

/-- Parsing succeeds exactly when the string contains ':' or '_'. -/
theorem parse_iff (s : Str) : (fromCurie s).isSome ↔ colon ∈ s ∨ underscore ∈ s :=
  fromCurie_isSome s

/-- The split is at the first ':' (otherwise at the first '_'); the prefix never contains ':'
(so it is the *first* colon) and, in the underscore case, never contains '_'. -/
theorem split (s : Str) (t : TermId) (h : fromCurie s = some t) :
    colon ∉ t.pfx ∧
    ((colon ∈ s ∧ s = t.pfx ++ colon :: t.id) ∨
     (colon ∉ s ∧ underscore ∉ t.pfx ∧ s = t.pfx ++ underscore :: t.id)) :=
  (fromCurie_split s t h).2

/-- The printed value joins prefix and id with ':' and parses back to an equal TermId;
printing is idempotent under re-parsing. -/
theorem round_trip (s : Str) (t : TermId) (h : fromCurie s = some t) :
    t.curie = t.pfx ++ colon :: t.id ∧
    ∃ t', fromCurie t.curie = some t' ∧ t'.beq t = true ∧ t'.curie = t.curie := by
  obtain ⟨t', h1, h2, h3, h4⟩ := fromCurie_curie s t h
  exact ⟨rfl, t', h1, (beq_iff t' t).mpr ⟨h2, h3⟩, h4⟩

/-- Equality is "same prefix and same id", whatever delimiter / representation was stored. -/
theorem eq_iff (a b : TermId) : a.beq b = true ↔ a.pfx = b.pfx ∧ a.id = b.id := beq_iff a b

/-- `HP_1` and `HP:1` parse to equal TermIds (the delimiter is forgotten). -/
theorem delimiter_forgotten (p i : Str) (hp : colon ∉ p) (hpu : underscore ∉ p) (hi : colon ∉ i) :
    ∃ a b, fromCurie (p ++ colon :: i) = some a ∧ fromCurie (p ++ underscore :: i) = some b ∧ a.beq b = true := by
  have h1 : index? colon (p ++ colon :: i) = some p.length := index?_append_first colon p i hp
  have hc : colon ∉ p ++ underscore :: i := by
    simp only [List.mem_append, List.mem_cons, not_or]
    exact ⟨hp, by decide, hi⟩
  have h2 : index? colon (p ++ underscore :: i) = none := (index?_none _ _).mpr hc
  have h3 : index? underscore (p ++ underscore :: i) = some p.length := index?_append_first underscore p i hpu
  refine ⟨⟨p ++ colon :: i, p.length⟩, ⟨p ++ underscore :: i, p.length⟩, by simp [fromCurie, h1],
    by simp [fromCurie, h2, h3], ?_⟩
  simp [TermId.beq, TermId.pfx, TermId.id]

/-- Equal TermIds hash equally, for every tuple-hash function `H`, for both classes
(the recomputed hash and the hash cached at construction), also across classes. -/
theorem hash_eq {β} (H : Str × Str → β) (a b : TermId) (h : a.beq b = true) :
    a.hash H = b.hash H ∧
    (DefaultTermId.mk' H a.value a.idx).hash = (DefaultTermId.mk' H b.value b.idx).hash ∧
    (DefaultTermId.mk' H a.value a.idx).hash = b.hash H :=
  ⟨hash_congr H a b h, hash_congr H a b h, hash_congr H a b h⟩

/-- `<` is a strict total order modulo equality: irreflexive, transitive, trichotomous. -/
theorem lt_strict_total (a b c : TermId) :
    a.lt a = false ∧ (a.lt b = true → b.lt c = true → a.lt c = true) ∧
    (a.lt b = true ∨ a.beq b = true ∨ b.lt a = true) :=
  ⟨lt_irrefl a, lt_trans a b c, lt_total a b⟩

/-- `<` is exactly the lexicographic order on (prefix, id). -/
theorem lt_lex (a b : TermId) :
    a.lt b = true ↔ (slt a.pfx b.pfx = true ∨ (a.pfx = b.pfx ∧ slt a.id b.id = true)) := by
  unfold TermId.lt
  by_cases h : a.pfx = b.pfx
  · simp [h, slt_irrefl]
  · simp [h]

/-- `<` and `==` respect equality on both sides, so they are well defined on (prefix, id). -/
theorem lt_congr (a a' b b' : TermId) (h1 : a.beq a' = true) (h2 : b.beq b' = true) :
    a.lt b = a'.lt b' ∧ a.beq b = a'.beq b' := by
  obtain ⟨p1, i1⟩ := (beq_iff a a').mp h1
  obtain ⟨p2, i2⟩ := (beq_iff b b').mp h2
  simp [TermId.lt, TermId.beq, p1, i1, p2, i2]

/-- at most one of `<`, `==`, `>` holds -/
theorem lt_asymm (a b : TermId) : ¬ (a.lt b = true ∧ b.lt a = true) ∧ ¬ (a.lt b = true ∧ a.beq b = true) := by
  constructor
  · intro ⟨h1, h2⟩
    have := lt_trans a b a h1 h2
    simp [lt_irrefl] at this
  · intro ⟨h1, h2⟩
    obtain ⟨p, i⟩ := (beq_iff a b).mp h2
    simp [TermId.lt, p, i, slt_irrefl] at h1

-- non-vacuity: concrete parses
example : fromCurie [72, 80, 58, 49] = some ⟨[72, 80, 58, 49], 2⟩ := by decide     -- "HP:1"
example : fromCurie [72, 80, 95, 49] = some ⟨[72, 80, 95, 49], 2⟩ := by decide     -- "HP_1"
example : fromCurie [65, 95, 66, 58, 49] = some ⟨[65, 95, 66, 58, 49], 3⟩ := by decide  -- "A_B:1" splits at ':'
example : fromCurie [72, 80, 49] = none := by decide
example : (⟨[72, 80, 58, 49], 2⟩ : TermId).beq ⟨[72, 80, 95, 49], 2⟩ = true := by decide
example : (⟨[72, 80, 58, 49, 48], 2⟩ : TermId).lt ⟨[72, 80, 58, 50], 2⟩ = true := by decide  -- "HP:10" < "HP:2"

end Hpv.Props.C04
