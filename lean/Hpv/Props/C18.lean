/-
C18 — module-level traversal helpers (hpotk.algorithm._traversal / _augment) agree with the graph they wrap.
Model: `helper`, `existsPath`, `augmentOne`, `augmentMany` in Hpv/GraphModel.lean; frozensets are duplicate-free lists.
What the graph queries themselves return is C01's subject; these theorems hold for every shipped graph `G κ`.
-/
import Hpv.GraphModelProofs
import Hpv.Props.C01
import Hpv.Props.C03

namespace Hpv.Props.C18
open Hpv.Graph Hpv.GM

variable {κ : Type} [DecidableEq κ]

/-- Each helper returns exactly the set of the corresponding graph query, plus the source when (and only when) asked. -/
theorem helper_spec (o : Graph.Ord κ) (g : G κ) (q : Q) (k : κ) (incl : Bool) (res : List κ)
    (h : g.query o q (some k) false = .ok res) :
    ∃ s, helper o g q (some k) incl = .ok s ∧ s.Nodup ∧ ∀ x, x ∈ s ↔ x ∈ res ∨ (incl = true ∧ x = k) := by
  refine ⟨dedup ((if incl then [k] else []) ++ res), by simp [helper, h, Except.map], nodup_dedup _, ?_⟩
  intro x
  rw [mem_dedup]
  cases incl <;> simp [or_comm]

/-- a failing graph query (unknown node) fails the helper in the same way -/
theorem helper_error (o : Graph.Ord κ) (g : G κ) (q : Q) (k : κ) (incl : Bool) (e : Err)
    (h : g.query o q (some k) false = .error e) : helper o g q (some k) incl = .error e := by
  simp [helper, h, Except.map]

/-- A path exists from `a` to `b` exactly when `b` is among the ancestors of `a` and differs from `a`. -/
theorem existsPath_spec (o : Graph.Ord κ) (g : G κ) (a b : κ) (res : List κ)
    (h : g.query o .ancestors (some a) false = .ok res) :
    existsPath o g (some a) (some b) = .ok (decide (a ≠ b ∧ b ∈ res)) := by
  unfold existsPath
  by_cases hab : a = b
  · simp [hab]
  · obtain ⟨s, hs, _, hmem⟩ := helper_spec o g .ancestors a false res h
    simp only [hab, if_false, hs, Except.map]
    congr 1
    have : (s.any fun x => decide (x = b)) = decide (b ∈ res) := by
      rw [Bool.eq_iff_iff]
      simp only [List.any_eq_true, decide_eq_true_eq]
      constructor
      · rintro ⟨x, hx, rfl⟩
        rcases (hmem x).mp hx with h1 | ⟨h1, _⟩
        · exact h1
        · cases h1
      · intro hb; exact ⟨b, (hmem b).mpr (Or.inl hb), rfl⟩
    rw [this]
    simp [hab]

/-- Augmenting a single term is the helper applied to that term — for ancestors AND for descendants. -/
theorem augment_one (o : Graph.Ord κ) (g : G κ) (q : Q) (src : Option κ) (incl : Bool) :
    augmentOne o g q src incl = helper o g q src incl := rfl

/-- Augmenting a collection returns the union of the closures of its members (the empty collection gives ∅). -/
theorem augment_many (o : Graph.Ord κ) (g : G κ) (q : Q) (srcs : List (Option κ)) (incl : Bool)
    (hall : ∀ s ∈ srcs, ∃ l, helper o g q s incl = .ok l) :
    ∃ u, augmentMany o g q srcs incl = .ok u ∧ u.Nodup ∧
      ∀ x, x ∈ u ↔ ∃ s ∈ srcs, ∃ l, helper o g q s incl = .ok l ∧ x ∈ l := by
  unfold augmentMany
  -- generalise the accumulator
  suffices H : ∀ (acc : List κ), acc.Nodup →
      ∃ u, srcs.foldl (augStep o g q incl) (.ok acc) = .ok u ∧ u.Nodup ∧
      ∀ x, x ∈ u ↔ x ∈ acc ∨ ∃ s ∈ srcs, ∃ l, helper o g q s incl = .ok l ∧ x ∈ l by
    obtain ⟨u, h1, h2, h3⟩ := H [] List.nodup_nil
    exact ⟨u, h1, h2, fun x => by rw [h3 x]; simp⟩
  induction srcs with
  | nil => intro acc hacc; exact ⟨acc, rfl, hacc, fun x => by simp⟩
  | cons s rest ih =>
    intro acc _
    obtain ⟨l, hl⟩ := hall s List.mem_cons_self
    obtain ⟨u, h1, h2, h3⟩ := ih (fun s' hs' => hall s' (List.mem_cons_of_mem _ hs')) (dedup (acc ++ l)) (nodup_dedup _)
    refine ⟨u, ?_, h2, ?_⟩
    · simp only [List.foldl_cons, augStep, hl]; exact h1
    · intro x
      rw [h3 x, mem_dedup, List.mem_append]
      constructor
      · rintro ((h | h) | ⟨s', hs', l', hl', hx⟩)
        · exact Or.inl h
        · exact Or.inr ⟨s, List.mem_cons_self, l, hl, h⟩
        · exact Or.inr ⟨s', List.mem_cons_of_mem _ hs', l', hl', hx⟩
      · rintro (h | ⟨s', hs', l', hl', hx⟩)
        · exact Or.inl (Or.inl h)
        · rcases List.mem_cons.mp hs' with rfl | hs'
          · rw [hl] at hl'; injection hl' with hl'; subst hl'
            exact Or.inl (Or.inr hx)
          · exact Or.inr ⟨s', hs', l', hl', hx⟩

theorem augment_empty (o : Graph.Ord κ) (g : G κ) (q : Q) (incl : Bool) : augmentMany o g q [] incl = .ok [] := rfl

/-- **`exists_path`, end to end, for the graphs of all three factories**: on an acyclic rooted edge list a path exists
from `a` to `b` exactly when `b` is reachable from `a` over one or more is_a edges (a strict ancestor). -/
theorem exists_path_exact {o : Graph.Ord κ} {owl : κ} {E : List (Edge κ)} {root : κ} {E' : List (Edge κ)} {g : IGraph κ}
    (h : BuiltIx o owl E root E' g) (hacyc : ∀ x, ¬ Relation.TransGen (Hpv.Props.C01.IsA E') x x)
    (a b : κ) (ha : a ∈ g.nodes) :
    ∃ gi gb, buildIncremental o owl E = .ok gi ∧ buildBuilder o owl E = .ok gb ∧
      ∀ G : G κ, (G = .ix g ∨ G = .mx gi ∨ G = .mx gb) →
        ∃ r, existsPath o G (some a) (some b) = .ok r ∧ (r = true ↔ Relation.TransGen (Hpv.Props.C01.IsA E') a b) := by
  obtain ⟨gi, gb, hgi, hgb, _, _, _, _, _, hagree⟩ := Hpv.Props.C03.factories_agree h hacyc
  obtain ⟨r, ri, rb, q1, q2, q3, _, _, _, hm⟩ := hagree .ancestors a ha
  obtain ⟨r', q1', _, hmem⟩ := Hpv.Props.C01.ancestors_closure h a ha
  rw [q1] at q1'; injection q1' with q1'; subst q1'
  have key : ∀ (res : List κ), (∀ x, x ∈ r ↔ x ∈ res) →
      (decide (a ≠ b ∧ b ∈ res) = true ↔ Relation.TransGen (Hpv.Props.C01.IsA E') a b) := by
    intro res hres
    rw [decide_eq_true_iff]
    constructor
    · rintro ⟨_, hb⟩; exact (hmem b).mp ((hres b).mpr hb)
    · intro hab
      refine ⟨?_, (hres b).mp ((hmem b).mpr hab)⟩
      intro heq; subst heq; exact hacyc a hab
  refine ⟨gi, gb, hgi, hgb, ?_⟩
  rintro G (rfl | rfl | rfl)
  · exact ⟨_, existsPath_spec o (.ix g) a b r q1, key r (fun _ => Iff.rfl)⟩
  · exact ⟨_, existsPath_spec o (.mx gi) a b ri q2, key ri (fun x => (hm x).1)⟩
  · exact ⟨_, existsPath_spec o (.mx gb) a b rb q3, key rb (fun x => (hm x).2)⟩

-- non-vacuity on the C01 example graph
open Hpv.Props.C01.Example in
example : helper natOrd (.ix diamondGraph) .descendants (some 9) true = .ok [9, 2, 1, 3] ∧
    existsPath natOrd (.ix diamondGraph) (some 1) (some 9) = .ok true ∧
    existsPath natOrd (.ix diamondGraph) (some 9) (some 9) = .ok false ∧
    augmentOne natOrd (.ix diamondGraph) .descendants (some 3) false = .ok [1] ∧
    augmentMany natOrd (.ix diamondGraph) .ancestors [some 2, some 3] false = .ok [9] := by
  refine ⟨by rfl, by rfl, by rfl, by rfl, by rfl⟩

end Hpv.Props.C18
