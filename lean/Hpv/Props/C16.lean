/-
C16 — readers and writers treat paths, gzip paths and open streams alike.
Model: Hpv/Io.lean: the isinstance chain of the two dispatchers over MEASURED class facts (the check measures, on the
running interpreter, the facts of a concrete instance of every source kind and evaluates `FactsFit` / `dispatchRead` /
`dispatchWrite` in the compiled model), and the text each accepted source yields (`decode`, `gzip`, `gunzip` are parameters).
`io`, `gzip`, `open` themselves are exercised by the correspondence run (the full product of kinds x readers/writers).
-/
import Hpv.Io

namespace Hpv.Props.C16
open Hpv.Io

/-- Every listed kind whose measured facts fit is accepted in the way the property requires, by the reading and by the
writing dispatcher; every other kind is rejected (ValueError).  (URLs are out of scope.) -/
theorem dispatch_table (k : Kind) (f : Facts) (h : FactsFit k f = true) :
    dispatchRead f = expectedRead k ∧ (k ≠ .other → dispatchWrite f = expectedRead k) ∧
    (k = .other → dispatchWrite f = .reject) := by
  cases k <;> simp only [FactsFit, Bool.and_eq_true, Bool.not_eq_true', Bool.or_eq_false_iff] at h <;>
    simp_all [dispatchRead, dispatchWrite, expectedRead]

/-- the facts of the concrete Python classes today (text file, StringIO, gzip text stream are `io.TextIOBase`;
binary file / BytesIO / GzipFile are `io.BufferedIOBase`; nothing real is an instance of the `typing` stubs) fit -/
theorem todays_facts_fit :
    FactsFit .path ⟨true, false, false, false, false, false, false, false⟩ = true ∧
    FactsFit .gzPath ⟨true, false, false, false, false, false, true, false⟩ = true ∧
    FactsFit .textFile ⟨false, false, false, false, false, true, false, false⟩ = true ∧
    FactsFit .binaryFile ⟨false, false, true, false, false, false, false, false⟩ = true ∧
    FactsFit .other ⟨false, false, false, false, false, false, false, false⟩ = true := by decide

/-- **Uniformity**: whatever accepted kind carries the content `b`, the reader parses `decode b` — provided
`gunzip (gzip b) = b`. -/
theorem same_text {Bytes Text : Type} (decode : Bytes → Text) (gzip gunzip : Bytes → Bytes)
    (hz : ∀ b, gunzip (gzip b) = b) (k : Kind) (hk : k ≠ .other) (b : Bytes) :
    readText decode gunzip (expectedRead k) (materialise decode gzip k b) = some (decode b) := by
  cases k <;> simp_all [readText, expectedRead, materialise]

/-- all readers (ontology loaders, HPOA loader, CSV reader) and both writers go through the same two dispatchers, so
for a parser `parse` the loaded object is `parse (decode b)` for every accepted kind -/
theorem same_result {Bytes Text Obj : Type} (decode : Bytes → Text) (gzip gunzip : Bytes → Bytes) (parse : Text → Obj)
    (hz : ∀ b, gunzip (gzip b) = b) (k k' : Kind) (hk : k ≠ .other) (hk' : k' ≠ .other) (b : Bytes) :
    (readText decode gunzip (expectedRead k) (materialise decode gzip k b)).map parse =
    (readText decode gunzip (expectedRead k') (materialise decode gzip k' b)).map parse := by
  rw [same_text decode gzip gunzip hz k hk b, same_text decode gzip gunzip hz k' hk' b]

/-! ### writers -/

/-- what a writer leaves behind for a target of an accepted kind when it writes the text `t`: the bytes of a file (behind a
path or a binary stream) or the characters handed to a caller's text stream -/
inductive Written (Bytes Text : Type)
  | fileBytes (b : Bytes)
  | streamText (t : Text)

/-- `open_text_io_handle_for_writing` followed by the writes: a plain path and a binary stream receive the encoded text, a
`.gz` path its compressed form, a caller's text stream the text itself -/
def writeText {Bytes Text : Type} (encode : Text → Bytes) (gzip : Bytes → Bytes) (o : Outcome) (t : Text) : Option (Written Bytes Text) :=
  match o with
  | .openPath => some (.fileBytes (encode t))
  | .openGzPath => some (.fileBytes (gzip (encode t)))
  | .wrapBinary => some (.fileBytes (encode t))
  | .passText => some (.streamText t)
  | .openUrl => none
  | .reject => none

/-- the content of what was written, read the way the matching reader reads it -/
def contentOf {Bytes Text : Type} (decode : Bytes → Text) (gunzip : Bytes → Bytes) (k : Kind) : Written Bytes Text → Text
  | .fileBytes b => if k = .gzPath then decode (gunzip b) else decode b
  | .streamText t => t

/-- **Writers produce the same content for every accepted kind of target**: whatever the kind - path, `.gz` path, text or
binary stream (for gzip STREAMS the caller's stream object does the compressing) - the content that lands is the text that
was written, given that decoding undoes encoding and gunzip undoes gzip. -/
theorem same_content_written {Bytes Text : Type} (encode : Text → Bytes) (decode : Bytes → Text) (gzip gunzip : Bytes → Bytes)
    (hc : ∀ t, decode (encode t) = t) (hz : ∀ b, gunzip (gzip b) = b) (k : Kind) (hk : k ≠ .other) (t : Text) :
    ∃ w, writeText encode gzip (expectedRead k) t = some w ∧ contentOf decode gunzip k w = t := by
  cases k <;> simp_all [writeText, expectedRead, contentOf]

/-- and what one kind of target received reads back, through any accepted kind of source, as the same object -/
theorem write_then_read {Bytes Text Obj : Type} (encode : Text → Bytes) (decode : Bytes → Text) (gzip gunzip : Bytes → Bytes)
    (parse : Text → Obj) (hc : ∀ t, decode (encode t) = t) (hz : ∀ b, gunzip (gzip b) = b) (k k' : Kind) (hk : k ≠ .other)
    (hk' : k' ≠ .other) (t : Text) :
    ∃ w, writeText encode gzip (expectedRead k) t = some w ∧
      (readText decode gunzip (expectedRead k') (materialise decode gzip k' (encode (contentOf decode gunzip k w)))).map parse =
        some (parse t) := by
  obtain ⟨w, hw, hcont⟩ := same_content_written encode decode gzip gunzip hc hz k hk t
  refine ⟨w, hw, ?_⟩
  rw [hcont, same_text decode gzip gunzip hz k' hk' (encode t), hc]
  rfl

end Hpv.Props.C16
