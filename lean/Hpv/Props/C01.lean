/-
C01 — ancestor/descendant queries equal the transitive closure of the is_a edges.
Model: Hpv/GraphModel.lean.  The theorems below are proved for the default factory (CsrIndexedGraphFactory /
CsrIndexedOntologyGraph, the one every loader uses) through the WHOLE pipeline: edge de-duplication, root finding,
`np.unique`, bisect lookups, the cached adjacency scan, per-row assembly, CSR slicing, the worklist traversal and
the mapping back to labels.  For the two matrix-backed factories the same statements are proved for the query layer
(`Represents.direct`, `Represents.closure`) under the hypothesis that the adjacency matrix represents the edge list
(`Represents`).  For the builder-based factory (CsrGraphFactory) the hypothesis is DISCHARGED here
(`builder_factory_exact`, via C17's refinement theorem `runOps_spec` and `colIndicesOfVal_spec`), so its statements are
end-to-end too; likewise for the incremental factory (IncrementalCsrGraphFactory: `incremental_factory_exact`, through
`_partition_edges`, `_preprocess_edges`, the per-row sort, the index lookups and the CSR assembly).
-/
import Hpv.GraphModelProofs
import Hpv.BuilderFactoryProofs
import Hpv.IncrementalFactoryProofs
import Hpv.SourceProofs

namespace Hpv.Props.C01
open Hpv.Graph Hpv.Csr Hpv.Indexed Hpv.GM

variable {κ : Type} [DecidableEq κ]
variable {o : Graph.Ord κ} {owl : κ} {E : List (Edge κ)} {root : κ} {E' : List (Edge κ)} {g : IGraph κ}

/-- `a is_a b` in the rooted edge list -/
def IsA (E' : List (Edge κ)) (a b : κ) : Prop := (a, b) ∈ E'

/-- The parent query returns exactly the node's direct is_a objects (in edge order), each exactly once. -/
theorem parents_exact (h : BuiltIx o owl E root E' g) (v : κ) (hv : v ∈ g.nodes) :
    g.query o .parents (some v) false = .ok ((E'.filter (fun e => decide (e.1 = v))).map (·.2)) ∧
    ((E'.filter (fun e => decide (e.1 = v))).map (·.2)).Nodup ∧
    ∀ x, x ∈ (E'.filter (fun e => decide (e.1 = v))).map (·.2) ↔ IsA E' v x := by
  obtain ⟨i, hi⟩ := List.getElem?_of_mem hv
  obtain ⟨_, _, _, _, _, _, _, _, hl2, hsorted⟩ := h.facts
  have hq : g.queryIdx .parents (i : Int) = .ok (g.parents.row i) :=
    outgoing_ok g.parents g.nodes.length i hl2 (h.idx_lt i v hi)
  refine ⟨?_, (h.parents_row_nodup i v hi).2, ?_⟩
  · rw [IGraph.query_ok o h.strict g hsorted .parents v i hi false _ hq, (h.parents_row i v hi).2]; rfl
  · intro x
    simp only [List.mem_map, List.mem_filter, decide_eq_true_eq, IsA]
    constructor
    · rintro ⟨e, ⟨he, h1⟩, rfl⟩; rw [← h1]; exact he
    · intro hx; exact ⟨(v, x), ⟨hx, rfl⟩, rfl⟩

/-- The child query returns exactly the node's direct is_a subjects, each exactly once. -/
theorem children_exact (h : BuiltIx o owl E root E' g) (v : κ) (hv : v ∈ g.nodes) :
    g.query o .children (some v) false = .ok ((E'.filter (fun e => decide (e.2 = v))).map (·.1)) ∧
    ((E'.filter (fun e => decide (e.2 = v))).map (·.1)).Nodup ∧
    ∀ x, x ∈ (E'.filter (fun e => decide (e.2 = v))).map (·.1) ↔ IsA E' x v := by
  obtain ⟨i, hi⟩ := List.getElem?_of_mem hv
  obtain ⟨_, _, _, _, _, _, _, hl1, _, hsorted⟩ := h.facts
  have hq : g.queryIdx .children (i : Int) = .ok (g.children.row i) :=
    outgoing_ok g.children g.nodes.length i hl1 (h.idx_lt i v hi)
  refine ⟨?_, (h.children_row_nodup i v hi).2, ?_⟩
  · rw [IGraph.query_ok o h.strict g hsorted .children v i hi false _ hq, (h.children_row i v hi).2]; rfl
  · intro x
    simp only [List.mem_map, List.mem_filter, decide_eq_true_eq, IsA]
    constructor
    · rintro ⟨e, ⟨he, h1⟩, rfl⟩; rw [← h1]; exact he
    · intro hx; exact ⟨(x, v), ⟨hx, rfl⟩, rfl⟩

/-- The ancestor query returns exactly the nodes reachable over one or more is_a edges upward, each exactly once. -/
theorem ancestors_closure (h : BuiltIx o owl E root E' g) (v : κ) (hv : v ∈ g.nodes) :
    ∃ res, g.query o .ancestors (some v) false = .ok res ∧ res.Nodup ∧
      ∀ x, x ∈ res ↔ Relation.TransGen (IsA E') v x := by
  obtain ⟨i, hi⟩ := List.getElem?_of_mem hv
  obtain ⟨_, _, _, _, _, _, _, _, _, hsorted⟩ := h.facts
  obtain ⟨idxs, hq, hnd, _, hlab⟩ := h.ancestorIdx_spec i v hi
  refine ⟨mapNodes g.nodes idxs, ?_, nodup_mapNodes g.nodes (Sorted.nodup o h.strict _ hsorted) idxs hnd, hlab⟩
  rw [IGraph.query_ok o h.strict g hsorted .ancestors v i hi false idxs hq]; rfl

/-- The descendant query returns exactly the nodes reachable over one or more is_a edges downward, each exactly once. -/
theorem descendants_closure (h : BuiltIx o owl E root E' g) (v : κ) (hv : v ∈ g.nodes) :
    ∃ res, g.query o .descendants (some v) false = .ok res ∧ res.Nodup ∧
      ∀ x, x ∈ res ↔ Relation.TransGen (fun a b => IsA E' b a) v x := by
  obtain ⟨i, hi⟩ := List.getElem?_of_mem hv
  obtain ⟨_, _, _, _, _, _, _, _, _, hsorted⟩ := h.facts
  obtain ⟨idxs, hq, hnd, _, hlab⟩ := h.descendantIdx_spec i v hi
  refine ⟨mapNodes g.nodes idxs, ?_, nodup_mapNodes g.nodes (Sorted.nodup o h.strict _ hsorted) idxs hnd, hlab⟩
  rw [IGraph.query_ok o h.strict g hsorted .descendants v i hi false idxs hq]; rfl

/-- Asking to include the source adds the source itself, once, in front, and nothing else — for all four queries. -/
theorem include_source (h : BuiltIx o owl E root E' g) (q : Q) (v : κ) (hv : v ∈ g.nodes) :
    ∃ res, g.query o q (some v) false = .ok res ∧ g.query o q (some v) true = .ok (v :: res) := by
  obtain ⟨i, hi⟩ := List.getElem?_of_mem hv
  obtain ⟨_, _, _, _, _, _, _, hl1, hl2, hsorted⟩ := h.facts
  have hlt := h.idx_lt i v hi
  have hq : ∃ idxs, g.queryIdx q (i : Int) = .ok idxs := by
    cases q with
    | children => exact ⟨_, outgoing_ok g.children g.nodes.length i hl1 hlt⟩
    | parents => exact ⟨_, outgoing_ok g.parents g.nodes.length i hl2 hlt⟩
    | ancestors => obtain ⟨idxs, hq, _⟩ := h.ancestorIdx_spec i v hi; exact ⟨idxs, hq⟩
    | descendants => obtain ⟨idxs, hq, _⟩ := h.descendantIdx_spec i v hi; exact ⟨idxs, hq⟩
  obtain ⟨idxs, hq⟩ := hq
  refine ⟨mapNodes g.nodes idxs, ?_, ?_⟩
  · rw [IGraph.query_ok o h.strict g hsorted q v i hi false idxs hq]; rfl
  · rw [IGraph.query_ok o h.strict g hsorted q v i hi true idxs hq]; rfl

/-- On an acyclic hierarchy the source is not among its own ancestors / descendants / parents / children, so with
`include_source` it appears exactly once. -/
theorem source_once (h : BuiltIx o owl E root E' g) (hacyc : ∀ x, ¬ Relation.TransGen (IsA E') x x)
    (v : κ) (hv : v ∈ g.nodes) :
    (∀ res, g.query o .ancestors (some v) false = .ok res → v ∉ res) ∧
    (∀ res, g.query o .descendants (some v) false = .ok res → v ∉ res) ∧
    (∀ res, g.query o .parents (some v) false = .ok res → v ∉ res) ∧
    (∀ res, g.query o .children (some v) false = .ok res → v ∉ res) := by
  refine ⟨?_, ?_, ?_, ?_⟩
  · intro res hres hin
    obtain ⟨res', h1, _, h3⟩ := ancestors_closure h v hv
    rw [hres] at h1; injection h1 with h1; subst h1
    exact hacyc v ((h3 v).mp hin)
  · intro res hres hin
    obtain ⟨res', h1, _, h3⟩ := descendants_closure h v hv
    rw [hres] at h1; injection h1 with h1; subst h1
    have := (h3 v).mp hin
    -- a downward cycle is an upward cycle
    have flip : ∀ a b, Relation.TransGen (fun a b => IsA E' b a) a b → Relation.TransGen (IsA E') b a := by
      intro a b hab
      induction hab with
      | single hh => exact Relation.TransGen.single hh
      | tail _ hh ih => exact Relation.TransGen.trans (Relation.TransGen.single hh) ih
    exact hacyc v (flip v v this)
  · intro res hres hin
    obtain ⟨h1, _, h3⟩ := parents_exact h v hv
    rw [hres] at h1; injection h1 with h1; subst h1
    exact hacyc v (Relation.TransGen.single ((h3 v).mp hin))
  · intro res hres hin
    obtain ⟨h1, _, h3⟩ := children_exact h v hv
    rw [hres] at h1; injection h1 with h1; subst h1
    exact hacyc v (Relation.TransGen.single ((h3 v).mp hin))

/-- Acyclicity rules out self-loops and two-cycles. -/
theorem acyclic_simple (hacyc : ∀ x, ¬ Relation.TransGen (IsA E') x x) :
    (∀ e ∈ E', e.1 ≠ e.2) ∧ (∀ a b, (a, b) ∈ E' → (b, a) ∉ E') := by
  constructor
  · intro e he heq
    have : IsA E' e.1 e.1 := by
      show (e.1, e.1) ∈ E'
      have : (e.1, e.1) = e := by rw [Prod.ext_iff]; exact ⟨rfl, heq⟩
      rw [this]; exact he
    exact hacyc e.1 (Relation.TransGen.single this)
  · intro a b hab hba
    exact hacyc a (Relation.TransGen.tail (Relation.TransGen.single hab) hba)

/-- **Builder-based factory, end to end** (edge list → `CsrMatrixBuilder` assignments → CSR matrix → `col_indices_of_val`
→ worklist → labels): on every acyclic rooted edge list the factory succeeds and all four queries of the resulting
graph return exactly the direct relatives / the transitive closure, each node once. -/
theorem builder_factory_exact (hs : o.Strict) (hroot : findRoot owl (dedup E) = .ok (root, E'))
    (hacyc : ∀ x, ¬ Relation.TransGen (IsA E') x x) :
    ∃ g, buildBuilder o owl E = .ok g ∧ g.root = root ∧ ∀ v ∈ g.nodes,
      (∃ res, g.query o .parents (some v) false = .ok res ∧ res.Nodup ∧ ∀ x, x ∈ res ↔ IsA E' v x) ∧
      (∃ res, g.query o .children (some v) false = .ok res ∧ res.Nodup ∧ ∀ x, x ∈ res ↔ IsA E' x v) ∧
      (∃ res, g.query o .ancestors (some v) false = .ok res ∧ res.Nodup ∧
        ∀ x, x ∈ res ↔ Relation.TransGen (IsA E') v x) ∧
      (∃ res, g.query o .descendants (some v) false = .ok res ∧ res.Nodup ∧
        ∀ x, x ∈ res ↔ Relation.TransGen (fun a b => IsA E' b a) v x) := by
  obtain ⟨hloop, h2⟩ := acyclic_simple hacyc
  obtain ⟨g, hg, hr, _, hrep⟩ := builder_represents hs hroot hloop h2
  refine ⟨g, hg, hr, fun v hv => ?_⟩
  obtain ⟨hp, hc⟩ := hrep.direct hs v hv
  obtain ⟨ha, hd⟩ := hrep.closure hs v hv
  exact ⟨hp, hc, ha, hd⟩

/-- **Incremental factory, end to end** (edge list → per-node adjacency with the last-subject cache →
`_preprocess_edges` → per-row `sorted` → index lookups → CSR arrays → `col_indices_of_val` → worklist → labels): on
every acyclic rooted edge list the factory succeeds and all four queries return exactly the direct relatives / the
transitive closure, each node once. -/
theorem incremental_factory_exact (hs : o.Strict) (hroot : findRoot owl (dedup E) = .ok (root, E'))
    (hacyc : ∀ x, ¬ Relation.TransGen (IsA E') x x) :
    ∃ g, buildIncremental o owl E = .ok g ∧ g.root = root ∧ ∀ v ∈ g.nodes,
      (∃ res, g.query o .parents (some v) false = .ok res ∧ res.Nodup ∧ ∀ x, x ∈ res ↔ IsA E' v x) ∧
      (∃ res, g.query o .children (some v) false = .ok res ∧ res.Nodup ∧ ∀ x, x ∈ res ↔ IsA E' x v) ∧
      (∃ res, g.query o .ancestors (some v) false = .ok res ∧ res.Nodup ∧
        ∀ x, x ∈ res ↔ Relation.TransGen (IsA E') v x) ∧
      (∃ res, g.query o .descendants (some v) false = .ok res ∧ res.Nodup ∧
        ∀ x, x ∈ res ↔ Relation.TransGen (fun a b => IsA E' b a) v x) := by
  obtain ⟨hloop, h2⟩ := acyclic_simple hacyc
  obtain ⟨g, hg, hr, _, hrep⟩ := incremental_represents hs hroot hloop h2
  refine ⟨g, hg, hr, fun v hv => ?_⟩
  obtain ⟨hp, hc⟩ := hrep.direct hs v hv
  obtain ⟨ha, hd⟩ := hrep.closure hs v hv
  exact ⟨hp, hc, ha, hd⟩

/-- **`include_source` on the two matrix-backed factories**: on every acyclic rooted edge list, for all four queries,
asking to include the source adds the source itself, exactly once, and nothing else. -/
theorem matrix_factories_include_source (hs : o.Strict) (hroot : findRoot owl (dedup E) = .ok (root, E'))
    (hacyc : ∀ x, ¬ Relation.TransGen (IsA E') x x) :
    ∃ gi gb, buildIncremental o owl E = .ok gi ∧ buildBuilder o owl E = .ok gb ∧
      ∀ (mg : MGraph κ), (mg = gi ∨ mg = gb) → ∀ (q : Q) (v : κ), v ∈ mg.nodes →
        ∃ res res', mg.query o q (some v) false = .ok res ∧ mg.query o q (some v) true = .ok res' ∧
          res'.Nodup ∧ ∀ x, x ∈ res' ↔ x = v ∨ x ∈ res := by
  obtain ⟨hloop, h2⟩ := acyclic_simple hacyc
  obtain ⟨gi, hgi, _, _, hrepi⟩ := incremental_represents hs hroot hloop h2
  obtain ⟨gb, hgb, _, _, hrepb⟩ := builder_represents hs hroot hloop h2
  refine ⟨gi, gb, hgi, hgb, ?_⟩
  rintro mg (rfl | rfl) q v hv
  · exact hrepi.include_source hs hloop q v hv
  · exact hrepb.include_source hs hloop q v hv

end Hpv.Props.C01

/-! ### non-vacuity: the hypotheses are met by concrete graphs (keys `Nat` under `<`, `owl:Thing` = 0) -/
namespace Hpv.Props.C01.Example
open Hpv.Graph Hpv.GM

def natOrd : Graph.Ord Nat := ⟨fun a b => decide (a < b)⟩

theorem natOrd_strict : natOrd.Strict where
  irrefl := by intro a; simp [natOrd]
  trans := by intro a b c h1 h2; simp [natOrd] at *; omega
  total := by intro a b; simp [natOrd]; omega

/-- a diamond with a multi-parent leaf, labels sorting in reverse topological order -/
def diamond : List (Edge Nat) := [(3, 9), (2, 9), (1, 3), (1, 2), (3, 9)]

def diamondGraph : IGraph Nat :=
  match buildIndexed natOrd 0 diamond with
  | .ok g => g
  | .error _ => ⟨0, [], ⟨[], []⟩, ⟨[], []⟩⟩

example : BuiltIx natOrd 0 diamond 9 [(3, 9), (2, 9), (1, 3), (1, 2)] diamondGraph where
  strict := natOrd_strict
  hroot := by rfl
  hloop := by decide
  hg := by rfl

example : diamondGraph.query natOrd .ancestors (some 1) true = .ok [1, 2, 9, 3] := by rfl
example : diamondGraph.query natOrd .children (some 9) false = .ok [3, 2] := by rfl

/-- a two-root forest: the synthetic root (key 0) is added with exactly the parentless terms as children -/
def forest : List (Edge Nat) := [(5, 4), (7, 6)]

def forestGraph : IGraph Nat :=
  match buildIndexed natOrd 0 forest with
  | .ok g => g
  | .error _ => ⟨0, [], ⟨[], []⟩, ⟨[], []⟩⟩

example : BuiltIx natOrd 0 forest 0 [(5, 4), (7, 6), (4, 0), (6, 0)] forestGraph where
  strict := natOrd_strict
  hroot := by rfl
  hloop := by decide
  hg := by rfl

example : forestGraph.query natOrd .descendants (some 0) false = .ok [6, 7, 4, 5] := by rfl

/-- the builder factory on the diamond: the hypotheses of `builder_factory_exact` hold and the answers are as stated -/
example : findRoot 0 (dedup diamond) = .ok (9, [(3, 9), (2, 9), (1, 3), (1, 2)]) := by rfl
example : (match buildBuilder natOrd 0 diamond with
    | .ok g => g.query natOrd .ancestors (some 1) false
    | .error e => .error e) = .ok [2, 3, 9] := by rfl

example : (match buildIncremental natOrd 0 diamond with
    | .ok g => g.query natOrd .descendants (some 9) false
    | .error e => .error e) = .ok [2, 3, 1] := by rfl

example : (match buildIncremental natOrd 0 diamond with
    | .ok g => g.query natOrd .ancestors (some 1) true
    | .error e => .error e) = .ok [1, 2, 3, 9] := by rfl

end Hpv.Props.C01.Example
