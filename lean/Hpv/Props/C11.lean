/-
C11 — validators report exactly the rule violations and never alter their input.
Model: Hpv/Validate.lean.  `prim o f` is the item after replacing its id by the current term's primary id (C06).
Hypothesis `Known`: every item's id is known to the ontology (the property's own quantifier).
-/
import Hpv.ValidateProofs

namespace Hpv.Props.C11
open Hpv.Validate

variable {κ : Type} [DecidableEq κ]

/-- The annotation-propagation validator reports an error for `(d, a)` exactly when some item has (primary) id `d`,
`a` is a strict ancestor of `d` at any distance, some item has (primary) id `a`, and the descendant is present or the
ancestor item is excluded (i.e. present-descendant with any ancestor, or excluded/excluded); it reports nothing else. -/
theorem propagation_exact (o : Onto κ) (items : List (Feature κ)) (hk : Known o items) :
    ∃ rs, propagation o items = .ok rs ∧
      (∀ r ∈ rs, r.level = .error ∧ r.category = .propagation) ∧
      ∀ d a, (⟨.error, .propagation, [d, a]⟩ : Result κ) ∈ rs ↔
        ∃ f ∈ items.map (prim o), f.id = d ∧ a ∈ o.strictAnc d ∧
          ∃ g ∈ items.map (prim o), g.id = a ∧ (f.present = true ∨ g.present = false) :=
  propagation_spec o items hk

/-- The obsolete-id validator warns exactly for the items whose given id differs from the primary id of their current
term (i.e. items using an alternate id), in item order. -/
theorem obsolete_exact (o : Onto κ) (items : List (Feature κ)) (hk : Known o items) :
    obsoleteIds o items = .ok ((items.filter (fun f => (prim o f).id ≠ f.id)).map
      (fun f => ⟨.warning, .obsolete, [f.id, (prim o f).id]⟩)) :=
  obsolete_spec o items hk

/-- The phenotypic-abnormality validator warns exactly for the items that are not STRICT descendants of Phenotypic
abnormality (so Phenotypic abnormality itself warns), in item order. -/
theorem abnormality_exact (o : Onto κ) (pa : κ) (items : List (Feature κ)) (hk : Known o items) :
    abnormality o pa items = .ok ((items.filter (fun f => !(o.strictAnc (prim o f).id).contains pa)).map
      (fun f => ⟨.warning, .abnormality, [(prim o f).id, pa]⟩)) :=
  abnormality_spec o pa items hk

/-- The runner reports the concatenation of its validators' findings; `is_ok` holds exactly when nothing was reported. -/
theorem runner (o : Onto κ) (pa : κ) (vs : List Validator) (items : List (Feature κ)) (hk : Known o items) :
    validateAll o pa vs items = .ok (vs.flatMap (resultsOf o pa items)) ∧
    ∀ rs : List (Result κ), isOk rs = true ↔ rs = [] := by
  refine ⟨runner_spec o pa vs items ?_, fun rs => by simp [isOk]⟩
  intro v _
  cases v with
  | propagation => obtain ⟨rs, h, _⟩ := propagation_spec o items hk; exact ⟨rs, h⟩
  | abnormality => exact ⟨_, abnormality_spec o pa items hk⟩
  | obsolete => exact ⟨_, obsolete_spec o items hk⟩

/-- Validating never changes the caller's items: the validators only allocate copies and only assign to those copies. -/
theorem caller_items_untouched (o : Onto κ) (heap : Heap κ) (n : Nat) : (heapAfter o heap n).take heap.length = heap :=
  no_mutation o heap n

-- non-vacuity: chain 3 -> 2 -> 1 (= PA); id 9 is an alternate id of 3
def exOnto : Onto Nat := ⟨fun k => if k = 9 then some 3 else if k ≤ 4 then some k else none,
  fun k => if k = 3 then [2, 1] else if k = 2 then [1] else []⟩

example : Known exOnto [⟨9, true⟩, ⟨2, false⟩, ⟨1, true⟩] := by
  intro f hf; simp at hf; rcases hf with rfl | rfl | rfl <;> decide

example : validateAll exOnto 1 [.propagation, .abnormality, .obsolete] [⟨9, true⟩, ⟨2, false⟩, ⟨1, true⟩] =
    .ok [⟨.error, .propagation, [3, 2]⟩, ⟨.error, .propagation, [3, 1]⟩, ⟨.warning, .abnormality, [1, 1]⟩,
         ⟨.warning, .obsolete, [9, 3]⟩] := by rfl

example : heapAfter exOnto [⟨9, true⟩, ⟨2, false⟩] 2 = [⟨9, true⟩, ⟨2, false⟩, ⟨3, true⟩, ⟨2, false⟩] := by rfl

end Hpv.Props.C11
