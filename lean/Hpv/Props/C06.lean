/-
C06 — ontology lookups resolve primary and alternate ids to current terms only.
Model: Hpv/Onto.lean (`create_minimal_ontology` / `create_ontology`, `make_term_id_map`, `get_term`, `__contains__`,
`__len__`, `terms`, `term_ids`, `get_term_name`).  Ids are the printed CURIE values (C04: value <-> (prefix, id)).
Hypothesis `DisjointIds`: the primary and alternate ids of CURRENT terms are pairwise distinct — the property's own
quantifier ("any disjoint assignment of alternate ids"); obsolete terms are arbitrary.
-/
import Hpv.OntoProofs

namespace Hpv.Props.C06
open Hpv.Sim Hpv.Onto

/-- A lookup succeeds exactly for the primary id and the alternate ids of current terms, and returns that term. -/
theorem lookup_iff (ts : List Term) (hd : DisjointIds ts) (k : Str) (t : Term) :
    getTerm ts k = some t ↔ t ∈ current ts ∧ (k = t.id ∨ k ∈ t.alts) := getTerm_spec ts hd k t

/-- Any other id returns `None` — in particular the primary id of an obsolete term that is nobody's alternate id. -/
theorem lookup_none (ts : List Term) (hd : DisjointIds ts) (k : Str)
    (h : ∀ t ∈ current ts, k ≠ t.id ∧ k ∉ t.alts) : getTerm ts k = none := by
  cases hg : getTerm ts k with
  | none => rfl
  | some t =>
    obtain ⟨ht, hk⟩ := (getTerm_spec ts hd k t).mp hg
    rcases hk with hk | hk
    · exact absurd hk (h t ht).1
    · exact absurd hk (h t ht).2

/-- An obsolete term is never returned by any lookup. -/
theorem obsolete_never (ts : List Term) (hd : DisjointIds ts) (k : Str) (t : Term) (h : getTerm ts k = some t) :
    t.obsolete = false := obsolete_never_returned ts hd k t h

/-- Length and the term iterator cover exactly the non-obsolete terms (in document order). -/
theorem len_terms (ts : List Term) :
    len ts = (ts.filter (fun t => !t.obsolete)).length ∧ terms ts = ts.filter (fun t => !t.obsolete) ∧
    ∀ t, t ∈ terms ts ↔ t ∈ ts ∧ t.obsolete = false := by
  refine ⟨rfl, rfl, ?_⟩
  intro t
  simp [terms, current, List.mem_filter]

/-- `in` is true exactly when the lookup succeeds; the name lookup is the lookup followed by `.name`. -/
theorem contains_name (ts : List Term) (k : Str) :
    contains ts k = (getTerm ts k).isSome ∧ getTermName ts k = (getTerm ts k).map (·.name) := ⟨rfl, rfl⟩

/-- The term-id iterator lists exactly the primary and alternate ids of current terms, each once. -/
theorem term_ids (ts : List Term) (hd : DisjointIds ts) :
    (termIds ts).Nodup ∧ ∀ k, k ∈ termIds ts ↔ ∃ t ∈ current ts, k = t.id ∨ k ∈ t.alts := by
  refine ⟨termIds_nodup ts, ?_⟩
  intro k
  rw [mem_termIds]
  constructor
  · intro h
    obtain ⟨t, ht⟩ := Option.isSome_iff_exists.mp h
    exact ⟨t, (getTerm_spec ts hd k t).mp ht⟩
  · rintro ⟨t, ht, hk⟩
    rw [(getTerm_spec ts hd k t).mpr ⟨ht, hk⟩]; rfl

-- non-vacuity: a current term with two alternate ids, an obsolete term whose id is one of them, an unrelated obsolete term
def exTerms : List Term :=
  [⟨[1], [[2], [3]], false, [65]⟩, ⟨[2], [], true, [66]⟩, ⟨[9], [[7]], true, [67]⟩, ⟨[4], [], false, [68]⟩]

example : DisjointIds exTerms := by unfold DisjointIds; decide
example : (getTerm exTerms [2]).map (·.id) = some [1] ∧ getTerm exTerms [9] = none ∧ getTerm exTerms [7] = none ∧
    len exTerms = 2 ∧ termIds exTerms = [[1], [2], [3], [4]] := by decide

end Hpv.Props.C06
