/-
C15 — the similarity container is a symmetric map; the CSV round trip is lossless.
Model: Hpv/Sim.lean (`SimilarityContainer` as a history machine over the nested dict keyed by the ordered pair;
`MetadataAware.metadata_to_str/_from_str` over code-point strings, parametric in the table of forbidden characters that
the check extracts from the source on every run).  Values are integers standing for floats under an order-preserving
injection (the container only compares with 0 and stores).  `csv`, `gzip`, `repr(float)`/`float(str)` are not modelled:
the file-level round trip is exercised by the correspondence run; its logical core is `rebuild_get` + `meta_round_trip`.
-/
import Hpv.SimProofs

namespace Hpv.Props.C15
open Hpv.Sim

/-- After any history, a read of `(x, y)` — in either order — returns the value most recently *accepted* for that
unordered pair, and 0 if there is none; rejected (negative) sets and reads have no effect on later reads. -/
theorem last_write (ops : List Op) (x y : Str) :
    get (run ops) x y = spec ops.reverse x y ∧ get (run ops) x y = get (run ops) y x :=
  ⟨get_run ops x y, get_comm (run ops) x y⟩

/-- `spec` really is "last accepted write on the unordered pair" -/
theorem spec_unfold (hist : List Op) (a b x y : Str) (v : Int) :
    spec (Op.set a b v :: hist) x y = (if v < 0 then spec hist x y else if norm a b = norm x y then v else spec hist x y) ∧
    spec (Op.get a b :: hist) x y = spec hist x y ∧ spec (Op.len :: hist) x y = spec hist x y ∧
    spec [] x y = 0 ∧ norm a b = norm b a :=
  ⟨rfl, rfl, rfl, rfl, norm_comm a b⟩

/-- A negative value is rejected without any effect; reads never change the state. -/
theorem rejected_no_effect (s : State) (a b : Str) (v : Int) (hv : v < 0) :
    Hpv.Sim.set s a b v = .error .valueError ∧ stepOp s (Op.set a b v) = s ∧ stepOp s (Op.get a b) = s ∧ stepOp s Op.len = s := by
  have h : Hpv.Sim.set s a b v = .error .valueError := by simp [Hpv.Sim.set, hv]
  exact ⟨h, by simp [stepOp, h], rfl, rfl⟩

/-- Length and item listing cover every stored unordered pair exactly once: the listing has no repeated key, every
listed triple is keyed by the ordered pair and carries the value a read returns, a pair is listed exactly when an
accepted `set` addressed it (in either order), and `len` is the number of listed items. -/
theorem items_len (ops : List Op) :
    ((items (run ops)).map (fun t => (t.1, t.2.1))).Nodup ∧
    (∀ o i v, (o, i, v) ∈ items (run ops) → sle o i = true ∧ get (run ops) o i = v ∧ 0 ≤ v) ∧
    (∀ o i, (∃ v, (o, i, v) ∈ items (run ops)) ↔ ∃ a b v, Op.set a b v ∈ ops ∧ 0 ≤ v ∧ norm a b = (o, i)) ∧
    len (run ops) = (items (run ops)).length := by
  have hwf := wf_run ops
  obtain ⟨h1, h2⟩ := items_spec (run ops) hwf
  refine ⟨h1, h2, ?_, len_eq_items _⟩
  intro o i
  rw [← stored_run ops o i]
  constructor
  · rintro ⟨v, hv⟩
    obtain ⟨inner, ha, hb⟩ := (mem_items_iff _ hwf o i v).mp hv
    exact ⟨inner, v, ha, hb⟩
  · rintro ⟨inner, v, ha, hb⟩
    exact ⟨v, (mem_items_iff _ hwf o i v).mpr ⟨inner, ha, hb⟩⟩

/-- Re-inserting the listed items (what `from_csv` does with the rows `to_csv` wrote) gives a container with the same
similarities for every pair in either order. -/
theorem rows_round_trip (ops : List Op) (x y : Str) : get (rebuild (run ops)) x y = get (run ops) x y :=
  rebuild_get (run ops) (wf_run ops) x y

/-- Metadata round trip, for every table of forbidden characters containing `;`, `=`, LF and CR: the encoded header
line contains no line break and decodes to the same dictionary. -/
theorem meta_round_trip (forb : List Nat) (htab : TableOk forb = true) (m : Meta) (hm : MetaOk forb m) :
    ∃ s, encodeMeta forb m = .ok s ∧ decodeMeta s = .ok m ∧ (10 : Nat) ∉ s ∧ (13 : Nat) ∉ s :=
  Hpv.Sim.meta_round_trip forb htab m hm

/-- Metadata containing a reserved character is rejected instead of being written corrupted. -/
theorem meta_rejected (forb : List Nat) (m : Meta) (kv : Str × Str) (hkv : kv ∈ m)
    (h : hasForbidden forb kv.1 = true ∨ hasForbidden forb kv.2 = true) : encodeMeta forb m = .error .valueError :=
  Hpv.Sim.meta_rejected forb m kv hkv h

/-- The written FILE, line by line (title comment, metadata comment, then whatever lines the csv writer produced, header row
first): the reader takes exactly the two leading comment lines for the header, recovers the metadata from them and hands
every other line, unchanged and in order, to the csv reader - also when a record begins with `#` (a term id such as `#X:1`)
or a quoted field continues on a line that begins with `#`. Only the first csv line (the header row, `term_a,...`) must not
begin with `#`. -/
theorem file_frame_round_trip (forb : List Nat) (htab : TableOk forb = true) (m : Meta) (hm : MetaOk forb m) (title : Str)
    (body : List Str) (hbody : body = [] ∨ ∃ h rest, body = h :: rest ∧ isComment h = false) :
    ∃ s, encodeMeta forb m = .ok s ∧ (unframe (frame title s body)).2 = body ∧
      parseMeta (unframe (frame title s body)).1 = .ok m :=
  Hpv.Sim.file_round_trip forb htab m hm title body hbody

/-- `to_csv` stamps the metadata with `created` first, so what it encodes is never empty. -/
theorem stamped_nonempty (m : Meta) (ts : Str) : upsert createdKey ts m ≠ [] := by
  intro h
  have := upsert_ne_nil createdKey ts m
  simp [h] at this

-- non-vacuity
example : get (run [.set [2] [1] 5, .set [1] [2] (-1), .get [9] [9], .set [1] [1] 0]) [1] [2] = 5 := by decide
example : len (run [.set [2] [1] 5, .set [1] [2] 7, .set [1] [1] 0]) = 2 := by decide
example : TableOk [59, 61, 10, 13] = true := by decide
example : MetaOk [59, 61, 10, 13] [([97], [120, 32, 121]), ([98], [])] :=
  ⟨by decide, by decide, by decide⟩
example : decodeMeta [97, 61, 120, 59, 98, 61] = .ok [([97], [120]), ([98], [])] := by rfl

-- a record line and a continuation line that begin with `#` are data once the header row has been seen
example : unframe (frame [116] [107, 61, 118] [[116, 10], [35, 88, 58, 49, 44, 72, 10], [35, 10]]) =
    ([[35, 116, 10], [35, 107, 61, 118, 10]], [[116, 10], [35, 88, 58, 49, 44, 72, 10], [35, 10]]) := by decide
example : parseMeta [[35, 116, 10], [35, 107, 61, 118, 13, 10]] = .ok [([107], [118])] := by rfl

end Hpv.Props.C15
