/-
C15 — the similarity container is a symmetric map; the CSV round trip is lossless.
Model: Hpv/Sim.lean (`SimilarityContainer` as a history machine over the nested dict keyed by the ordered pair;
`MetadataAware.metadata_to_str/_from_str` over code-point strings, parametric in the table of forbidden characters that
the check extracts from the source on every run).  Values are integers standing for floats under an order-preserving
injection (the container only compares with 0 and stores).  The csv dialect (writer with minimal or any stronger quoting, the reader's state machine over physical lines, the
`DictReader` layer) is Hpv/Csv.lean, so the file-level round trip is a theorem from the rows to the rows (`csv_round_trip`,
`file_round_trip`); `gzip`, the codec and `repr(float)`/`float(str)` are not modelled (correspondence run).
-/
import Hpv.SimProofs
import Hpv.CsvProofs

namespace Hpv.Props.C15
open Hpv.Sim

/-- After any history, a read of `(x, y)` — in either order — returns the value most recently *accepted* for that
unordered pair, and 0 if there is none; rejected (negative) sets and reads have no effect on later reads. -/
theorem last_write (ops : List Op) (x y : Str) :
    get (run ops) x y = spec ops.reverse x y ∧ get (run ops) x y = get (run ops) y x :=
  ⟨get_run ops x y, get_comm (run ops) x y⟩

/-- `spec` really is "last accepted write on the unordered pair" -/
theorem spec_unfold (hist : List Op) (a b x y : Str) (v : Int) :
    spec (Op.set a b v :: hist) x y = (if v < 0 then spec hist x y else if norm a b = norm x y then v else spec hist x y) ∧
    spec (Op.get a b :: hist) x y = spec hist x y ∧ spec (Op.len :: hist) x y = spec hist x y ∧
    spec [] x y = 0 ∧ norm a b = norm b a :=
  ⟨rfl, rfl, rfl, rfl, norm_comm a b⟩

/-- A negative value is rejected without any effect; reads never change the state. -/
theorem rejected_no_effect (s : State) (a b : Str) (v : Int) (hv : v < 0) :
    Hpv.Sim.set s a b v = .error .valueError ∧ stepOp s (Op.set a b v) = s ∧ stepOp s (Op.get a b) = s ∧ stepOp s Op.len = s := by
  have h : Hpv.Sim.set s a b v = .error .valueError := by simp [Hpv.Sim.set, hv]
  exact ⟨h, by simp [stepOp, h], rfl, rfl⟩

/-- Length and item listing cover every stored unordered pair exactly once: the listing has no repeated key, every
listed triple is keyed by the ordered pair and carries the value a read returns, a pair is listed exactly when an
accepted `set` addressed it (in either order), and `len` is the number of listed items. -/
theorem items_len (ops : List Op) :
    ((items (run ops)).map (fun t => (t.1, t.2.1))).Nodup ∧
    (∀ o i v, (o, i, v) ∈ items (run ops) → sle o i = true ∧ get (run ops) o i = v ∧ 0 ≤ v) ∧
    (∀ o i, (∃ v, (o, i, v) ∈ items (run ops)) ↔ ∃ a b v, Op.set a b v ∈ ops ∧ 0 ≤ v ∧ norm a b = (o, i)) ∧
    len (run ops) = (items (run ops)).length := by
  have hwf := wf_run ops
  obtain ⟨h1, h2⟩ := items_spec (run ops) hwf
  refine ⟨h1, h2, ?_, len_eq_items _⟩
  intro o i
  rw [← stored_run ops o i]
  constructor
  · rintro ⟨v, hv⟩
    obtain ⟨inner, ha, hb⟩ := (mem_items_iff _ hwf o i v).mp hv
    exact ⟨inner, v, ha, hb⟩
  · rintro ⟨inner, v, ha, hb⟩
    exact ⟨v, (mem_items_iff _ hwf o i v).mpr ⟨inner, ha, hb⟩⟩

/-- Re-inserting the listed items (what `from_csv` does with the rows `to_csv` wrote) gives a container with the same
similarities for every pair in either order. -/
theorem rows_round_trip (ops : List Op) (x y : Str) : get (rebuild (run ops)) x y = get (run ops) x y :=
  rebuild_get (run ops) (wf_run ops) x y

/-- Metadata round trip, for every table of forbidden characters containing `;`, `=`, LF and CR: the encoded header
line contains no line break and decodes to the same dictionary. -/
theorem meta_round_trip (forb : List Nat) (htab : TableOk forb = true) (m : Meta) (hm : MetaOk forb m) :
    ∃ s, encodeMeta forb m = .ok s ∧ decodeMeta s = .ok m ∧ (10 : Nat) ∉ s ∧ (13 : Nat) ∉ s :=
  Hpv.Sim.meta_round_trip forb htab m hm

/-- Metadata containing a reserved character is rejected instead of being written corrupted. -/
theorem meta_rejected (forb : List Nat) (m : Meta) (kv : Str × Str) (hkv : kv ∈ m)
    (h : hasForbidden forb kv.1 = true ∨ hasForbidden forb kv.2 = true) : encodeMeta forb m = .error .valueError :=
  Hpv.Sim.meta_rejected forb m kv hkv h

/-- The written FILE, line by line (title comment, metadata comment, then whatever lines the csv writer produced, header row
first): the reader takes exactly the two leading comment lines for the header, recovers the metadata from them and hands
every other line, unchanged and in order, to the csv reader - also when a record begins with `#` (a term id such as `#X:1`)
or a quoted field continues on a line that begins with `#`. Only the first csv line (the header row, `term_a,...`) must not
begin with `#`. -/
theorem file_frame_round_trip (forb : List Nat) (htab : TableOk forb = true) (m : Meta) (hm : MetaOk forb m) (title : Str)
    (body : List Str) (hbody : body = [] ∨ ∃ h rest, body = h :: rest ∧ isComment h = false) :
    ∃ s, encodeMeta forb m = .ok s ∧ (unframe (frame title s body)).2 = body ∧
      parseMeta (unframe (frame title s body)).1 = .ok m :=
  Hpv.Sim.file_round_trip forb htab m hm title body hbody

/-- **The csv layer is lossless.** Whatever rows the writer is given - each with at least one field; fields with any
characters, delimiters, quotes, CR, LF and CR LF included; any fields quoted beyond necessity (`force`) - the reader,
fed the physical lines of that text, returns exactly those rows. -/
theorem csv_round_trip (force : Nat → Nat → Bool) (rs : List (List Hpv.Csv.Str)) (hrs : ∀ r ∈ rs, r ≠ []) :
    Hpv.Csv.readAll (Hpv.Csv.writeRows force 0 rs) = .ok rs :=
  Hpv.Csv.read_write force rs hrs

/-- **The csv layer of `from_csv` cannot fail.** Whatever a file holds, the reader's state machine - fed its physical lines the
way the library's handles cut them - ends with a list of records; its one error state is unreachable. (A caller's own text
stream cut at other places is C16's matter.) -/
theorem csv_reader_total (text : Hpv.Csv.Str) : ∃ rs, Hpv.Csv.readAll text = .ok rs :=
  Hpv.Csv.readAll_total text

/-- **The written file, end to end**: title comment, metadata comment, then the physical lines of what the csv writer
produced for a header row (whose first column name begins with a character other than `#`) and any data rows. The reader's
header filter, `_parse_meta`, the csv reader and the `DictReader` layer together return the metadata and, for every data
row in order, its values under the column names - nothing lost, nothing added, whatever the term ids contain. -/
theorem file_round_trip (forb : List Nat) (htab : TableOk forb = true) (m : Meta) (hm : MetaOk forb m) (title : Str)
    (force : Nat → Nat → Bool) (c : Nat) (w : Str) (hs : List Str) (rows : List (List Str))
    (hc : c ≠ Hpv.Sim.hash) (hrs : ∀ r ∈ rows, r ≠ []) :
    ∃ s, encodeMeta forb m = .ok s ∧
      parseMeta (unframe (frame title s (Hpv.Csv.splitLines (Hpv.Csv.writeRows force 0 (((c :: w) :: hs) :: rows))))).1 = .ok m ∧
      Hpv.Csv.readDict (unframe (frame title s
          (Hpv.Csv.splitLines (Hpv.Csv.writeRows force 0 (((c :: w) :: hs) :: rows))))).2.flatten =
        .ok ((c :: w) :: hs, rows.map (fun r => ((c :: w) :: hs).zip r)) := by
  -- the text begins with the first character of the header row or with a quote
  have hhead : ∃ c' t', Hpv.Csv.writeRows force 0 (((c :: w) :: hs) :: rows) = c' :: t' ∧ (c' = Hpv.Csv.quote ∨ c' = c) := by
    have hw : ∃ t', Hpv.Csv.writeField (force 0 0) (c :: w) = Hpv.Csv.quote :: t' ∨ Hpv.Csv.writeField (force 0 0) (c :: w) = c :: t' := by
      unfold Hpv.Csv.writeField
      split
      · exact ⟨_, Or.inl rfl⟩
      · exact ⟨_, Or.inr rfl⟩
    obtain ⟨t', ht'⟩ := hw
    cases hs with
    | nil =>
      rcases ht' with h | h
      · exact ⟨_, _, by simp [Hpv.Csv.writeRows, Hpv.Csv.writeRow, Hpv.Csv.writeFields, h]; rfl, Or.inl rfl⟩
      · exact ⟨_, _, by simp [Hpv.Csv.writeRows, Hpv.Csv.writeRow, Hpv.Csv.writeFields, h]; rfl, Or.inr rfl⟩
    | cons g gs =>
      rcases ht' with h | h
      · exact ⟨_, _, by simp [Hpv.Csv.writeRows, Hpv.Csv.writeRow, Hpv.Csv.writeFields, h]; rfl, Or.inl rfl⟩
      · exact ⟨_, _, by simp [Hpv.Csv.writeRows, Hpv.Csv.writeRow, Hpv.Csv.writeFields, h]; rfl, Or.inr rfl⟩
  obtain ⟨c', t', htext, hc'⟩ := hhead
  have hne : c' ≠ Hpv.Sim.hash := by
    rcases hc' with rfl | rfl
    · decide
    · exact hc
  obtain ⟨l, ls, hl, hlh⟩ := Hpv.Csv.splitLines_head c' t'
  have hcom : isComment l = false := by
    cases l with
    | nil => simp at hlh
    | cons x xs =>
      simp only [List.head?_cons, Option.some.injEq] at hlh
      subst hlh
      simp [isComment, hne]
  obtain ⟨s, h1, h2, h3⟩ := file_frame_round_trip forb htab m hm title
    (Hpv.Csv.splitLines (Hpv.Csv.writeRows force 0 (((c :: w) :: hs) :: rows)))
    (Or.inr ⟨l, ls, by rw [htext, hl], hcom⟩)
  refine ⟨s, h1, h3, ?_⟩
  rw [h2, Hpv.Csv.flatten_splitLines]
  exact Hpv.Csv.readDict_write force _ rows (by simp) hrs

/-! ### from the container to the file and back -/

/-- `term_a`, `term_b`, `ic_mica` -/
def colA : Str := [116, 101, 114, 109, 95, 97]
def colB : Str := [116, 101, 114, 109, 95, 98]
def colV : Str := [105, 99, 95, 109, 105, 99, 97]
def headerRow : List Str := [colA, colB, colV]

/-- the data rows a writer hands to the csv writer for a list of items: `[left, right, str(value)]` each -/
def rowsOf (repr : Int → Str) (L : List (Str × Str × Int)) : List (List Str) := L.map (fun t => [t.1, t.2.1, repr t.2.2])

/-- the rows of today's `to_csv`: the listed items in `items()` order -/
def dataRows (repr : Int → Str) (s : State) : List (List Str) := rowsOf repr (items s)

/-- what `from_csv` does with one `DictReader` record: `(record['term_a'], record['term_b'], float(record['ic_mica']))` -/
def recordOp (parse : Str → Option Int) (rec : List (Str × Str)) : Option Op :=
  match lookup colA rec, lookup colB rec, (lookup colV rec).bind parse with
  | some a, some b, some v => some (Op.set a b v)
  | _, _, _ => none

/-- `from_csv` after the csv layer: every record becomes a `set_similarity` on a fresh container -/
def fromRecords (parse : Str → Option Int) (recs : List (List (Str × Str))) : Option State :=
  (recs.mapM (recordOp parse)).map run

/-- **`to_csv` then `from_csv`, from container to container.** For every history of the container, every metadata the
writer accepts, every way of writing a value that the reader's `float(...)` undoes (`parse (repr v) = some v`; for Python:
`float(repr(x)) == x`), every title line, any quoting beyond necessity and ANY ORDER in which the writer lists the items
(`L` is a rearrangement of `items()`): the file - title comment, metadata comment, the physical lines of the csv text for
the header row and one row per item - is read back (header filter, `_parse_meta`, csv state machine, `DictReader`, one
`set_similarity` per record) into a container that answers every read, in either key order, like the one that was
written, with the same metadata. Term ids may contain anything. -/
theorem container_file_round_trip (forb : List Nat) (htab : TableOk forb = true) (m : Meta) (hm : MetaOk forb m) (title : Str)
    (force : Nat → Nat → Bool) (repr : Int → Str) (parse : Str → Option Int) (hpr : ∀ v, parse (repr v) = some v)
    (ops : List Op) (L : List (Str × Str × Int)) (hperm : L.Perm (items (run ops))) :
    ∃ s recs st', encodeMeta forb m = .ok s ∧
      parseMeta (unframe (frame title s (Hpv.Csv.splitLines
        (Hpv.Csv.writeRows force 0 (headerRow :: rowsOf repr L))))).1 = .ok m ∧
      Hpv.Csv.readDict (unframe (frame title s (Hpv.Csv.splitLines
        (Hpv.Csv.writeRows force 0 (headerRow :: rowsOf repr L))))).2.flatten = .ok (headerRow, recs) ∧
      fromRecords parse recs = some st' ∧ ∀ x y, get st' x y = get (run ops) x y ∧ get st' x y = get st' y x := by
  have hrs : ∀ r ∈ rowsOf repr L, r ≠ [] := by
    intro r hr
    obtain ⟨t, _, rfl⟩ := List.mem_map.mp hr
    simp
  obtain ⟨s, h1, h2, h3⟩ := file_round_trip forb htab m hm title force 116 [101, 114, 109, 95, 97] [colB, colV]
    (rowsOf repr L) (by decide) hrs
  have hhead : ((116 : Nat) :: [101, 114, 109, 95, 97]) :: [colB, colV] = headerRow := rfl
  rw [hhead] at h2 h3
  have hrec : ∀ (L : List (Str × Str × Int)),
      ((L.map (fun t => [t.1, t.2.1, repr t.2.2])).map (fun r => headerRow.zip r)).mapM (recordOp parse) = some (L.map itemOp) := by
    intro L
    induction L with
    | nil => rfl
    | cons t L ih =>
      have h0 : recordOp parse (headerRow.zip [t.1, t.2.1, repr t.2.2]) = some (itemOp t) := by
        have ha : lookup colA (headerRow.zip [t.1, t.2.1, repr t.2.2]) = some t.1 := by simp [headerRow, lookup]
        have hb : lookup colB (headerRow.zip [t.1, t.2.1, repr t.2.2]) = some t.2.1 := by
          simp [headerRow, lookup, colA, colB]
        have hv : lookup colV (headerRow.zip [t.1, t.2.1, repr t.2.2]) = some (repr t.2.2) := by
          simp [headerRow, lookup, colA, colB, colV]
        simp [recordOp, ha, hb, hv, hpr, itemOp]
      simp only [List.map_cons, List.mapM_cons, h0, ih]
      rfl
  refine ⟨s, _, run (L.map itemOp), h1, h2, h3, ?_, ?_⟩
  · unfold fromRecords rowsOf
    rw [hrec L]
    rfl
  · intro x y
    exact ⟨rebuild_any_order (run ops) (wf_run ops) L hperm x y, get_comm _ x y⟩

/-- `to_csv` stamps the metadata with `created` first, so what it encodes is never empty. -/
theorem stamped_nonempty (m : Meta) (ts : Str) : upsert createdKey ts m ≠ [] := by
  intro h
  have := upsert_ne_nil createdKey ts m
  simp [h] at this

-- non-vacuity
example : get (run [.set [2] [1] 5, .set [1] [2] (-1), .get [9] [9], .set [1] [1] 0]) [1] [2] = 5 := by decide
example : len (run [.set [2] [1] 5, .set [1] [2] 7, .set [1] [1] 0]) = 2 := by decide
example : TableOk [59, 61, 10, 13] = true := by decide
example : MetaOk [59, 61, 10, 13] [([97], [120, 32, 121]), ([98], [])] :=
  ⟨by decide, by decide, by decide⟩
example : decodeMeta [97, 61, 120, 59, 98, 61] = .ok [([97], [120]), ([98], [])] := by rfl

-- a record line and a continuation line that begin with `#` are data once the header row has been seen
example : unframe (frame [116] [107, 61, 118] [[116, 10], [35, 88, 58, 49, 44, 72, 10], [35, 10]]) =
    ([[35, 116, 10], [35, 107, 61, 118, 10]], [[116, 10], [35, 88, 58, 49, 44, 72, 10], [35, 10]]) := by decide
example : parseMeta [[35, 116, 10], [35, 107, 61, 118, 13, 10]] = .ok [([107], [118])] := by rfl

-- a value format and its inverse (decimal digits of a natural number; negative values never reach the file)
example : recordOp (fun s => if s = [53] then some 5 else none) (headerRow.zip [[65], [66], [53]]) = some (Op.set [65] [66] 5) := by
  rfl
-- the csv layer on a row with a delimiter, a quote, a CR LF and a lone LF inside fields, and a row of one empty field
example : Hpv.Csv.writeMinimal [[[97, 44, 98], [34], [13, 10, 35], [10]], [[]]] =
    [34, 97, 44, 98, 34, 44, 34, 34, 34, 34, 44, 34, 13, 10, 35, 34, 44, 34, 10, 34, 13, 10, 34, 34, 13, 10] := by decide
example : Hpv.Csv.readAll (Hpv.Csv.writeMinimal [[[97, 44, 98], [34], [13, 10, 35], [10]], [[]]]) =
    .ok [[[97, 44, 98], [34], [13, 10, 35], [10]], [[]]] := by rfl
-- hostile texts: a lone CR ends a record, a blank line is the record `[]`, an unterminated quoted field is flushed
example : Hpv.Csv.readAll [97, 13, 98, 10, 10, 34, 99] = .ok [[[97]], [[98]], [], [[99]]] := by rfl

end Hpv.Props.C15
