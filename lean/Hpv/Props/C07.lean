/-
C07 — the ontology store cache stays correct under repeats, failures, crashes and races.
Model: Hpv/Store.lean — a small-step transition system over worlds (file system below the store dir, remote, per-thread
loader program counters, event log).  An `Action` list is an arbitrary history: any number of loaders (threads or
processes), every interleaving at I/O-boundary granularity, every fault choice at every boundary (`fail`, `failAfter n`
bytes), a kill (`die`) at every point, `clear(type)` / `clear()` at any time.  PARTIAL: POSIX semantics are assumed
(`os.replace` atomic, `mkstemp` names unique, a killed process leaves the prefixes it wrote); interleavings finer than
I/O boundaries and real SIGKILL timing inside one `write(2)` are not exhibited by the model.  Relative vs absolute store
directories are a matter of path arithmetic, exercised by the correspondence run only.
-/
import Hpv.StoreProofs
import Hpv.TagsProofs
import Hpv.StoreTraceProofs

namespace Hpv.Props.C07
open Hpv.Store

/-- **No incomplete file is ever left or observed at a cache location**: from an empty store (or any store satisfying
the invariant), after ANY history, every file at a cache location holds exactly the bytes the remote serves for it. -/
theorem no_incomplete_file (remote : Key → Option Bytes) (tags : Ty → List Nat) (as : List Action) (k : Key) (c : Bytes)
    (h : (run (World.init remote tags) as).files (.cache k) = some c) :
    (run (World.init remote tags) as).remote k = some c ∧ (run (World.init remote tags) as).remote = remote := by
  refine ⟨(inv_run _ as (inv_init remote tags)).cache k c h, ?_⟩
  -- no action ever changes the remote
  have hrem : ∀ (w : World) (a : Action), (step w a).remote = w.remote := by
    intro w a
    cases a with
    | loader t ch =>
      simp only [step, stepLoader]
      split
      · split <;> rfl
      · split <;> (try split) <;> (try split) <;> (try split) <;> rfl
    | spawn t ty rel => simp only [step]; split <;> rfl
    | clearTy ty => rfl
    | clearAll => rfl
    | stray ty name b => rfl
  have : ∀ (as : List Action) (w : World), (run w as).remote = w.remote := by
    intro as
    induction as with
    | nil => intro w; rfl
    | cons a rest ih => intro w; simp only [run, List.foldl_cons]; exact (ih (step w a)).trans (hrem w a)
  exact this as _

/-- the same for an arbitrary starting store that satisfies the invariant -/
theorem invariant_preserved (w : World) (as : List Action) (h : Inv w) : Inv (run w as) := inv_run w as h

/-- **What is loaded equals the bytes the remote served**: a loader that reaches `loaded k c` read `remote k = c`. -/
theorem loaded_is_remote (remote : Key → Option Bytes) (tags : Ty → List Nat) (as : List Action) (t : Nat) (k : Key) (c : Bytes)
    (h : (run (World.init remote tags) as).pcs t = .loaded k c) :
    (run (World.init remote tags) as).remote k = some c := by
  have := (inv_run _ as (inv_init remote tags)).loc t
  rw [h] at this
  exact this

/-- **A release is fetched only when the loader found no local copy**: in every history, every `fetch` event of a
thread is preceded by that thread's own `isfile = False` for the same key. -/
theorem fetch_only_if_missing (remote : Key → Option Bytes) (tags : Ty → List Nat) (as : List Action)
    (i t : Nat) (k : Key) (h : (run (World.init remote tags) as).log[i]? = some (Ev.fetch t k)) :
    ∃ j : Nat, j < i ∧ (run (World.init remote tags) as).log[j]? = some (Ev.isfile t k false) :=
  (logInv_run _ as (logInv_init remote tags)).fetches i t k h

/-- **Omitting the release selects the greatest available tag**; no tag at all is an error. -/
theorem latest_release (l : List Nat) :
    (maxTag l = none ↔ l = []) ∧ ∀ m, maxTag l = some m → m ∈ l ∧ ∀ y ∈ l, y ≤ m := maxTag_spec l

/-- **... where "available" means the production tags the GitHub tag API lists** (`_github.py`: `production_tag_pt`
and `max` over the filtered names in Python's string order): the latest release is a listed production tag that no
listed production tag exceeds; there is none exactly when no listed name is a production tag; and a name is a
production tag exactly when it is `v` + 4 digits + `-` + 2 digits + `-` + 2 digits (every month and day number). -/
theorem latest_production_tag (names : List Hpv.Tags.Str) :
    (match Hpv.Tags.latest names with
     | none => ∀ t ∈ names, Hpv.Tags.prodTag t = false
     | some r => r ∈ names ∧ Hpv.Tags.prodTag r = true ∧
         ∀ t ∈ names, Hpv.Tags.prodTag t = true → Hpv.Tags.lexLt r t = false) ∧
    ∀ s, Hpv.Tags.prodTag s = true ↔
      ∃ y1 y2 y3 y4 m1 m2 a1 a2, s = [118, y1, y2, y3, y4, 45, m1, m2, 45, a1, a2] ∧
        Hpv.Tags.isDigit y1 = true ∧ Hpv.Tags.isDigit y2 = true ∧ Hpv.Tags.isDigit y3 = true ∧ Hpv.Tags.isDigit y4 = true ∧
        Hpv.Tags.isDigit m1 = true ∧ Hpv.Tags.isDigit m2 = true ∧ Hpv.Tags.isDigit a1 = true ∧ Hpv.Tags.isDigit a2 = true :=
  ⟨Hpv.Tags.latest_spec names, Hpv.Tags.prodTag_iff⟩

-- non-vacuity: "v2021-10-10" beats "v2021-09-30" and "v2021-10-10X" / "2021-11-01" are not production tags
example : Hpv.Tags.latest [[118,50,48,50,49,45,48,57,45,51,48], [118,50,48,50,49,45,49,48,45,49,48],
    [118,50,48,50,49,45,49,48,45,49,48,88], [50,48,50,49,45,49,49,45,48,49]] =
    some [118,50,48,50,49,45,49,48,45,49,48] := by decide

/-- **Recovery**: whatever failures, kills, races and clears happened before, a later undisturbed load from a healthy
remote succeeds and returns the remote's content. -/
theorem later_load_succeeds (remote : Key → Option Bytes) (tags : Ty → List Nat) (as : List Action)
    (t : Nat) (ty : Ty) (r : Nat) (b : Bytes)
    (hidle : (run (World.init remote tags) as).pcs t = .idle ∨ (run (World.init remote tags) as).pcs t = .failed ∨
      ∃ k c, (run (World.init remote tags) as).pcs t = .loaded k c)
    (hrem : (run (World.init remote tags) as).remote ⟨ty, r⟩ = some b) :
    (run (run (World.init remote tags) as) (healthyLoad t ty (some r))).pcs t = .loaded ⟨ty, r⟩ b :=
  recovery _ (inv_run _ as (inv_init remote tags)) t ty r b hidle hrem

/-- **Clearing**: one type removes exactly that type's files, is a no-op when nothing was cached, everything empties. -/
theorem clearing (w : World) (ty : Ty) (p : Path) :
    (step w (.clearTy ty)).files p = (if p.under ty then none else w.files p) ∧
    (step w .clearAll).files p = none ∧
    ((∀ q, q.under ty = true → w.files q = none) → (step w (.clearTy ty)).files = w.files) :=
  clear_spec w ty p

-- non-vacuity: a concrete race with a failed write, a kill and a clear; afterwards a healthy load succeeds
def exRemote : Key → Option Bytes := fun k => if k = ⟨.hpo, 3⟩ then some [1, 2, 3, 4] else none
def exHistory : List Action :=
  [.spawn 0 .hpo none, .spawn 1 .hpo (some 3), .loader 0 .ok, .loader 1 .ok, .loader 0 .ok, .loader 1 .ok, .loader 0 .ok,
   .loader 0 .ok, .loader 0 .ok, .loader 0 .ok, .loader 0 (.failAfter 2), .loader 1 .ok, .loader 1 .ok, .loader 1 .ok,
   .loader 1 .die, .clearTy .maxo, .loader 0 .ok]

example : (run (World.init exRemote (fun _ => [1, 3, 2])) exHistory).pcs 0 = .failed ∧
    (run (World.init exRemote (fun _ => [1, 3, 2])) exHistory).pcs 1 = .dead ∧
    (run (World.init exRemote (fun _ => [1, 3, 2])) exHistory).files (.cache ⟨.hpo, 3⟩) = none ∧
    (run (World.init exRemote (fun _ => [1, 3, 2])) exHistory).files (.tmp .hpo 1) = some [] ∧
    (run (run (World.init exRemote (fun _ => [1, 3, 2])) exHistory) (healthyLoad 2 .hpo (some 3))).pcs 2 = .loaded ⟨.hpo, 3⟩ [1, 2, 3, 4] := by
  decide

/-! ### The same clause for ANY loader program (Hpv/StoreTrace.lean)

No assumption on the order or number of the loader's steps: a run of any number of loaders and clearers is a list of
file-system primitives, and the hypothesis is the discipline the check evaluates on the OBSERVED trace of the working tree
(`Disciplined`: no cache location is created or written in place; a rename onto a cache location moves a file that holds
exactly the remote's bytes for that key). -/

/-- After any prefix of a disciplined trace - a kill at any point - and a torn last write, every file at a cache location is
a complete copy of what the remote serves. -/
theorem any_program_no_incomplete_file (remote : Nat → Option Hpv.StoreTrace.Bytes) (ops : List Hpv.StoreTrace.Op)
    (hd : Hpv.StoreTrace.Disciplined remote Hpv.StoreTrace.emptyFS ops = true) (n : Nat) (p : Nat) (torn : Hpv.StoreTrace.Bytes) :
    Hpv.StoreTrace.Inv remote (Hpv.StoreTrace.run Hpv.StoreTrace.emptyFS (ops.take n)) ∧
    Hpv.StoreTrace.Inv remote (Hpv.StoreTrace.step (Hpv.StoreTrace.run Hpv.StoreTrace.emptyFS (ops.take n)) (.append (.other p) torn)) :=
  Hpv.StoreTrace.inv_crash remote _ ops (Hpv.StoreTrace.inv_empty remote) hd n p torn

/-- The discipline is decided by the scan the driver runs (`firstBad`). -/
theorem discipline_decided (remote : Nat → Option Hpv.StoreTrace.Bytes) (ops : List Hpv.StoreTrace.Op) :
    Hpv.StoreTrace.firstBad remote Hpv.StoreTrace.emptyFS ops 0 = none ↔
      Hpv.StoreTrace.Disciplined remote Hpv.StoreTrace.emptyFS ops = true :=
  Hpv.StoreTrace.firstBad_none remote _ ops 0

-- a loader that reads before it creates its temp file, writes in two pieces and renames: disciplined; writing the cache
-- location in place, or renaming a half-written file onto it: not
example : Hpv.StoreTrace.Disciplined (fun k => if k = 0 then some [1, 2, 3] else none) Hpv.StoreTrace.emptyFS
    [.noop, .noop, .create (.other 7), .append (.other 7) [1, 2], .append (.other 7) [3], .rename (.other 7) (.cache 0), .noop] = true := by decide
example : Hpv.StoreTrace.firstBad (fun k => if k = 0 then some [1, 2, 3] else none) Hpv.StoreTrace.emptyFS
    [.create (.other 7), .append (.other 7) [1, 2], .rename (.other 7) (.cache 0)] 0 = some 2 := by decide
example : Hpv.StoreTrace.firstBad (fun k => if k = 0 then some [1, 2, 3] else none) Hpv.StoreTrace.emptyFS
    [.noop, .create (.cache 0)] 0 = some 1 := by decide

end Hpv.Props.C07
