/-
C14 — unknown nodes and bad indices are rejected, never silently answered.
Model: Hpv/GraphModel.lean (node API of both graph classes, index API of the indexed graph).  An argument that
`_map_to_term_id` rejects (wrong type, `None`, a string without ':' and '_' — see C04.parse_iff) is `none`.
-/
import Hpv.GraphModelProofs
import Hpv.Props.C01

namespace Hpv.Props.C14
open Hpv.Graph Hpv.Csr Hpv.Indexed Hpv.GM

variable {κ : Type} [DecidableEq κ]

/-- **Indexed graph, unknown node** (anywhere in the sort order): traversals and the leaf test raise ValueError,
predicates raise for an unknown object and answer False for an unknown subject, membership is False, no index. -/
theorem indexed_unknown_node (o : Graph.Ord κ) (hs : o.Strict) (g : IGraph κ) (hsorted : Sorted o g.nodes)
    (v known : κ) (hv : v ∉ g.nodes) (hk : known ∈ g.nodes) (q : Q) (incl : Bool) (p : Pred) :
    g.query o q (some v) incl = .error .valueError ∧
    g.isLeaf o (some v) = .error .valueError ∧
    g.pred o p (some known) (some v) = .error .valueError ∧
    g.pred o p (some v) (some known) = .ok false ∧
    g.contains o v = false ∧
    g.nodeToIdx o v = none := by
  have hnone : indexOf? o g.nodes v = none := (indexOf?_none o hs _ hsorted v).mpr hv
  obtain ⟨i, hi⟩ := List.getElem?_of_mem hk
  have hsome : indexOf? o g.nodes known = some i := (indexOf?_spec o hs _ hsorted known i).mpr hi
  refine ⟨?_, ?_, ?_, ?_, ?_, hnone⟩
  · simp [IGraph.query, IGraph.nodeToIdx, hnone]
  · simp [IGraph.isLeaf, IGraph.nodeToIdx, hnone]
  · simp [IGraph.pred, IGraph.nodeToIdx, hnone]
  · simp [IGraph.pred, IGraph.nodeToIdx, hnone, hsome]
  · simp [IGraph.contains, IGraph.nodeToIdx, hnone]

/-- **Matrix graphs, unknown node.** -/
theorem matrix_unknown_node (o : Graph.Ord κ) (hs : o.Strict) (g : MGraph κ) (hsorted : Sorted o g.nodes)
    (v known : κ) (hv : v ∉ g.nodes) (q : Q) (incl : Bool) (p : Pred) :
    g.query o q (some v) incl = .error .valueError ∧
    g.isLeaf o (some v) = .error .valueError ∧
    g.pred o p (some known) (some v) = .error .valueError ∧
    g.contains o v = false := by
  have hnone : indexOf? o g.nodes v = none := (indexOf?_none o hs _ hsorted v).mpr hv
  have hq : ∀ q incl, g.query o q (some v) incl = .error .valueError := by
    intro q incl; simp [MGraph.query, hnone]
  refine ⟨hq q incl, ?_, ?_, ?_⟩
  · simp [MGraph.isLeaf, hq, Except.map]
  · simp [MGraph.pred, hq, Except.map]
  · simp [MGraph.contains, hnone]

/-- an unknown *subject* is simply not found among the (well-defined) answers for a known object -/
theorem matrix_unknown_subject (o : Graph.Ord κ) (g : MGraph κ) (v known : κ) (p : Pred) (res : List κ)
    (hres : g.query o (predQ p) (some known) false = .ok res) (hv : v ∉ res) :
    g.pred o p (some v) (some known) = .ok false := by
  simp only [MGraph.pred, hres, Except.map]
  congr 1
  rw [List.any_eq_false]
  intro x hx
  simp only [decide_eq_true_eq]
  intro h; exact hv (h ▸ hx)

/-- the node arrays of all three factories are sorted, so the two theorems above apply to every shipped graph -/
theorem factories_sorted (o : Graph.Ord κ) (hs : o.Strict) (owl : κ) (E : List (Edge κ)) :
    (∀ g, buildIncremental o owl E = .ok g → Sorted o g.nodes) ∧
    (∀ g, buildBuilder o owl E = .ok g → Sorted o g.nodes) ∧
    (∀ g, buildIndexed o owl E = .ok g → Sorted o g.nodes) := by
  refine ⟨?_, ?_, ?_⟩
  · intro g hg
    unfold buildIncremental at hg
    split at hg
    · cases hg
    · dsimp only at hg
      split at hg
      · cases hg
      · injection hg with hg; subst hg; exact sorted_sortDedup o hs _
  · intro g hg
    unfold buildBuilder at hg
    split at hg
    · cases hg
    · dsimp only at hg
      split at hg
      · cases hg
      · injection hg with hg; subst hg; exact sorted_sortDedup o hs _
  · intro g hg
    unfold buildIndexed at hg
    split at hg
    · cases hg
    · split at hg
      · cases hg
      · rename_i ig hig
        split at hg
        · cases hg
        · injection hg with hg; subst hg
          -- `Indexed.build` stores `nodesOf`
          unfold Indexed.build at hig
          dsimp only at hig
          split at hig
          · injection hig with hig; subst hig; exact sorted_sortDedup o hs _
          · cases hig

/-- **Bad arguments** (neither CURIE string, TermId nor identified object; non-CURIE strings) raise ValueError in every
query method of both graph classes and of the module-level helpers. -/
theorem bad_argument (o : Graph.Ord κ) (ig : IGraph κ) (mg : MGraph κ) (gg : G κ) (q : Q) (incl : Bool) (p : Pred)
    (other : Option κ) :
    ig.query o q none incl = .error .valueError ∧ ig.isLeaf o none = .error .valueError ∧
    ig.pred o p other none = .error .valueError ∧
    mg.query o q none incl = .error .valueError ∧ mg.isLeaf o none = .error .valueError ∧
    mg.pred o p other none = .error .valueError ∧ mg.pred o p none other = .error .valueError ∧
    helper o gg q none incl = .error .valueError ∧ existsPath o gg none other = .error .valueError := by
  refine ⟨rfl, rfl, rfl, rfl, rfl, ?_, ?_, rfl, rfl⟩
  · cases other <;> rfl
  · cases other <;> rfl

/-- a bad *subject* of an indexed-graph predicate raises as well, once the object is a node -/
theorem indexed_bad_subject (o : Graph.Ord κ) (hs : o.Strict) (g : IGraph κ) (hsorted : Sorted o g.nodes) (known : κ)
    (hk : known ∈ g.nodes) (p : Pred) : g.pred o p none (some known) = .error .valueError := by
  obtain ⟨i, hi⟩ := List.getElem?_of_mem hk
  have hsome : indexOf? o g.nodes known = some i := (indexOf?_spec o hs _ hsorted known i).mpr hi
  simp [IGraph.pred, IGraph.nodeToIdx, hsome]

/-- **Bad indices**: every index outside `0..n-1`, negative ones included, raises ValueError in the four `*_idx`
traversals, in `idx_to_node`, and in the `is_*_of_idx` predicates for the index they dereference (the object for
parent/ancestor, the subject for child/descendant). -/
theorem bad_index (g : IGraph κ) (hc : g.children.indptr.length = g.nodes.length + 1)
    (hp : g.parents.indptr.length = g.nodes.length + 1) (i j : Int) (hi : i < 0 ∨ (g.nodes.length : Int) ≤ i) (q : Q) :
    g.queryIdx q i = .error .valueError ∧ g.idxToNode i = .error .valueError ∧
    g.predIdx .parentOf j i = .error .valueError ∧ g.predIdx .ancestorOf j i = .error .valueError ∧
    g.predIdx .childOf i j = .error .valueError ∧ g.predIdx .descendantOf i j = .error .valueError := by
  have h1 := outgoing_bad g.children g.nodes.length i hc hi
  have h2 := outgoing_bad g.parents g.nodes.length i hp hi
  have hq : ∀ q, g.queryIdx q i = .error .valueError := by
    intro q
    cases q <;> simp [IGraph.queryIdx, IGraph.childrenIdx, IGraph.parentsIdx, IGraph.ancestorIdx, IGraph.descendantIdx,
      traverseIdx, h1, h2]
  refine ⟨hq q, ?_, ?_, ?_, ?_, ?_⟩
  · unfold IGraph.idxToNode; simp [hi]
  · simp [IGraph.predIdx, IGraph.parentsIdx, h2, Except.map]
  · have := hq .ancestors; simp only [IGraph.queryIdx] at this; simp [IGraph.predIdx, this, Except.map]
  · simp [IGraph.predIdx, IGraph.parentsIdx, h2, Except.map]
  · have := hq .ancestors; simp only [IGraph.queryIdx] at this; simp [IGraph.predIdx, this, Except.map]

/-- the built indexed graph satisfies the size hypotheses of `bad_index` -/
theorem bad_index_applies {o : Graph.Ord κ} {owl : κ} {E : List (Edge κ)} {root : κ} {E' : List (Edge κ)} {g : IGraph κ}
    (h : BuiltIx o owl E root E' g) :
    g.children.indptr.length = g.nodes.length + 1 ∧ g.parents.indptr.length = g.nodes.length + 1 ∧ Sorted o g.nodes := by
  obtain ⟨_, _, _, _, _, _, _, h1, h2, h3⟩ := h.facts
  exact ⟨h1, h2, h3⟩

-- non-vacuity: a concrete graph, an absent id between two nodes, an index one past the end
open Hpv.Props.C01.Example in
example : diamondGraph.query natOrd .ancestors (some 5) false = .error .valueError ∧
    diamondGraph.queryIdx .children 4 = .error .valueError ∧ diamondGraph.idxToNode (-1) = .error .valueError ∧
    diamondGraph.nodes = [1, 2, 3, 9] := by
  refine ⟨by rfl, by rfl, by rfl, by rfl⟩

end Hpv.Props.C14
