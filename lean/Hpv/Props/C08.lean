/-
C08 — HPOA loading aggregates lines into per-disease, per-phenotype frequencies.
Model: Hpv/Hpoa.lean, layer `aggregate` (grouping by database id then phenotype id, `_parse_frequency` on exact rationals
with half-to-even rounding, `Ratio.fold`, `check_numerator_and_denominator`).  The table of HPO frequency terms is read
from the running code on every run (exact rationals of the floats `lower_bound`, `upper_bound` and of the VALUE of
`.frequency`) and passed in; `TableOk`-style side conditions (`lower ≤ freq ≤ upper`) are evaluated by the compiled model.
Tab splitting / header handling / regexes are executable glue in the driver, tied by the correspondence run.
Floats: the code computes `round(freq * cohort)` in doubles; the tie accepts both neighbours when the exact product is
within 2^-30 of a half.
-/
import Hpv.HpoaProofs

namespace Hpv.Props.C08
open Hpv.Hpoa

/-- Exactly one disease per distinct database id; per disease exactly one annotation per distinct aspect-P phenotype id,
each produced from the lines of that group; the name comes from the first line; aspect-I ids are the modes of inheritance
(duplicate-free). -/
theorem one_per_key (cfg : Config) (freqOf : String → Freq) (lines : List Line) (ds : List Disease)
    (h : aggregate cfg freqOf lines = .ok ds) :
    ds.map (·.id) = keys (·.disease) lines ∧ (ds.map (·.id)).Nodup ∧
    ∀ d ∈ ds,
      let ls := group (·.disease) lines d.id
      let pl := ls.filter (fun l => l.aspect = some .P)
      d.anns.map (·.id) = keys (·.pheno) pl ∧ (d.anns.map (·.id)).Nodup ∧
      (∀ a ∈ d.anns, mkAnn cfg freqOf pl a.id = .ok a) ∧
      d.name = (ls.head?.map (·.name)).getD "" ∧
      d.moi.Nodup ∧ ∀ x, x ∈ d.moi ↔ ∃ l ∈ ls, l.aspect = some .I ∧ l.pheno = x :=
  aggregate_spec cfg freqOf lines ds h

/-- Numerator and denominator are the sums of the per-line counts; references and modifiers are united; the stored
annotation always satisfies `0 ≤ numerator` and `0 < denominator` (anything else is rejected). -/
theorem sums (cfg : Config) (freqOf : String → Freq) (lines : List Line) (pheno : String) (a : Ann)
    (h : mkAnn cfg freqOf lines pheno = .ok a) :
    ∃ rs, AllOk (fun l => lineRatio cfg l.neg (freqOf l.freq)) (group (·.pheno) lines pheno) rs ∧
      a.id = pheno ∧ a.num = (rs.map (·.1)).sum ∧ a.den = (rs.map (·.2)).sum ∧ 0 ≤ a.num ∧ 0 < a.den ∧
      (∀ x, x ∈ a.refs ↔ ∃ l ∈ group (·.pheno) lines pheno, x ∈ l.refs) ∧ a.refs.Nodup ∧
      (∀ x, x ∈ a.mods ↔ ∃ l ∈ group (·.pheno) lines pheno, x ∈ l.mods) ∧ a.mods.Nodup :=
  mkAnn_spec cfg freqOf lines pheno a h

/-- For well-formed lines (`n ≤ m`, `0 < m` unless the negated `0/0` form, percentage ≤ 100, frequency terms of the table
with `freq ≤ 1`, positive cohort size) every annotation satisfies `0 ≤ numerator ≤ denominator` and `0 < denominator`;
it is present exactly when its numerator is positive (`is_present := numerator ≠ 0`). -/
theorem invariant (cfg : Config) (hc : 0 < cfg.cohort) (freqOf : String → Freq) (lines : List Line) (pheno : String)
    (hne : group (·.pheno) lines pheno ≠ [])
    (hwf : ∀ l ∈ group (·.pheno) lines pheno, WfFreq cfg l.neg (freqOf l.freq)) :
    ∃ a, mkAnn cfg freqOf lines pheno = .ok a ∧ 0 ≤ a.num ∧ a.num ≤ a.den ∧ 0 < a.den ∧ (a.num ≠ 0 ↔ 0 < a.num) := by
  obtain ⟨a, h1, h2, h3, h4⟩ := ann_invariant cfg hc freqOf lines pheno hne hwf
  exact ⟨a, h1, h2, h3, h4, by omega⟩

/-- A frequency written as an HPO frequency term lands inside that term's range up to rounding to the cohort size
(`lower·c − ½ ≤ numerator ≤ upper·c + ½`, over the common denominator), for EVERY table row with `lower ≤ freq ≤ upper`
and every cohort size; a percentage `p` lands within half a cohort unit of `p·c/100`. -/
theorem frequency_rounding (r : FreqRow) (c pn pd : Nat) (hD : 0 < r.denom) (hlo : r.lower ≤ r.freq) (hhi : r.freq ≤ r.upper)
    (hpd : 0 < pd) :
    (2 * (r.lower * c) ≤ 2 * (roundHalfEven (r.freq * c) r.denom * r.denom) + r.denom ∧
     2 * (roundHalfEven (r.freq * c) r.denom * r.denom) ≤ 2 * (r.upper * c) + r.denom) ∧
    (2 * (roundHalfEven (pn * c) (pd * 100) * (pd * 100)) ≤ 2 * (pn * c) + pd * 100 ∧
     2 * (pn * c) ≤ 2 * (roundHalfEven (pn * c) (pd * 100) * (pd * 100)) + pd * 100) :=
  ⟨term_in_range r c hD hlo hhi, percent_close pn pd c hpd⟩

/-- The result does not depend on the order of the data lines: the sets of disease ids and of phenotype ids are
unchanged, and every annotation keeps its sums and its sets of references and modifiers. -/
theorem line_order (cfg : Config) (freqOf : String → Freq) (lines lines' : List Line) (hp : lines.Perm lines') :
    (keys (·.disease) lines).Perm (keys (·.disease) lines') ∧
    (∀ k, (group (·.disease) lines k).Perm (group (·.disease) lines' k)) ∧
    ∀ pheno a, mkAnn cfg freqOf lines pheno = .ok a →
      ∃ a', mkAnn cfg freqOf lines' pheno = .ok a' ∧ a'.id = a.id ∧ a'.num = a.num ∧ a'.den = a.den ∧
        a'.refs.Perm a.refs ∧ a'.mods.Perm a.mods :=
  ⟨keys_perm _ _ _ hp, fun k => group_perm _ _ _ hp k, fun pheno a h => mkAnn_perm cfg freqOf lines lines' hp pheno a h⟩

-- non-vacuity (rationals over denominator 100): Occasional 5%..29% with freq 17%, cohort 50 -> exact 8.5 -> 8
example : roundHalfEven (17 * 50) 100 = 8 ∧ roundHalfEven (100 * 50) 100 = 50 ∧ roundHalfEven (125 * 1000) (10 * 100) = 125 := by decide
-- (string comparison does not reduce in the kernel: compiled-code tests)
#guard (match lineRatio ⟨50, false, [⟨"HP:0040283", 5, 17, 29, 100⟩]⟩ false (.term "HP:0040283") with | .ok r => r == (8, 50) | .error _ => false)
example : lineRatio ⟨50, true, []⟩ true (.ratio 0 0) = .ok (0, 50) ∧ lineRatio ⟨50, false, []⟩ true (.ratio 0 0) = .ok (50, 50) ∧
    lineRatio ⟨50, false, []⟩ true (.ratio 3 8) = .ok (5, 8) := ⟨rfl, rfl, rfl⟩

end Hpv.Props.C08
