/-
C17 — Sparse CSR matrix and its builder behave exactly like the dense matrix.
Model: Hpv/Csr.lean (CsrMatrixBuilder.__setitem__ on the flat arrays), Hpv/Matrix.lean (ImmutableCsrMatrix reads,
bound checks).  Helper lemmas: Hpv/CsrProofs.lean, Hpv/MatrixProofs.lean.
-/
import Hpv.MatrixProofs
import Hpv.MatrixUnsortedProofs

namespace Hpv.Props.C17
open Hpv.Csr

/-- The dense specification is "last write wins, unset cells are the dtype's zero". -/
theorem spec_last_write (nrows ncols : Nat) (ops : List (Int × Int × Int)) (r c : Nat) (v : Int)
    (hr : r < nrows) (hc : c < ncols) :
    specOps nrows ncols [] = (fun _ _ => 0) ∧
    ∀ r' c', specOps nrows ncols (ops ++ [((r : Int), (c : Int), v)]) r' c' =
      if r' = r ∧ c' = c then v else specOps nrows ncols ops r' c' := by
  refine ⟨rfl, ?_⟩
  intro r' c'
  unfold specOps
  rw [List.foldl_append]
  simp only [List.foldl_cons, List.foldl_nil, stepSpec, validOp, inRange_cast, decide_eq_true hr, decide_eq_true hc,
    Bool.and_self, if_true, Int.toNat_natCast]

/-- an assignment outside the shape changes nothing in the specification -/
theorem spec_invalid_write (nrows ncols : Nat) (ops : List (Int × Int × Int)) (op : Int × Int × Int)
    (h : validOp nrows ncols op = false) :
    specOps nrows ncols (ops ++ [op]) = specOps nrows ncols ops := by
  unfold specOps
  rw [List.foldl_append]
  simp [stepSpec, h]

/-- **Refinement.** For every assignment history (any order, repeats, overwrites, out-of-shape attempts) the builder's
flat arrays are the CSR form of rows that are strictly sorted by column, within the shape, free of explicit zeros
(when only non-zero values were assigned), and read densely as the last-write-wins specification. -/
theorem builder_refines (nrows ncols : Nat) (ops : List (Int × Int × Int)) :
    ∃ rows, runOps nrows ncols ops = ofRows rows ∧ rows.length = nrows ∧ RowsWF rows ncols ∧
      ((∀ op ∈ ops, op.2.2 ≠ 0) → NZ rows) ∧
      ∀ r c, dense rows r c = specOps nrows ncols ops r c :=
  runOps_spec nrows ncols ops

/-- **Reads of a well-formed CSR triple** (given by hand or by the builder): cell, row and value-to-columns
queries equal the dense matrix; the column list is ascending and duplicate-free. -/
theorem csr_reads (rows : List Row) (ncols r : Nat) (q : Int) (hwf : RowsWF rows ncols) (hnz : NZ rows)
    (hr : r < rows.length) :
    (∀ c, c < ncols → (ofRowsM rows ncols).getCell (r : Int) (c : Int) = .ok (dense rows r c)) ∧
    (ofRowsM rows ncols).getRow (r : Int) = .ok ((List.range ncols).map (dense rows r)) ∧
    ∃ cs, (ofRowsM rows ncols).colIndicesOfVal (r : Int) q = .ok cs ∧ cs.Pairwise (· < ·) ∧
      ∀ c, c ∈ cs ↔ c < ncols ∧ dense rows r c = q :=
  ⟨fun c hc => getCell_spec rows ncols r c hr hc, getRow_spec rows ncols r hwf hr,
   colIndicesOfVal_spec rows ncols r q hwf hnz hr⟩

/-- **Reads of a CSR triple whose rows list their columns in ANY order** (legal, non-canonical CSR given by hand: no column
twice in a row, every column inside the shape): cell, row and value-to-columns queries still equal the dense matrix it
represents; the column list has no repeats (its order is the storage order). -/
theorem csr_reads_any_column_order (rows : List Row) (ncols r : Nat) (q : Int) (hnd : RowsND rows ncols) (hnz : NZ rows)
    (hr : r < rows.length) :
    (∀ c, c < ncols → (ofRowsM rows ncols).getCell (r : Int) (c : Int) = .ok (dense rows r c)) ∧
    (ofRowsM rows ncols).getRow (r : Int) = .ok ((List.range ncols).map (dense rows r)) ∧
    ∃ cs, (ofRowsM rows ncols).colIndicesOfVal (r : Int) q = .ok cs ∧ cs.Nodup ∧
      ∀ c, c ∈ cs ↔ c < ncols ∧ dense rows r c = q :=
  ⟨fun c hc => getCell_spec rows ncols r c hr hc, getRow_spec_nd rows ncols r hnd hr,
   colIndicesOfVal_spec_nd rows ncols r q hnd hnz hr⟩

/-- **End to end.** A matrix built by any history of non-zero assignments reads back, cell by cell, row by row and
in value-to-columns queries, exactly like the dense last-write-wins matrix. -/
theorem builder_reads_like_dense (nrows ncols : Nat) (ops : List (Int × Int × Int))
    (hnz : ∀ op ∈ ops, op.2.2 ≠ 0) (r : Nat) (hr : r < nrows) (q : Int) :
    let m := (runOps nrows ncols ops).toMatrix nrows ncols
    (∀ c, c < ncols → m.getCell (r : Int) (c : Int) = .ok (specOps nrows ncols ops r c)) ∧
    m.getRow (r : Int) = .ok ((List.range ncols).map (specOps nrows ncols ops r)) ∧
    ∃ cs, m.colIndicesOfVal (r : Int) q = .ok cs ∧ cs.Pairwise (· < ·) ∧
      ∀ c, c ∈ cs ↔ c < ncols ∧ specOps nrows ncols ops r c = q := by
  obtain ⟨rows, e, l, w, n, d⟩ := runOps_spec nrows ncols ops
  have hm : (runOps nrows ncols ops).toMatrix nrows ncols = ofRowsM rows ncols := by
    rw [e]; unfold ofRowsM; rw [l]
  have hd : dense rows r = specOps nrows ncols ops r := by funext c; exact d r c
  have hr' : r < rows.length := by omega
  obtain ⟨h1, h2, h3⟩ := csr_reads rows ncols r q w (n hnz) hr'
  simp only [hm]
  rw [hd] at h1 h2 h3
  exact ⟨h1, h2, h3⟩

/-- **Bounds.** Rows or columns outside the shape (negative ones included) raise instead of wrapping around. -/
theorem out_of_shape (m : Matrix) (b : Builder) (r c q v : Int) :
    (¬ (0 ≤ r ∧ r < m.nrows) →
      (∃ e, m.getRow r = .error e) ∧ (∃ e, m.colIndicesOfVal r q = .error e) ∧ (∃ e, m.getCell r c = .error e) ∧
      (∃ e, setItemChecked m.nrows m.ncols b r c v = .error e)) ∧
    (¬ (0 ≤ c ∧ c < m.ncols) →
      (∃ e, m.getCell r c = .error e) ∧ (∃ e, setItemChecked m.nrows m.ncols b r c v = .error e)) := by
  constructor
  · intro h
    have hr : inRange r m.nrows = false := by simpa [inRange] using h
    refine ⟨?_, ⟨.indexError, by simp [Matrix.colIndicesOfVal, hr]⟩, ⟨.indexError, by simp [Matrix.getCell, hr]⟩,
      ⟨.indexError, by simp [setItemChecked, hr]⟩⟩
    unfold Matrix.getRow
    simp only [hr, Bool.false_eq_true, if_false]
    split
    · exact ⟨_, rfl⟩
    · exact ⟨_, rfl⟩
  · intro h
    have hc : inRange c m.ncols = false := by simpa [inRange] using h
    constructor
    · unfold Matrix.getCell
      split
      · exact ⟨_, rfl⟩
      · simp [hc]
    · unfold setItemChecked
      split
      · exact ⟨_, rfl⟩
      · simp [hc]

-- non-vacuity: a concrete history with an overwrite, a descending-column insert and an out-of-shape attempt
example : runOps 3 3 [(0, 2, 9), (0, 0, 7), (1, 1, -1), (0, 2, 5), (5, 0, 1), (0, -1, 1)] =
    ⟨[0, 2, 3, 3], [0, 2, 1], [7, 5, -1]⟩ := by decide
example : ((runOps 3 3 [(0, 2, 9), (0, 0, 7), (1, 1, -1), (0, 2, 5)]).toMatrix 3 3).getRow 0 = .ok [7, 0, 5] := by rfl
example : ((runOps 3 3 [(0, 2, 9), (0, 0, 7), (1, 1, -1), (0, 2, 5)]).toMatrix 3 3).colIndicesOfVal 0 0 = .ok [1] := by
  rfl
example : ((runOps 3 3 [(0, 2, 9)]).toMatrix 3 3).getCell 0 3 = .error .indexError := by rfl
example : RowsND [[(2, 5), (0, 7)], [(1, -1)], []] 3 ∧ ¬ RowsWF [[(2, 5), (0, 7)], [(1, -1)], []] 3 := by
  refine ⟨⟨?_, ?_⟩, ?_⟩
  · intro row hrow; simp at hrow; rcases hrow with rfl | rfl | rfl <;> decide
  · intro row hrow p hp; simp at hrow; rcases hrow with rfl | rfl | rfl <;> simp at hp <;> (try rcases hp with rfl | rfl) <;> (try subst hp) <;> decide
  · intro h
    have := h.sorted [(2, 5), (0, 7)] (by simp)
    simp [SortedRow] at this
example : RowsWF [[(0, 7), (2, 5)], [(1, -1)], []] 3 ∧ NZ [[(0, 7), (2, 5)], [(1, -1)], []] := by
  refine ⟨⟨?_, ?_⟩, ?_⟩ <;> simp [SortedRow, NZ] <;> (intro a b h; omega)

end Hpv.Props.C17
