/-
C03 — all views of the hierarchy agree: implementations, predicates, indices, id forms.
Model: Hpv/GraphModel.lean.  (i) predicates of the indexed graph (with their index-space shortcuts: `is_child_of`
walks the parents of the subject, `is_descendant_of` the ancestors of the subject) are characterised by the same
relations that C01 proves for the traversals, hence predicate = membership in the traversal and parent/child,
ancestor/descendant are converses; the generic scan used by the matrix graphs is membership by definition;
(ii) the index API is the image of the node API under a bijection; (iii) matrix graphs whose adjacency matrix
represents the edge list answer with the same sets as the indexed graph, and all three factories establish that
(`factories_agree`: end to end, from the same edge list through three different construction pipelines);
(iv) argument forms are normalised before anything else happens — C04.round_trip / C04.delimiter_forgotten.
-/
import Hpv.GraphModelProofs
import Hpv.Props.C01

namespace Hpv.Props.C03
open Hpv.Graph Hpv.Csr Hpv.Indexed Hpv.GM Hpv.Props.C01

variable {κ : Type} [DecidableEq κ]
variable {o : Graph.Ord κ} {owl : κ} {E : List (Edge κ)} {root : κ} {E' : List (Edge κ)} {g : IGraph κ}

/-- **Predicates of the indexed graph**, including the two that are answered from the subject's side. -/
theorem indexed_predicates (h : BuiltIx o owl E root E' g) (a b : κ) (ha : a ∈ g.nodes) (hb : b ∈ g.nodes) :
    (∃ r, g.pred o .parentOf (some a) (some b) = .ok r ∧ (r = true ↔ IsA E' b a)) ∧
    (∃ r, g.pred o .childOf (some a) (some b) = .ok r ∧ (r = true ↔ IsA E' a b)) ∧
    (∃ r, g.pred o .ancestorOf (some a) (some b) = .ok r ∧ (r = true ↔ Relation.TransGen (IsA E') b a)) ∧
    (∃ r, g.pred o .descendantOf (some a) (some b) = .ok r ∧ (r = true ↔ Relation.TransGen (IsA E') a b)) := by
  obtain ⟨ai, hai, haidx, halt⟩ := h.lookup a ha
  obtain ⟨bi, hbi, hbidx, hblt⟩ := h.lookup b hb
  obtain ⟨_, _, _, _, _, _, _, _, hl2, _⟩ := h.facts
  have hpa : g.parentsIdx (ai : Int) = .ok (g.parents.row ai) := outgoing_ok g.parents g.nodes.length ai hl2 halt
  have hpb : g.parentsIdx (bi : Int) = .ok (g.parents.row bi) := outgoing_ok g.parents g.nodes.length bi hl2 hblt
  obtain ⟨ia, hqa, _, hra, hla⟩ := h.ancestorIdx_spec ai a hai
  obtain ⟨ib, hqb, _, hrb, hlb⟩ := h.ancestorIdx_spec bi b hbi
  have hnd := h.nodes_nodup
  have bound : ∀ (i : Nat) (idxs : List Nat), (∀ j, j ∈ idxs ↔ Reach g.parents.row i j) → ∀ j ∈ idxs, j < g.nodes.length := by
    intro i idxs hr j hj
    have := (hr j).mp hj
    cases this with
    | single hh => exact h.parents_bound _ _ hh
    | tail _ hh => exact h.parents_bound _ _ hh
  have e1 : g.pred o .parentOf (some a) (some b) = .ok (decide (ai ∈ g.parents.row bi)) := by
    simp only [IGraph.pred, hbidx, haidx, IGraph.predIdx, hpb, Except.map, any_cast_eq]
  have e2 : g.pred o .childOf (some a) (some b) = .ok (decide (bi ∈ g.parents.row ai)) := by
    simp only [IGraph.pred, hbidx, haidx, IGraph.predIdx, hpa, Except.map, any_cast_eq]
  have e3 : g.pred o .ancestorOf (some a) (some b) = .ok (decide (ai ∈ ib)) := by
    simp only [IGraph.pred, hbidx, haidx, IGraph.predIdx, hqb, Except.map, any_cast_eq]
  have e4 : g.pred o .descendantOf (some a) (some b) = .ok (decide (bi ∈ ia)) := by
    simp only [IGraph.pred, hbidx, haidx, IGraph.predIdx, hqa, Except.map, any_cast_eq]
  refine ⟨⟨_, e1, ?_⟩, ⟨_, e2, ?_⟩, ⟨_, e3, ?_⟩, ⟨_, e4, ?_⟩⟩
  · rw [decide_eq_true_eq, h.mem_parents bi ai b hbi]
    constructor
    · rintro ⟨y, hy, hyb⟩; rw [hai] at hy; injection hy with hy; subst hy; exact hyb
    · intro hh; exact ⟨a, hai, hh⟩
  · rw [decide_eq_true_eq, h.mem_parents ai bi a hai]
    constructor
    · rintro ⟨y, hy, hyb⟩; rw [hbi] at hy; injection hy with hy; subst hy; exact hyb
    · intro hh; exact ⟨b, hbi, hh⟩
  · rw [decide_eq_true_eq, ← mem_mapNodes_iff g.nodes hnd ib (bound bi ib hrb) ai a hai, hlb a]; rfl
  · rw [decide_eq_true_eq, ← mem_mapNodes_iff g.nodes hnd ia (bound ai ia hra) bi b hbi, hla b]; rfl

/-- **Predicate = membership in the traversal**, and the converse relations, for the indexed graph. -/
theorem predicate_iff_traversal (h : BuiltIx o owl E root E' g) (a b : κ) (ha : a ∈ g.nodes) (hb : b ∈ g.nodes) :
    (∃ r res, g.pred o .parentOf (some a) (some b) = .ok r ∧ g.query o .parents (some b) false = .ok res ∧ (r = true ↔ a ∈ res)) ∧
    (∃ r res, g.pred o .childOf (some a) (some b) = .ok r ∧ g.query o .children (some b) false = .ok res ∧ (r = true ↔ a ∈ res)) ∧
    (∃ r res, g.pred o .ancestorOf (some a) (some b) = .ok r ∧ g.query o .ancestors (some b) false = .ok res ∧ (r = true ↔ a ∈ res)) ∧
    (∃ r res, g.pred o .descendantOf (some a) (some b) = .ok r ∧ g.query o .descendants (some b) false = .ok res ∧ (r = true ↔ a ∈ res)) ∧
    -- converses
    (∃ r r', g.pred o .parentOf (some a) (some b) = .ok r ∧ g.pred o .childOf (some b) (some a) = .ok r' ∧ r = r') ∧
    (∃ r r', g.pred o .ancestorOf (some a) (some b) = .ok r ∧ g.pred o .descendantOf (some b) (some a) = .ok r' ∧ r = r') := by
  obtain ⟨⟨r1, p1, e1⟩, ⟨r2, p2, e2⟩, ⟨r3, p3, e3⟩, ⟨r4, p4, e4⟩⟩ := indexed_predicates h a b ha hb
  obtain ⟨_, ⟨r2', p2', e2'⟩, _, ⟨r4', p4', e4'⟩⟩ := indexed_predicates h b a hb ha
  obtain ⟨q1, _, m1⟩ := parents_exact h b hb
  obtain ⟨q2, _, m2⟩ := children_exact h b hb
  obtain ⟨res3, q3, _, m3⟩ := ancestors_closure h b hb
  obtain ⟨res4, q4, _, m4⟩ := descendants_closure h b hb
  have flip : ∀ x y, Relation.TransGen (fun a b => IsA E' b a) x y ↔ Relation.TransGen (IsA E') y x := by
    intro x y
    constructor
    · intro hxy
      induction hxy with
      | single hh => exact Relation.TransGen.single hh
      | tail _ hh ih => exact Relation.TransGen.trans (Relation.TransGen.single hh) ih
    · intro hxy
      induction hxy with
      | single hh => exact Relation.TransGen.single hh
      | tail _ hh ih => exact Relation.TransGen.trans (Relation.TransGen.single hh) ih
  refine ⟨⟨r1, _, p1, q1, by rw [e1, m1 a]⟩, ⟨r2, _, p2, q2, by rw [e2, m2 a]⟩, ⟨r3, res3, p3, q3, by rw [e3, m3 a]⟩,
    ⟨r4, res4, p4, q4, by rw [e4, m4 a, flip]⟩, ⟨r1, r2', p1, p2', ?_⟩, ⟨r3, r4', p3, p4', ?_⟩⟩
  · rw [Bool.eq_iff_iff, e1, e2']
  · rw [Bool.eq_iff_iff, e3, e4']

/-- the generic scan of `OntologyGraph._run_query` (matrix graphs) is membership in the traversal by definition -/
theorem matrix_predicates (o : Graph.Ord κ) (g : MGraph κ) (p : Pred) (a b : κ) (res : List κ)
    (h : g.query o (predQ p) (some b) false = .ok res) : g.pred o p (some a) (some b) = .ok (decide (a ∈ res)) := by
  simp only [MGraph.pred, h, Except.map]
  congr 1
  rw [Bool.eq_iff_iff]
  simp only [List.any_eq_true, decide_eq_true_eq]
  constructor
  · rintro ⟨x, hx, rfl⟩; exact hx
  · intro hh; exact ⟨a, hh, rfl⟩

/-- **The three factories agree**: on every acyclic rooted edge list the indexed, incremental and builder-based
factories all succeed, with the same node array and root, and each of the four traversal queries returns the same
set of nodes (each node once) on all three graphs.  With `matrix_predicates` and `predicate_iff_traversal` the
predicates agree too. -/
theorem factories_agree (h : BuiltIx o owl E root E' g) (hacyc : ∀ x, ¬ Relation.TransGen (IsA E') x x) :
    ∃ gi gb, buildIncremental o owl E = .ok gi ∧ buildBuilder o owl E = .ok gb ∧
      gi.nodes = g.nodes ∧ gb.nodes = g.nodes ∧ gi.root = root ∧ gb.root = root ∧ g.nodes[g.root]? = some root ∧
      ∀ (q : Q) (v : κ), v ∈ g.nodes →
        ∃ r ri rb, g.query o q (some v) false = .ok r ∧ gi.query o q (some v) false = .ok ri ∧
          gb.query o q (some v) false = .ok rb ∧ r.Nodup ∧ ri.Nodup ∧ rb.Nodup ∧
          ∀ x, (x ∈ r ↔ x ∈ ri) ∧ (x ∈ r ↔ x ∈ rb) := by
  obtain ⟨hloop, h2⟩ := acyclic_simple hacyc
  obtain ⟨gi, hgi, hri, hni, hrepi⟩ := incremental_represents h.strict h.hroot hloop h2
  obtain ⟨gb, hgb, hrb, hnb, hrepb⟩ := builder_represents h.strict h.hroot hloop h2
  obtain ⟨_, _, hn, _, _, _, hroot, _, _, _⟩ := h.facts
  refine ⟨gi, gb, hgi, hgb, by rw [hni, hn], by rw [hnb, hn], hri, hrb, hroot, ?_⟩
  intro q v hv
  have hvi : v ∈ gi.nodes := by rw [hni, ← hn]; exact hv
  have hvb : v ∈ gb.nodes := by rw [hnb, ← hn]; exact hv
  obtain ⟨⟨pi, hpi, ndpi, mpi⟩, ⟨ci, hci, ndci, mci⟩⟩ := hrepi.direct h.strict v hvi
  obtain ⟨⟨ai, hai, ndai, mai⟩, ⟨di, hdi, nddi, mdi⟩⟩ := hrepi.closure h.strict v hvi
  obtain ⟨⟨pb, hpb, ndpb, mpb⟩, ⟨cb, hcb, ndcb, mcb⟩⟩ := hrepb.direct h.strict v hvb
  obtain ⟨⟨ab, hab, ndab, mab⟩, ⟨db, hdb, nddb, mdb⟩⟩ := hrepb.closure h.strict v hvb
  cases q with
  | parents =>
    obtain ⟨q1, nd1, m1⟩ := parents_exact h v hv
    exact ⟨_, pi, pb, q1, hpi, hpb, nd1, ndpi, ndpb, fun x => ⟨by rw [m1 x, mpi x]; rfl, by rw [m1 x, mpb x]; rfl⟩⟩
  | children =>
    obtain ⟨q1, nd1, m1⟩ := children_exact h v hv
    exact ⟨_, ci, cb, q1, hci, hcb, nd1, ndci, ndcb, fun x => ⟨by rw [m1 x, mci x]; rfl, by rw [m1 x, mcb x]; rfl⟩⟩
  | ancestors =>
    obtain ⟨r, q1, nd1, m1⟩ := ancestors_closure h v hv
    exact ⟨r, ai, ab, q1, hai, hab, nd1, ndai, ndab, fun x => ⟨by rw [m1 x, mai x]; rfl, by rw [m1 x, mab x]; rfl⟩⟩
  | descendants =>
    obtain ⟨r, q1, nd1, m1⟩ := descendants_closure h v hv
    exact ⟨r, di, db, q1, hdi, hdb, nd1, nddi, nddb, fun x => ⟨by rw [m1 x, mdi x]; rfl, by rw [m1 x, mdb x]; rfl⟩⟩

/-- **Predicates of a matrix-backed graph, characterised by the edge relation** (so they agree with the indexed
graph's, `indexed_predicates`): for every graph whose matrix represents the rooted edge list - in particular the
graphs of the incremental and the builder-based factory (`incremental_represents`, `builder_represents`). -/
theorem matrix_predicates_exact {mg : MGraph κ} (hs : o.Strict) (hrep : Represents o mg E') (a b : κ) (hb : b ∈ mg.nodes) :
    (∃ r, mg.pred o .parentOf (some a) (some b) = .ok r ∧ (r = true ↔ IsA E' b a)) ∧
    (∃ r, mg.pred o .childOf (some a) (some b) = .ok r ∧ (r = true ↔ IsA E' a b)) ∧
    (∃ r, mg.pred o .ancestorOf (some a) (some b) = .ok r ∧ (r = true ↔ Relation.TransGen (IsA E') b a)) ∧
    (∃ r, mg.pred o .descendantOf (some a) (some b) = .ok r ∧ (r = true ↔ Relation.TransGen (IsA E') a b)) := by
  obtain ⟨⟨p, hp, _, mp⟩, ⟨c, hc, _, mc⟩⟩ := hrep.direct hs b hb
  obtain ⟨⟨an, han, _, man⟩, ⟨de, hde, _, mde⟩⟩ := hrep.closure hs b hb
  have flip : ∀ x y, Relation.TransGen (fun a b => IsA E' b a) x y ↔ Relation.TransGen (IsA E') y x := by
    intro x y
    constructor
    · intro hxy
      induction hxy with
      | single hh => exact Relation.TransGen.single hh
      | tail _ hh ih => exact Relation.TransGen.trans (Relation.TransGen.single hh) ih
    · intro hxy
      induction hxy with
      | single hh => exact Relation.TransGen.single hh
      | tail _ hh ih => exact Relation.TransGen.trans (Relation.TransGen.single hh) ih
  refine ⟨⟨_, matrix_predicates o mg .parentOf a b p hp, ?_⟩, ⟨_, matrix_predicates o mg .childOf a b c hc, ?_⟩,
    ⟨_, matrix_predicates o mg .ancestorOf a b an han, ?_⟩, ⟨_, matrix_predicates o mg .descendantOf a b de hde, ?_⟩⟩
  · rw [decide_eq_true_iff, mp a]; rfl
  · rw [decide_eq_true_iff, mc a]; rfl
  · rw [decide_eq_true_iff, man a]; rfl
  · rw [decide_eq_true_iff, mde a]; exact flip b a

/-- `is_leaf` is "no children", on both graph classes -/
theorem leaf_iff_no_children (o : Graph.Ord κ) (mg : MGraph κ) (v : κ) (res : List κ)
    (hm : mg.query o .children (some v) false = .ok res) : mg.isLeaf o (some v) = .ok res.isEmpty := by
  simp [MGraph.isLeaf, hm, Except.map]

theorem indexed_leaf (h : BuiltIx o owl E root E' g) (v : κ) (hv : v ∈ g.nodes) :
    ∃ res, g.query o .children (some v) false = .ok res ∧ g.isLeaf o (some v) = .ok res.isEmpty := by
  obtain ⟨i, hi, hidx, hlt⟩ := h.lookup v hv
  obtain ⟨_, _, _, _, _, _, _, hl1, _, hsorted⟩ := h.facts
  have hq : g.childrenIdx (i : Int) = .ok (g.children.row i) := outgoing_ok g.children g.nodes.length i hl1 hlt
  refine ⟨mapNodes g.nodes (g.children.row i), ?_, ?_⟩
  · rw [IGraph.query_ok o h.strict g hsorted .children v i hi false _ hq]; rfl
  · simp only [IGraph.isLeaf, hidx, hq, Except.map]
    congr 1
    -- the row is empty iff its image is
    rw [(h.children_row i v hi).2, (h.children_row i v hi).1]
    simp

/-- **Index API**: `idx_to_node` / `node_to_idx` are inverse bijections between `0..n-1` and the nodes, the root is
`idx_to_node(root_idx)`, and every node-level traversal is the image of the index-level traversal. -/
theorem index_bijection (h : BuiltIx o owl E root E' g) :
    (∀ i : Nat, i < g.nodes.length → ∃ v, g.idxToNode (i : Int) = .ok v ∧ g.nodeToIdx o v = some i) ∧
    (∀ v ∈ g.nodes, ∃ i, g.nodeToIdx o v = some i ∧ i < g.nodes.length ∧ g.idxToNode (i : Int) = .ok v) ∧
    G.root (.ix g) = .ok root ∧ g.root < g.nodes.length ∧
    (∀ (q : Q) (v : κ) (i : Nat) (incl : Bool) (idxs : List Nat), g.nodes[i]? = some v → g.queryIdx q (i : Int) = .ok idxs →
      g.query o q (some v) incl = .ok ((if incl then [v] else []) ++ mapNodes g.nodes idxs)) := by
  obtain ⟨_, _, _, _, _, _, hroot, _, _, hsorted⟩ := h.facts
  have idx_ok : ∀ (i : Nat) (v : κ), g.nodes[i]? = some v → g.idxToNode (i : Int) = .ok v := by
    intro i v hi
    have hlt := h.idx_lt i v hi
    unfold IGraph.idxToNode
    have h1 : ¬ ((i : Int) < 0 ∨ (g.nodes.length : Int) ≤ (i : Int)) := by omega
    rw [if_neg h1]
    simp only [Int.toNat_natCast, hi]
  refine ⟨?_, ?_, ?_, h.idx_lt _ _ hroot, ?_⟩
  · intro i hi
    have hget : g.nodes[i]? = some g.nodes[i] := List.getElem?_eq_getElem hi
    exact ⟨g.nodes[i], idx_ok i _ hget, (indexOf?_spec o h.strict _ hsorted _ i).mpr hget⟩
  · intro v hv
    obtain ⟨i, hi, hidx, hlt⟩ := h.lookup v hv
    exact ⟨i, hidx, hlt, idx_ok i v hi⟩
  · exact idx_ok g.root root hroot
  · intro q v i incl idxs hi hq
    exact IGraph.query_ok o h.strict g hsorted q v i hi incl idxs hq

-- non-vacuity on the diamond of C01.Example (9 is the root; 1 is the multi-parent leaf)
open Hpv.Props.C01.Example in
example : diamondGraph.pred natOrd .ancestorOf (some 9) (some 1) = .ok true ∧
    diamondGraph.pred natOrd .descendantOf (some 1) (some 9) = .ok true ∧
    diamondGraph.pred natOrd .childOf (some 1) (some 9) = .ok false ∧
    diamondGraph.idxToNode 3 = .ok 9 ∧ diamondGraph.nodeToIdx natOrd 9 = some 3 ∧ diamondGraph.root = 3 := by
  refine ⟨by rfl, by rfl, by rfl, by rfl, by rfl, by rfl⟩

end Hpv.Props.C03
