/-
C10 — the precomputed Resnik similarity is the IC of the most informative common ancestor.
Model: Hpv/Resnik.lean (`precalculate_ic_mica_for_hpo_concept_pairs` over the C15 container model).  The theorems hold
for ARBITRARY `groups` (children of Phenotypic abnormality), `desc` (descendants incl. the source), `anc` (ancestors
incl. the source) and `ic` (missing entries = 0, not necessarily monotone): what the graph helpers return is C01/C18.
IC values are integers standing for floats under an order-preserving injection; `max` and `> 0` are all the code uses.
-/
import Hpv.ResnikProofs

namespace Hpv.Props.C10
open Hpv.Sim Hpv.Resnik

/-- the maximum IC over the common ancestors (each term counting as its own ancestor when `anc` is reflexive), floor 0 -/
theorem mica_is_max (anc : Str → List Str) (ic : Str → Int) (l r : Str) :
    0 ≤ mica anc ic l r ∧ (∀ t, t ∈ anc l → t ∈ anc r → ic t ≤ mica anc ic l r) ∧
    (mica anc ic l r = 0 ∨ ∃ t, t ∈ anc l ∧ t ∈ anc r ∧ ic t = mica anc ic l r) ∧
    mica anc ic l r = mica anc ic r l :=
  let h := (mica_spec anc ic l r _).mp rfl
  ⟨h.1, h.2.1, h.2.2, mica_comm anc ic l r⟩

/-- For every pair below the same child of Phenotypic abnormality the precomputed similarity equals that maximum —
also for pairs reachable through two branches, whatever the order in which branches and pairs are visited. -/
theorem same_branch (groups : List Str) (desc anc : Str → List Str) (ic : Str → Int) (x y : Str)
    (h : SameBranch groups desc x y) : get (precalc groups desc anc ic) x y = mica anc ic x y :=
  (precalc_spec groups desc anc ic x y).1 h

/-- For any pair whatsoever: symmetric, non-negative, never above the maximum; 0 outside a common branch. -/
theorem any_pair (groups : List Str) (desc anc : Str → List Str) (ic : Str → Int) (x y : Str) :
    get (precalc groups desc anc ic) x y = get (precalc groups desc anc ic) y x ∧
    0 ≤ get (precalc groups desc anc ic) x y ∧ get (precalc groups desc anc ic) x y ≤ mica anc ic x y ∧
    (¬ SameBranch groups desc x y → get (precalc groups desc anc ic) x y = 0) :=
  let h := precalc_spec groups desc anc ic x y
  ⟨h.2.2.1, h.2.2.2.1, h.2.2.2.2, h.2.1⟩

/-- Only pairs with positive similarity are stored (each once, under the ordered key); any other pair reads as 0. -/
theorem stored_positive (groups : List Str) (desc anc : Str → List Str) (ic : Str → Int) :
    (∀ o i v, (o, i, v) ∈ items (precalc groups desc anc ic) → 0 < v ∧ sle o i = true ∧ v = mica anc ic o i) ∧
    ((items (precalc groups desc anc ic)).map (fun t => (t.1, t.2.1))).Nodup ∧
    (∀ x y, (∀ v, ((norm x y).1, (norm x y).2, v) ∉ items (precalc groups desc anc ic)) →
      get (precalc groups desc anc ic) x y = 0) := by
  obtain ⟨hwf, hpos⟩ := precalc_stored_positive groups desc anc ic
  obtain ⟨hnd, hprop⟩ := items_spec _ hwf
  refine ⟨?_, hnd, fun x y h => get_not_stored _ hwf x y h⟩
  intro o i v hv
  obtain ⟨hs, hg, _⟩ := hprop o i v hv
  have hp := hpos o i v hv
  refine ⟨hp, hs, ?_⟩
  -- a positive read is the MICA value
  by_cases hb : SameBranch groups desc o i
  · rw [← hg]; exact same_branch groups desc anc ic o i hb
  · have := (any_pair groups desc anc ic o i).2.2.2 hb
    omega

-- non-vacuity: two branches 10 and 20 sharing the descendant 3; ancestor lists include the term itself
def exDesc : Str → List Str := fun g => if g = [10] then [[10], [1], [3]] else if g = [20] then [[20], [2], [3]] else []
def exAnc : Str → List Str := fun t =>
  if t = [1] then [[1], [10], [0]] else if t = [2] then [[2], [20], [0]] else if t = [3] then [[3], [1], [2], [10], [20], [0]]
  else if t = [10] then [[10], [0]] else if t = [20] then [[20], [0]] else [t]
def exIc : Str → Int := fun t => if t = [1] then 4 else if t = [2] then 6 else if t = [3] then 8 else if t = [10] then 1 else 0

example : get (precalc [[10], [20]] exDesc exAnc exIc) [3] [2] = 6 ∧ get (precalc [[10], [20]] exDesc exAnc exIc) [1] [2] = 0 ∧
    get (precalc [[10], [20]] exDesc exAnc exIc) [20] [2] = 0 ∧ len (precalc [[10], [20]] exDesc exAnc exIc) = 8 := by decide

end Hpv.Props.C10
