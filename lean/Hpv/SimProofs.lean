import Hpv.Sim
namespace Hpv.Sim

theorem lookup_upsert_same {β} (k : Str) (v : β) (l : List (Str × β)) : lookup k (upsert k v l) = some v := by
  induction l with
  | nil => simp [upsert, lookup]
  | cons p rest ih =>
    obtain ⟨k', v'⟩ := p
    unfold upsert
    by_cases h : k' = k
    · simp [h, lookup]
    · simp [h, lookup, ih]

theorem lookup_upsert_other {β} (k k2 : Str) (v : β) (l : List (Str × β)) (hne : k2 ≠ k) :
    lookup k2 (upsert k v l) = lookup k2 l := by
  induction l with
  | nil => simp [upsert, lookup]; intro h; exact absurd h.symm hne
  | cons p rest ih =>
    obtain ⟨k', v'⟩ := p
    unfold upsert
    by_cases h : k' = k
    · subst h
      have : ¬ k' = k2 := fun h' => hne h'.symm
      simp [lookup, this]
    · simp only [h, if_false, lookup, ih]

theorem upsert_ne_nil {β} (k : Str) (v : β) (l : List (Str × β)) : (upsert k v l).isEmpty = false := by
  cases l with
  | nil => simp [upsert]
  | cons p rest => obtain ⟨k', v'⟩ := p; unfold upsert; split <;> simp

/-- reading after an accepted write -/
theorem get_set (s s' : State) (a b x y : Str) (v : Int) (h : set s a b v = .ok s') :
    get s' x y = if norm a b = norm x y then v else get s x y := by
  unfold set at h
  by_cases hv : v < 0
  · simp [hv] at h
  · simp only [hv, if_false] at h
    injection h with h; subst h
    unfold get
    rcases hab : norm a b with ⟨o, i⟩
    rcases hxy : norm x y with ⟨o2, i2⟩
    simp only []
    by_cases ho : o2 = o
    · subst ho
      rw [lookup_upsert_same]
      simp only [upsert_ne_nil, Bool.false_eq_true, if_false]
      by_cases hi : i2 = i
      · subst hi; simp [lookup_upsert_same]
      · rw [lookup_upsert_other _ _ _ _ hi]
        have hne : ¬ ((o2, i) = (o2, i2)) := by
          intro h; injection h with _ h2; exact hi h2.symm
        simp only [hne, if_false]
        cases hl : lookup o2 s with
        | none => simp [lookup]
        | some inner =>
          simp only [Option.getD_some]
          cases inner with
          | nil => simp [lookup]
          | cons p r => simp
    · rw [lookup_upsert_other _ _ _ _ ho]
      have hne : ¬ ((o, i) = (o2, i2)) := by
        intro h; injection h with h1 _; exact ho h1.symm
      simp [hne]

/-- For every history, a read returns the value of the last accepted write on that unordered pair, else 0. -/
theorem get_run (ops : List Op) (x y : Str) : get (run ops) x y = spec ops.reverse x y := by
  unfold run
  suffices h : ∀ (s : State) (hist : List Op), (∀ x y, get s x y = spec hist x y) →
      ∀ x y, get (ops.foldl stepOp s) x y = spec (ops.reverse ++ hist) x y by
    have := h [] [] (by intro x y; simp [get, lookup, spec]) x y
    simpa using this
  induction ops with
  | nil => intro s hist h x y; simpa using h x y
  | cons op rest ih =>
    intro s hist h x y
    simp only [List.foldl_cons, List.reverse_cons, List.append_assoc, List.singleton_append]
    apply ih (stepOp s op) (op :: hist)
    intro x y
    cases op with
    | get a b => simp [stepOp, spec, h]
    | len => simp [stepOp, spec, h]
    | set a b v =>
      simp only [stepOp, spec]
      cases hs : set s a b v with
      | error e =>
        have hv : v < 0 := by
          unfold set at hs
          by_cases hv : v < 0
          · exact hv
          · simp [hv] at hs
        simp [hv, h]
      | ok s' =>
        have hv : ¬ v < 0 := by
          intro hv; unfold set at hs; simp [hv] at hs
        simp only [hv, if_false]
        rw [get_set s s' a b x y v hs, h]

theorem sle_total (a b : Str) : sle a b = true ∨ sle b a = true := by
  induction a generalizing b with
  | nil => simp [sle]
  | cons x xs ih =>
    cases b with
    | nil => simp [sle]
    | cons y ys =>
      simp only [sle]
      rcases Nat.lt_trichotomy x y with h | h | h
      · simp [h]
      · subst h; simp; exact ih ys
      · have : ¬ x < y := by omega
        simp [h]

theorem sle_antisymm (a b : Str) (h1 : sle a b = true) (h2 : sle b a = true) : a = b := by
  induction a generalizing b with
  | nil => cases b with
    | nil => rfl
    | cons y ys => simp [sle] at h2
  | cons x xs ih =>
    cases b with
    | nil => simp [sle] at h1
    | cons y ys =>
      simp only [sle] at h1 h2
      rcases Nat.lt_trichotomy x y with h | h | h
      · have h3 : ¬ y < x := by omega
        have h4 : ¬ y = x := by omega
        simp [h3, h4] at h2
      · subst h
        simp at h1 h2
        rw [ih ys h1 h2]
      · have h3 : ¬ x < y := by omega
        have h4 : ¬ x = y := by omega
        simp [h3, h4] at h1

/-- key normalisation does not depend on the order in which the two keys are given -/
theorem norm_comm (a b : Str) : norm a b = norm b a := by
  unfold norm
  cases hab : sle a b <;> cases hba : sle b a
  · rcases sle_total a b with h | h
    · rw [hab] at h; cases h
    · rw [hba] at h; cases h
  · simp
  · simp
  · have := sle_antisymm a b hab hba
    subst this; rfl

theorem get_comm (s : State) (a b : Str) : get s a b = get s b a := by
  unfold get; rw [norm_comm]

end Hpv.Sim
