import Hpv.Sim
namespace Hpv.Sim

theorem lookup_upsert_same {β} (k : Str) (v : β) (l : List (Str × β)) : lookup k (upsert k v l) = some v := by
  induction l with
  | nil => simp [upsert, lookup]
  | cons p rest ih =>
    obtain ⟨k', v'⟩ := p
    unfold upsert
    by_cases h : k' = k
    · simp [h, lookup]
    · simp [h, lookup, ih]

theorem lookup_upsert_other {β} (k k2 : Str) (v : β) (l : List (Str × β)) (hne : k2 ≠ k) :
    lookup k2 (upsert k v l) = lookup k2 l := by
  induction l with
  | nil => simp [upsert, lookup]; intro h; exact absurd h.symm hne
  | cons p rest ih =>
    obtain ⟨k', v'⟩ := p
    unfold upsert
    by_cases h : k' = k
    · subst h
      have : ¬ k' = k2 := fun h' => hne h'.symm
      simp [lookup, this]
    · simp only [h, if_false, lookup, ih]

theorem upsert_ne_nil {β} (k : Str) (v : β) (l : List (Str × β)) : (upsert k v l).isEmpty = false := by
  cases l with
  | nil => simp [upsert]
  | cons p rest => obtain ⟨k', v'⟩ := p; unfold upsert; split <;> simp

/-- reading after an accepted write -/
theorem get_set (s s' : State) (a b x y : Str) (v : Int) (h : set s a b v = .ok s') :
    get s' x y = if norm a b = norm x y then v else get s x y := by
  unfold set at h
  by_cases hv : v < 0
  · simp [hv] at h
  · simp only [hv, if_false] at h
    injection h with h; subst h
    unfold get
    rcases hab : norm a b with ⟨o, i⟩
    rcases hxy : norm x y with ⟨o2, i2⟩
    simp only []
    by_cases ho : o2 = o
    · subst ho
      rw [lookup_upsert_same]
      simp only [upsert_ne_nil, Bool.false_eq_true, if_false]
      by_cases hi : i2 = i
      · subst hi; simp [lookup_upsert_same]
      · rw [lookup_upsert_other _ _ _ _ hi]
        have hne : ¬ ((o2, i) = (o2, i2)) := by
          intro h; injection h with _ h2; exact hi h2.symm
        simp only [hne, if_false]
        cases hl : lookup o2 s with
        | none => simp [lookup]
        | some inner =>
          simp only [Option.getD_some]
          cases inner with
          | nil => simp [lookup]
          | cons p r => simp
    · rw [lookup_upsert_other _ _ _ _ ho]
      have hne : ¬ ((o, i) = (o2, i2)) := by
        intro h; injection h with h1 _; exact ho h1.symm
      simp [hne]

/-- For every history, a read returns the value of the last accepted write on that unordered pair, else 0. -/
theorem get_run (ops : List Op) (x y : Str) : get (run ops) x y = spec ops.reverse x y := by
  unfold run
  suffices h : ∀ (s : State) (hist : List Op), (∀ x y, get s x y = spec hist x y) →
      ∀ x y, get (ops.foldl stepOp s) x y = spec (ops.reverse ++ hist) x y by
    have := h [] [] (by intro x y; simp [get, lookup, spec]) x y
    simpa using this
  induction ops with
  | nil => intro s hist h x y; simpa using h x y
  | cons op rest ih =>
    intro s hist h x y
    simp only [List.foldl_cons, List.reverse_cons, List.append_assoc, List.singleton_append]
    apply ih (stepOp s op) (op :: hist)
    intro x y
    cases op with
    | get a b => simp [stepOp, spec, h]
    | len => simp [stepOp, spec, h]
    | set a b v =>
      simp only [stepOp, spec]
      cases hs : set s a b v with
      | error e =>
        have hv : v < 0 := by
          unfold set at hs
          by_cases hv : v < 0
          · exact hv
          · simp [hv] at hs
        simp [hv, h]
      | ok s' =>
        have hv : ¬ v < 0 := by
          intro hv; unfold set at hs; simp [hv] at hs
        simp only [hv, if_false]
        rw [get_set s s' a b x y v hs, h]

theorem sle_total (a b : Str) : sle a b = true ∨ sle b a = true := by
  induction a generalizing b with
  | nil => simp [sle]
  | cons x xs ih =>
    cases b with
    | nil => simp [sle]
    | cons y ys =>
      simp only [sle]
      rcases Nat.lt_trichotomy x y with h | h | h
      · simp [h]
      · subst h; simp; exact ih ys
      · have : ¬ x < y := by omega
        simp [h]

theorem sle_antisymm (a b : Str) (h1 : sle a b = true) (h2 : sle b a = true) : a = b := by
  induction a generalizing b with
  | nil => cases b with
    | nil => rfl
    | cons y ys => simp [sle] at h2
  | cons x xs ih =>
    cases b with
    | nil => simp [sle] at h1
    | cons y ys =>
      simp only [sle] at h1 h2
      rcases Nat.lt_trichotomy x y with h | h | h
      · have h3 : ¬ y < x := by omega
        have h4 : ¬ y = x := by omega
        simp [h3, h4] at h2
      · subst h
        simp at h1 h2
        rw [ih ys h1 h2]
      · have h3 : ¬ x < y := by omega
        have h4 : ¬ x = y := by omega
        simp [h3, h4] at h1

/-- key normalisation does not depend on the order in which the two keys are given -/
theorem norm_comm (a b : Str) : norm a b = norm b a := by
  unfold norm
  cases hab : sle a b <;> cases hba : sle b a
  · rcases sle_total a b with h | h
    · rw [hab] at h; cases h
    · rw [hba] at h; cases h
  · simp
  · simp
  · have := sle_antisymm a b hab hba
    subst this; rfl

theorem get_comm (s : State) (a b : Str) : get s a b = get s b a := by
  unfold get; rw [norm_comm]

end Hpv.Sim

namespace Hpv.Sim

/-! ### stored pairs, `items`, `len` -/

theorem mem_iff_lookup {β} (l : List (Str × β)) (h : (l.map Prod.fst).Nodup) (k : Str) (v : β) :
    (k, v) ∈ l ↔ lookup k l = some v := by
  induction l with
  | nil => simp [lookup]
  | cons p rest ih =>
    obtain ⟨k', v'⟩ := p
    simp only [List.map_cons, List.nodup_cons] at h
    unfold lookup
    by_cases hk : k' = k
    · subst hk
      simp only [List.mem_cons, Prod.mk.injEq, true_and, if_true, Option.some.injEq]
      constructor
      · rintro (h1 | h1)
        · exact h1.symm
        · exact absurd (List.mem_map.mpr ⟨(k', v), h1, rfl⟩) h.1
      · intro h1; exact Or.inl h1.symm
    · simp only [hk, if_false, List.mem_cons, Prod.mk.injEq, ← ih h.2]
      constructor
      · rintro (⟨h1, _⟩ | h1)
        · exact absurd h1.symm hk
        · exact h1
      · intro h1; exact Or.inr h1

theorem keys_upsert' {β} (k : Str) (v : β) (l : List (Str × β)) (x : Str) :
    x ∈ (upsert k v l).map Prod.fst ↔ x = k ∨ x ∈ l.map Prod.fst := by
  induction l with
  | nil => simp [upsert]
  | cons p rest ih =>
    obtain ⟨k', v'⟩ := p
    unfold upsert
    by_cases h : k' = k
    · subst h; simp
    · simp only [h, if_false, List.map_cons, List.mem_cons, ih]
      constructor
      · rintro (h1 | h1 | h1)
        · exact Or.inr (Or.inl h1)
        · exact Or.inl h1
        · exact Or.inr (Or.inr h1)
      · rintro (h1 | h1 | h1)
        · exact Or.inr (Or.inl h1)
        · exact Or.inl h1
        · exact Or.inr (Or.inr h1)

theorem nodup_upsert' {β} (k : Str) (v : β) (l : List (Str × β)) (h : (l.map Prod.fst).Nodup) :
    ((upsert k v l).map Prod.fst).Nodup := by
  induction l with
  | nil => simp [upsert]
  | cons p rest ih =>
    obtain ⟨k', v'⟩ := p
    simp only [List.map_cons, List.nodup_cons] at h
    unfold upsert
    by_cases hk : k' = k
    · subst hk; simp only [if_true, List.map_cons, List.nodup_cons]; exact h
    · simp only [hk, if_false, List.map_cons, List.nodup_cons]
      refine ⟨?_, ih h.2⟩
      rw [keys_upsert']
      rintro (h1 | h1)
      · exact hk h1
      · exact h.1 h1

theorem mem_upsert {β} (k : Str) (v : β) (l : List (Str × β)) (p : Str × β) (h : p ∈ upsert k v l) :
    p = (k, v) ∨ p ∈ l := by
  induction l with
  | nil => simp [upsert] at h; exact Or.inl h
  | cons q rest ih =>
    obtain ⟨k', v'⟩ := q
    unfold upsert at h
    by_cases hk : k' = k
    · simp only [hk, if_true, List.mem_cons] at h
      rcases h with h | h
      · exact Or.inl h
      · exact Or.inr (List.mem_cons_of_mem _ h)
    · simp only [hk, if_false, List.mem_cons] at h
      rcases h with h | h
      · exact Or.inr (by simp [h])
      · rcases ih h with h | h
        · exact Or.inl h
        · exact Or.inr (List.mem_cons_of_mem _ h)

theorem nodup_map_inj {α β} (f : α → β) (l : List α) (hf : ∀ a b, f a = f b → a = b) (hl : l.Nodup) : (l.map f).Nodup := by
  induction l with
  | nil => simp
  | cons a t ih =>
    simp only [List.nodup_cons] at hl
    simp only [List.map_cons, List.nodup_cons, List.mem_map]
    refine ⟨?_, ih hl.2⟩
    rintro ⟨b, hb, hfb⟩
    exact hl.1 (hf b a hfb ▸ hb)

/-- representation invariant of the nested dict -/
structure WF (s : State) : Prop where
  outer : (s.map Prod.fst).Nodup
  inner : ∀ p ∈ s, (p.2.map Prod.fst).Nodup ∧ p.2 ≠ [] ∧ ∀ q ∈ p.2, sle p.1 q.1 = true ∧ 0 ≤ q.2

theorem norm_sle (a b : Str) : sle (norm a b).1 (norm a b).2 = true := by
  unfold norm
  cases h : sle a b
  · simp only [Bool.false_eq_true, if_false]
    rcases sle_total a b with h' | h'
    · rw [h] at h'; cases h'
    · exact h'
  · simp [h]

theorem wf_set (s s' : State) (a b : Str) (v : Int) (hwf : WF s) (h : set s a b v = .ok s') : WF s' := by
  unfold set at h
  by_cases hv : v < 0
  · simp [hv] at h
  · simp only [hv, if_false] at h
    injection h with h
    subst h
    constructor
    · exact nodup_upsert' _ _ _ hwf.outer
    · intro p hp
      rcases mem_upsert _ _ _ p hp with rfl | hp
      · refine ⟨?_, ?_, ?_⟩
        · apply nodup_upsert'
          cases hl : lookup (norm a b).1 s with
          | none => simp
          | some inner =>
            exact (hwf.inner ((norm a b).1, inner) ((mem_iff_lookup s hwf.outer _ _).mpr hl)).1
        · intro hnil
          have := upsert_ne_nil (norm a b).2 v ((lookup (norm a b).1 s).getD [])
          simp only at hnil
          rw [hnil] at this; simp at this
        · intro q hq
          rcases mem_upsert _ _ _ q hq with rfl | hq
          · exact ⟨norm_sle a b, by omega⟩
          · cases hl : lookup (norm a b).1 s with
            | none => rw [hl] at hq; simp at hq
            | some inner =>
              rw [hl] at hq
              exact (hwf.inner ((norm a b).1, inner) ((mem_iff_lookup s hwf.outer _ _).mpr hl)).2.2 q hq
      · exact hwf.inner p hp

theorem wf_run (ops : List Op) : WF (run ops) := by
  unfold run
  suffices h : ∀ s, WF s → WF (ops.foldl stepOp s) from h [] ⟨by simp, by intro p hp; cases hp⟩
  induction ops with
  | nil => intro s h; exact h
  | cons op rest ih =>
    intro s hs
    apply ih
    cases op with
    | get a b => exact hs
    | len => exact hs
    | set a b v =>
      simp only [stepOp]
      cases h : set s a b v with
      | error e => exact hs
      | ok s' => exact wf_set s s' a b v hs h

/-- a pair is stored -/
def Stored (s : State) (o i : Str) : Prop := ∃ inner v, lookup o s = some inner ∧ lookup i inner = some v

theorem mem_items_iff (s : State) (hwf : WF s) (o i : Str) (v : Int) :
    (o, i, v) ∈ items s ↔ ∃ inner, lookup o s = some inner ∧ lookup i inner = some v := by
  unfold items
  simp only [List.mem_flatMap, List.mem_map, Prod.mk.injEq]
  constructor
  · rintro ⟨p, hp, q, hq, rfl, rfl, rfl⟩
    refine ⟨p.2, (mem_iff_lookup s hwf.outer p.1 p.2).mp hp, ?_⟩
    exact (mem_iff_lookup p.2 (hwf.inner p hp).1 q.1 q.2).mp hq
  · rintro ⟨inner, h1, h2⟩
    have hp := (mem_iff_lookup s hwf.outer o inner).mpr h1
    exact ⟨(o, inner), hp, (i, v), (mem_iff_lookup inner (hwf.inner _ hp).1 i v).mpr h2, rfl, rfl, rfl⟩

theorem len_eq_items (s : State) : len s = (items s).length := by
  unfold len items
  induction s with
  | nil => rfl
  | cons p rest ih =>
    simp only [List.map_cons, List.sum_cons, List.flatMap_cons, List.length_append, List.length_map]
    rw [ih]

/-- each stored unordered pair is listed exactly once, under its ordered key, with the value a read returns -/
theorem items_spec (s : State) (hwf : WF s) :
    ((items s).map (fun t => (t.1, t.2.1))).Nodup ∧
    ∀ o i v, (o, i, v) ∈ items s → sle o i = true ∧ get s o i = v ∧ 0 ≤ v := by
  constructor
  · unfold items
    have key : ∀ (l : State), (l.map Prod.fst).Nodup → (∀ p ∈ l, (p.2.map Prod.fst).Nodup) →
        ((l.flatMap (fun p => p.2.map (fun q => (p.1, q.1, q.2)))).map (fun t => (t.1, t.2.1))).Nodup := by
      intro l
      induction l with
      | nil => intro _ _; simp
      | cons p rest ih =>
        intro h1 h2
        simp only [List.map_cons, List.nodup_cons] at h1
        simp only [List.flatMap_cons, List.map_append, List.nodup_append]
        refine ⟨?_, ih h1.2 (fun q hq => h2 q (List.mem_cons_of_mem _ hq)), ?_⟩
        · simp only [List.map_map]
          have hinner := h2 p List.mem_cons_self
          have : (p.2.map ((fun t : Str × Str × Int => (t.1, t.2.1)) ∘ fun q => (p.1, q.1, q.2))) =
              (p.2.map Prod.fst).map (fun k => (p.1, k)) := by simp [List.map_map, Function.comp_def]
          rw [this]
          exact nodup_map_inj _ _ (fun a b hab => (Prod.mk.inj hab).2) hinner
        · intro x hx y hy hxy
          subst hxy
          simp only [List.mem_map, List.mem_flatMap] at hx hy
          obtain ⟨t, ⟨q, _, rfl⟩, rfl⟩ := hx
          obtain ⟨t', ⟨p', hp', q', _, rfl⟩, heq⟩ := hy
          simp only [Prod.mk.injEq] at heq
          exact h1.1 (List.mem_map.mpr ⟨p', hp', heq.1⟩)
    exact key s hwf.outer (fun p hp => (hwf.inner p hp).1)
  · intro o i v h
    obtain ⟨inner, h1, h2⟩ := (mem_items_iff s hwf o i v).mp h
    have hp := (mem_iff_lookup s hwf.outer o inner).mpr h1
    have hq := (mem_iff_lookup inner (hwf.inner _ hp).1 i v).mpr h2
    obtain ⟨hs, hv⟩ := (hwf.inner _ hp).2.2 (i, v) hq
    refine ⟨hs, ?_, hv⟩
    unfold get norm
    simp only at hs
    simp only [hs, if_true, h1]
    have hne : inner.isEmpty = false := by
      cases inner with
      | nil => cases hq
      | cons _ _ => rfl
    simp [hne, h2]

theorem stored_set (s s' : State) (a b : Str) (v : Int) (h : set s a b v = .ok s') (o i : Str) :
    Stored s' o i ↔ (o, i) = norm a b ∨ Stored s o i := by
  unfold set at h
  by_cases hv : v < 0
  · simp [hv] at h
  · simp only [hv, if_false] at h
    injection h with h
    subst h
    unfold Stored
    by_cases ho : o = (norm a b).1
    · subst ho
      by_cases hi : i = (norm a b).2
      · subst hi
        constructor
        · intro _; exact Or.inl rfl
        · intro _; exact ⟨_, v, lookup_upsert_same _ _ _, lookup_upsert_same _ _ _⟩
      · have hne : ¬ (((norm a b).1, i) = norm a b) := by
          intro hh; apply hi; rw [← hh]
        constructor
        · rintro ⟨inner, w, h1, h2⟩
          rw [lookup_upsert_same] at h1
          injection h1 with h1; subst h1
          rw [lookup_upsert_other _ _ _ _ hi] at h2
          cases hl : lookup (norm a b).1 s with
          | none => rw [hl] at h2; simp [lookup] at h2
          | some inner0 => rw [hl] at h2; exact Or.inr ⟨inner0, w, rfl, h2⟩
        · rintro (h | ⟨inner0, w, h1, h2⟩)
          · exact absurd h hne
          · refine ⟨_, w, lookup_upsert_same _ _ _, ?_⟩
            rw [lookup_upsert_other _ _ _ _ hi, h1]; exact h2
    · rw [lookup_upsert_other _ _ _ _ ho]
      have hne : ¬ ((o, i) = norm a b) := by
        intro hh; apply ho; rw [← hh]
      simp [hne]

/-- **A pair is stored exactly when an accepted `set` addressed it (in either order).** -/
theorem stored_run (ops : List Op) (o i : Str) :
    Stored (run ops) o i ↔ ∃ a b v, Op.set a b v ∈ ops ∧ 0 ≤ v ∧ norm a b = (o, i) := by
  unfold run
  suffices h : ∀ s, Stored (ops.foldl stepOp s) o i ↔
      (Stored s o i ∨ ∃ a b v, Op.set a b v ∈ ops ∧ 0 ≤ v ∧ norm a b = (o, i)) by
    rw [h []]
    simp [Stored, lookup]
  induction ops with
  | nil => intro s; simp
  | cons op rest ih =>
    intro s
    simp only [List.foldl_cons]
    rw [ih]
    cases op with
    | get a b => simp [stepOp]
    | len => simp [stepOp]
    | set a b v =>
      simp only [stepOp]
      cases hs : set s a b v with
      | error e =>
        have hv : v < 0 := by
          unfold set at hs
          by_cases hv : v < 0
          · exact hv
          · simp [hv] at hs
        simp only [List.mem_cons]
        constructor
        · rintro (h | ⟨a', b', v', h1, h2, h3⟩)
          · exact Or.inl h
          · exact Or.inr ⟨a', b', v', Or.inr h1, h2, h3⟩
        · rintro (h | ⟨a', b', v', h1 | h1, h2, h3⟩)
          · exact Or.inl h
          · injection h1 with e1 e2 e3; subst e3; omega
          · exact Or.inr ⟨a', b', v', h1, h2, h3⟩
      | ok s' =>
        have hv : 0 ≤ v := by
          unfold set at hs
          by_cases hv : v < 0
          · simp [hv] at hs
          · omega
        rw [stored_set s s' a b v hs]
        simp only [List.mem_cons]
        constructor
        · rintro ((h | h) | ⟨a', b', v', h1, h2, h3⟩)
          · exact Or.inr ⟨a, b, v, Or.inl rfl, hv, h.symm⟩
          · exact Or.inl h
          · exact Or.inr ⟨a', b', v', Or.inr h1, h2, h3⟩
        · rintro (h | ⟨a', b', v', h1 | h1, h2, h3⟩)
          · exact Or.inl (Or.inr h)
          · injection h1 with e1 e2 e3; subst e1 e2 e3; exact Or.inl (Or.inl h3.symm)
          · exact Or.inr ⟨a', b', v', h1, h2, h3⟩

end Hpv.Sim

namespace Hpv.Sim

/-! ### metadata codec -/

theorem splitOn_no (c : Nat) (s : Str) (h : c ∉ s) : splitOn c s = [s] := by
  induction s with
  | nil => rfl
  | cons x xs ih =>
    simp only [List.mem_cons, not_or] at h
    have hx : ¬ x = c := fun e => h.1 e.symm
    simp only [splitOn, hx, if_false, ih h.2]

theorem splitOn_append (c : Nat) (p r : Str) (h : c ∉ p) : splitOn c (p ++ c :: r) = p :: splitOn c r := by
  induction p with
  | nil => simp [splitOn]
  | cons x xs ih =>
    simp only [List.mem_cons, not_or] at h
    have hx : ¬ x = c := fun e => h.1 e.symm
    simp only [List.cons_append, splitOn, hx, if_false, ih h.2]

theorem splitOn_joinWith (c : Nat) (parts : List Str) (hne : parts ≠ []) (h : ∀ p ∈ parts, c ∉ p) :
    splitOn c (joinWith c parts) = parts := by
  induction parts with
  | nil => exact absurd rfl hne
  | cons p rest ih =>
    cases rest with
    | nil => simp only [joinWith]; exact splitOn_no c p (h p List.mem_cons_self)
    | cons q ps =>
      simp only [joinWith]
      rw [splitOn_append c p _ (h p List.mem_cons_self)]
      rw [ih (by simp) (fun x hx => h x (List.mem_cons_of_mem _ hx))]

theorem upsert_not_mem {β} (k : Str) (v : β) (l : List (Str × β)) (h : k ∉ l.map Prod.fst) : upsert k v l = l ++ [(k, v)] := by
  induction l with
  | nil => rfl
  | cons p rest ih =>
    obtain ⟨k', v'⟩ := p
    simp only [List.map_cons, List.mem_cons, not_or] at h
    have hk : ¬ k' = k := fun e => h.1 e.symm
    simp only [upsert, hk, if_false, List.cons_append, ih h.2]

/-- metadata whose keys and values avoid the forbidden characters, with distinct keys, and not empty
(`to_csv` always adds the `created` stamp) -/
structure MetaOk (forb : List Nat) (m : Meta) : Prop where
  clean : ∀ kv ∈ m, hasForbidden forb kv.1 = false ∧ hasForbidden forb kv.2 = false
  keys : (m.map Prod.fst).Nodup
  nonempty : m ≠ []

theorem not_mem_of_clean (forb : List Nat) (s : Str) (c : Nat) (hc : forb.contains c = true) (h : hasForbidden forb s = false) :
    c ∉ s := by
  intro hin
  unfold hasForbidden at h
  rw [List.any_eq_false] at h
  exact h c hin hc

theorem foldl_decode (items : List (Str × Str)) (acc : Meta)
    (hclean : ∀ kv ∈ items, equals ∉ kv.1 ∧ equals ∉ kv.2)
    (hnd : (items.map Prod.fst).Nodup) (hdis : ∀ kv ∈ items, kv.1 ∉ acc.map Prod.fst) :
    (items.map (fun kv => kv.1 ++ equals :: kv.2)).foldl decodeItem (.ok acc) = .ok (acc ++ items) := by
  induction items generalizing acc with
  | nil => simp
  | cons kv rest ih =>
    obtain ⟨k, v⟩ := kv
    have hc := hclean (k, v) List.mem_cons_self
    have hsplit : splitOn equals (k ++ equals :: v) = [k, v] := by
      rw [splitOn_append equals k v hc.1, splitOn_no equals v hc.2]
    simp only [List.map_cons, List.nodup_cons] at hnd
    simp only [List.map_cons, List.foldl_cons, decodeItem, hsplit]
    rw [upsert_not_mem k v acc (hdis (k, v) List.mem_cons_self)]
    rw [ih (acc ++ [(k, v)]) (fun x hx => hclean x (List.mem_cons_of_mem _ hx)) hnd.2]
    · simp
    · intro x hx
      simp only [List.map_append, List.map_cons, List.map_nil, List.mem_append, List.mem_singleton, not_or]
      refine ⟨hdis x (List.mem_cons_of_mem _ hx), ?_⟩
      intro hxk
      exact hnd.1 (hxk ▸ List.mem_map.mpr ⟨x, hx, rfl⟩)

/-- **Metadata round trip**: for any table of forbidden characters that contains both separators (and, for the
reader, both line breaks), decoding the encoded metadata gives the metadata back. -/
theorem meta_round_trip (forb : List Nat) (htab : TableOk forb = true) (m : Meta) (hm : MetaOk forb m) :
    ∃ s, encodeMeta forb m = .ok s ∧ decodeMeta s = .ok m ∧ (10 : Nat) ∉ s ∧ (13 : Nat) ∉ s := by
  unfold TableOk at htab
  simp only [Bool.and_eq_true] at htab
  obtain ⟨⟨⟨hsemi, heq⟩, hlf⟩, hcr⟩ := htab
  have hany : (m.any fun kv => hasForbidden forb kv.1 || hasForbidden forb kv.2) = false := by
    rw [List.any_eq_false]
    intro kv hkv
    obtain ⟨h1, h2⟩ := hm.clean kv hkv
    simp [h1, h2]
  refine ⟨joinWith semicolon (m.map (fun kv => kv.1 ++ equals :: kv.2)), by simp [encodeMeta, hany], ?_, ?_, ?_⟩
  · unfold decodeMeta
    rw [splitOn_joinWith semicolon _ (by simpa using hm.nonempty)]
    · have := foldl_decode m [] (fun kv hkv => ⟨not_mem_of_clean forb _ _ heq (hm.clean kv hkv).1,
        not_mem_of_clean forb _ _ heq (hm.clean kv hkv).2⟩) hm.keys (by intro kv _; simp)
      simpa using this
    · intro p hp
      obtain ⟨kv, hkv, rfl⟩ := List.mem_map.mp hp
      simp only [List.mem_append, List.mem_cons, not_or]
      exact ⟨not_mem_of_clean forb _ _ hsemi (hm.clean kv hkv).1, by decide,
        not_mem_of_clean forb _ _ hsemi (hm.clean kv hkv).2⟩
  all_goals
    intro hin
    -- a character of the joined string is a separator or a character of some key / value
    have key : ∀ (c : Nat) (parts : List Str), c ∈ joinWith semicolon parts → c = semicolon ∨ ∃ p ∈ parts, c ∈ p := by
      intro c parts
      induction parts with
      | nil => intro h; simp [joinWith] at h
      | cons p rest ih =>
        cases rest with
        | nil => intro h; exact Or.inr ⟨p, List.mem_cons_self, by simpa [joinWith] using h⟩
        | cons q ps =>
          intro h
          simp only [joinWith, List.mem_append, List.mem_cons] at h
          rcases h with h | h | h
          · exact Or.inr ⟨p, List.mem_cons_self, h⟩
          · exact Or.inl h
          · rcases ih h with h | ⟨p', hp', hc⟩
            · exact Or.inl h
            · exact Or.inr ⟨p', List.mem_cons_of_mem _ hp', hc⟩
    rcases key _ _ hin with h | ⟨p, hp, hc⟩
    · revert h; decide
    · obtain ⟨kv, hkv, rfl⟩ := List.mem_map.mp hp
      simp only [List.mem_append, List.mem_cons] at hc
      rcases hc with hc | hc | hc
      · first
        | exact not_mem_of_clean forb _ _ hlf (hm.clean kv hkv).1 hc
        | exact not_mem_of_clean forb _ _ hcr (hm.clean kv hkv).1 hc
      · revert hc; decide
      · first
        | exact not_mem_of_clean forb _ _ hlf (hm.clean kv hkv).2 hc
        | exact not_mem_of_clean forb _ _ hcr (hm.clean kv hkv).2 hc

/-- metadata containing a forbidden character is rejected instead of being written -/
theorem meta_rejected (forb : List Nat) (m : Meta) (kv : Str × Str) (hkv : kv ∈ m)
    (h : hasForbidden forb kv.1 = true ∨ hasForbidden forb kv.2 = true) : encodeMeta forb m = .error .valueError := by
  have : (m.any fun kv => hasForbidden forb kv.1 || hasForbidden forb kv.2) = true := by
    rw [List.any_eq_true]
    exact ⟨kv, hkv, by rcases h with h | h <;> simp [h]⟩
  simp [encodeMeta, this]

end Hpv.Sim

namespace Hpv.Sim

/-! ### the item listing determines the container (the logical core of the CSV round trip) -/

def itemOp (t : Str × Str × Int) : Op := Op.set t.1 t.2.1 t.2.2

/-- what `from_csv` does with the rows that `to_csv` wrote: one `set_similarity` per listed item -/
def rebuild (s : State) : State := run ((items s).map itemOp)

theorem norm_of_sle (o i : Str) (h : sle o i = true) : norm o i = (o, i) := by simp [norm, h]

theorem spec_items (L : List (Str × Str × Int)) (hsle : ∀ t ∈ L, sle t.1 t.2.1 = true ∧ 0 ≤ t.2.2)
    (hnd : (L.map (fun t => (t.1, t.2.1))).Nodup) (x y : Str) :
    (∀ v, ((norm x y).1, (norm x y).2, v) ∈ L → spec (L.map itemOp) x y = v) ∧
    ((∀ v, ((norm x y).1, (norm x y).2, v) ∉ L) → spec (L.map itemOp) x y = 0) := by
  induction L with
  | nil =>
    constructor
    · intro v h; cases h
    · intro _; rfl
  | cons t rest ih =>
    obtain ⟨o, i, w⟩ := t
    have ht := hsle (o, i, w) List.mem_cons_self
    simp only at ht
    simp only [List.map_cons, List.nodup_cons] at hnd
    obtain ⟨ih1, ih2⟩ := ih (fun t ht => hsle t (List.mem_cons_of_mem _ ht)) hnd.2
    have hw : ¬ w < 0 := by omega
    simp only [List.map_cons, itemOp, spec, hw, if_false, norm_of_sle o i ht.1]
    constructor
    · intro v hv
      rcases List.mem_cons.mp hv with h | h
      · injection h with h1 h2; injection h2 with h2 h3
        have : (o, i) = norm x y := by rw [← h1, ← h2]
        simp [this, h3]
      · have hne : ¬ ((o, i) = norm x y) := by
          intro heq
          apply hnd.1
          rw [heq]
          exact List.mem_map.mpr ⟨_, h, rfl⟩
        simp only [hne, if_false]
        exact ih1 v h
    · intro hno
      have hne : ¬ ((o, i) = norm x y) := by
        intro heq
        apply hno w
        rw [← heq]; exact List.mem_cons_self
      simp only [hne, if_false]
      exact ih2 (fun v hv => hno v (List.mem_cons_of_mem _ hv))

theorem get_not_stored (s : State) (hwf : WF s) (x y : Str) (h : ∀ v, ((norm x y).1, (norm x y).2, v) ∉ items s) :
    get s x y = 0 := by
  unfold get
  simp only
  cases hl : lookup (norm x y).1 s with
  | none => rfl
  | some inner =>
    simp only
    split
    · rfl
    · cases hi : lookup (norm x y).2 inner with
      | none => rfl
      | some v => exact absurd ((mem_items_iff s hwf _ _ v).mpr ⟨inner, hl, hi⟩) (h v)

/-- **Rebuilding from the item listing preserves every read** (both key orders, self pairs, stored zeros). -/
theorem rebuild_get (s : State) (hwf : WF s) (x y : Str) : get (rebuild s) x y = get s x y := by
  unfold rebuild
  rw [get_run]
  obtain ⟨hnd, hprop⟩ := items_spec s hwf
  -- the reversed item list has the same properties
  have hsle : ∀ t ∈ (items s).reverse, sle t.1 t.2.1 = true ∧ 0 ≤ t.2.2 := by
    intro t ht
    obtain ⟨h1, _, h3⟩ := hprop t.1 t.2.1 t.2.2 (List.mem_reverse.mp ht)
    exact ⟨h1, h3⟩
  have hnd' : ((items s).reverse.map (fun t => (t.1, t.2.1))).Nodup := by
    rw [List.map_reverse]; exact (List.reverse_perm _).symm.nodup hnd
  rw [← List.map_reverse]
  obtain ⟨h1, h2⟩ := spec_items (items s).reverse hsle hnd' x y
  by_cases hex : ∃ v, ((norm x y).1, (norm x y).2, v) ∈ items s
  · obtain ⟨v, hv⟩ := hex
    rw [h1 v (List.mem_reverse.mpr hv)]
    obtain ⟨_, hg, _⟩ := hprop _ _ v hv
    -- get s x y = get s (norm x y) by symmetry of the key normalisation
    have : get s x y = get s (norm x y).1 (norm x y).2 := by
      unfold norm
      cases hxy : sle x y
      · simp only [Bool.false_eq_true, if_false]; exact get_comm s x y
      · simp
    rw [this, hg]
  · have hno : ∀ v, ((norm x y).1, (norm x y).2, v) ∉ items s := fun v hv => hex ⟨v, hv⟩
    rw [h2 (fun v hv => hno v (List.mem_reverse.mp hv)), get_not_stored s hwf x y hno]

/-- the listed items re-inserted IN ANY ORDER (a writer may sort its rows, a reader meets them in file order) give a container
with the same similarities -/
theorem rebuild_any_order (s : State) (hwf : WF s) (L : List (Str × Str × Int)) (hperm : L.Perm (items s)) (x y : Str) :
    get (run (L.map itemOp)) x y = get s x y := by
  rw [get_run]
  obtain ⟨hnd, hprop⟩ := items_spec s hwf
  have hmem : ∀ t, t ∈ L.reverse ↔ t ∈ items s := fun t => by rw [List.mem_reverse]; exact hperm.mem_iff
  have hsle : ∀ t ∈ L.reverse, sle t.1 t.2.1 = true ∧ 0 ≤ t.2.2 := by
    intro t ht
    obtain ⟨h1, _, h3⟩ := hprop t.1 t.2.1 t.2.2 ((hmem t).mp ht)
    exact ⟨h1, h3⟩
  have hnd' : (L.reverse.map (fun t => (t.1, t.2.1))).Nodup := by
    have hp : (L.reverse.map (fun t => (t.1, t.2.1))).Perm ((items s).map (fun t => (t.1, t.2.1))) :=
      ((List.reverse_perm L).trans hperm).map _
    exact hp.symm.nodup hnd
  rw [← List.map_reverse]
  obtain ⟨h1, h2⟩ := spec_items L.reverse hsle hnd' x y
  by_cases hex : ∃ v, ((norm x y).1, (norm x y).2, v) ∈ items s
  · obtain ⟨v, hv⟩ := hex
    rw [h1 v ((hmem _).mpr hv)]
    obtain ⟨_, hg, _⟩ := hprop _ _ v hv
    have : get s x y = get s (norm x y).1 (norm x y).2 := by
      unfold norm
      cases hxy : sle x y
      · simp only [Bool.false_eq_true, if_false]; exact get_comm s x y
      · simp
    rw [this, hg]
  · have hno : ∀ v, ((norm x y).1, (norm x y).2, v) ∉ items s := fun v hv => hex ⟨v, hv⟩
    rw [h2 (fun v hv => hno v ((hmem _).mp hv)), get_not_stored s hwf x y hno]

/-! ### file framing -/

theorem unframeAux_false (ls : List Str) : unframeAux false ls = ([], ls) := by
  induction ls with
  | nil => rfl
  | cons l ls ih => simp [unframeAux, ih]

/-- once a line that is not a comment has been seen, everything is handed to the csv reader, `#` or not -/
theorem unframe_body (h : Str) (rest : List Str) (hh : isComment h = false) : unframe (h :: rest) = ([], h :: rest) := by
  simp [unframe, unframeAux, hh, unframeAux_false]

theorem unframe_frame (title metaLine : Str) (body : List Str)
    (hbody : body = [] ∨ ∃ h rest, body = h :: rest ∧ isComment h = false) :
    unframe (frame title metaLine body) = ([hash :: title ++ [lf], hash :: metaLine ++ [lf]], body) := by
  have hc : ∀ t : Str, isComment (hash :: t ++ [lf]) = true := by intro t; simp [isComment]
  have hb : unframeAux true body = ([], body) := by
    rcases hbody with rfl | ⟨h, rest, rfl, hh⟩
    · rfl
    · exact unframe_body h rest hh
  simp only [unframe, frame, unframeAux, hc, if_true, hb]

theorem dropWhile_of_head {α} (p : α → Bool) (l : List α) (h : ∀ a ∈ l.head?, p a = false) : l.dropWhile p = l := by
  cases l with
  | nil => rfl
  | cons a t => simp [List.dropWhile, h a (by simp)]

theorem rstripNl_line (s : Str) (h10 : lf ∉ s) (h13 : cr ∉ s) : rstripNl (s ++ [lf]) = s := by
  unfold rstripNl
  have h1 : (s ++ [lf]).reverse = lf :: s.reverse := by simp
  rw [h1]
  have h2 : (lf :: s.reverse).dropWhile (fun c => c == lf || c == cr) = s.reverse.dropWhile (fun c => c == lf || c == cr) := by
    simp [List.dropWhile]
  rw [h2, dropWhile_of_head]
  · simp
  · intro a ha
    have hmem : a ∈ s := by
      have : a ∈ s.reverse := List.mem_of_mem_head? ha
      exact List.mem_reverse.mp this
    have ha10 : a ≠ lf := fun e => h10 (e ▸ hmem)
    have ha13 : a ≠ cr := fun e => h13 (e ▸ hmem)
    simp [ha10, ha13]

/-- **The file round trip at the level of physical lines**: what `from_csv` takes for the header of a written file are
exactly the two comment lines, the metadata decoded from them are the metadata written, and the csv reader receives exactly
the lines the csv writer produced - whatever these lines begin with. -/
theorem file_round_trip (forb : List Nat) (htab : TableOk forb = true) (m : Meta) (hm : MetaOk forb m) (title : Str)
    (body : List Str) (hbody : body = [] ∨ ∃ h rest, body = h :: rest ∧ isComment h = false) :
    ∃ s, encodeMeta forb m = .ok s ∧ (unframe (frame title s body)).2 = body ∧
      parseMeta (unframe (frame title s body)).1 = .ok m := by
  obtain ⟨s, henc, hdec, h10, h13⟩ := meta_round_trip forb htab m hm
  refine ⟨s, henc, ?_, ?_⟩
  · rw [unframe_frame title s body hbody]
  · rw [unframe_frame title s body hbody]
    have hlen : ¬ (hash :: s ++ [lf]).length < 2 := by simp
    simp only [parseMeta, hlen, if_false]
    have : (hash :: s ++ [lf]).drop 1 = s ++ [lf] := by simp
    rw [this, rstripNl_line s h10 h13, hdec]

end Hpv.Sim
