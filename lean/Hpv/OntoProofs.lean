import Hpv.Onto
import Hpv.SimProofs
namespace Hpv.Onto
open Hpv.Sim

def ins (m : List (Str × Term)) (kv : Str × Term) : List (Str × Term) := upsert kv.1 kv.2 m

theorem addTerm_eq (m : List (Str × Term)) (t : Term) :
    addTerm m t = ((t.id :: t.alts).map (fun k => (k, t))).foldl ins m := by
  unfold addTerm
  simp only [List.map_cons, List.foldl_cons, ins]
  generalize upsert t.id t m = m0
  induction t.alts generalizing m0 with
  | nil => rfl
  | cons a as ih => simp only [List.foldl_cons, List.map_cons]; exact ih _

theorem mkMap_eq (ts : List Term) : mkMap ts = (bindings ts).foldl ins [] := by
  unfold mkMap bindings
  generalize ([] : List (Str × Term)) = m0
  induction current ts generalizing m0 with
  | nil => rfl
  | cons t rest ih =>
    simp only [List.foldl_cons, List.flatMap_cons, List.foldl_append]
    rw [addTerm_eq]; exact ih _

theorem lookup_foldl_ins (kvs : List (Str × Term)) (m : List (Str × Term)) (k : Str)
    (hk : k ∉ kvs.map Prod.fst) : lookup k (kvs.foldl ins m) = lookup k m := by
  induction kvs generalizing m with
  | nil => rfl
  | cons kv rest ih =>
    simp only [List.map_cons, List.mem_cons, not_or] at hk
    simp only [List.foldl_cons]
    rw [ih _ hk.2]
    exact lookup_upsert_other _ _ _ _ hk.1

/-- with pairwise distinct keys the map returns exactly the binding that was inserted -/
theorem lookup_foldl_ins_nodup (kvs : List (Str × Term)) (m : List (Str × Term)) (k : Str) (t : Term)
    (hnd : (kvs.map Prod.fst).Nodup) (hm : ∀ k', k' ∈ kvs.map Prod.fst → lookup k' m = none) :
    lookup k (kvs.foldl ins m) = some t ↔ ((k, t) ∈ kvs ∨ (k ∉ kvs.map Prod.fst ∧ lookup k m = some t)) := by
  induction kvs generalizing m with
  | nil => simp
  | cons kv rest ih =>
    obtain ⟨k0, t0⟩ := kv
    simp only [List.map_cons, List.nodup_cons] at hnd
    simp only [List.foldl_cons]
    have hm' : ∀ k', k' ∈ rest.map Prod.fst → lookup k' (ins m (k0, t0)) = none := by
      intro k' hk'
      have hne : k' ≠ k0 := fun h => hnd.1 (h ▸ hk')
      simp only [ins]
      rw [lookup_upsert_other _ _ _ _ hne]
      exact hm k' (by simp [hk'])
    rw [ih _ hnd.2 hm']
    simp only [ins, List.mem_cons, List.map_cons, Prod.mk.injEq, not_or]
    by_cases hk : k = k0
    · subst hk
      rw [lookup_upsert_same]
      constructor
      · rintro (h | ⟨_, h⟩)
        · exact Or.inl (Or.inr h)
        · injection h with h; subst h; exact Or.inl (Or.inl ⟨rfl, rfl⟩)
      · rintro (h | ⟨⟨h, _⟩, _⟩)
        · rcases h with ⟨_, h⟩ | h
          · subst h; exact Or.inr ⟨hnd.1, rfl⟩
          · exact Or.inl h
        · exact absurd rfl h
    · rw [lookup_upsert_other _ _ _ _ hk]
      constructor
      · rintro (h | ⟨h1, h2⟩)
        · exact Or.inl (Or.inr h)
        · exact Or.inr ⟨⟨hk, h1⟩, h2⟩
      · rintro (h | ⟨⟨_, h1⟩, h2⟩)
        · rcases h with ⟨h, _⟩ | h
          · exact absurd h hk
          · exact Or.inl h
        · exact Or.inr ⟨h1, h2⟩

/-- the ids of current terms are pairwise distinct (the property's "disjoint assignment of alternate ids") -/
def DisjointIds (ts : List Term) : Prop := ((bindings ts).map Prod.fst).Nodup

/-- C06: a lookup succeeds exactly for the primary and alternate ids of current terms, and returns that term. -/
theorem getTerm_spec (ts : List Term) (hd : DisjointIds ts) (k : Str) (t : Term) :
    getTerm ts k = some t ↔ t ∈ current ts ∧ (k = t.id ∨ k ∈ t.alts) := by
  unfold getTerm
  rw [mkMap_eq, lookup_foldl_ins_nodup _ _ k t hd (by intro k' _; rfl)]
  simp only [lookup, and_false, or_false, reduceCtorEq]
  unfold bindings
  simp only [List.mem_flatMap, List.mem_map, List.mem_cons, Prod.mk.injEq]
  constructor
  · rintro ⟨t', ht', k', hk', rfl, rfl⟩
    exact ⟨ht', hk'⟩
  · rintro ⟨ht, hk⟩
    exact ⟨t, ht, k, hk, rfl, rfl⟩

theorem obsolete_never_returned (ts : List Term) (hd : DisjointIds ts) (k : Str) (t : Term)
    (h : getTerm ts k = some t) : t.obsolete = false := by
  have := ((getTerm_spec ts hd k t).mp h).1
  unfold current at this
  simpa using (List.mem_filter.mp this).2

end Hpv.Onto

namespace Hpv.Onto
open Hpv.Sim

theorem keys_upsert {β} (k : Str) (v : β) (l : List (Str × β)) (x : Str) :
    x ∈ (upsert k v l).map Prod.fst ↔ x = k ∨ x ∈ l.map Prod.fst := by
  induction l with
  | nil => simp [upsert]
  | cons p rest ih =>
    obtain ⟨k', v'⟩ := p
    unfold upsert
    by_cases h : k' = k
    · subst h; simp
    · simp only [h, if_false, List.map_cons, List.mem_cons, ih]
      constructor
      · rintro (h1 | h1 | h1)
        · exact Or.inr (Or.inl h1)
        · exact Or.inl h1
        · exact Or.inr (Or.inr h1)
      · rintro (h1 | h1 | h1)
        · exact Or.inr (Or.inl h1)
        · exact Or.inl h1
        · exact Or.inr (Or.inr h1)

theorem nodup_upsert {β} (k : Str) (v : β) (l : List (Str × β)) (h : (l.map Prod.fst).Nodup) :
    ((upsert k v l).map Prod.fst).Nodup := by
  induction l with
  | nil => simp [upsert]
  | cons p rest ih =>
    obtain ⟨k', v'⟩ := p
    simp only [List.map_cons, List.nodup_cons] at h
    unfold upsert
    by_cases hk : k' = k
    · subst hk; simp only [if_true, List.map_cons, List.nodup_cons]; exact h
    · simp only [hk, if_false, List.map_cons, List.nodup_cons]
      refine ⟨?_, ih h.2⟩
      rw [keys_upsert]
      rintro (h1 | h1)
      · exact hk h1
      · exact h.1 h1

theorem lookup_none_iff {β} (k : Str) (l : List (Str × β)) : lookup k l = none ↔ k ∉ l.map Prod.fst := by
  induction l with
  | nil => simp [lookup]
  | cons p rest ih =>
    obtain ⟨k', v'⟩ := p
    unfold lookup
    by_cases h : k' = k
    · subst h; simp
    · simp only [h, if_false, ih, List.map_cons, List.mem_cons, not_or]
      exact ⟨fun h1 => ⟨fun e => h e.symm, h1⟩, fun h1 => h1.2⟩

theorem nodup_keys_foldl_ins (kvs : List (Str × Term)) (m : List (Str × Term)) (h : (m.map Prod.fst).Nodup) :
    ((kvs.foldl ins m).map Prod.fst).Nodup := by
  induction kvs generalizing m with
  | nil => exact h
  | cons kv rest ih => exact ih _ (nodup_upsert kv.1 kv.2 m h)

/-- the term-id iterator lists each key of the map once -/
theorem termIds_nodup (ts : List Term) : (termIds ts).Nodup := by
  unfold termIds
  rw [mkMap_eq]
  exact nodup_keys_foldl_ins _ [] (by simp)

theorem mem_termIds (ts : List Term) (k : Str) : k ∈ termIds ts ↔ (getTerm ts k).isSome := by
  unfold termIds getTerm
  cases h : lookup k (mkMap ts) with
  | none => simp [(lookup_none_iff k _).mp h]
  | some t =>
    simp only [Option.isSome_some, iff_true]
    apply Classical.byContradiction
    intro hn
    rw [(lookup_none_iff k _).mpr hn] at h
    cases h

end Hpv.Onto
