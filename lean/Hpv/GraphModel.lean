/-
Executable model of the three shipped graph factories, the two graph classes and the node / index API
(src/hpotk/graph/_factory.py, _csr_idx_graph.py, _csr_graph.py, _api.py) and of the module-level helpers
(src/hpotk/algorithm/_traversal.py, _augment.py).  Generic over the node key type `κ` with a decidable order `o`
(for TermIds: (prefix, id) under the C04 order).  Core Lean only.
-/
import Hpv.Basic
import Hpv.Csr
import Hpv.Matrix
import Hpv.Graph
import Hpv.Indexed

namespace Hpv.GM
open Hpv.Graph Hpv.Csr Hpv.Indexed

variable {κ : Type} [DecidableEq κ]

/-- order-preserving de-duplication (`list(dict.fromkeys(xs))`) -/
def dedup {α} [DecidableEq α] : List α → List α
  | [] => []
  | x :: xs => x :: (dedup xs).filter (fun y => y ≠ x)

/-- parentless terms: objects that are never a subject (a `set` in Python; first-occurrence order here) -/
def candidates (E : List (Edge κ)) : List κ :=
  dedup ((E.map (·.2)).filter (fun x => !(E.map (·.1)).contains x))

/-- `_phenol_find_root` -/
def findRoot (owl : κ) (E : List (Edge κ)) : Except Err (κ × List (Edge κ)) :=
  match candidates E with
  | [] => .error .valueError
  | [c] => .ok (c, E)
  | cs => .ok (owl, E ++ cs.map (fun c => (c, owl)))

/-! ### `CsrIndexedGraphFactory` / `CsrIndexedOntologyGraph` -/

structure IGraph (κ : Type) where
  root : Nat
  nodes : List κ
  children : Static
  parents : Static

def findIdx (nodes : List κ) (x : κ) : Option Nat :=
  let i := nodes.findIdx (· = x)
  if i < nodes.length then some i else none

def buildIndexed (o : Graph.Ord κ) (owl : κ) (E : List (Edge κ)) : Except Err (IGraph κ) :=
  match findRoot owl (dedup E) with
  | .error e => .error e
  | .ok (root, E') =>
    match Indexed.build o E' with
    | none => .error .other
    | some g =>
      match findIdx g.nodes root with          -- `_find_root_idx`
      | none => .error .valueError
      | some r => .ok ⟨r, g.nodes, g.children, g.parents⟩

/-- `StaticCsrArray.outgoing_nodes(row)` -/
def outgoing (c : Static) (row : Int) : Except Err (List Nat) :=
  if row < 0 ∨ ((c.indptr.length : Int) - 1) ≤ row then .error .valueError else .ok (c.row row.toNat)

/-- the index-space traversal generator, consumed to the end -/
def traverseIdx (c : Static) (n : Nat) (src : Int) : Except Err (List Nat) :=
  match outgoing c src with
  | .error e => .error e
  | .ok _ =>
    match traverse popStack c.row n src.toNat with
    | some r => .ok r
    | none => .error .other      -- fuel exhausted: impossible (theorem)

def IGraph.childrenIdx (g : IGraph κ) (i : Int) : Except Err (List Nat) := outgoing g.children i
def IGraph.parentsIdx (g : IGraph κ) (i : Int) : Except Err (List Nat) := outgoing g.parents i
def IGraph.descendantIdx (g : IGraph κ) (i : Int) : Except Err (List Nat) := traverseIdx g.children g.nodes.length i
def IGraph.ancestorIdx (g : IGraph κ) (i : Int) : Except Err (List Nat) := traverseIdx g.parents g.nodes.length i

def IGraph.idxToNode (g : IGraph κ) (i : Int) : Except Err κ :=
  if i < 0 ∨ (g.nodes.length : Int) ≤ i then .error .valueError
  else match g.nodes[i.toNat]? with
    | some k => .ok k
    | none => .error .valueError

/-- `node_to_idx`: a dict built by enumerating the (sorted, duplicate-free) node array -/
def IGraph.nodeToIdx (o : Graph.Ord κ) (g : IGraph κ) (k : κ) : Option Nat := indexOf? o g.nodes k

inductive Q | children | parents | ancestors | descendants
deriving DecidableEq, Repr

def IGraph.queryIdx (g : IGraph κ) : Q → Int → Except Err (List Nat)
  | .children, i => g.childrenIdx i
  | .parents, i => g.parentsIdx i
  | .ancestors, i => g.ancestorIdx i
  | .descendants, i => g.descendantIdx i

def mapNodes (nodes : List κ) (idxs : List Nat) : List κ := idxs.filterMap (nodes[·]?)

/-- `get_children/parents/ancestors/descendants(source, include_source)`; `arg = none` models an argument that
`_map_to_term_id` rejects (wrong type, non-CURIE string). -/
def IGraph.query (o : Graph.Ord κ) (g : IGraph κ) (q : Q) (arg : Option κ) (incl : Bool) : Except Err (List κ) :=
  match arg with
  | none => .error .valueError
  | some k =>
    match g.nodeToIdx o k with
    | none => .error .valueError
    | some i =>
      match g.queryIdx q i with
      | .error e => .error e
      | .ok idxs => .ok ((if incl then mapNodes g.nodes [i] else []) ++ mapNodes g.nodes idxs)

def IGraph.isLeaf (o : Graph.Ord κ) (g : IGraph κ) (arg : Option κ) : Except Err Bool :=
  match arg with
  | none => .error .valueError
  | some k =>
    match g.nodeToIdx o k with
    | none => .error .valueError
    | some i => (g.childrenIdx i).map (·.isEmpty)

inductive Pred | parentOf | childOf | ancestorOf | descendantOf
deriving DecidableEq, Repr

/-- `is_*_of_idx(sub, obj)` -/
def IGraph.predIdx (g : IGraph κ) : Pred → Int → Int → Except Err Bool
  | .parentOf, s, ob => (g.parentsIdx ob).map (fun l => l.any (fun i => s = (i : Int)))
  | .ancestorOf, s, ob => (g.ancestorIdx ob).map (fun l => l.any (fun i => s = (i : Int)))
  | .childOf, s, ob => (g.parentsIdx s).map (fun l => l.any (fun i => ob = (i : Int)))
  | .descendantOf, s, ob => (g.ancestorIdx s).map (fun l => l.any (fun i => ob = (i : Int)))

/-- `is_*_of(sub, obj)` of `IndexedOntologyGraph` -/
def IGraph.pred (o : Graph.Ord κ) (g : IGraph κ) (p : Pred) (sub obj : Option κ) : Except Err Bool :=
  match obj with
  | none => .error .valueError
  | some ko =>
    match g.nodeToIdx o ko with
    | none => .error .valueError
    | some oi =>
      match sub with
      | none => .error .valueError
      | some ks =>
        match g.nodeToIdx o ks with
        | none => .ok false
        | some si => g.predIdx p si oi

def IGraph.contains (o : Graph.Ord κ) (g : IGraph κ) (k : κ) : Bool := (g.nodeToIdx o k).isSome

/-! ### `IncrementalCsrGraphFactory`, `CsrGraphFactory`, `BisectPoweredCsrOntologyGraph` -/

structure MGraph (κ : Type) where
  root : κ
  nodes : List κ
  m : Matrix

/-- `_preprocess_edges` -/
def preprocess (source : κ) : List (Edge κ) → Except Err (List (κ × Int))
  | [] => .ok []
  | (sub, obj) :: rest =>
    if source ≠ sub ∧ source = obj then (preprocess source rest).map ((sub, -1) :: ·)
    else if source ≠ obj ∧ source = sub then (preprocess source rest).map ((obj, 1) :: ·)
    else .error .valueError

/-- stable insertion sort by the key (`sorted(..., key=lambda e: e[0])`) -/
def insByKey (o : Graph.Ord κ) (x : κ × Int) : List (κ × Int) → List (κ × Int)
  | [] => [x]
  | y :: ys => if o.lt y.1 x.1 then y :: insByKey o x ys else x :: y :: ys

def sortByKey (o : Graph.Ord κ) (l : List (κ × Int)) : List (κ × Int) := l.foldr (insByKey o) []

/-- `make_row_col_data`: rows of (column, code); `_partition_edges` is `findAdjacent` (same fold, same cache) -/
def incRows (o : Graph.Ord κ) (nodes : List κ) (adj : Adj κ) : Nat → List κ → Except Err (List Row)
  | _, [] => .ok []
  | i, node :: rest =>
    match preprocess node (adj (some i)) with
    | .error e => .error e
    | .ok tc =>
      let cols := (sortByKey o tc).map (fun p => (indexOf? o nodes p.1, p.2))
      match allSome (cols.map (·.1)) with
      | none => .error .typeError
      | some cs =>
        match incRows o nodes adj (i + 1) rest with
        | .error e => .error e
        | .ok rows => .ok (cs.zip (cols.map (·.2)) :: rows)

def buildIncremental (o : Graph.Ord κ) (owl : κ) (E : List (Edge κ)) : Except Err (MGraph κ) :=
  match findRoot owl (dedup E) with
  | .error e => .error e
  | .ok (root, E') =>
    let nodes := nodesOf o E'
    match incRows o nodes (findAdjacent o nodes E') 0 nodes with
    | .error e => .error e
    | .ok rows => .ok ⟨root, nodes, (ofRows rows).toMatrix nodes.length nodes.length⟩

/-- `CsrGraphFactory._build_adjacency_matrix`: two builder assignments per edge -/
def builderOps (o : Graph.Ord κ) (nodes : List κ) (E : List (Edge κ)) : Except Err (List (Int × Int × Int)) :=
  E.foldr (fun e acc =>
    match indexOf? o nodes e.1, indexOf? o nodes e.2, acc with
    | some s, some d, .ok ops => .ok (((s : Int), (d : Int), (1 : Int)) :: ((d : Int), (s : Int), (-1 : Int)) :: ops)
    | _, _, .error er => .error er
    | _, _, _ => .error .keyError) (.ok [])

def buildBuilder (o : Graph.Ord κ) (owl : κ) (E : List (Edge κ)) : Except Err (MGraph κ) :=
  match findRoot owl (dedup E) with
  | .error e => .error e
  | .ok (root, E') =>
    let nodes := nodesOf o E'
    match builderOps o nodes E' with
    | .error e => .error e
    | .ok ops => .ok ⟨root, nodes, (runOps nodes.length nodes.length ops).toMatrix nodes.length nodes.length⟩

def relCode : Q → Int
  | .children => -1 | .descendants => -1      -- PARENT_RELATIONSHIP_CODE
  | .parents => 1 | .ancestors => 1           -- CHILD_RELATIONSHIP_CODE

/-- `_get_cols_with_relationship` -/
def MGraph.cols (g : MGraph κ) (rel : Int) (i : Nat) : List Nat :=
  match g.m.colIndicesOfVal (i : Int) rel with
  | .ok cs => cs
  | .error _ => []

/-- `_traverse_graph` with the source passed through `seen` when `include_source` -/
def traverseFrom (P : Pop) (succ : Nat → List Nat) (n : Nat) (init : List Nat) : Option (List Nat) :=
  loop P succ (init.length + n + 1) (dedupInto init []) init []

def MGraph.query (o : Graph.Ord κ) (g : MGraph κ) (q : Q) (arg : Option κ) (incl : Bool) : Except Err (List κ) :=
  match arg with
  | none => .error .valueError
  | some k =>
    match indexOf? o g.nodes k with
    | none => .error .valueError
    | some i =>
      let init := (if incl then [i] else []) ++ g.cols (relCode q) i
      match q with
      | .children | .parents => .ok (mapNodes g.nodes init)
      | .ancestors | .descendants =>
        match traverseFrom popQueue (g.cols (relCode q)) g.nodes.length init with
        | some r => .ok (mapNodes g.nodes r)
        | none => .error .other

def MGraph.isLeaf (o : Graph.Ord κ) (g : MGraph κ) (arg : Option κ) : Except Err Bool :=
  (g.query o .children arg false).map (·.isEmpty)

def predQ : Pred → Q
  | .parentOf => .parents | .childOf => .children | .ancestorOf => .ancestors | .descendantOf => .descendants

/-- `OntologyGraph._run_query` -/
def MGraph.pred (o : Graph.Ord κ) (g : MGraph κ) (p : Pred) (sub obj : Option κ) : Except Err Bool :=
  match sub, obj with
  | none, _ => .error .valueError
  | _, none => .error .valueError
  | some ks, some ko => (g.query o (predQ p) (some ko) false).map (fun l => l.any (· = ks))

def MGraph.contains (o : Graph.Ord κ) (g : MGraph κ) (k : κ) : Bool := (indexOf? o g.nodes k).isSome

/-! ### one type for "a shipped graph" -/

inductive Factory | indexed | incremental | builder
deriving DecidableEq, Repr

inductive G (κ : Type) where
  | ix (g : IGraph κ)
  | mx (g : MGraph κ)

def build (o : Graph.Ord κ) (owl : κ) : Factory → List (Edge κ) → Except Err (G κ)
  | .indexed, E => (buildIndexed o owl E).map G.ix
  | .incremental, E => (buildIncremental o owl E).map G.mx
  | .builder, E => (buildBuilder o owl E).map G.mx

def G.nodes : G κ → List κ
  | .ix g => g.nodes | .mx g => g.nodes

def G.root : G κ → Except Err κ
  | .ix g => g.idxToNode g.root | .mx g => .ok g.root

def G.query (o : Graph.Ord κ) : G κ → Q → Option κ → Bool → Except Err (List κ)
  | .ix g => g.query o | .mx g => g.query o

def G.isLeaf (o : Graph.Ord κ) : G κ → Option κ → Except Err Bool
  | .ix g => g.isLeaf o | .mx g => g.isLeaf o

def G.pred (o : Graph.Ord κ) : G κ → Pred → Option κ → Option κ → Except Err Bool
  | .ix g => g.pred o | .mx g => g.pred o

def G.contains (o : Graph.Ord κ) : G κ → κ → Bool
  | .ix g => g.contains o | .mx g => g.contains o

/-! ### module-level helpers (`hpotk.algorithm`): results are frozensets — modelled as duplicate-free lists -/

/-- `get_ancestors/descendants/parents/children(g, source, include_source)` -/
def helper (o : Graph.Ord κ) (g : G κ) (q : Q) (arg : Option κ) (incl : Bool) : Except Err (List κ) :=
  match arg with
  | none => .error .valueError
  | some k => (g.query o q (some k) false).map (fun l => dedup ((if incl then [k] else []) ++ l))

/-- `exists_path(g, source, destination)` -/
def existsPath (o : Graph.Ord κ) (g : G κ) (src dst : Option κ) : Except Err Bool :=
  match src, dst with
  | none, _ => .error .valueError
  | _, none => .error .valueError
  | some a, some b =>
    if a = b then .ok false
    else (helper o g .ancestors (some a) false).map (fun l => l.any (· = b))

/-- one iteration of `for term_id in source: augmented_term_ids.update(func(g, term_id, include_source))` -/
def augStep (o : Graph.Ord κ) (g : G κ) (q : Q) (incl : Bool) (acc : Except Err (List κ)) (s : Option κ) :
    Except Err (List κ) :=
  match acc, helper o g q s incl with
  | .ok a, .ok l => .ok (dedup (a ++ l))
  | .error e, _ => .error e
  | _, .error e => .error e

/-- `_augment_impl` for a collection of term ids -/
def augmentMany (o : Graph.Ord κ) (g : G κ) (q : Q) (srcs : List (Option κ)) (incl : Bool) : Except Err (List κ) :=
  srcs.foldl (augStep o g q incl) (.ok [])

/-- `_augment_impl` for a single `TermId` -/
def augmentOne (o : Graph.Ord κ) (g : G κ) (q : Q) (src : Option κ) (incl : Bool) : Except Err (List κ) :=
  helper o g q src incl

end Hpv.GM
