/-
Release tags as served by the GitHub tag API (src/hpotk/store/_github.py): `production_tag_pt`
`^v(?P<year>\d{4})-(?P<month>\d{2})-(?P<day>\d{2})$` keeps the production tags, and the store takes `max(tags)` (Python
string order = lexicographic by code point).  Strings are code-point lists.  Core Lean only.
-/
namespace Hpv.Tags

abbrev Str := List Nat

def isDigit (c : Nat) : Bool := 48 ≤ c && c ≤ 57

/-- `v` dddd `-` dd `-` dd, nothing before or after -/
def prodTag : Str → Bool
  | [v, y1, y2, y3, y4, d1, m1, m2, d2, a1, a2] =>
    v == 118 && isDigit y1 && isDigit y2 && isDigit y3 && isDigit y4 && d1 == 45 && isDigit m1 && isDigit m2 &&
      d2 == 45 && isDigit a1 && isDigit a2
  | _ => false

/-- Python's `<` on `str` -/
def lexLt : Str → Str → Bool
  | [], [] => false
  | [], _ :: _ => true
  | _ :: _, [] => false
  | a :: as, b :: bs => decide (a < b) || (a == b && lexLt as bs)

/-- `max(...)` with Python's rule: the first maximal element is kept -/
def maxStep (acc : Option Str) (t : Str) : Option Str :=
  match acc with
  | none => some t
  | some m => if lexLt m t then some t else some m

/-- `fetch_tags` followed by `max(tags, default=None)` -/
def latest (names : List Str) : Option Str := (names.filter prodTag).foldl maxStep none

end Hpv.Tags
