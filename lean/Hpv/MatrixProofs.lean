import Hpv.Matrix
import Hpv.CsrProofs

namespace Hpv.Csr

def SortedRow (row : Row) : Prop := (row.map Prod.fst).Pairwise (· < ·)

/-! ### row-level facts about `insRow` -/

theorem firstOf_insRow (c : Nat) (v : Int) (row : Row) (c' : Nat) :
    firstOf (insRow c v row) c' = if c' = c then v else firstOf row c' := by
  induction row with
  | nil =>
    by_cases h : c' = c
    · simp [insRow, firstOf, h]
    · have : ¬ c = c' := fun e => h e.symm
      simp [insRow, firstOf, h, this]
  | cons p rest ih =>
    obtain ⟨a, b⟩ := p
    unfold insRow
    by_cases h1 : a < c
    · simp only [h1, if_true]
      unfold firstOf at ih ⊢
      by_cases h2 : a = c'
      · have : ¬ c' = c := by omega
        simp [List.find?_cons, h2, this]
      · simp only [List.find?_cons, h2, decide_false]
        exact ih
    · by_cases h2 : a = c
      · simp only [h1, if_false, h2, if_true]
        unfold firstOf
        by_cases h3 : c' = c
        · simp [List.find?_cons, h3]
        · have : ¬ c = c' := fun e => h3 e.symm
          simp [List.find?_cons, h3, this]
      · simp only [h1, if_false, h2]
        unfold firstOf
        by_cases h3 : c' = c
        · simp [List.find?_cons, h3]
        · have : ¬ c = c' := fun e => h3 e.symm
          simp [List.find?_cons, h3, this]

theorem mem_insRow (c : Nat) (v : Int) (row : Row) (p : Nat × Int) (h : p ∈ insRow c v row) :
    p = (c, v) ∨ p ∈ row := by
  induction row with
  | nil => simp [insRow] at h; exact Or.inl h
  | cons q rest ih =>
    obtain ⟨a, b⟩ := q
    simp only [insRow] at h
    split at h
    · simp only [List.mem_cons] at h
      rcases h with h | h
      · exact Or.inr (by simp [h])
      · rcases ih h with h | h
        · exact Or.inl h
        · exact Or.inr (List.mem_cons_of_mem _ h)
    · split at h
      · simp only [List.mem_cons] at h
        rcases h with h | h
        · exact Or.inl h
        · exact Or.inr (List.mem_cons_of_mem _ h)
      · simp only [List.mem_cons] at h
        rcases h with h | h | h
        · exact Or.inl h
        · exact Or.inr (by simp [h])
        · exact Or.inr (List.mem_cons_of_mem _ h)

theorem sorted_insRow (c : Nat) (v : Int) (row : Row) (h : SortedRow row) : SortedRow (insRow c v row) := by
  unfold SortedRow at *
  induction row with
  | nil => simp [insRow]
  | cons q rest ih =>
    obtain ⟨a, b⟩ := q
    simp only [List.map_cons, List.pairwise_cons] at h
    obtain ⟨hq, hrest⟩ := h
    unfold insRow
    by_cases h1 : a < c
    · simp only [h1, if_true, List.map_cons, List.pairwise_cons]
      refine ⟨?_, ih hrest⟩
      intro x hx
      obtain ⟨p, hp, rfl⟩ := List.mem_map.mp hx
      rcases mem_insRow c v rest p hp with e | e
      · subst e; exact h1
      · exact hq _ (List.mem_map.mpr ⟨p, e, rfl⟩)
    · by_cases h2 : a = c
      · subst h2
        simp only [Nat.lt_irrefl, if_false, if_true, List.map_cons, List.pairwise_cons]
        exact ⟨hq, hrest⟩
      · simp only [h1, if_false, h2, List.map_cons, List.pairwise_cons]
        have hca : c < a := by omega
        refine ⟨?_, hq, hrest⟩
        intro x hx
        simp only [List.mem_cons] at hx
        rcases hx with e | e
        · subst e; exact hca
        · exact Nat.lt_trans hca (hq _ e)

theorem SortedRow.nodup {row : Row} (h : SortedRow row) : (row.map Prod.fst).Nodup :=
  List.Pairwise.imp (fun hab => Nat.ne_of_lt hab) h

/-- without repeated columns the first and the last match coincide -/
theorem lastOf_eq_firstOf (row : Row) (h : (row.map Prod.fst).Nodup) (c : Nat) : lastOf row c = firstOf row c := by
  unfold lastOf firstOf
  induction row with
  | nil => simp
  | cons p rest ih =>
    simp only [List.map_cons, List.nodup_cons] at h
    obtain ⟨hp, hrest⟩ := h
    simp only [List.reverse_cons, List.find?_append, List.find?_cons]
    by_cases h1 : p.1 = c
    · have hnone : rest.reverse.find? (fun q => decide (q.1 = c)) = none := by
        rw [List.find?_eq_none]
        intro x hx hpx
        simp only [decide_eq_true_eq] at hpx
        apply hp
        rw [h1, ← hpx]
        exact List.mem_map.mpr ⟨x, List.mem_reverse.mp hx, rfl⟩
      simp [hnone, h1]
    · have ih' := ih hrest
      simp only [h1, decide_false]
      cases hf : rest.reverse.find? (fun q => decide (q.1 = c)) with
      | none => rw [hf] at ih'; simpa using ih'
      | some y => rw [hf] at ih'; simpa using ih'

/-! ### slices of the flat arrays -/

theorem zip_fst_snd {α β} (l : List (α × β)) : (l.map Prod.fst).zip (l.map Prod.snd) = l := by
  induction l with
  | nil => rfl
  | cons a t ih => simp [ih]

def ofRowsM (rows : List Row) (ncols : Nat) : Matrix := (ofRows rows).toMatrix rows.length ncols

theorem slice_ofRows_split (A B : List Row) (row : Row) (n : Nat) :
    (ofRowsM (A ++ row :: B) n).slice A.length = row := by
  have hlen : (A.map List.length).length = A.length := by simp
  have hp := psums_getD_mid 0 (A.map List.length) row.length (B.map List.length)
  rw [hlen] at hp
  have hsum : (A.map List.length).sum = A.flatten.length := by rw [List.length_flatten]
  simp only [Nat.zero_add, hsum] at hp
  unfold Matrix.slice ofRowsM Builder.toMatrix ofRows
  simp only [List.map_append, List.map_cons, hp.1, hp.2, List.flatten_append, List.flatten_cons]
  have e1 : (List.map Prod.fst A.flatten).length = A.flatten.length := List.length_map _
  have e2 : (List.map Prod.snd A.flatten).length = A.flatten.length := List.length_map _
  rw [List.drop_left' e1, List.drop_left' e2]
  have e3 : A.flatten.length + row.length - A.flatten.length = row.length := by omega
  rw [e3]
  have e4 : (List.map Prod.fst row).length = row.length := List.length_map _
  have e5 : (List.map Prod.snd row).length = row.length := List.length_map _
  rw [List.take_left' e4, List.take_left' e5]
  exact zip_fst_snd row

theorem split_at {α} (rows : List α) (i : Nat) (r : α) (h : rows[i]? = some r) :
    rows = rows.take i ++ r :: rows.drop (i + 1) ∧ (rows.take i).length = i := by
  have hi : i < rows.length := by
    rcases Nat.lt_or_ge i rows.length with h' | h'
    · exact h'
    · rw [List.getElem?_eq_none h'] at h; cases h
  have hr : rows[i] = r := by
    have := List.getElem?_eq_getElem hi
    rw [this] at h; exact Option.some.inj h
  refine ⟨?_, by simp; omega⟩
  rw [← hr, ← List.drop_eq_getElem_cons hi, List.take_append_drop]

theorem slice_ofRows (rows : List Row) (n i : Nat) (row : Row) (h : rows[i]? = some row) :
    (ofRowsM rows n).slice i = row := by
  obtain ⟨hs, hl⟩ := split_at rows i row h
  have := slice_ofRows_split (rows.take i) (rows.drop (i + 1)) row n
  rw [hl, ← hs] at this
  exact this

/-- The flat-array `__setitem__` on row `r` is the row-wise sorted insert/overwrite of row `r`. -/
theorem setItem_modify (rows : List Row) (r c : Nat) (v : Int) (hr : r < rows.length) :
    setItem (ofRows rows) r c v = ofRows (rows.modify r (insRow c v)) := by
  have hget : rows[r]? = some rows[r] := List.getElem?_eq_getElem hr
  obtain ⟨hs, hl⟩ := split_at rows r rows[r] hget
  have h1 := setItem_ofRows (rows.take r) (rows.drop (r + 1)) rows[r] c v
  rw [hl, ← hs] at h1
  rw [h1]
  congr 1
  rw [List.modify_eq_take_drop, List.drop_eq_getElem_cons hr]
  rfl

end Hpv.Csr

namespace Hpv.Csr

structure RowsWF (rows : List Row) (ncols : Nat) : Prop where
  sorted : ∀ row ∈ rows, SortedRow row
  bounded : ∀ row ∈ rows, ∀ p ∈ row, p.1 < ncols

/-- no explicit zeros are stored -/
def NZ (rows : List Row) : Prop := ∀ row ∈ rows, ∀ p ∈ row, p.2 ≠ 0

/-- the dense matrix represented by the rows -/
def dense (rows : List Row) (r c : Nat) : Int := firstOf (rows.getD r []) c

theorem inRange_cast (r n : Nat) : inRange (r : Int) n = decide (r < n) := by
  unfold inRange
  by_cases h : r < n
  · have : (r : Int) < (n : Int) := Int.ofNat_lt.mpr h
    simp [h, this, Int.natCast_nonneg]
  · have : ¬ (r : Int) < (n : Int) := fun h' => h (Int.ofNat_lt.mp h')
    simp [h, this]

theorem getD_of_lt (rows : List Row) (r : Nat) (h : r < rows.length) :
    rows.getD r [] = rows[r] ∧ rows[r]? = some rows[r] ∧ rows[r] ∈ rows := by
  refine ⟨?_, List.getElem?_eq_getElem h, List.getElem_mem h⟩
  rw [List.getD_eq_getElem?_getD, List.getElem?_eq_getElem h]; rfl

theorem getRow_spec (rows : List Row) (n r : Nat) (hwf : RowsWF rows n) (hr : r < rows.length) :
    (ofRowsM rows n).getRow (r : Int) = .ok ((List.range n).map (dense rows r)) := by
  obtain ⟨hd, hget, hmem⟩ := getD_of_lt rows r hr
  unfold Matrix.getRow
  have hn : (ofRowsM rows n).nrows = rows.length := rfl
  have hc : (ofRowsM rows n).ncols = n := rfl
  rw [hn, hc, inRange_cast, decide_eq_true hr, if_pos rfl]
  simp only [Int.toNat_natCast]
  rw [slice_ofRows rows n r rows[r] hget]
  have hany : (rows[r].any fun p => decide (n ≤ p.1)) = false := by
    rw [List.any_eq_false]
    intro p hp
    have := hwf.bounded _ hmem p hp
    simp; omega
  rw [hany]
  simp only [Bool.false_eq_true, if_false]
  congr 1
  apply List.map_congr_left
  intro c _
  unfold dense
  rw [hd, lastOf_eq_firstOf _ (hwf.sorted _ hmem).nodup]

theorem getCell_spec (rows : List Row) (n r c : Nat) (hr : r < rows.length) (hc : c < n) :
    (ofRowsM rows n).getCell (r : Int) (c : Int) = .ok (dense rows r c) := by
  obtain ⟨hd, hget, _⟩ := getD_of_lt rows r hr
  unfold Matrix.getCell
  have hn : (ofRowsM rows n).nrows = rows.length := rfl
  have hcn : (ofRowsM rows n).ncols = n := rfl
  rw [hn, hcn, inRange_cast, inRange_cast, decide_eq_true hr, decide_eq_true hc]
  simp only [Bool.not_true, Bool.false_eq_true, if_false, Int.toNat_natCast]
  rw [slice_ofRows rows n r rows[r] hget]
  unfold dense
  rw [hd]

theorem firstOf_eq_of_mem (row : Row) (h : (row.map Prod.fst).Nodup) (p : Nat × Int) (hp : p ∈ row) :
    firstOf row p.1 = p.2 := by
  unfold firstOf
  induction row with
  | nil => cases hp
  | cons q rest ih =>
    simp only [List.map_cons, List.nodup_cons] at h
    simp only [List.find?_cons]
    rcases List.mem_cons.mp hp with e | e
    · subst e; simp
    · have hne : ¬ q.1 = p.1 := by
        intro heq
        apply h.1
        rw [heq]
        exact List.mem_map.mpr ⟨p, e, rfl⟩
      simp only [hne, decide_false]
      exact ih h.2 e

theorem firstOf_of_not_mem (row : Row) (c : Nat) (h : c ∉ row.map Prod.fst) : firstOf row c = 0 := by
  unfold firstOf
  have : row.find? (fun p => decide (p.1 = c)) = none := by
    rw [List.find?_eq_none]
    intro x hx hpx
    simp only [decide_eq_true_eq] at hpx
    exact h (List.mem_map.mpr ⟨x, hx, hpx⟩)
  simp [this]

theorem firstOf_mem_or_zero (row : Row) (c : Nat) :
    (∃ p ∈ row, p.1 = c ∧ firstOf row c = p.2) ∨ (c ∉ row.map Prod.fst ∧ firstOf row c = 0) := by
  by_cases h : c ∈ row.map Prod.fst
  · left
    unfold firstOf
    cases hf : row.find? (fun p => decide (p.1 = c)) with
    | none =>
      rw [List.find?_eq_none] at hf
      obtain ⟨p, hp, rfl⟩ := List.mem_map.mp h
      exact absurd (by simp) (hf p hp)
    | some q =>
      have h1 := List.find?_some hf
      simp only [decide_eq_true_eq] at h1
      exact ⟨q, List.mem_of_find?_eq_some hf, h1, by simp⟩
  · exact Or.inr ⟨h, firstOf_of_not_mem row c h⟩

/-- value-to-columns query: ascending, duplicate-free, and exactly the columns whose dense value is `q` -/
theorem colIndicesOfVal_spec (rows : List Row) (n r : Nat) (q : Int) (hwf : RowsWF rows n) (hnz : NZ rows)
    (hr : r < rows.length) :
    ∃ cs, (ofRowsM rows n).colIndicesOfVal (r : Int) q = .ok cs ∧ cs.Pairwise (· < ·) ∧
      ∀ c, c ∈ cs ↔ c < n ∧ dense rows r c = q := by
  obtain ⟨hd, hget, hmem⟩ := getD_of_lt rows r hr
  have hsorted := hwf.sorted _ hmem
  have hnodup := hsorted.nodup
  unfold Matrix.colIndicesOfVal
  have hn : (ofRowsM rows n).nrows = rows.length := rfl
  have hcn : (ofRowsM rows n).ncols = n := rfl
  rw [hn, hcn, inRange_cast, decide_eq_true hr]
  simp only [Bool.not_true, Bool.false_eq_true, if_false, Int.toNat_natCast]
  rw [slice_ofRows rows n r rows[r] hget]
  unfold dense
  rw [hd]
  by_cases hq : q = 0
  · subst hq
    have hany : (rows[r].any fun p => decide (n ≤ p.1)) = false := by
      rw [List.any_eq_false]
      intro p hp
      have := hwf.bounded _ hmem p hp
      simp; omega
    simp only [if_true, hany, Bool.false_eq_true, if_false]
    refine ⟨_, rfl, List.Pairwise.filter _ List.pairwise_lt_range, ?_⟩
    intro c
    have hcont : ((rows[r].map (·.1)).contains c = false) ↔ c ∉ rows[r].map Prod.fst := by
      rw [← Bool.not_eq_true, List.contains_iff_mem]
    simp only [List.mem_filter, List.mem_range, Bool.not_eq_true', hcont]
    constructor
    · rintro ⟨h1, h2⟩
      exact ⟨h1, firstOf_of_not_mem _ _ h2⟩
    · rintro ⟨h1, h2⟩
      refine ⟨h1, ?_⟩
      intro hin
      rcases firstOf_mem_or_zero rows[r] c with ⟨p, hp, _, hv⟩ | ⟨hno, _⟩
      · exact hnz _ hmem p hp (by rw [← hv, h2])
      · exact hno hin
  · simp only [hq, if_false]
    refine ⟨_, rfl, ?_, ?_⟩
    · have hsub : ((rows[r].filter fun p => decide (p.2 = q)).map Prod.fst).Sublist (rows[r].map Prod.fst) :=
        List.Sublist.map _ List.filter_sublist
      exact List.Pairwise.sublist hsub hsorted
    · intro c
      simp only [List.mem_map, List.mem_filter, decide_eq_true_eq]
      constructor
      · rintro ⟨p, ⟨hp, hv⟩, rfl⟩
        exact ⟨hwf.bounded _ hmem p hp, by rw [firstOf_eq_of_mem _ hnodup p hp, hv]⟩
      · rintro ⟨_, hv⟩
        rcases firstOf_mem_or_zero rows[r] c with ⟨p, hp, hpc, hv'⟩ | ⟨_, hz⟩
        · exact ⟨p, ⟨hp, by rw [← hv', hv]⟩, hpc⟩
        · exact absurd (by rw [← hv, hz]) hq

end Hpv.Csr

namespace Hpv.Csr

theorem mem_modify {α} (l : List α) (i : Nat) (f : α → α) (x : α) (h : x ∈ l.modify i f) :
    x ∈ l ∨ ∃ y ∈ l, l[i]? = some y ∧ x = f y := by
  obtain ⟨j, hj⟩ := List.mem_iff_getElem?.mp h
  rw [List.getElem?_modify] at hj
  cases hl : l[j]? with
  | none => rw [hl] at hj; cases hj
  | some y =>
    rw [hl] at hj
    simp only [Option.map_eq_map, Option.map_some, Option.some.injEq] at hj
    have hy : y ∈ l := List.mem_iff_getElem?.mpr ⟨j, hl⟩
    by_cases hij : i = j
    · subst hij
      simp only [if_true] at hj
      exact Or.inr ⟨y, hy, hl, hj.symm⟩
    · simp only [hij, if_false] at hj
      exact Or.inl (hj ▸ hy)

theorem wf_modify (rows : List Row) (n r c : Nat) (v : Int) (hwf : RowsWF rows n) (hc : c < n) :
    RowsWF (rows.modify r (insRow c v)) n := by
  constructor
  · intro row hrow
    rcases mem_modify rows r _ row hrow with h | ⟨y, hy, _, rfl⟩
    · exact hwf.sorted _ h
    · exact sorted_insRow c v y (hwf.sorted _ hy)
  · intro row hrow p hp
    rcases mem_modify rows r _ row hrow with h | ⟨y, hy, _, rfl⟩
    · exact hwf.bounded _ h p hp
    · rcases mem_insRow c v y p hp with e | e
      · subst e; exact hc
      · exact hwf.bounded _ hy p e

theorem nz_modify (rows : List Row) (r c : Nat) (v : Int) (hnz : NZ rows) (hv : v ≠ 0) :
    NZ (rows.modify r (insRow c v)) := by
  intro row hrow p hp
  rcases mem_modify rows r _ row hrow with h | ⟨y, hy, _, rfl⟩
  · exact hnz _ h p hp
  · rcases mem_insRow c v y p hp with e | e
    · subst e; exact hv
    · exact hnz _ hy p e

theorem dense_modify (rows : List Row) (r c : Nat) (v : Int) (r' c' : Nat) (hr : r < rows.length) :
    dense (rows.modify r (insRow c v)) r' c' = if r' = r ∧ c' = c then v else dense rows r' c' := by
  unfold dense
  rw [List.getD_eq_getElem?_getD, List.getD_eq_getElem?_getD, List.getElem?_modify]
  by_cases hrr : r = r'
  · subst hrr
    rw [List.getElem?_eq_getElem hr]
    simp only [if_true, Option.map_eq_map, Option.map_some, Option.getD_some, true_and]
    exact firstOf_insRow c v _ c'
  · have : ¬ (r' = r ∧ c' = c) := fun h => hrr h.1.symm
    simp only [hrr, if_false, this]
    cases rows[r']? <;> simp

theorem psums_replicate (n acc : Nat) : psums acc (List.replicate n 0) = List.replicate (n + 1) acc := by
  induction n with
  | zero => rfl
  | succ k ih => simp only [List.replicate_succ, psums, Nat.add_zero, ih]

theorem empty_eq_ofRows (nrows : Nat) : Builder.empty nrows = ofRows (List.replicate nrows []) := by
  unfold Builder.empty ofRows
  have h1 : (List.replicate nrows ([] : Row)).map List.length = List.replicate nrows 0 := by simp
  have h2 : (List.replicate nrows ([] : Row)).flatten = [] := by simp
  rw [h1, h2, psums_replicate]
  rfl

/-- One assignment: the builder stays a rows-representation, stays well formed, and its dense reading is updated
in exactly the assigned cell (or not at all, when the coordinates are outside the shape). -/
theorem stepB_spec (nrows ncols : Nat) (rows : List Row) (op : Int × Int × Int)
    (hlen : rows.length = nrows) (hwf : RowsWF rows ncols) :
    ∃ rows', stepB nrows ncols (ofRows rows) op = ofRows rows' ∧ rows'.length = nrows ∧ RowsWF rows' ncols ∧
      (NZ rows → op.2.2 ≠ 0 → NZ rows') ∧
      ∀ r c, dense rows' r c = stepSpec nrows ncols (dense rows) op r c := by
  obtain ⟨ri, ci, v⟩ := op
  unfold stepB setItemChecked stepSpec validOp
  simp only
  by_cases h1 : inRange ri nrows = true
  · by_cases h2 : inRange ci ncols = true
    · have hr0 : 0 ≤ ri ∧ ri < nrows := by simpa [inRange] using h1
      have hc0 : 0 ≤ ci ∧ ci < ncols := by simpa [inRange] using h2
      have hr : ri.toNat < rows.length := by omega
      have hc : ci.toNat < ncols := by omega
      simp only [h1, h2, Bool.not_true, Bool.false_eq_true, if_false, Bool.and_self, if_true]
      refine ⟨rows.modify ri.toNat (insRow ci.toNat v), setItem_modify rows _ _ v hr, ?_, wf_modify rows ncols _ _ v hwf hc,
        fun hnz hv => nz_modify rows _ _ v hnz hv, ?_⟩
      · rw [List.length_modify]; exact hlen
      · intro r c
        exact dense_modify rows _ _ v r c hr
    · simp only [h1, h2, Bool.not_true, Bool.false_eq_true, if_false, Bool.not_false, if_true, Bool.and_false]
      exact ⟨rows, rfl, hlen, hwf, fun h _ => h, fun _ _ => rfl⟩
  · simp only [h1, Bool.not_false, if_true, Bool.false_and, Bool.false_eq_true, if_false]
    exact ⟨rows, rfl, hlen, hwf, fun h _ => h, fun _ _ => rfl⟩

theorem foldl_stepB_spec (nrows ncols : Nat) (ops : List (Int × Int × Int)) (rows : List Row) (f : Nat → Nat → Int)
    (hlen : rows.length = nrows) (hwf : RowsWF rows ncols) (hd : ∀ r c, dense rows r c = f r c) :
    ∃ rows', ops.foldl (stepB nrows ncols) (ofRows rows) = ofRows rows' ∧ rows'.length = nrows ∧ RowsWF rows' ncols ∧
      (NZ rows → (∀ op ∈ ops, op.2.2 ≠ 0) → NZ rows') ∧
      ∀ r c, dense rows' r c = ops.foldl (stepSpec nrows ncols) f r c := by
  induction ops generalizing rows f with
  | nil => exact ⟨rows, rfl, hlen, hwf, fun h _ => h, hd⟩
  | cons op rest ih =>
    obtain ⟨rows1, e1, l1, w1, n1, d1⟩ := stepB_spec nrows ncols rows op hlen hwf
    have hd1 : ∀ r c, dense rows1 r c = stepSpec nrows ncols f op r c := by
      intro r c
      rw [d1]
      have : dense rows = f := by funext r c; exact hd r c
      rw [this]
    obtain ⟨rows2, e2, l2, w2, n2, d2⟩ := ih rows1 _ l1 w1 hd1
    refine ⟨rows2, ?_, l2, w2, ?_, d2⟩
    · simp only [List.foldl_cons, e1, e2]
    · intro hnz hall
      exact n2 (n1 hnz (hall op (List.mem_cons_self))) (fun o ho => hall o (List.mem_cons_of_mem _ ho))

theorem runOps_spec (nrows ncols : Nat) (ops : List (Int × Int × Int)) :
    ∃ rows, runOps nrows ncols ops = ofRows rows ∧ rows.length = nrows ∧ RowsWF rows ncols ∧
      ((∀ op ∈ ops, op.2.2 ≠ 0) → NZ rows) ∧
      ∀ r c, dense rows r c = specOps nrows ncols ops r c := by
  have hwf0 : RowsWF (List.replicate nrows ([] : Row)) ncols := by
    constructor
    · intro row hrow; rw [(List.mem_replicate.mp hrow).2]; simp [SortedRow]
    · intro row hrow p hp; rw [(List.mem_replicate.mp hrow).2] at hp; cases hp
  have hnz0 : NZ (List.replicate nrows ([] : Row)) := by
    intro row hrow p hp; rw [(List.mem_replicate.mp hrow).2] at hp; cases hp
  have hd0 : ∀ r c, dense (List.replicate nrows ([] : Row)) r c = 0 := by
    intro r c
    unfold dense
    have : (List.replicate nrows ([] : Row)).getD r [] = [] := by
      rw [List.getD_eq_getElem?_getD]
      cases h : (List.replicate nrows ([] : Row))[r]? with
      | none => rfl
      | some x =>
        have := List.mem_iff_getElem?.mpr ⟨r, h⟩
        simp [(List.mem_replicate.mp this).2]
    rw [this]; rfl
  obtain ⟨rows, e, l, w, n, d⟩ := foldl_stepB_spec nrows ncols ops _ (fun _ _ => 0) (by simp) hwf0 hd0
  refine ⟨rows, ?_, l, w, fun h => n hnz0 h, d⟩
  unfold runOps
  rw [empty_eq_ofRows]
  exact e

end Hpv.Csr
