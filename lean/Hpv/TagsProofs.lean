import Hpv.Tags

namespace Hpv.Tags

theorem lexLt_irrefl (a : Str) : lexLt a a = false := by
  induction a with
  | nil => rfl
  | cons x xs ih => simp [lexLt, ih]

theorem lexLt_trans : ∀ (a b c : Str), lexLt a b = true → lexLt b c = true → lexLt a c = true := by
  intro a
  induction a with
  | nil =>
    intro b c h1 h2
    cases b with
    | nil => simp [lexLt] at h1
    | cons y ys =>
      cases c with
      | nil => simp [lexLt] at h2
      | cons z zs => rfl
  | cons x xs ih =>
    intro b c h1 h2
    cases b with
    | nil => simp [lexLt] at h1
    | cons y ys =>
      cases c with
      | nil => simp [lexLt] at h2
      | cons z zs =>
        simp only [lexLt, Bool.or_eq_true, decide_eq_true_eq, Bool.and_eq_true, beq_iff_eq] at h1 h2 ⊢
        rcases h1 with h1 | ⟨e1, r1⟩
        · rcases h2 with h2 | ⟨e2, _⟩
          · exact Or.inl (Nat.lt_trans h1 h2)
          · exact Or.inl (e2 ▸ h1)
        · rcases h2 with h2 | ⟨e2, r2⟩
          · exact Or.inl (e1 ▸ h2)
          · exact Or.inr ⟨e1.trans e2, ih ys zs r1 r2⟩

theorem lexLt_total : ∀ (a b : Str), lexLt a b = false → a = b ∨ lexLt b a = true := by
  intro a
  induction a with
  | nil =>
    intro b h
    cases b with
    | nil => exact Or.inl rfl
    | cons y ys => simp [lexLt] at h
  | cons x xs ih =>
    intro b h
    cases b with
    | nil => exact Or.inr rfl
    | cons y ys =>
      simp only [lexLt, Bool.or_eq_false_iff, decide_eq_false_iff_not, Bool.and_eq_false_iff, beq_eq_false_iff_ne] at h
      obtain ⟨h1, h2⟩ := h
      simp only [lexLt, Bool.or_eq_true, decide_eq_true_eq, Bool.and_eq_true, beq_iff_eq]
      rcases Nat.lt_trichotomy x y with hxy | hxy | hxy
      · exact absurd hxy h1
      · subst hxy
        rcases h2 with h2 | h2
        · exact absurd rfl h2
        · rcases ih ys h2 with h3 | h3
          · exact Or.inl (by rw [h3])
          · exact Or.inr (Or.inr ⟨rfl, h3⟩)
      · exact Or.inr (Or.inl hxy)

/-- "not below" is transitive (it is ≥ of a total order) -/
theorem nlt_trans (a b c : Str) (h1 : lexLt a b = false) (h2 : lexLt b c = false) : lexLt a c = false := by
  cases hac : lexLt a c with
  | false => rfl
  | true =>
    rcases lexLt_total a b h1 with e | hba
    · subst e; rw [hac] at h2; cases h2
    · rw [lexLt_trans b a c hba hac] at h2; cases h2

/-- the fold returns a member that nothing it has seen exceeds -/
theorem foldl_maxStep_spec (l : List Str) (acc : Option Str) :
    match l.foldl maxStep acc with
    | none => acc = none ∧ l = []
    | some r => (acc = some r ∨ r ∈ l) ∧ (∀ m, acc = some m → lexLt r m = false) ∧ ∀ t ∈ l, lexLt r t = false := by
  induction l generalizing acc with
  | nil =>
    cases acc with
    | none => simp
    | some m => simp [lexLt_irrefl]
  | cons t rest ih =>
    simp only [List.foldl_cons]
    have ih' := ih (maxStep acc t)
    -- what one step does
    have hstep : ∃ a', maxStep acc t = some a' ∧ (a' = t ∨ acc = some a') ∧ lexLt a' t = false ∧
        ∀ m, acc = some m → lexLt a' m = false := by
      cases acc with
      | none => exact ⟨t, rfl, Or.inl rfl, lexLt_irrefl t, fun m hm => by cases hm⟩
      | some m =>
        by_cases hlt : lexLt m t = true
        · refine ⟨t, by simp [maxStep, hlt], Or.inl rfl, lexLt_irrefl t, ?_⟩
          intro m' hm'; injection hm' with hm'; subst hm'
          cases htm : lexLt t m with
          | false => rfl
          | true => have := lexLt_trans m t m hlt htm; rw [lexLt_irrefl] at this; cases this
        · have hlt' : lexLt m t = false := by cases h : lexLt m t <;> simp_all
          refine ⟨m, by simp [maxStep, hlt'], Or.inr rfl, hlt', ?_⟩
          intro m' hm'; injection hm' with hm'; subst hm'; exact lexLt_irrefl m
    obtain ⟨a', ha', horigin, hat, ham⟩ := hstep
    rw [ha'] at ih' ⊢
    cases hres : rest.foldl maxStep (some a') with
    | none => rw [hres] at ih'; exact absurd ih'.1 (by simp)
    | some r =>
      rw [hres] at ih'
      obtain ⟨hmem, hacc, hrest⟩ := ih'
      have hra : lexLt r a' = false := hacc a' rfl
      refine ⟨?_, ?_, ?_⟩
      · rcases hmem with h | h
        · injection h with h; subst h
          rcases horigin with h | h
          · exact Or.inr (h ▸ List.mem_cons_self)
          · exact Or.inl h
        · exact Or.inr (List.mem_cons_of_mem _ h)
      · intro m hm; exact nlt_trans r a' m hra (ham m hm)
      · intro t' ht'
        rcases List.mem_cons.mp ht' with rfl | ht'
        · exact nlt_trans r a' t' hra hat
        · exact hrest t' ht'

/-- **`latest` is the greatest production tag**: `none` exactly when the API lists no production tag; otherwise a
listed production tag that no listed production tag exceeds in Python's string order. -/
theorem latest_spec (names : List Str) :
    match latest names with
    | none => ∀ t ∈ names, prodTag t = false
    | some r => r ∈ names ∧ prodTag r = true ∧ ∀ t ∈ names, prodTag t = true → lexLt r t = false := by
  have h := foldl_maxStep_spec (names.filter prodTag) none
  unfold latest
  cases hres : (names.filter prodTag).foldl maxStep none with
  | none =>
    rw [hres] at h
    intro t ht
    cases hp : prodTag t with
    | false => rfl
    | true =>
      have : t ∈ names.filter prodTag := List.mem_filter.mpr ⟨ht, hp⟩
      rw [h.2] at this; cases this
  | some r =>
    rw [hres] at h
    obtain ⟨hmem, _, hall⟩ := h
    have hr : r ∈ names.filter prodTag := by
      rcases hmem with h | h
      · cases h
      · exact h
    exact ⟨(List.mem_filter.mp hr).1, (List.mem_filter.mp hr).2, fun t ht hp => hall t (List.mem_filter.mpr ⟨ht, hp⟩)⟩

/-- a production tag is exactly `v` + 4 digits + `-` + 2 digits + `-` + 2 digits: in particular every day `01..31` (and
`10`, `20`, `30`) and every month `01..12` is accepted, whatever the other fields are -/
theorem prodTag_iff (s : Str) : prodTag s = true ↔
    ∃ y1 y2 y3 y4 m1 m2 a1 a2, s = [118, y1, y2, y3, y4, 45, m1, m2, 45, a1, a2] ∧
      isDigit y1 = true ∧ isDigit y2 = true ∧ isDigit y3 = true ∧ isDigit y4 = true ∧
      isDigit m1 = true ∧ isDigit m2 = true ∧ isDigit a1 = true ∧ isDigit a2 = true := by
  constructor
  · intro h
    match s, h with
    | [v, y1, y2, y3, y4, d1, m1, m2, d2, a1, a2], h =>
      simp only [prodTag, Bool.and_eq_true, beq_iff_eq] at h
      obtain ⟨⟨⟨⟨⟨⟨⟨⟨⟨⟨hv, h1⟩, h2⟩, h3⟩, h4⟩, hd1⟩, h5⟩, h6⟩, hd2⟩, h7⟩, h8⟩ := h
      exact ⟨y1, y2, y3, y4, m1, m2, a1, a2, by rw [hv, hd1, hd2], h1, h2, h3, h4, h5, h6, h7, h8⟩
  · rintro ⟨y1, y2, y3, y4, m1, m2, a1, a2, rfl, h1, h2, h3, h4, h5, h6, h7, h8⟩
    simp [prodTag, h1, h2, h3, h4, h5, h6, h7, h8]

end Hpv.Tags
