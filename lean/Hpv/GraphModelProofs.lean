/-
Helper lemmas for the graph properties (C01, C02, C03, C14, C18): de-duplication, root finding,
the children side of the indexed factory, index/label transfer of closures, duplicate-freeness.
-/
import Hpv.GraphModel
import Hpv.IndexedProofs

namespace Hpv.GM
open Hpv.Graph Hpv.Csr Hpv.Indexed

variable {κ : Type} [DecidableEq κ]

/-! ### `dedup` -/

theorem mem_dedup {α} [DecidableEq α] (l : List α) (x : α) : x ∈ dedup l ↔ x ∈ l := by
  induction l with
  | nil => simp [dedup]
  | cons a t ih =>
    simp only [dedup, List.mem_cons, List.mem_filter, decide_eq_true_eq, ih]
    constructor
    · rintro (h | ⟨h, _⟩)
      · exact Or.inl h
      · exact Or.inr h
    · rintro (h | h)
      · exact Or.inl h
      · by_cases hx : x = a
        · exact Or.inl hx
        · exact Or.inr ⟨h, hx⟩

theorem nodup_dedup {α} [DecidableEq α] (l : List α) : (dedup l).Nodup := by
  induction l with
  | nil => simp [dedup]
  | cons a t ih =>
    simp only [dedup, List.nodup_cons, List.mem_filter, decide_eq_true_eq]
    refine ⟨fun h => h.2 rfl, ?_⟩
    exact List.Pairwise.filter _ ih

/-! ### root finding -/

/-- a term is parentless when it is the object of some edge and the subject of none -/
def Parentless (E : List (Edge κ)) (x : κ) : Prop := (∃ e ∈ E, e.2 = x) ∧ ∀ e ∈ E, e.1 ≠ x

theorem mem_candidates (E : List (Edge κ)) (x : κ) : x ∈ candidates E ↔ Parentless E x := by
  unfold candidates Parentless
  rw [mem_dedup]
  simp only [List.mem_filter, List.mem_map, Bool.not_eq_true', ← Bool.not_eq_true, List.contains_iff_mem]
  constructor
  · rintro ⟨⟨e, he, rfl⟩, h2⟩
    exact ⟨⟨e, he, rfl⟩, fun e' he' heq => h2 ⟨e', he', heq⟩⟩
  · rintro ⟨⟨e, he, rfl⟩, h2⟩
    exact ⟨⟨e, he, rfl⟩, fun ⟨e', he', heq⟩ => h2 e' he' heq⟩

theorem nodup_candidates (E : List (Edge κ)) : (candidates E).Nodup := nodup_dedup _

/-- The edge list after root finding: the original edges, plus `c → owl:Thing` for every parentless `c`
exactly when there are at least two of them; the root is the only parentless term, or `owl:Thing`. -/
theorem findRoot_spec (owl : κ) (E : List (Edge κ)) (root : κ) (E' : List (Edge κ))
    (h : findRoot owl E = .ok (root, E')) :
    ((candidates E = [root] ∧ E' = E) ∨
     (2 ≤ (candidates E).length ∧ root = owl ∧ E' = E ++ (candidates E).map (fun c => (c, owl)))) := by
  unfold findRoot at h
  split at h
  · cases h
  · rename_i c hc
    injection h with h; injection h with h1 h2
    subst h1 h2
    exact Or.inl ⟨hc, rfl⟩
  · rename_i cs h0 h1
    injection h with h; injection h with h1' h2'
    subst h1' h2'
    refine Or.inr ⟨?_, rfl, rfl⟩
    match hcs : candidates E with
    | [] => exact absurd hcs h0
    | [c] => exact absurd hcs (h1 c)
    | _ :: _ :: _ => simp

theorem findRoot_mem (owl : κ) (E : List (Edge κ)) (root : κ) (E' : List (Edge κ))
    (h : findRoot owl E = .ok (root, E')) (e : Edge κ) :
    e ∈ E' ↔ e ∈ E ∨ (2 ≤ (candidates E).length ∧ e.2 = owl ∧ Parentless E e.1) := by
  rcases findRoot_spec owl E root E' h with ⟨h1, rfl⟩ | ⟨h2, _, rfl⟩
  · constructor
    · exact Or.inl
    · rintro (h | ⟨h2, _, _⟩)
      · exact h
      · rw [h1] at h2; simp at h2
  · simp only [List.mem_append, List.mem_map]
    constructor
    · rintro (h | ⟨c, hc, rfl⟩)
      · exact Or.inl h
      · exact Or.inr ⟨h2, rfl, (mem_candidates E c).mp hc⟩
    · rintro (h | ⟨_, ho, hp⟩)
      · exact Or.inl h
      · exact Or.inr ⟨e.1, (mem_candidates E e.1).mpr hp, by rw [← ho]⟩

/-- with at least one edge and no cycle through... a root always exists as soon as some term is parentless -/
theorem findRoot_ok (owl : κ) (E : List (Edge κ)) (h : candidates E ≠ []) : ∃ r E', findRoot owl E = .ok (r, E') := by
  unfold findRoot
  split
  · rename_i h0; exact absurd h0 h
  · exact ⟨_, _, rfl⟩
  · exact ⟨_, _, rfl⟩

end Hpv.GM

namespace Hpv.Indexed
open Hpv.Graph Hpv.Csr
variable {κ : Type} [DecidableEq κ]

/-- One CSR step downward is one `is_a` edge between the corresponding labels (children side). -/
theorem mem_children_row (o : Graph.Ord κ) (hs : o.Strict) (E : List (Edge κ)) (hloop : ∀ e ∈ E, e.1 ≠ e.2)
    (g : IndexedGraph κ) (hg : build o E = some g) (a b : Nat) (x : κ) (hx : g.nodes[a]? = some x) :
    b ∈ g.children.row a ↔ ∃ y, g.nodes[b]? = some y ∧ (y, x) ∈ E := by
  obtain ⟨g', hg', hn, _, hc⟩ := build_spec o hs E hloop
  rw [hg] at hg'; injection hg' with hg'; subst hg'
  rw [hn] at hx ⊢
  have hrow : g.children.row a = (E.filter (fun e => decide (e.2 = x))).map (fun e => idx! o (nodesOf o E) e.1) := by
    rw [hc]
    apply Static.row_ofRows_getElem
    simp [hx]
  rw [hrow]
  simp only [List.mem_map, List.mem_filter, decide_eq_true_eq]
  constructor
  · rintro ⟨e, ⟨he, h1⟩, hb⟩
    refine ⟨e.1, ?_, ?_⟩
    · rw [← hb]; exact (indexOf?_idx! o hs E e.1 (mem_nodesOf o E e he).1).2
    · rw [← h1]; exact he
  · rintro ⟨y, hy, hxy⟩
    refine ⟨(y, x), ⟨hxy, rfl⟩, ?_⟩
    have hsorted : Sorted o (nodesOf o E) := sorted_sortDedup o hs (endpoints E)
    have h1 := (indexOf?_spec o hs _ hsorted y b).mpr hy
    simp [idx!, h1]

theorem row_mem_data (c : Static) (a z : Nat) (hz : z ∈ c.row a) : z ∈ c.data := by
  unfold Static.row at hz
  exact List.mem_of_mem_drop (List.mem_of_mem_take hz)

theorem children_row_bound (o : Graph.Ord κ) (hs : o.Strict) (E : List (Edge κ)) (hloop : ∀ e ∈ E, e.1 ≠ e.2)
    (g : IndexedGraph κ) (hg : build o E = some g) (a b : Nat) (hb : b ∈ g.children.row a) : b < g.nodes.length := by
  obtain ⟨g', hg', hn, _, hc⟩ := build_spec o hs E hloop
  rw [hg] at hg'; injection hg' with hg'; subst hg'
  have hall : ∀ row ∈ ((nodesOf o E).map (fun src =>
        (E.filter (fun e => decide (e.2 = src))).map (fun e => idx! o (nodesOf o E) e.1))), ∀ z ∈ row, z < (nodesOf o E).length := by
    intro row hrow z hz
    obtain ⟨src, _, rfl⟩ := List.mem_map.mp hrow
    obtain ⟨e, he, rfl⟩ := List.mem_map.mp hz
    have := (indexOf?_idx! o hs E e.1 (mem_nodesOf o E e (List.mem_filter.mp he).1).1).2
    rcases Nat.lt_or_ge (idx! o (nodesOf o E) e.1) (nodesOf o E).length with h | h
    · exact h
    · rw [List.getElem?_eq_none h] at this; cases this
  rw [hn]
  have hz := row_mem_data _ a b hb
  rw [hc] at hz
  simp only [Static.ofRows, List.mem_flatten] at hz
  obtain ⟨row, hrow, hzrow⟩ := hz
  exact hall row hrow b hzrow

end Hpv.Indexed

namespace Hpv.GM
open Hpv.Graph Hpv.Csr Hpv.Indexed
variable {κ : Type} [DecidableEq κ]

/-- **Index/label transfer.**  If every CSR row step corresponds to one `rel` step between labels, the index-space
traversal from the index of `v`, mapped back to labels, is exactly the transitive closure of `rel` from `v`. -/
theorem closure_transfer (nodes : List κ) (succ : Nat → List Nat) (rel : κ → κ → Prop) (P : Pop) (hP : P.Lawful)
    (hrow : ∀ a b x, nodes[a]? = some x → (b ∈ succ a ↔ ∃ y, nodes[b]? = some y ∧ rel x y))
    (hbound : ∀ a b, b ∈ succ a → b < nodes.length)
    (hnodes : ∀ x y, rel x y → y ∈ nodes)
    (i : Nat) (v : κ) (hi : nodes[i]? = some v) :
    ∃ idxs, traverse P succ nodes.length i = some idxs ∧
      (∀ b, b ∈ idxs ↔ Reach succ i b) ∧
      ∀ x, x ∈ mapNodes nodes idxs ↔ Relation.TransGen rel v x := by
  obtain ⟨idxs, htr, hmem⟩ := traverse_correct P hP succ nodes.length i hbound
  refine ⟨idxs, htr, hmem, ?_⟩
  have fwd : ∀ b, Reach succ i b → ∃ y, nodes[b]? = some y ∧ Relation.TransGen rel v y := by
    intro b hb
    induction hb with
    | single h =>
      obtain ⟨y, hy, hxy⟩ := (hrow i _ v hi).mp h
      exact ⟨y, hy, Relation.TransGen.single hxy⟩
    | tail _ h ih =>
      obtain ⟨y, hy, hr⟩ := ih
      obtain ⟨z, hz, hyz⟩ := (hrow _ _ y hy).mp h
      exact ⟨z, hz, Relation.TransGen.tail hr hyz⟩
  have bwd : ∀ y, Relation.TransGen rel v y → ∃ b, nodes[b]? = some y ∧ Reach succ i b := by
    intro y hy
    induction hy with
    | @single y' h =>
      obtain ⟨b, hb⟩ := List.getElem?_of_mem (hnodes _ _ h)
      exact ⟨b, hb, Relation.TransGen.single ((hrow i b v hi).mpr ⟨y', hb, h⟩)⟩
    | @tail m y' _ h ih =>
      obtain ⟨b', hb', hr⟩ := ih
      obtain ⟨b, hb⟩ := List.getElem?_of_mem (hnodes _ _ h)
      exact ⟨b, hb, Relation.TransGen.tail hr ((hrow b' b m hb').mpr ⟨y', hb, h⟩)⟩
  intro x
  unfold mapNodes
  simp only [List.mem_filterMap]
  constructor
  · rintro ⟨b, hb, hx⟩
    obtain ⟨y, hy, hr⟩ := fwd b ((hmem b).mp hb)
    rw [hx] at hy; injection hy with hy; subst hy; exact hr
  · intro hr
    obtain ⟨b, hb, hreach⟩ := bwd x hr
    exact ⟨b, (hmem b).mpr hreach, hb⟩

/-- mapping duplicate-free in-range indices through a duplicate-free node array gives duplicate-free labels -/
theorem nodup_mapNodes (nodes : List κ) (hn : nodes.Nodup) (idxs : List Nat) (hi : idxs.Nodup) :
    (mapNodes nodes idxs).Nodup := by
  unfold mapNodes
  induction idxs with
  | nil => simp
  | cons a t ih =>
    simp only [List.nodup_cons] at hi
    simp only [List.filterMap_cons]
    cases ha : nodes[a]? with
    | none => exact ih hi.2
    | some x =>
      simp only [List.nodup_cons]
      refine ⟨?_, ih hi.2⟩
      intro hx
      obtain ⟨b, hb, hbx⟩ := List.mem_filterMap.mp hx
      have hal : a < nodes.length := by
        rcases Nat.lt_or_ge a nodes.length with h | h
        · exact h
        · rw [List.getElem?_eq_none h] at ha; cases ha
      have hbl : b < nodes.length := by
        rcases Nat.lt_or_ge b nodes.length with h | h
        · exact h
        · rw [List.getElem?_eq_none h] at hbx; cases hbx
      rw [List.getElem?_eq_getElem hal] at ha
      rw [List.getElem?_eq_getElem hbl] at hbx
      injection ha with ha; injection hbx with hbx
      have : a = b := (List.getElem_inj hn).mp (ha.trans hbx.symm)
      exact hi.1 (this ▸ hb)

theorem mapNodes_single (nodes : List κ) (i : Nat) (v : κ) (h : nodes[i]? = some v) : mapNodes nodes [i] = [v] := by
  simp [mapNodes, h]

/-- labels of a row: `mapNodes` undoes `idx!` on endpoints -/
theorem mapNodes_idx (o : Graph.Ord κ) (hs : o.Strict) (E : List (Edge κ)) (l : List (Edge κ)) (f : Edge κ → κ)
    (hf : ∀ e ∈ l, f e ∈ nodesOf o E) :
    mapNodes (nodesOf o E) (l.map (fun e => idx! o (nodesOf o E) (f e))) = l.map f := by
  unfold mapNodes
  induction l with
  | nil => rfl
  | cons a t ih =>
    have h1 := (indexOf?_idx! o hs E (f a) (hf a List.mem_cons_self)).2
    simp only [List.map_cons, List.filterMap_cons, h1]
    rw [ih (fun e he => hf e (List.mem_cons_of_mem _ he))]

end Hpv.GM

namespace Hpv.GM
open Hpv.Graph Hpv.Csr Hpv.Indexed
variable {κ : Type} [DecidableEq κ]

theorem psums_length (acc : Nat) (xs : List Nat) : (psums acc xs).length = xs.length + 1 := by
  induction xs generalizing acc with
  | nil => rfl
  | cons a t ih => simp [psums, ih]

theorem ofRows_indptr_length (rows : List (List Nat)) : (Static.ofRows rows).indptr.length = rows.length + 1 := by
  simp [Static.ofRows, psums_length]

theorem findIdx_spec (nodes : List κ) (x : κ) (hx : x ∈ nodes) :
    ∃ r, findIdx nodes x = some r ∧ nodes[r]? = some x := by
  have hlt : nodes.findIdx (fun y => decide (y = x)) < nodes.length :=
    List.findIdx_lt_length_of_exists ⟨x, hx, by simp⟩
  refine ⟨nodes.findIdx (fun y => decide (y = x)), ?_, ?_⟩
  · unfold findIdx
    simp only [hlt, if_true]
  · rw [List.getElem?_eq_getElem hlt]
    have := List.findIdx_getElem (w := hlt)
    simp only [decide_eq_true_eq] at this
    rw [this]

/-- What the indexed factory builds from an arbitrary edge list: the CSR arrays of the de-duplicated, rooted list. -/
theorem buildIndexed_spec (o : Graph.Ord κ) (hs : o.Strict) (owl : κ) (E : List (Edge κ)) (root : κ) (E' : List (Edge κ))
    (hroot : findRoot owl (dedup E) = .ok (root, E')) (hloop : ∀ e ∈ E', e.1 ≠ e.2) :
    ∃ g ig, buildIndexed o owl E = .ok g ∧ Indexed.build o E' = some ig ∧ g.nodes = nodesOf o E' ∧ ig.nodes = nodesOf o E' ∧
      g.children = ig.children ∧ g.parents = ig.parents ∧ g.nodes[g.root]? = some root ∧
      g.children.indptr.length = g.nodes.length + 1 ∧ g.parents.indptr.length = g.nodes.length + 1 := by
  obtain ⟨ig, hig, hn, hp, hc⟩ := build_spec o hs E' hloop
  -- the root is an endpoint of the rooted list
  have hrootmem : root ∈ nodesOf o E' := by
    rcases findRoot_spec owl (dedup E) root E' hroot with ⟨h1, rfl⟩ | ⟨h2, rfl, rfl⟩
    · have : root ∈ candidates (dedup E) := by rw [h1]; simp
      obtain ⟨⟨e, he, rfl⟩, _⟩ := (mem_candidates _ _).mp this
      exact (mem_nodesOf o _ e he).2
    · cases hcs : candidates (dedup E) with
      | nil => rw [hcs] at h2; simp at h2
      | cons c t =>
        have : (c, root) ∈ dedup E ++ (candidates (dedup E)).map (fun c => (c, root)) := by
          rw [hcs]; simp
        have h3 := (mem_nodesOf o _ _ this).2
        rw [hcs] at h3
        exact h3
  obtain ⟨r, hr, hrn⟩ := findIdx_spec (nodesOf o E') root hrootmem
  refine ⟨⟨r, ig.nodes, ig.children, ig.parents⟩, ig, ?_, hig, hn, hn, rfl, rfl, by rw [hn]; exact hrn, ?_, ?_⟩
  · unfold buildIndexed
    simp only [hroot, hig, hn, hr]
  · show ig.children.indptr.length = ig.nodes.length + 1
    rw [hc, ofRows_indptr_length, hn]; simp
  · show ig.parents.indptr.length = ig.nodes.length + 1
    rw [hp, ofRows_indptr_length, hn]; simp

theorem outgoing_ok (c : Static) (n i : Nat) (hlen : c.indptr.length = n + 1) (hi : i < n) :
    outgoing c (i : Int) = .ok (c.row i) := by
  unfold outgoing
  have h1 : ¬ ((i : Int) < 0) := by omega
  have h2 : ¬ (((c.indptr.length : Nat) : Int) - 1 ≤ (i : Int)) := by rw [hlen]; omega
  simp [h1, h2]

theorem outgoing_bad (c : Static) (n : Nat) (i : Int) (hlen : c.indptr.length = n + 1) (hi : i < 0 ∨ (n : Int) ≤ i) :
    outgoing c i = .error .valueError := by
  unfold outgoing
  have : i < 0 ∨ ((c.indptr.length : Nat) : Int) - 1 ≤ i := by rw [hlen]; omega
  simp [this]

end Hpv.GM

namespace Hpv.GM
open Hpv.Graph Hpv.Csr Hpv.Indexed
variable {κ : Type} [DecidableEq κ]

theorem IGraph.query_ok (o : Graph.Ord κ) (hs : o.Strict) (g : IGraph κ) (hsorted : Sorted o g.nodes) (q : Q) (v : κ)
    (i : Nat) (hi : g.nodes[i]? = some v) (incl : Bool) (idxs : List Nat) (hq : g.queryIdx q (i : Int) = .ok idxs) :
    g.query o q (some v) incl = .ok ((if incl then [v] else []) ++ mapNodes g.nodes idxs) := by
  have hidx : indexOf? o g.nodes v = some i := (indexOf?_spec o hs _ hsorted v i).mpr hi
  unfold IGraph.query IGraph.nodeToIdx
  simp only [hidx, hq]
  cases incl <;> simp [mapNodes_single g.nodes i v hi]

/-- everything the C01/C03/C14 theorems need to know about a graph built by the indexed factory -/
structure BuiltIx (o : Graph.Ord κ) (owl : κ) (E : List (Edge κ)) (root : κ) (E' : List (Edge κ)) (g : IGraph κ) : Prop where
  strict : o.Strict
  hroot : findRoot owl (dedup E) = .ok (root, E')
  hloop : ∀ e ∈ E', e.1 ≠ e.2
  hg : buildIndexed o owl E = .ok g

section
variable {o : Graph.Ord κ} {owl : κ} {E : List (Edge κ)} {root : κ} {E' : List (Edge κ)} {g : IGraph κ}

theorem BuiltIx.facts (h : BuiltIx o owl E root E' g) :
    ∃ ig, Indexed.build o E' = some ig ∧ g.nodes = nodesOf o E' ∧ ig.nodes = g.nodes ∧
      g.children = ig.children ∧ g.parents = ig.parents ∧ g.nodes[g.root]? = some root ∧
      g.children.indptr.length = g.nodes.length + 1 ∧ g.parents.indptr.length = g.nodes.length + 1 ∧
      Sorted o g.nodes := by
  obtain ⟨g', ig, hg', hig, hn, hn', hc, hp, hr, hl1, hl2⟩ := buildIndexed_spec o h.strict owl E root E' h.hroot h.hloop
  have : g' = g := by rw [h.hg] at hg'; injection hg' with e; exact e.symm
  subst this
  exact ⟨ig, hig, hn, by rw [hn', hn], hc, hp, hr, hl1, hl2, by rw [hn]; exact sorted_sortDedup o h.strict _⟩

theorem BuiltIx.idx_lt (h : BuiltIx o owl E root E' g) (i : Nat) (v : κ) (hi : g.nodes[i]? = some v) : i < g.nodes.length := by
  rcases Nat.lt_or_ge i g.nodes.length with h' | h'
  · exact h'
  · rw [List.getElem?_eq_none h'] at hi; cases hi

/-- rows of the built arrays, at label level -/
theorem BuiltIx.parents_row (h : BuiltIx o owl E root E' g) (i : Nat) (v : κ) (hi : g.nodes[i]? = some v) :
    g.parents.row i = (E'.filter (fun e => decide (e.1 = v))).map (fun e => idx! o (nodesOf o E') e.2) ∧
    mapNodes g.nodes (g.parents.row i) = (E'.filter (fun e => decide (e.1 = v))).map (·.2) := by
  obtain ⟨ig, hig, hn, _, _, hp, _⟩ := h.facts
  obtain ⟨ig', hig', _, hp', _⟩ := build_spec o h.strict E' h.hloop
  rw [hig] at hig'; injection hig' with e; subst e
  have hrow : g.parents.row i = (E'.filter (fun e => decide (e.1 = v))).map (fun e => idx! o (nodesOf o E') e.2) := by
    rw [hp, hp']
    apply Static.row_ofRows_getElem
    rw [hn] at hi
    simp [hi]
  refine ⟨hrow, ?_⟩
  rw [hrow, hn]
  exact mapNodes_idx o h.strict E' _ (·.2) (fun e he => (mem_nodesOf o E' e (List.mem_filter.mp he).1).2)

theorem BuiltIx.children_row (h : BuiltIx o owl E root E' g) (i : Nat) (v : κ) (hi : g.nodes[i]? = some v) :
    g.children.row i = (E'.filter (fun e => decide (e.2 = v))).map (fun e => idx! o (nodesOf o E') e.1) ∧
    mapNodes g.nodes (g.children.row i) = (E'.filter (fun e => decide (e.2 = v))).map (·.1) := by
  obtain ⟨ig, hig, hn, _, hc, _, _⟩ := h.facts
  obtain ⟨ig', hig', _, _, hc'⟩ := build_spec o h.strict E' h.hloop
  rw [hig] at hig'; injection hig' with e; subst e
  have hrow : g.children.row i = (E'.filter (fun e => decide (e.2 = v))).map (fun e => idx! o (nodesOf o E') e.1) := by
    rw [hc, hc']
    apply Static.row_ofRows_getElem
    rw [hn] at hi
    simp [hi]
  refine ⟨hrow, ?_⟩
  rw [hrow, hn]
  exact mapNodes_idx o h.strict E' _ (·.1) (fun e he => (mem_nodesOf o E' e (List.mem_filter.mp he).1).1)

end
end Hpv.GM

namespace Hpv.GM
open Hpv.Graph Hpv.Csr Hpv.Indexed
variable {κ : Type} [DecidableEq κ]

theorem nodup_map_on {α β} (f : α → β) (l : List α) (h : ∀ a ∈ l, ∀ b ∈ l, f a = f b → a = b) (hl : l.Nodup) :
    (l.map f).Nodup := by
  induction l with
  | nil => simp
  | cons a t ih =>
    simp only [List.nodup_cons] at hl
    simp only [List.map_cons, List.nodup_cons, List.mem_map]
    refine ⟨?_, ih (fun x hx y hy => h x (List.mem_cons_of_mem _ hx) y (List.mem_cons_of_mem _ hy)) hl.2⟩
    rintro ⟨b, hb, hfb⟩
    have := h b (List.mem_cons_of_mem _ hb) a List.mem_cons_self hfb
    exact hl.1 (this ▸ hb)

/-- the rooted edge list never repeats an edge (this is what the de-duplication in `create_graph` buys) -/
theorem rooted_nodup (owl : κ) (E : List (Edge κ)) (root : κ) (E' : List (Edge κ))
    (h : findRoot owl (dedup E) = .ok (root, E')) : E'.Nodup := by
  rcases findRoot_spec owl (dedup E) root E' h with ⟨_, rfl⟩ | ⟨_, _, rfl⟩
  · exact nodup_dedup E
  · rw [List.nodup_append]
    refine ⟨nodup_dedup E, ?_, ?_⟩
    · apply nodup_map_on _ _ _ (nodup_candidates _)
      intro a _ b _ hab
      exact (Prod.mk.inj hab).1
    · intro a ha b hb hab
      subst hab
      obtain ⟨c, hc, rfl⟩ := List.mem_map.mp hb
      exact ((mem_candidates _ c).mp hc).2 _ ha rfl

theorem filter_map_nodup {α β} [DecidableEq α] (l : List α) (hl : l.Nodup) (p : α → Bool) (f : α → β)
    (hinj : ∀ a ∈ l, ∀ b ∈ l, p a = true → p b = true → f a = f b → a = b) : ((l.filter p).map f).Nodup := by
  apply nodup_map_on _ _ _ (List.Pairwise.filter _ hl)
  intro a ha b hb hab
  obtain ⟨ha1, ha2⟩ := List.mem_filter.mp ha
  obtain ⟨hb1, hb2⟩ := List.mem_filter.mp hb
  exact hinj a ha1 b hb1 ha2 hb2 hab

section
variable {o : Graph.Ord κ} {owl : κ} {E : List (Edge κ)} {root : κ} {E' : List (Edge κ)} {g : IGraph κ}

theorem idx!_inj (o : Graph.Ord κ) (hs : o.Strict) (E' : List (Edge κ)) (x y : κ) (hx : x ∈ nodesOf o E') (hy : y ∈ nodesOf o E')
    (h : idx! o (nodesOf o E') x = idx! o (nodesOf o E') y) : x = y := by
  have h1 := (indexOf?_idx! o hs E' x hx).2
  have h2 := (indexOf?_idx! o hs E' y hy).2
  rw [h] at h1
  rw [h1] at h2
  exact Option.some.inj h2

theorem BuiltIx.parents_row_nodup (h : BuiltIx o owl E root E' g) (i : Nat) (v : κ) (hi : g.nodes[i]? = some v) :
    (g.parents.row i).Nodup ∧ ((E'.filter (fun e => decide (e.1 = v))).map (·.2)).Nodup := by
  have hnd := rooted_nodup owl E root E' h.hroot
  rw [(h.parents_row i v hi).1]
  constructor
  · apply filter_map_nodup _ hnd
    intro a ha b hb pa pb hab
    simp only [decide_eq_true_eq] at pa pb
    have := idx!_inj o h.strict E' a.2 b.2 (mem_nodesOf o E' a ha).2 (mem_nodesOf o E' b hb).2 hab
    exact Prod.ext (pa.trans pb.symm) this
  · apply filter_map_nodup _ hnd
    intro a _ b _ pa pb hab
    simp only [decide_eq_true_eq] at pa pb
    exact Prod.ext (pa.trans pb.symm) hab

theorem BuiltIx.children_row_nodup (h : BuiltIx o owl E root E' g) (i : Nat) (v : κ) (hi : g.nodes[i]? = some v) :
    (g.children.row i).Nodup ∧ ((E'.filter (fun e => decide (e.2 = v))).map (·.1)).Nodup := by
  have hnd := rooted_nodup owl E root E' h.hroot
  rw [(h.children_row i v hi).1]
  constructor
  · apply filter_map_nodup _ hnd
    intro a ha b hb pa pb hab
    simp only [decide_eq_true_eq] at pa pb
    have := idx!_inj o h.strict E' a.1 b.1 (mem_nodesOf o E' a ha).1 (mem_nodesOf o E' b hb).1 hab
    exact Prod.ext this (pa.trans pb.symm)
  · apply filter_map_nodup _ hnd
    intro a _ b _ pa pb hab
    simp only [decide_eq_true_eq] at pa pb
    exact Prod.ext hab (pa.trans pb.symm)

/-- index-space traversal of a built graph, with its label-level meaning -/
theorem BuiltIx.ancestorIdx_spec (h : BuiltIx o owl E root E' g) (i : Nat) (v : κ) (hi : g.nodes[i]? = some v) :
    ∃ idxs, g.ancestorIdx (i : Int) = .ok idxs ∧ idxs.Nodup ∧ (∀ b, b ∈ idxs ↔ Reach g.parents.row i b) ∧
      ∀ x, x ∈ mapNodes g.nodes idxs ↔ Relation.TransGen (fun a b => (a, b) ∈ E') v x := by
  obtain ⟨ig, hig, hn, hign, _, hp, _, _, hl2, _⟩ := h.facts
  have hlt := h.idx_lt i v hi
  obtain ⟨idxs, htr, hmem, hlab⟩ := closure_transfer g.nodes g.parents.row (fun a b => (a, b) ∈ E') popStack popStack_lawful
    (by intro a b x hx; rw [hp]; rw [← hign] at hx ⊢; exact mem_parents_row o h.strict E' h.hloop ig hig a b x hx)
    (by intro a b hb; rw [hp] at hb; rw [← hign]; exact parents_row_bound o h.strict E' h.hloop ig hig a b hb)
    (by intro x y hxy; rw [hn]; exact (mem_nodesOf o E' _ hxy).2) i v hi
  refine ⟨idxs, ?_, traverse_nodup popStack popStack_lawful _ _ _ (h.parents_row_nodup i v hi).1 idxs htr, hmem, hlab⟩
  unfold IGraph.ancestorIdx traverseIdx
  rw [outgoing_ok g.parents g.nodes.length i hl2 hlt]
  simp only [Int.toNat_natCast, htr]

theorem BuiltIx.descendantIdx_spec (h : BuiltIx o owl E root E' g) (i : Nat) (v : κ) (hi : g.nodes[i]? = some v) :
    ∃ idxs, g.descendantIdx (i : Int) = .ok idxs ∧ idxs.Nodup ∧ (∀ b, b ∈ idxs ↔ Reach g.children.row i b) ∧
      ∀ x, x ∈ mapNodes g.nodes idxs ↔ Relation.TransGen (fun a b => (b, a) ∈ E') v x := by
  obtain ⟨ig, hig, hn, hign, hc, _, _, hl1, _, _⟩ := h.facts
  have hlt := h.idx_lt i v hi
  obtain ⟨idxs, htr, hmem, hlab⟩ := closure_transfer g.nodes g.children.row (fun a b => (b, a) ∈ E') popStack popStack_lawful
    (by intro a b x hx; rw [hc]; rw [← hign] at hx ⊢; exact mem_children_row o h.strict E' h.hloop ig hig a b x hx)
    (by intro a b hb; rw [hc] at hb; rw [← hign]; exact children_row_bound o h.strict E' h.hloop ig hig a b hb)
    (by intro x y hxy; rw [hn]; exact (mem_nodesOf o E' _ hxy).1) i v hi
  refine ⟨idxs, ?_, traverse_nodup popStack popStack_lawful _ _ _ (h.children_row_nodup i v hi).1 idxs htr, hmem, hlab⟩
  unfold IGraph.descendantIdx traverseIdx
  rw [outgoing_ok g.children g.nodes.length i hl1 hlt]
  simp only [Int.toNat_natCast, htr]

end
end Hpv.GM

namespace Hpv.GM
open Hpv.Graph Hpv.Csr Hpv.Indexed
variable {κ : Type} [DecidableEq κ]

theorem mem_mapNodes_iff (nodes : List κ) (hn : nodes.Nodup) (idxs : List Nat) (hb : ∀ j ∈ idxs, j < nodes.length)
    (i : Nat) (a : κ) (hi : nodes[i]? = some a) : a ∈ mapNodes nodes idxs ↔ i ∈ idxs := by
  unfold mapNodes
  simp only [List.mem_filterMap]
  constructor
  · rintro ⟨j, hj, hja⟩
    have hil : i < nodes.length := by
      rcases Nat.lt_or_ge i nodes.length with h | h
      · exact h
      · rw [List.getElem?_eq_none h] at hi; cases hi
    have hjl := hb j hj
    rw [List.getElem?_eq_getElem hil] at hi
    rw [List.getElem?_eq_getElem hjl] at hja
    injection hi with hi; injection hja with hja
    have : i = j := (List.getElem_inj hn).mp (hi.trans hja.symm)
    exact this ▸ hj
  · intro h; exact ⟨i, h, hi⟩

theorem any_cast_eq (l : List Nat) (a : Nat) : (l.any fun i => decide ((a : Int) = (i : Int))) = decide (a ∈ l) := by
  rw [Bool.eq_iff_iff]
  simp only [List.any_eq_true, decide_eq_true_eq]
  constructor
  · rintro ⟨x, hx, h⟩; have : a = x := by omega
    exact this ▸ hx
  · intro h; exact ⟨a, h, rfl⟩

section
variable {o : Graph.Ord κ} {owl : κ} {E : List (Edge κ)} {root : κ} {E' : List (Edge κ)} {g : IGraph κ}

theorem BuiltIx.mem_parents (h : BuiltIx o owl E root E' g) (a b : Nat) (x : κ) (hx : g.nodes[a]? = some x) :
    b ∈ g.parents.row a ↔ ∃ y, g.nodes[b]? = some y ∧ (x, y) ∈ E' := by
  obtain ⟨ig, hig, _, hign, _, hp, _⟩ := h.facts
  rw [hp]; rw [← hign] at hx ⊢
  exact mem_parents_row o h.strict E' h.hloop ig hig a b x hx

theorem BuiltIx.mem_children (h : BuiltIx o owl E root E' g) (a b : Nat) (x : κ) (hx : g.nodes[a]? = some x) :
    b ∈ g.children.row a ↔ ∃ y, g.nodes[b]? = some y ∧ (y, x) ∈ E' := by
  obtain ⟨ig, hig, _, hign, hc, _, _⟩ := h.facts
  rw [hc]; rw [← hign] at hx ⊢
  exact mem_children_row o h.strict E' h.hloop ig hig a b x hx

theorem BuiltIx.parents_bound (h : BuiltIx o owl E root E' g) (a b : Nat) (hb : b ∈ g.parents.row a) : b < g.nodes.length := by
  obtain ⟨ig, hig, _, hign, _, hp, _⟩ := h.facts
  rw [hp] at hb; rw [← hign]
  exact parents_row_bound o h.strict E' h.hloop ig hig a b hb

theorem BuiltIx.nodes_nodup (h : BuiltIx o owl E root E' g) : g.nodes.Nodup := by
  obtain ⟨_, _, _, _, _, _, _, _, _, hsorted⟩ := h.facts
  exact Sorted.nodup o h.strict _ hsorted

theorem BuiltIx.lookup (h : BuiltIx o owl E root E' g) (v : κ) (hv : v ∈ g.nodes) :
    ∃ i, g.nodes[i]? = some v ∧ g.nodeToIdx o v = some i ∧ i < g.nodes.length := by
  obtain ⟨i, hi⟩ := List.getElem?_of_mem hv
  obtain ⟨_, _, _, _, _, _, _, _, _, hsorted⟩ := h.facts
  exact ⟨i, hi, (indexOf?_spec o h.strict _ hsorted v i).mpr hi, h.idx_lt i v hi⟩

end
end Hpv.GM

/-! ### matrix graphs: query layer under "the adjacency matrix represents the edge list" -/
namespace Hpv.GM
open Hpv.Graph Hpv.Csr Hpv.Indexed
variable {κ : Type} [DecidableEq κ]

/-- The adjacency matrix of `g` represents the rooted edge list `E'`: code `1` in cell `(i, j)` iff
`nodes[i] is_a nodes[j]`, code `-1` iff the converse; column lists are in range and duplicate-free
(C17.csr_reads gives the last two for every well-formed CSR triple). -/
structure Represents (o : Graph.Ord κ) (g : MGraph κ) (E' : List (Edge κ)) : Prop where
  sorted : Sorted o g.nodes
  nodes_mem : ∀ e ∈ E', e.1 ∈ g.nodes ∧ e.2 ∈ g.nodes
  up : ∀ i j x, g.nodes[i]? = some x → (j ∈ g.cols 1 i ↔ ∃ y, g.nodes[j]? = some y ∧ (x, y) ∈ E')
  down : ∀ i j x, g.nodes[i]? = some x → (j ∈ g.cols (-1) i ↔ ∃ y, g.nodes[j]? = some y ∧ (y, x) ∈ E')
  bound : ∀ r i j, j ∈ g.cols r i → j < g.nodes.length
  nodup : ∀ r i, (g.cols r i).Nodup

theorem traverseFrom_eq_traverse (P : Pop) (succ : Nat → List Nat) (n src : Nat) :
    traverseFrom P succ n (succ src) = traverse P succ n src := rfl

section
variable {o : Graph.Ord κ} {g : MGraph κ} {E' : List (Edge κ)}

theorem Represents.lookup (h : Represents o g E') (hs : o.Strict) (v : κ) (hv : v ∈ g.nodes) :
    ∃ i, g.nodes[i]? = some v ∧ indexOf? o g.nodes v = some i := by
  obtain ⟨i, hi⟩ := List.getElem?_of_mem hv
  exact ⟨i, hi, (indexOf?_spec o hs _ h.sorted v i).mpr hi⟩

theorem mem_mapNodes_rel (nodes : List κ) (l : List Nat) (rel : κ → Prop)
    (hl : ∀ j, j ∈ l ↔ ∃ y, nodes[j]? = some y ∧ rel y) (x : κ) : x ∈ mapNodes nodes l ↔ rel x ∧ x ∈ nodes := by
  unfold mapNodes
  simp only [List.mem_filterMap]
  constructor
  · rintro ⟨j, hj, hjx⟩
    obtain ⟨y, hy, hr⟩ := (hl j).mp hj
    rw [hjx] at hy; injection hy with hy; subst hy
    exact ⟨hr, List.mem_of_getElem? hjx⟩
  · rintro ⟨hr, hx⟩
    obtain ⟨j, hj⟩ := List.getElem?_of_mem hx
    exact ⟨j, (hl j).mpr ⟨x, hj, hr⟩, hj⟩

/-- parents / children of a matrix graph: exactly the direct is_a objects / subjects, each once -/
theorem Represents.direct (h : Represents o g E') (hs : o.Strict) (v : κ) (hv : v ∈ g.nodes) :
    (∃ res, g.query o .parents (some v) false = .ok res ∧ res.Nodup ∧ ∀ x, x ∈ res ↔ (v, x) ∈ E') ∧
    (∃ res, g.query o .children (some v) false = .ok res ∧ res.Nodup ∧ ∀ x, x ∈ res ↔ (x, v) ∈ E') := by
  obtain ⟨i, hi, hidx⟩ := h.lookup hs v hv
  have hnd := Sorted.nodup o hs _ h.sorted
  constructor
  · refine ⟨mapNodes g.nodes (g.cols 1 i), by simp [MGraph.query, hidx, relCode], nodup_mapNodes _ hnd _ (h.nodup 1 i), ?_⟩
    intro x
    rw [mem_mapNodes_rel g.nodes (g.cols 1 i) (fun y => (v, y) ∈ E') (fun j => h.up i j v hi)]
    exact ⟨fun hh => hh.1, fun hh => ⟨hh, (h.nodes_mem _ hh).2⟩⟩
  · refine ⟨mapNodes g.nodes (g.cols (-1) i), by simp [MGraph.query, hidx, relCode], nodup_mapNodes _ hnd _ (h.nodup (-1) i), ?_⟩
    intro x
    rw [mem_mapNodes_rel g.nodes (g.cols (-1) i) (fun y => (y, v) ∈ E') (fun j => h.down i j v hi)]
    exact ⟨fun hh => hh.1, fun hh => ⟨hh, (h.nodes_mem _ hh).1⟩⟩

/-- ancestors / descendants of a matrix graph (queue discipline): exactly the transitive closure, each once -/
theorem Represents.closure (h : Represents o g E') (hs : o.Strict) (v : κ) (hv : v ∈ g.nodes) :
    (∃ res, g.query o .ancestors (some v) false = .ok res ∧ res.Nodup ∧
      ∀ x, x ∈ res ↔ Relation.TransGen (fun a b => (a, b) ∈ E') v x) ∧
    (∃ res, g.query o .descendants (some v) false = .ok res ∧ res.Nodup ∧
      ∀ x, x ∈ res ↔ Relation.TransGen (fun a b => (b, a) ∈ E') v x) := by
  obtain ⟨i, hi, hidx⟩ := h.lookup hs v hv
  have hnd := Sorted.nodup o hs _ h.sorted
  constructor
  · obtain ⟨idxs, htr, _, hlab⟩ := closure_transfer g.nodes (g.cols 1) (fun a b => (a, b) ∈ E') popQueue popQueue_lawful
      (fun a b x hx => h.up a b x hx) (fun a b hb => h.bound 1 a b hb) (fun x y hxy => (h.nodes_mem _ hxy).2) i v hi
    refine ⟨mapNodes g.nodes idxs, ?_, nodup_mapNodes _ hnd _ (traverse_nodup popQueue popQueue_lawful _ _ _ (h.nodup 1 i) idxs htr), hlab⟩
    simp only [MGraph.query, hidx, relCode, Bool.false_eq_true, if_false, List.nil_append, traverseFrom_eq_traverse, htr]
  · obtain ⟨idxs, htr, _, hlab⟩ := closure_transfer g.nodes (g.cols (-1)) (fun a b => (b, a) ∈ E') popQueue popQueue_lawful
      (fun a b x hx => h.down a b x hx) (fun a b hb => h.bound (-1) a b hb) (fun x y hxy => (h.nodes_mem _ hxy).1) i v hi
    refine ⟨mapNodes g.nodes idxs, ?_, nodup_mapNodes _ hnd _ (traverse_nodup popQueue popQueue_lawful _ _ _ (h.nodup (-1) i) idxs htr), hlab⟩
    simp only [MGraph.query, hidx, relCode, Bool.false_eq_true, if_false, List.nil_append, traverseFrom_eq_traverse, htr]

end
end Hpv.GM
