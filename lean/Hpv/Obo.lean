/-
Obographs loading (src/hpotk/ontology/load/obographs/_load.py, _model.py, _factory.py).
The parsed JSON document is the input (each field optional exactly as in JSON).  Regular expressions are re-implemented
as small recognisers over `String`; the check compares each recogniser with the compiled pattern object of the running
code on every run.  Core Lean only.
-/
import Hpv.Matrix     -- `Hpv.Err`

namespace Hpv.Obo

structure Bpv where
  pred : Option String
  val : Option String
deriving Repr, DecidableEq

structure SynJ where
  pred : Option String
  val : Option String
  synType : Option String
  xrefs : List String
deriving Repr, DecidableEq

structure DefJ where
  val : Option String
  xrefs : List String
deriving Repr, DecidableEq

structure MetaJ where
  definition : Option DefJ := none
  comments : List String := []
  synonyms : List SynJ := []
  xrefs : List (Option String) := []       -- `val` of each xref property value
  bpvs : List Bpv := []
  deprecated : Option Bool := none         -- `none`: key absent or not the JSON literal `true`/`false`
deriving Repr, DecidableEq

structure NodeJ where
  id : String
  lbl : Option String := none
  type : Option String := none
  mta : Option MetaJ := none
deriving Repr, DecidableEq

structure EdgeJ where
  sub : String
  pred : String
  obj : String
deriving Repr, DecidableEq

structure DocMeta where
  version : Option String := none
  bpvs : Option (List Bpv) := none
deriving Repr, DecidableEq

structure Doc where
  nodes : List NodeJ
  edges : List EdgeJ
  mta : DocMeta
deriving Repr, DecidableEq

/-! ### recognisers -/

def isWord (c : Char) : Bool := c.isAlphanum || c = '_'      -- ASCII `\w`

def oboBase : String := "http://purl.obolibrary.org/obo/"

/-- `PURL_PATTERN.match(purl).group('curie')`: the maximal word run after the OBO base, accepted iff it has an underscore
with at least one word character before and after it -/
def purlCurie (purl : String) : Option String :=
  if purl.startsWith oboBase then
    let w := ((purl.drop oboBase.length).takeWhile isWord).toString
    let cs := w.toList
    let n := cs.length
    if (List.range n).any (fun i => 1 ≤ i ∧ i + 2 ≤ n ∧ cs[i]? = some '_') then some w else none
  else none

/-- `TermId.from_curie`: (prefix, id) split at the first ':' else the first '_' -/
def termIdOf (s : String) : Option (String × String) :=
  let cs := s.toList
  match cs.idxOf? ':' with
  | some i => some (String.ofList (cs.take i), String.ofList (cs.drop (i + 1)))
  | none => match cs.idxOf? '_' with
    | some i => some (String.ofList (cs.take i), String.ofList (cs.drop (i + 1)))
    | none => none

def curieValue (t : String × String) : String := t.1 ++ ":" ++ t.2

def isDigits (l : List Char) : Bool := l.all Char.isDigit

/-- does `/dddd-dd-dd/` start at the head of the list?  returns the date -/
def dateAt (l : List Char) : Option String :=
  match l with
  | '/' :: a :: b :: c :: d :: '-' :: e :: f :: '-' :: g :: h :: '/' :: _ =>
    if isDigits [a, b, c, d, e, f, g, h] then some (String.ofList [a, b, c, d, '-', e, f, '-', g, h]) else none
  | _ => none

def tails {α} : List α → List (List α)
  | [] => [[]]
  | x :: xs => (x :: xs) :: tails xs

/-- `DATE_PATTERN.search(s).group('date')`: the LAST `/dddd-dd-dd/` of the FIRST line that has one -/
def dateOf (s : String) : Option String :=
  let lines := s.splitOn "\n"
  (lines.filterMap (fun line => ((tails line.toList).filterMap dateAt).getLast?)).head?

/-! ### terms -/

inductive SynCategory | exact | related | broad | narrow
deriving Repr, DecidableEq

inductive SynType | layperson | abbreviation | ukSpelling | obsoleteSynonym | pluralForm | allelicRequirement
deriving Repr, DecidableEq

structure Synonym where
  name : Option String
  category : Option SynCategory
  synType : Option SynType
  xrefs : Option (List String)        -- CURIE values; `none` when nothing survives
deriving Repr, DecidableEq

structure Term where
  id : String × String
  name : String
  alts : List (String × String)
  obsolete : Bool
  -- full terms only (`none`/defaults for minimal terms)
  definition : Option (String × List String) := none
  comment : Option String := none
  synonyms : Option (List Synonym) := none
  xrefs : Option (List (String × String)) := none
deriving Repr, DecidableEq

def parseCategory : Option String → Option SynCategory
  | some "hasRelatedSynonym" => some .related
  | some "hasExactSynonym" => some .exact
  | some "hasBroadSynonym" => some .broad
  | some "hasNarrowSynonym" => some .narrow
  | _ => none

/-- `parse_synonym_type` -/
def parseSynType (st : Option String) : Option SynType :=
  match st with
  | none => none
  | some s =>
    if s.isEmpty then none
    else if s.startsWith oboBase ∧ s.length > oboBase.length ∧ !(s.contains '\n') then
      let value := (s.drop oboBase.length).toString
      -- `^hp(.*)#(?P<value>.+)$`: the part after the last '#' that still leaves at least one character
      let cs := value.toList
      let hashes := (List.range cs.length).filter (fun i => 2 ≤ i ∧ i + 1 < cs.length ∧ cs[i]? = some '#')
      if value.startsWith "hp" ∧ !hashes.isEmpty then
        let i := hashes.getLast?.getD 0
        let v := String.ofList (cs.drop (i + 1))
        if v = "layperson" ∨ v = "layperson term" then some .layperson
        else if v = "abbreviation" then some .abbreviation
        else if v = "uk_spelling" then some .ukSpelling
        else if v = "obsolete_synonym" then some .obsoleteSynonym
        else if v = "plural_form" then some .pluralForm
        else none
      else if value = "HP_0034334" ∨ value = "allelic_requirement" then some .allelicRequirement
      else none
    else none

/-- `ORCID_PT = .*orcid\.org/(?P<orcid>\d{4}-\d{4}-\d{4}-\d{4})$` used with `match` (ASCII digits; `.` does not cross a line break) -/
def orcidOf (x : String) : Option String :=
  let cs := x.toList
  let n := cs.length
  if n < 29 then none
  else
    let tail := cs.drop (n - 19)
    let mid := (cs.drop (n - 29)).take 10
    let dig (c : Char) : Bool := '0' ≤ c && c ≤ '9'
    let shape := match tail with
      | [a1, a2, a3, a4, d1, b1, b2, b3, b4, d2, c1, c2, c3, c4, d3, e1, e2, e3, e4] =>
        dig a1 && dig a2 && dig a3 && dig a4 && d1 == '-' && dig b1 && dig b2 && dig b3 && dig b4 && d2 == '-' &&
          dig c1 && dig c2 && dig c3 && dig c4 && d3 == '-' && dig e1 && dig e2 && dig e3 && dig e4
      | _ => false
    if mid == "orcid.org/".toList && shape && !((cs.take (n - 29)).contains '\n') then some ("ORCID:" ++ String.ofList tail) else none

/-- `parse_synonym_xref`: the ORCID special case, else a CURIE, else dropped -/
def parseSynXref (x : String) : Option String :=
  match orcidOf x with
  | some c => some c
  | none => (termIdOf x).map curieValue

def parseSynXrefs (xs : List String) : Option (List String) :=
  if xs.isEmpty then none
  else
    let parsed := xs.filterMap parseSynXref
    if parsed.isEmpty then none else some parsed

def parseSynonym (s : SynJ) : Synonym := ⟨s.val, parseCategory s.pred, parseSynType s.synType, parseSynXrefs s.xrefs⟩

def isDeprecated (m : Option MetaJ) : Bool :=
  match m with
  | none => false
  | some mj => mj.deprecated = some true

def mapM' {α β} (f : α → Option β) : List α → Option (List β)
  | [] => some []
  | x :: xs => match f x, mapM' f xs with
    | some y, some ys => some (y :: ys)
    | _, _ => none

/-- `create_alt_term_ids`; `none` = `TermId.from_curie` raises -/
def altIds (m : Option MetaJ) : Option (List (String × String)) :=
  match m with
  | none => some []
  | some mj =>
    mapM' (fun (b : Bpv) => match b.val with | some v => termIdOf v | none => none)
      (mj.bpvs.filter (fun b => match b.pred, b.val with
        | some p, some _ => p.endsWith "#hasAlternativeId"
        | _, _ => false))

inductive Loader | minimal | full
deriving Repr, DecidableEq

/-- one entry of `meta.xrefs`: `TermId.from_curie(xref.val)` (`none` = it raises) -/
def xrefTid (x : Option String) : Option (String × String) :=
  match x with
  | some v => termIdOf v
  | none => none

/-- `MinimalTermFactory.create_term` / `TermFactory.create_term`; an error is an exception of the real factory -/
def mkTerm (L : Loader) (tid : String × String) (n : NodeJ) : Except Err Term :=
  match altIds n.mta with
  | none => .error .valueError
  | some alts =>
    let base : Term := ⟨tid, n.lbl.getD "", alts, isDeprecated n.mta, none, none, none, none⟩
    match L, n.mta with
    | .minimal, _ => .ok base
    | .full, none => .ok { base with alts := [] }
    | .full, some mj =>
      let defn : Except Err (Option (String × List String)) :=
        match mj.definition with
        | none => .ok none
        | some d => match d.val with
          | some v => .ok (some (v, d.xrefs))
          | none => .error .valueError                     -- `Definition(None, ...)` is rejected
      let xr : Except Err (Option (List (String × String))) :=
        if mj.xrefs.isEmpty then .ok none
        else match mapM' xrefTid mj.xrefs with
          | some l => .ok (some l)
          | none => .error .valueError
      match defn, xr with
      | .ok d, .ok x =>
        .ok { base with
          definition := d
          comment := if mj.comments.isEmpty then none else some (", ".intercalate mj.comments)
          synonyms := if mj.synonyms.isEmpty then none else some (mj.synonyms.map parseSynonym)
          xrefs := x }
      | .error e, _ => .error e
      | _, .error e => .error e

def knownType (t : Option String) : Option String :=
  match t with
  | some "CLASS" => some "CLASS"
  | some "INDIVIDUAL" => some "INDIVIDUAL"
  | some "PROPERTY" => some "PROPERTY"
  | _ => none

/-- the node survives every `continue` of `extract_terms`: (curie key, term id) -/
def retained (P : List String) (n : NodeJ) : Option (String × (String × String)) :=
  if knownType n.type = some "CLASS" then
    match purlCurie n.id with
    | none => none
    | some w => match termIdOf w with
      | none => none
      | some tid => if P.contains tid.1 then some (w, tid) else none
  else none

structure Extract where
  curieToTerm : List (String × (String × String))      -- dict, in insertion order (later duplicates overwrite: see `lookupLast`)
  terms : List Term

/-- the loop of `extract_terms` -/
def extractStep (L : Loader) (P : List String) (acc : Except Err Extract) (n : NodeJ) : Except Err Extract :=
  match acc with
  | .error e => .error e
  | .ok a =>
    match retained P n with
    | none => .ok a
    | some (w, tid) =>
      match mkTerm L tid n with
      | .error e => .error e
      | .ok t => .ok ⟨a.curieToTerm ++ [(w, tid)], a.terms ++ [t]⟩

def extractTerms (L : Loader) (P : List String) (nodes : List NodeJ) : Except Err Extract :=
  nodes.foldl (extractStep L P) (.ok ⟨[], []⟩)

def lookupLast (d : List (String × (String × String))) (k : String) : Option (String × String) :=
  ((d.reverse.find? (fun p => p.1 = k)).map (·.2))

/-- one edge of `create_edge_list` -/
def edgeOf (d : List (String × (String × String))) (e : EdgeJ) : Option ((String × String) × (String × String)) :=
  if e.pred ≠ "is_a" then none
  else match purlCurie e.sub with
    | none => none
    | some sc => match lookupLast d sc with
      | none => none
      | some src => match purlCurie e.obj with
        | none => none
        | some oc => match lookupLast d oc with
          | none => none
          | some dst => some (src, dst)

def createEdgeList (d : List (String × (String × String))) (edges : List EdgeJ) : List ((String × String) × (String × String)) :=
  edges.filterMap (edgeOf d)

/-- `extract_ontology_version` -/
def extractVersion (m : DocMeta) : Option String :=
  match m.version with
  | some v => dateOf v
  | none => match m.bpvs with
    | some bs => ((bs.filter (fun b => match b.pred, b.val with
        | some p, some _ => p.endsWith "#versionInfo"
        | _, _ => false)).head?).bind (·.val)
    | none => none

structure Loaded where
  version : Option String
  allTerms : List Term
  edges : List ((String × String) × (String × String))

def Loaded.current (l : Loaded) : List Term := l.allTerms.filter (fun t => !t.obsolete)

/-- `_load_impl` up to the graph factory (C01/C02) and `create_(minimal_)ontology` (C06) -/
def load (L : Loader) (P : List String) (doc : Doc) : Except Err Loaded :=
  match extractTerms L P doc.nodes with
  | .error e => .error e
  | .ok ex => .ok ⟨extractVersion doc.mta, ex.terms, createEdgeList ex.curieToTerm doc.edges⟩

end Hpv.Obo
