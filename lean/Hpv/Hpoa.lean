/-
HPO annotation file loading (src/hpotk/annotations/load/hpoa/_impl.py, constants/hpo/frequency.py, annotations/_simple.py).
Two layers: `parseLine` (tab-separated glue, executable, tied by the correspondence run) and `aggregate` (grouping, frequency
parsing on exact rationals, `Ratio.fold`, validity check) about which the theorems are stated.
Rationals are pairs of naturals; Python's `round` is half-to-even (Hpv/Rounding.lean).
-/
import Hpv.Rounding
import Hpv.Matrix   -- `Hpv.Err`

namespace Hpv.Hpoa

inductive Aspect | P | I | C | M
deriving DecidableEq, Repr

structure Line where
  disease : String
  name : String
  neg : Bool
  pheno : String
  refs : List String
  freq : String
  mods : List String
  aspect : Option Aspect
deriving DecidableEq, Repr

/-- one row of `HPO_FREQUENCIES`, as exact rationals over a common denominator: id, lower, freq, upper -/
structure FreqRow where
  id : String
  lower : Nat
  freq : Nat
  upper : Nat
  denom : Nat
deriving DecidableEq, Repr

structure Config where
  cohort : Nat
  salvage : Bool
  table : List FreqRow
deriving Repr

/-- what the frequency column says, after the regular expressions -/
inductive Freq
  | empty
  | term (id : String)
  | ratio (n m : Nat)
  | percent (num den : Nat)        -- the exact rational value of `float(value)`
  | bad
deriving DecidableEq, Repr

/-- `_parse_frequency`: (numerator, denominator) -/
def lineRatio (cfg : Config) (neg : Bool) : Freq → Except Err (Int × Int)
  | .empty => .ok (if neg then 0 else 1, 1)
  | .term id =>
    match cfg.table.find? (fun r => r.id = id) with
    | none => .error .other                                  -- `None.frequency`
    | some r => .ok (if neg then 0 else (roundHalfEven (r.freq * cfg.cohort) r.denom : Nat), cfg.cohort)
  | .ratio i m =>
    if neg then
      let d : Nat := if m = 0 then cfg.cohort else m
      .ok (if i = 0 ∧ cfg.salvage then 0 else (d : Int) - (i : Int), d)
    else .ok (i, m)
  | .percent pn pd => .ok ((roundHalfEven (pn * cfg.cohort) (pd * 100) : Nat), cfg.cohort)
  | .bad => .error .valueError

structure Ann where
  id : String
  num : Int
  den : Int
  refs : List String
  mods : List String
deriving DecidableEq, Repr

structure Disease where
  id : String
  name : String
  anns : List Ann
  moi : List String
deriving DecidableEq, Repr

def dedupS : List String → List String
  | [] => []
  | x :: xs => x :: (dedupS xs).filter (fun y => y ≠ x)

/-- the members of a `defaultdict(list)` group, in line order -/
def group {α} (key : α → String) (l : List α) (k : String) : List α := l.filter (fun x => key x = k)

/-- keys in first-seen order -/
def keys {α} (key : α → String) (l : List α) : List String := dedupS (l.map key)

def sumRatios (rs : List (Int × Int)) : Int × Int := rs.foldl (fun a r => (a.1 + r.1, a.2 + r.2)) (0, 0)

def mapExcept {α β} (f : α → Except Err β) : List α → Except Err (List β)
  | [] => .ok []
  | x :: xs => match f x, mapExcept f xs with
    | .ok y, .ok ys => .ok (y :: ys)
    | .error e, _ => .error e
    | _, .error e => .error e

/-- `check_numerator_and_denominator` -/
def checkRatio (r : Int × Int) : Except Err (Int × Int) :=
  if r.1 < 0 then .error .valueError else if r.2 ≤ 0 then .error .valueError else .ok r

def mkAnn (cfg : Config) (freqOf : String → Freq) (lines : List Line) (pheno : String) : Except Err Ann :=
  let ls := group (·.pheno) lines pheno
  match mapExcept (fun l => lineRatio cfg l.neg (freqOf l.freq)) ls with
  | .error e => .error e
  | .ok rs =>
    match checkRatio (sumRatios rs) with
    | .error e => .error e
    | .ok r => .ok ⟨pheno, r.1, r.2, dedupS (ls.flatMap (·.refs)), dedupS (ls.flatMap (·.mods))⟩

def mkDisease (cfg : Config) (freqOf : String → Freq) (lines : List Line) (did : String) : Except Err Disease :=
  let ls := group (·.disease) lines did
  let pl := ls.filter (fun l => l.aspect = some .P)
  match mapExcept (mkAnn cfg freqOf pl) (keys (·.pheno) pl) with
  | .error e => .error e
  | .ok anns => .ok ⟨did, (ls.head?.map (·.name)).getD "", anns,
      dedupS ((ls.filter (fun l => l.aspect = some .I)).map (·.pheno))⟩

/-- `SimpleHpoaDiseaseLoader.load` after line parsing -/
def aggregate (cfg : Config) (freqOf : String → Freq) (lines : List Line) : Except Err (List Disease) :=
  mapExcept (mkDisease cfg freqOf lines) (keys (·.disease) lines)

end Hpv.Hpoa
