/- Prototype: DefaultMinimalOntology term map. -/
import Hpv.Sim
namespace Hpv.Onto
open Hpv.Sim

structure Term where
  id : Str
  alts : List Str
  obsolete : Bool
  name : Str
deriving DecidableEq, Repr

def current (ts : List Term) : List Term := ts.filter (fun t => !t.obsolete)

/-- `make_term_id_map`: `data[term.identifier] = term; for alt in term.alt_term_ids: data[alt] = term` -/
def addTerm (m : List (Str × Term)) (t : Term) : List (Str × Term) :=
  t.alts.foldl (fun m a => upsert a t m) (upsert t.id t m)

def mkMap (ts : List Term) : List (Str × Term) := (current ts).foldl addTerm []

def getTerm (ts : List Term) (k : Str) : Option Term := lookup k (mkMap ts)
def contains (ts : List Term) (k : Str) : Bool := (getTerm ts k).isSome
def termIds (ts : List Term) : List Str := (mkMap ts).map Prod.fst
def len (ts : List Term) : Nat := (current ts).length

/-- all (id, term) bindings in insertion order -/
def bindings (ts : List Term) : List (Str × Term) := (current ts).flatMap (fun t => (t.id :: t.alts).map (fun k => (k, t)))

end Hpv.Onto

namespace Hpv.Onto
open Hpv.Sim
/-- `terms` iterator and `get_term_name` -/
def terms (ts : List Term) : List Term := current ts
def getTermName (ts : List Term) (k : Str) : Option Str := (getTerm ts k).map (·.name)
end Hpv.Onto
