/-
Helper lemmas for the csv dialect model (Hpv/Csv.lean): the reader's state machine, fed with what the writer produced,
returns the rows that were written - for every row of every shape, every content (delimiters, quotes, line breaks of any
kind inside a field) and every choice of quoting more than necessary.
-/
import Hpv.Csv

namespace Hpv.Csv

/-! ### `run` -/

theorem run_ok_trans {p q : P} {a : List (Option Nat)} (b : List (Option Nat)) (h : run p a = .ok q) :
    run p (a ++ b) = run q b := by
  induction a generalizing p with
  | nil => simp [run] at h; subst h; rfl
  | cons e es ih =>
    simp only [List.cons_append, run] at h ⊢
    cases hs : step p e with
    | error x => rw [hs] at h; simp at h
    | ok p' => rw [hs] at h; simp only at h ⊢; exact ih h

theorem run_cons_ok {p p' : P} {e : Option Nat} (es : List (Option Nat)) (h : step p e = .ok p') :
    run p (e :: es) = run p' es := by
  simp [run, h]

/-! ### `events` -/

theorem events_cons_plain (c : Nat) (rest : Str) (hr : rest ≠ []) (h1 : c ≠ lf) (h2 : c ≠ cr) :
    events (c :: rest) = some c :: events rest := by
  cases rest with
  | nil => exact absurd rfl hr
  | cons d r => simp [events, lineEndAfter, h1, h2]

theorem events_cr_lf (rest : Str) : events (cr :: lf :: rest) = some cr :: events (lf :: rest) := by
  simp [events, lineEndAfter, cr, lf]

theorem events_lf (rest : Str) : events (lf :: rest) = some lf :: none :: events rest := by
  cases rest with
  | nil => simp [events]
  | cons d r => simp [events, lineEndAfter]

/-- in general: the character, possibly the end-of-line event, then the rest -/
theorem events_cons_any (c : Nat) (rest : Str) (hr : rest ≠ []) :
    events (c :: rest) = some c :: events rest ∨ events (c :: rest) = some c :: none :: events rest := by
  cases rest with
  | nil => exact absurd rfl hr
  | cons d r =>
    by_cases h : lineEndAfter c (some d) = true
    · right; simp [events, h]
    · left; simp [events, h]

/-! ### field bodies -/

theorem special_false {c : Nat} (h : special c = false) : c ≠ comma ∧ c ≠ quote ∧ c ≠ cr ∧ c ≠ lf := by
  simp [special] at h
  exact ⟨h.1.1.1, h.1.1.2, h.1.2, h.2⟩

/-- the body of a quoted field: every character (line breaks included) is kept, a doubled quote gives one quote, and the
closing quote leaves the machine in QUOTE_IN_QUOTED_FIELD -/
theorem quoted_body (f : Str) (p : P) (k : Str) (hst : p.st = .inQuoted) (hk : k ≠ []) :
    run p (events (escape f ++ quote :: k)) = run { p with st := .quoteInQuoted, field := p.field ++ f } (events k) := by
  induction f generalizing p with
  | nil =>
    simp only [escape, List.nil_append, List.append_nil]
    rw [events_cons_plain quote k hk (by decide) (by decide)]
    apply run_cons_ok
    simp [step, hst]
  | cons c f ih =>
    have hX : escape f ++ quote :: k ≠ [] := by simp
    by_cases hc : c = quote
    · subst hc
      simp only [escape, if_true, List.cons_append]
      rw [events_cons_plain quote _ (by simp) (by decide) (by decide),
        events_cons_plain quote _ hX (by decide) (by decide)]
      rw [run_cons_ok _ (show step p (some quote) = .ok { p with st := .quoteInQuoted } by simp [step, hst])]
      rw [run_cons_ok _ (show step { p with st := .quoteInQuoted } (some quote)
          = .ok { addChar p quote with st := .inQuoted } by simp [step, addChar])]
      rw [ih _ rfl]
      simp [addChar]
    · simp only [escape, if_neg hc, List.cons_append]
      have hs : step p (some c) = .ok (addChar p c) := by simp [step, hst, hc]
      have hn : step (addChar p c) none = .ok (addChar p c) := by simp [step, addChar, hst]
      rcases events_cons_any c _ hX with h | h
      · rw [h, run_cons_ok _ hs, ih _ (by simp [addChar, hst])]
        simp [addChar]
      · rw [h, run_cons_ok _ hs, run_cons_ok _ hn, ih _ (by simp [addChar, hst])]
        simp [addChar]

/-- the rest of an unquoted field: plain characters are appended -/
theorem plain_body (f : Str) (p : P) (k : Str) (hst : p.st = .inField) (hk : k ≠ [])
    (hf : ∀ c ∈ f, special c = false) :
    run p (events (f ++ k)) = run { p with field := p.field ++ f } (events k) := by
  induction f generalizing p with
  | nil => simp
  | cons c f ih =>
    obtain ⟨h1, h2, h3, h4⟩ := special_false (hf c (by simp))
    simp only [List.cons_append]
    rw [events_cons_plain c _ (by simp [hk]) h4 h3]
    have hs : step p (some c) = .ok (addChar p c) := by
      simp [step, hst, isNl, h1, h3, h4]
    rw [run_cons_ok _ hs, ih _ (by simp [addChar, hst]) (fun d hd => hf d (by simp [hd]))]
    simp [addChar]

theorem needsQuote_false {f : Str} (h : needsQuote f = false) : ∀ c ∈ f, special c = false := by
  intro c hc
  simp only [needsQuote, List.any_eq_false] at h
  simpa using h c hc

/-- One written field followed by anything non-empty: the machine arrives, with nothing but this field consumed, in a
state from which the delimiter saves exactly `f` and goes on to the next field, and CR saves exactly `f` and waits for the
end of the line. (Excluded: an empty unquoted field at the very start of a record followed by CR - the writer never
produces it, it writes `""` for a row that consists of one empty field.) -/
theorem field_then (b : Bool) (f : Str) (p : P) (K : Str) (hK : K ≠ [])
    (hst : p.st = .startField ∨ p.st = .startRecord) (hfield : p.field = []) :
    ∃ q, run p (events (writeField b f ++ K)) = run q (events K) ∧
      step q (some comma) = .ok { p with st := .startField, fields := p.fields ++ [f], field := [] } ∧
      (¬ (p.st = .startRecord ∧ writeField b f = []) →
        step q (some cr) = .ok { p with st := .eatCrnl, fields := p.fields ++ [f], field := [] }) := by
  by_cases hq : (b || needsQuote f) = true
  · -- quoted
    refine ⟨{ p with st := .quoteInQuoted, field := f }, ?_, ?_, ?_⟩
    · simp only [writeField, hq, if_true, List.cons_append, List.append_assoc, List.nil_append]
      rw [events_cons_plain quote _ (by simp) (by decide) (by decide)]
      have hs : step p (some quote) = .ok { p with st := .inQuoted } := by
        rcases hst with h | h <;> simp [step, h, startFieldStep, isNl, quote, cr, lf]
      rw [run_cons_ok _ hs, quoted_body f { p with st := .inQuoted } K rfl hK]
      simp [hfield]
    · simp [step, saveField, comma, quote]
    · intro _; simp [step, saveField, comma, quote, cr, isNl]
  · have hq' : (b || needsQuote f) = false := by simpa using hq
    have hnq : needsQuote f = false := by
      cases b <;> simp_all
    have hpl := needsQuote_false hnq
    cases f with
    | nil =>
      refine ⟨p, by simp [writeField, hq'], ?_, ?_⟩
      · rcases hst with h | h <;> simp [step, h, startFieldStep, isNl, saveField, hfield, comma, cr, lf, quote]
      · intro hne
        rcases hst with h | h
        · simp [step, h, startFieldStep, isNl, saveField, hfield, cr]
        · exact absurd ⟨h, by simp [writeField, hq']⟩ hne
    | cons c f' =>
      obtain ⟨h1, h2, h3, h4⟩ := special_false (hpl c (by simp))
      refine ⟨{ p with st := .inField, field := c :: f' }, ?_, ?_, ?_⟩
      · have hw : writeField b (c :: f') = c :: f' := by simp [writeField, hq']
        rw [hw, List.cons_append, events_cons_plain c _ (by simp [hK]) h4 h3]
        have hs : step p (some c) = .ok { addChar p c with st := .inField } := by
          rcases hst with h | h <;> simp [step, h, startFieldStep, isNl, h1, h2, h3, h4]
        rw [run_cons_ok _ hs, plain_body f' _ K rfl hK (fun d hd => hpl d (by simp [hd]))]
        simp [addChar, hfield]
      · simp [step, saveField, isNl, comma, cr, lf]
      · intro _; simp [step, saveField, isNl, cr]

/-! ### rows -/

/-- the fields of one row, then CR LF: one record -/
theorem fields_then (force : Nat → Bool) (i : Nat) (g : Str) (gs : List Str) (p : P) (k : Str)
    (hst : p.st = .startField ∨ p.st = .startRecord) (hfield : p.field = [])
    (hne : ¬ (p.st = .startRecord ∧ gs = [] ∧ writeField (force i) g = [])) :
    run p (events (writeFields force i (g :: gs) ++ cr :: lf :: k)) =
      run { p with st := .startRecord, recs := p.recs ++ [p.fields ++ g :: gs], fields := [], field := [] } (events k) := by
  induction gs generalizing p i g with
  | nil =>
    simp only [writeFields]
    obtain ⟨q, h1, _, h3⟩ := field_then (force i) g p (cr :: lf :: k) (by simp) hst hfield
    rw [h1, events_cr_lf, run_cons_ok _ (h3 (fun h => hne ⟨h.1, rfl, h.2⟩)), events_lf]
    rw [run_cons_ok _ (show step ({ p with st := .eatCrnl, fields := p.fields ++ [g], field := [] } : P) (some lf)
        = .ok { p with st := .eatCrnl, fields := p.fields ++ [g], field := [] } by simp [step, isNl, lf])]
    rw [run_cons_ok _ (show step ({ p with st := .eatCrnl, fields := p.fields ++ [g], field := [] } : P) none
        = .ok (emit { p with st := .eatCrnl, fields := p.fields ++ [g], field := [] }) by simp [step])]
    simp [emit]
  | cons g' gs ih =>
    simp only [writeFields, List.append_assoc, List.cons_append]
    obtain ⟨q, h1, h2, _⟩ := field_then (force i) g p (comma :: (writeFields force (i + 1) (g' :: gs) ++ cr :: lf :: k))
      (by simp) hst hfield
    rw [h1, events_cons_plain comma _ (by simp) (by decide) (by decide), run_cons_ok _ h2]
    rw [ih (i + 1) g' _ (Or.inl rfl) rfl (by simp)]
    simp

/-- what `writeRow` writes is the fields with the single empty field forced into quotes -/
theorem writeRow_eq (force : Nat → Bool) (g : Str) (gs : List Str) :
    ∃ force' : Nat → Bool, writeRow force (g :: gs) = writeFields force' 0 (g :: gs) ++ [cr, lf] ∧
      ¬ (gs = [] ∧ writeField (force' 0) g = []) := by
  by_cases h : g = [] ∧ gs = []
  · obtain ⟨rfl, rfl⟩ := h
    exact ⟨fun _ => true, by simp [writeRow, writeFields, writeField, escape], by simp [writeField]⟩
  · refine ⟨force, ?_, ?_⟩
    · cases g with
      | nil => cases gs with
        | nil => simp at h
        | cons _ _ => simp [writeRow]
      | cons _ _ => simp [writeRow]
    · rintro ⟨rfl, hw⟩
      apply h
      refine ⟨?_, rfl⟩
      unfold writeField at hw
      split at hw
      · simp at hw
      · exact hw

theorem rows_then (force : Nat → Nat → Bool) (j : Nat) (rs : List (List Str)) (p : P)
    (hst : p.st = .startRecord) (hfield : p.field = []) (hfields : p.fields = [])
    (hrs : ∀ r ∈ rs, r ≠ []) :
    run p (events (writeRows force j rs)) = .ok { p with recs := p.recs ++ rs } := by
  induction rs generalizing p j with
  | nil =>
    simp only [writeRows, events, run, List.append_nil]
  | cons r rs ih =>
    cases r with
    | nil => exact absurd rfl (hrs [] (by simp))
    | cons g gs =>
      obtain ⟨force', hw, hne⟩ := writeRow_eq (force j) g gs
      simp only [writeRows, hw, List.append_assoc, List.cons_append, List.nil_append]
      rw [fields_then force' 0 g gs p _ (Or.inr hst) hfield (fun h => hne ⟨h.2.1, h.2.2⟩)]
      rw [ih (j + 1) _ rfl rfl rfl (fun r hr => hrs r (by simp [hr]))]
      simp [hfields, hst, hfield]

/-- **The csv round trip**: whatever rows are written (every row with at least one field; any characters, also delimiters,
quotes, CR, LF and CR LF inside fields; any fields quoted beyond necessity), the reader returns exactly those rows. -/
theorem read_write (force : Nat → Nat → Bool) (rs : List (List Str)) (hrs : ∀ r ∈ rs, r ≠ []) :
    readAll (writeRows force 0 rs) = .ok rs := by
  unfold readAll
  rw [rows_then force 0 rs {} rfl rfl rfl hrs]
  simp [finish]

/-- the `DictReader` layer over it: a header row and data rows come back as the header and, per row, the pairs
`(column name, value)` -/
theorem readDict_write (force : Nat → Nat → Bool) (h : List Str) (rows : List (List Str)) (hh : h ≠ [])
    (hrs : ∀ r ∈ rows, r ≠ []) :
    readDict (writeRows force 0 (h :: rows)) = .ok (h, rows.map (fun r => h.zip r)) := by
  unfold readDict
  rw [read_write force (h :: rows) (by intro r hr; rcases List.mem_cons.mp hr with rfl | hr; exact hh; exact hrs r hr)]
  simp only
  congr 2
  have : rows.filter (fun r => !r.isEmpty) = rows := by
    apply List.filter_eq_self.mpr
    intro r hr
    have := hrs r hr
    cases r <;> simp_all
  rw [this]

/-! ### the reader never fails on lines cut the way the library's handles cut them -/

theorem step_some_ok (p : P) (c : Nat) (h : p.st ≠ .eatCrnl) : ∃ q, step p (some c) = .ok q := by
  unfold step
  cases hst : p.st <;> simp_all <;> (try split) <;> (try split) <;> (try split) <;> exact ⟨_, rfl⟩

theorem step_none_ok (p : P) : ∃ q, step p none = .ok q ∧ q.st ≠ .eatCrnl := by
  unfold step
  cases hst : p.st <;> simp [emit, saveField, hst]

theorem step_some_eat (p q : P) (c : Nat) (h : p.st ≠ .eatCrnl) (hs : step p (some c) = .ok q) (hq : q.st = .eatCrnl) :
    isNl c = true := by
  by_cases hnl : isNl c = true
  · exact hnl
  · exfalso
    have hf : isNl c = false := by simpa using hnl
    unfold step at hs
    cases hst : p.st <;> simp only [hst, hf, startFieldStep, Bool.false_eq_true, if_false] at hs
    all_goals (repeat' split at hs)
    all_goals (first | (injection hs with hs; subst hs; simp [addChar, saveField] at hq; done) | (injection hs with hs; subst hs; simp [addChar, saveField] at hq; exact h hq) | exact h hst)

/-- **No `csv.Error` on any text.** Fed the physical lines of ANY text as a `newline=''` handle yields them, the reader's state
machine never reaches its one error ("new-line character seen in unquoted field"): a CR or LF outside quotes is always
followed by the end of its line or by the LF of a CR LF. So `from_csv` cannot fail in the csv layer, whatever the file holds. -/
theorem run_events_ok (t : Str) : ∀ (p : P), p.st ≠ .eatCrnl → ∃ q, run p (events t) = .ok q := by
  induction h : t.length using Nat.strongRecOn generalizing t with
  | _ n ih =>
    intro p hp
    match t, h with
    | [], _ => exact ⟨p, rfl⟩
    | [c], _ =>
      obtain ⟨p1, h1⟩ := step_some_ok p c hp
      obtain ⟨p2, h2, _⟩ := step_none_ok p1
      exact ⟨p2, by simp [events, run, h1, h2]⟩
    | c :: d :: rest, hlen =>
      obtain ⟨p1, h1⟩ := step_some_ok p c hp
      by_cases hle : lineEndAfter c (some d) = true
      · obtain ⟨p2, h2, h2'⟩ := step_none_ok p1
        obtain ⟨q, hq⟩ := ih (d :: rest).length (by simp at hlen ⊢; omega) (d :: rest) rfl p2 h2'
        exact ⟨q, by simp only [events, hle, if_true]; rw [run_cons_ok _ h1, run_cons_ok _ h2]; exact hq⟩
      · by_cases he : p1.st = .eatCrnl
        · -- then `c` is a line-break character that does not end its line: `c` = CR and `d` = LF
          have hnl := step_some_eat p p1 c hp h1 he
          have hd : d = lf := by
            simp [lineEndAfter, isNl] at hle hnl
            rcases hnl with rfl | rfl
            · exact hle.2 rfl
            · exact absurd rfl hle.1
          subst hd
          have h3 : step p1 (some lf) = .ok p1 := by simp [step, he, isNl, lf]
          obtain ⟨p2, h2, h2'⟩ := step_none_ok p1
          obtain ⟨q, hq⟩ := ih rest.length (by simp at hlen ⊢; omega) rest rfl p2 h2'
          refine ⟨q, ?_⟩
          have hle' : lineEndAfter c (some lf) = false := by simpa using hle
          simp only [events, hle', Bool.false_eq_true, if_false]
          rw [run_cons_ok _ h1, events_lf, run_cons_ok _ h3, run_cons_ok _ h2]
          exact hq
        · obtain ⟨q, hq⟩ := ih (d :: rest).length (by simp at hlen ⊢; omega) (d :: rest) rfl p1 he
          have hle' : lineEndAfter c (some d) = false := by simpa using hle
          exact ⟨q, by simp only [events, hle', Bool.false_eq_true, if_false]; rw [run_cons_ok _ h1]; exact hq⟩

theorem readAll_total (t : Str) : ∃ rs, readAll t = .ok rs := by
  obtain ⟨q, hq⟩ := run_events_ok t {} (by decide)
  exact ⟨finish q, by simp [readAll, hq]⟩

/-! ### physical lines -/

theorem flatten_splitLinesAux (acc t : Str) : (splitLinesAux acc t).flatten = acc ++ t := by
  induction t generalizing acc with
  | nil => by_cases h : acc = [] <;> simp [splitLinesAux, h]
  | cons c t ih =>
    cases t with
    | nil => simp [splitLinesAux]
    | cons d r =>
      by_cases h : lineEndAfter c (some d) = true
      · simp [splitLinesAux, h, ih]
      · simp [splitLinesAux, h, ih]

/-- cutting a text into physical lines loses nothing -/
theorem flatten_splitLines (t : Str) : (splitLines t).flatten = t := by
  simp [splitLines, flatten_splitLinesAux]

theorem splitLinesAux_head (acc t : Str) (c : Nat) (hc : (acc ++ t).head? = some c) :
    ∃ l ls, splitLinesAux acc t = l :: ls ∧ l.head? = some c := by
  induction t generalizing acc with
  | nil =>
    cases acc with
    | nil => simp at hc
    | cons a acc => exact ⟨a :: acc, [], by simp [splitLinesAux], by simpa using hc⟩
  | cons x t ih =>
    have hhead : (acc ++ [x]).head? = some c := by
      cases acc with
      | nil => simpa using hc
      | cons a acc => simpa using hc
    cases t with
    | nil => exact ⟨acc ++ [x], [], by simp [splitLinesAux], hhead⟩
    | cons d r =>
      by_cases h : lineEndAfter x (some d) = true
      · exact ⟨acc ++ [x], splitLinesAux [] (d :: r), by simp [splitLinesAux, h], hhead⟩
      · have := ih (acc ++ [x]) (by
          cases acc with
          | nil => simpa using hc
          | cons a acc => simpa using hc)
        obtain ⟨l, ls, h1, h2⟩ := this
        exact ⟨l, ls, by simp [splitLinesAux, h, h1], h2⟩

/-- the first physical line of a non-empty text begins with the first character of the text -/
theorem splitLines_head (c : Nat) (t : Str) : ∃ l ls, splitLines (c :: t) = l :: ls ∧ l.head? = some c :=
  splitLinesAux_head [] (c :: t) c (by simp)

end Hpv.Csv
