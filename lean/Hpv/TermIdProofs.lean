import Hpv.TermId
namespace Hpv.TermId

theorem index?_some (c : Nat) (s : Str) (i : Nat) (h : index? c s = some i) :
    s = s.take i ++ c :: s.drop (i + 1) ∧ c ∉ s.take i ∧ i < s.length := by
  induction s generalizing i with
  | nil => simp [index?] at h
  | cons x xs ih =>
    unfold index? at h
    by_cases hx : x = c
    · simp [hx] at h; subst h; simp [hx]
    · simp only [hx, if_false] at h
      cases hh : index? c xs with
      | none => simp [hh] at h
      | some j =>
        simp [hh] at h; subst h
        obtain ⟨h1, h2, h3⟩ := ih j hh
        refine ⟨?_, ?_, by simp; omega⟩
        · simp only [List.take_succ_cons, List.drop_succ_cons, List.cons_append]
          rw [← h1]
        · simp only [List.take_succ_cons, List.mem_cons, not_or]
          exact ⟨fun h => hx h.symm, h2⟩

theorem index?_none (c : Nat) (s : Str) : index? c s = none ↔ c ∉ s := by
  induction s with
  | nil => simp [index?]
  | cons x xs ih =>
    unfold index?
    by_cases hx : x = c
    · simp [hx]
    · simp only [hx, if_false, Option.map_eq_none_iff, ih, List.mem_cons, not_or]
      constructor
      · intro h; exact ⟨fun h' => hx h'.symm, h⟩
      · intro h; exact h.2

theorem index?_append_first (c : Nat) (p r : Str) (h : c ∉ p) : index? c (p ++ c :: r) = some p.length := by
  induction p with
  | nil => simp [index?]
  | cons x xs ih =>
    simp only [List.mem_cons, not_or] at h
    simp only [List.cons_append, index?]
    have : ¬ x = c := fun h' => h.1 h'.symm
    simp [this, ih h.2]

/-- Parsing succeeds exactly when the string contains ':' or '_'. -/
theorem fromCurie_isSome (s : Str) : (fromCurie s).isSome ↔ colon ∈ s ∨ underscore ∈ s := by
  unfold fromCurie
  cases h1 : index? colon s with
  | some i =>
    have : colon ∈ s := by
      obtain ⟨e1, _, _⟩ := index?_some colon s i h1
      rw [e1]; simp
    simp [this]
  | none =>
    have hc : colon ∉ s := (index?_none colon s).mp h1
    cases h2 : index? underscore s with
    | some i =>
      have : underscore ∈ s := by
        obtain ⟨e1, _, _⟩ := index?_some underscore s i h2
        rw [e1]; simp
      simp [this]
    | none =>
      have hu : underscore ∉ s := (index?_none underscore s).mp h2
      simp [hc, hu]

/-- The split is at the first ':' (else the first '_'), and the prefix never contains ':'. -/
theorem fromCurie_split (s : Str) (t : TermId) (h : fromCurie s = some t) :
    t.value = s ∧ colon ∉ t.pfx ∧
    ((colon ∈ s ∧ s = t.pfx ++ colon :: t.id) ∨
     (colon ∉ s ∧ underscore ∉ t.pfx ∧ s = t.pfx ++ underscore :: t.id)) := by
  unfold fromCurie at h
  cases h1 : index? colon s with
  | some i =>
    simp [h1] at h; subst h
    obtain ⟨e1, e2, _⟩ := index?_some colon s i h1
    refine ⟨rfl, e2, Or.inl ⟨?_, e1⟩⟩
    rw [e1]; simp
  | none =>
    have hc : colon ∉ s := (index?_none colon s).mp h1
    cases h2 : index? underscore s with
    | none => simp [h1, h2] at h
    | some i =>
      simp [h1, h2] at h; subst h
      obtain ⟨e1, e2, _⟩ := index?_some underscore s i h2
      refine ⟨rfl, ?_, Or.inr ⟨hc, e2, e1⟩⟩
      intro hin; exact hc (List.mem_of_mem_take hin)

/-- Round trip: re-parsing the printed value gives a TermId with the same prefix and id. -/
theorem fromCurie_curie (s : Str) (t : TermId) (h : fromCurie s = some t) :
    ∃ t', fromCurie t.curie = some t' ∧ t'.pfx = t.pfx ∧ t'.id = t.id ∧ t'.curie = t.curie := by
  obtain ⟨_, hp, _⟩ := fromCurie_split s t h
  have hi : index? colon t.curie = some t.pfx.length := index?_append_first colon t.pfx t.id hp
  refine ⟨⟨t.curie, t.pfx.length⟩, by simp [fromCurie, hi], ?_, ?_, ?_⟩
  · show (t.pfx ++ colon :: t.id).take t.pfx.length = t.pfx
    simp
  · show (t.pfx ++ colon :: t.id).drop (t.pfx.length + 1) = t.id
    simp
  · show (t.pfx ++ colon :: t.id).take t.pfx.length ++ colon :: (t.pfx ++ colon :: t.id).drop (t.pfx.length + 1) = _
    simp [TermId.curie]

/-! ### order -/

theorem slt_irrefl (a : Str) : slt a a = false := by
  induction a with
  | nil => rfl
  | cons x xs ih => simp [slt, ih]

theorem slt_trans (a b c : Str) (h1 : slt a b = true) (h2 : slt b c = true) : slt a c = true := by
  induction a generalizing b c with
  | nil =>
    cases b with
    | nil => simp [slt] at h1
    | cons y ys => cases c with
      | nil => simp [slt] at h2
      | cons z zs => simp [slt]
  | cons x xs ih =>
    cases b with
    | nil => simp [slt] at h1
    | cons y ys =>
      cases c with
      | nil => simp [slt] at h2
      | cons z zs =>
        simp only [slt] at h1 h2 ⊢
        by_cases hxy : x < y
        · by_cases hyz : y < z
          · have : x < z := Nat.lt_trans hxy hyz
            simp [this]
          · simp only [hyz, if_false] at h2
            by_cases hyz' : y = z
            · subst hyz'; simp [hxy]
            · simp [hyz'] at h2
        · simp only [hxy, if_false] at h1
          by_cases hxy' : x = y
          · subst hxy'
            simp only [if_true] at h1
            by_cases hxz : x < z
            · simp [hxz]
            · simp only [hxz, if_false] at h2 ⊢
              by_cases hxz' : x = z
              · subst hxz'; simp only [if_true] at h2 ⊢; exact ih ys zs h1 h2
              · simp [hxz'] at h2
          · simp [hxy'] at h1

theorem slt_total (a b : Str) : slt a b = true ∨ a = b ∨ slt b a = true := by
  induction a generalizing b with
  | nil => cases b <;> simp [slt]
  | cons x xs ih =>
    cases b with
    | nil => simp [slt]
    | cons y ys =>
      simp only [slt]
      rcases Nat.lt_trichotomy x y with h | h | h
      · simp [h]
      · subst h
        simp only [Nat.lt_irrefl, if_false, if_true, List.cons.injEq, true_and]
        exact ih ys
      · have h1 : ¬ x < y := by omega
        have h2 : ¬ x = y := by omega
        simp [h, h1, h2]

theorem lt_irrefl (a : TermId) : a.lt a = false := by simp [TermId.lt, slt_irrefl]

theorem lt_trans (a b c : TermId) (h1 : a.lt b = true) (h2 : b.lt c = true) : a.lt c = true := by
  unfold TermId.lt at *
  by_cases hab : a.pfx = b.pfx <;> by_cases hbc : b.pfx = c.pfx
  · have hac : a.pfx = c.pfx := hab.trans hbc
    rw [if_pos hab] at h1; rw [if_pos hbc] at h2; rw [if_pos hac]
    exact slt_trans _ _ _ h1 h2
  · have hac : ¬ a.pfx = c.pfx := fun h => hbc (hab.symm.trans h)
    rw [if_neg hbc] at h2; rw [if_neg hac, hab]; exact h2
  · have hac : ¬ a.pfx = c.pfx := fun h => hab (h.trans hbc.symm)
    rw [if_neg hab] at h1; rw [if_neg hac, ← hbc]; exact h1
  · rw [if_neg hab] at h1; rw [if_neg hbc] at h2
    have h := slt_trans _ _ _ h1 h2
    have hac : ¬ a.pfx = c.pfx := by
      intro heq; rw [heq] at h1
      have := slt_trans _ _ _ h1 h2
      rw [slt_irrefl] at this; cases this
    rw [if_neg hac]; exact h

theorem lt_total (a b : TermId) : a.lt b = true ∨ a.beq b = true ∨ b.lt a = true := by
  unfold TermId.lt TermId.beq
  by_cases h : a.pfx = b.pfx
  · simp only [h, if_true, true_and, decide_eq_true_eq]
    rcases slt_total a.id b.id with h' | h' | h'
    · exact Or.inl h'
    · exact Or.inr (Or.inl h')
    · exact Or.inr (Or.inr h')
  · have h2 : ¬ b.pfx = a.pfx := fun h' => h h'.symm
    simp only [h, h2, if_false, false_and, decide_false, Bool.false_eq_true, false_or]
    rcases slt_total a.pfx b.pfx with h' | h' | h'
    · exact Or.inl h'
    · exact absurd h' h
    · exact Or.inr h'

/-- equality forgets the stored delimiter and the concrete representation -/
theorem beq_iff (a b : TermId) : a.beq b = true ↔ a.pfx = b.pfx ∧ a.id = b.id := by
  simp [TermId.beq]

theorem hash_congr {β} (H : Str × Str → β) (a b : TermId) (h : a.beq b = true) :
    H (a.pfx, a.id) = H (b.pfx, b.id) := by
  obtain ⟨h1, h2⟩ := (beq_iff a b).mp h
  rw [h1, h2]

end Hpv.TermId
