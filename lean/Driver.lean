/-
Model driver: one JSON request per line on stdin, one JSON reply per line on stdout.
Only Mathlib-free model files are imported, so this links as a native executable.
-/
import Lean.Data.Json
import Hpv.Basic
import Hpv.TermId
import Hpv.Csr
import Hpv.Matrix
import Hpv.GraphModel
import Hpv.Onto
import Hpv.Sim
import Hpv.Csv
import Hpv.Resnik
import Hpv.Sorting
import Hpv.Ic
import Hpv.Validate
import Hpv.Io
import Hpv.Obo
import Hpv.Hpoa
import Hpv.Store
import Hpv.Tags
import Hpv.StoreTrace
open Lean

namespace Drv

def getD? {α} [FromJson α] (j : Json) (k : String) (d : α) : Except String α :=
  match j.getObjVal? k with
  | .ok v => fromJson? v
  | .error _ => pure d

def strToCps (s : String) : List Nat := s.toList.map Char.toNat
def cpsToStr (l : List Nat) : String := String.ofList (l.map Char.ofNat)

/-! ### C04 -/
section C04
open Hpv.TermId

def tidOfJson (j : Json) : Except String TermId := do
  let v ← j.getObjValAs? (List Nat) "v"
  let i ← j.getObjValAs? Nat "i"
  return ⟨v, i⟩

def c04parse1 (s : List Nat) : Json :=
  match fromCurie s with
  | none => Json.mkObj [("ok", false)]
  | some t => Json.mkObj [("ok", true), ("idx", toJson t.idx), ("prefix", toJson t.pfx), ("id", toJson t.id),
                          ("value", toJson t.curie)]

def c04parse (j : Json) : Except String Json := do
  let ss ← j.getObjValAs? (List (List Nat)) "ss"
  return toJson (ss.map c04parse1)

def c04cmp (j : Json) : Except String Json := do
  let ids ← (← j.getObjValAs? (Array Json) "ids").mapM tidOfJson
  let pairs ← j.getObjValAs? (List (Nat × Nat)) "pairs"
  let out := pairs.map fun (a, b) =>
    match ids[a]?, ids[b]? with
    | some x, some y => (if x.beq y then 1 else 0) + (if x.lt y then 2 else 0) + (if y.lt x then 4 else 0)
    | _, _ => 99
  return toJson out

def c04sort (j : Json) : Except String Json := do
  let ids ← (← j.getObjValAs? (List Json) "ids").mapM tidOfJson
  return toJson ((sortIds ids).map fun t => t.curie)

end C04

/-! ### errors -/
def errName : Hpv.Err → String
  | .valueError => "ValueError" | .indexError => "IndexError" | .typeError => "TypeError"
  | .keyError => "KeyError" | .other => "Other"

def exceptJson {α} [ToJson α] : Except Hpv.Err α → Json
  | .ok v => Json.mkObj [("ok", toJson v)]
  | .error e => Json.mkObj [("err", errName e)]

/-! ### C17 -/
section C17
open Hpv.Csr

def c17read (m : Matrix) (rd : Json) : Except String Json := do
  let a ← rd.getArr?
  let k ← (a[0]?.getD Json.null).getStr?
  let gi (i : Nat) : Except String Int := (a[i]?.getD Json.null).getInt?
  match k with
  | "cell" => return exceptJson (m.getCell (← gi 1) (← gi 2))
  | "row" => return exceptJson (m.getRow (← gi 1))
  | "cols" => return exceptJson (m.colIndicesOfVal (← gi 1) (← gi 2))
  | _ => throw s!"unknown read {k}"

def c17hist (j : Json) : Except String Json := do
  let nrows ← j.getObjValAs? Nat "nrows"
  let ncols ← j.getObjValAs? Nat "ncols"
  let ops ← j.getObjValAs? (List (Int × Int × Int)) "ops"
  let reads ← j.getObjValAs? (Array Json) "reads"
  -- outcome of every assignment (ok / error kind) and the final builder
  let (b, outs) := ops.foldl (fun (acc : Builder × Array Json) op =>
      match setItemChecked nrows ncols acc.1 op.1 op.2.1 op.2.2 with
      | .ok b' => (b', acc.2.push (Json.mkObj [("ok", Json.null)]))
      | .error e => (acc.1, acc.2.push (Json.mkObj [("err", errName e)]))) (Builder.empty nrows, #[])
  let m := b.toMatrix nrows ncols
  let rs ← reads.mapM (c17read m)
  return Json.mkObj [("sets", Json.arr outs), ("reads", Json.arr rs),
    ("raw", Json.mkObj [("row", toJson b.indptr), ("col", toJson b.col), ("data", toJson b.dat)])]

def c17csr (j : Json) : Except String Json := do
  let m : Matrix := ⟨← j.getObjValAs? (List Nat) "indptr", ← j.getObjValAs? (List Nat) "col",
    ← j.getObjValAs? (List Int) "dat", ← j.getObjValAs? Nat "nrows", ← j.getObjValAs? Nat "ncols"⟩
  let reads ← j.getObjValAs? (Array Json) "reads"
  let rs ← reads.mapM (c17read m)
  return Json.mkObj [("reads", Json.arr rs)]
end C17

/-! ### graphs: C01, C02, C03, C14, C18 -/
section Graphs
open Hpv.GM Hpv.TermId

abbrev Key := List Nat × List Nat

def keyOrd : Hpv.Graph.Ord Key := ⟨fun a b => if a.1 = b.1 then slt a.2 b.2 else slt a.1 b.1⟩
def owlThing : Key := (strToCps "owl", strToCps "Thing")

def keyOfStr (s : String) : Option Key := (fromCurie (strToCps s)).map (fun t => (t.pfx, t.id))
def keyStr (k : Key) : String := cpsToStr k.1 ++ ":" ++ cpsToStr k.2

def argOf (j : Json) : Option Key :=
  match j with
  | .str s => keyOfStr s
  | _ => none

def qOf : String → Except String Q
  | "children" => pure .children | "parents" => pure .parents
  | "ancestors" => pure .ancestors | "descendants" => pure .descendants
  | s => throw s!"unknown query {s}"

def predOf : String → Except String Pred
  | "parentOf" => pure .parentOf | "childOf" => pure .childOf
  | "ancestorOf" => pure .ancestorOf | "descendantOf" => pure .descendantOf
  | s => throw s!"unknown predicate {s}"

def factoryOf : String → Except String Factory
  | "indexed" => pure .indexed | "incremental" => pure .incremental | "builder" => pure .builder
  | s => throw s!"unknown factory {s}"

def keysJson (r : Except Hpv.Err (List Key)) : Json := exceptJson (r.map (·.map keyStr))

def graphQuery (g : G Key) (qj : Json) : Except String Json := do
  let a ← qj.getArr?
  let el (i : Nat) : Json := a[i]?.getD Json.null
  let k ← (el 0).getStr?
  let na := Json.mkObj [("na", true)]
  match k with
  | "q" => return keysJson (g.query keyOrd (← qOf (← (el 1).getStr?)) (argOf (el 2)) (← (el 3).getBool?))
  | "leaf" => return exceptJson (g.isLeaf keyOrd (argOf (el 1)))
  | "pred" => return exceptJson (g.pred keyOrd (← predOf (← (el 1).getStr?)) (argOf (el 2)) (argOf (el 3)))
  | "contains" => match argOf (el 1) with
    | some key => return Json.mkObj [("ok", g.contains keyOrd key)]
    | none => return Json.mkObj [("ok", false)]
  | "root" => return exceptJson (g.root.map keyStr)
  | "nodes" => return Json.mkObj [("ok", toJson (g.nodes.map keyStr))]
  | "helper" => return keysJson (helper keyOrd g (← qOf (← (el 1).getStr?)) (argOf (el 2)) (← (el 3).getBool?))
  | "path" => return exceptJson (existsPath keyOrd g (argOf (el 1)) (argOf (el 2)))
  | "augment1" => return keysJson (augmentOne keyOrd g (← qOf (← (el 1).getStr?)) (argOf (el 2)) (← (el 3).getBool?))
  | "augmentN" =>
    let srcs ← (el 2).getArr?
    return keysJson (augmentMany keyOrd g (← qOf (← (el 1).getStr?)) (srcs.toList.map argOf) (← (el 3).getBool?))
  | _ =>
    match g with
    | .mx _ => return na
    | .ix ig =>
      match k with
      | "qidx" => return exceptJson (ig.queryIdx (← qOf (← (el 1).getStr?)) (← (el 2).getInt?))
      | "idx2node" => return exceptJson ((ig.idxToNode (← (el 1).getInt?)).map keyStr)
      | "node2idx" => match argOf (el 1) with
        | some key => return Json.mkObj [("ok", toJson (ig.nodeToIdx keyOrd key))]
        | none => return Json.mkObj [("ok", Json.null)]
      | "rootidx" => return Json.mkObj [("ok", toJson ig.root)]
      | "predidx" => return exceptJson (ig.predIdx (← predOf (← (el 1).getStr?)) (← (el 2).getInt?) (← (el 3).getInt?))
      | _ => throw s!"unknown graph query {k}"

def edgeOfJson (j : Json) : Except String (Key × Key) := do
  let a ← j.getArr?
  let s ← (a[0]?.getD Json.null).getStr?
  let o ← (a[1]?.getD Json.null).getStr?
  match keyOfStr s, keyOfStr o with
  | some x, some y => return (x, y)
  | _, _ => throw s!"edge endpoint is not a CURIE: {s} {o}"

def graphBatch (j : Json) : Except String Json := do
  let f ← factoryOf (← j.getObjValAs? String "factory")
  let edges ← (← j.getObjValAs? (Array Json) "edges").mapM edgeOfJson
  let queries ← j.getObjValAs? (Array Json) "queries"
  match build keyOrd owlThing f edges.toList with
  | .error e => return Json.mkObj [("build_err", errName e)]
  | .ok g =>
    let rs ← queries.mapM (graphQuery g)
    return Json.mkObj [("answers", Json.arr rs)]
end Graphs

/-! ### C06 -/
section C06
open Hpv.Onto

def termOfJson (j : Json) : Except String Hpv.Onto.Term := do
  let id ← j.getObjValAs? String "id"
  let alts ← j.getObjValAs? (List String) "alts"
  let obs ← j.getObjValAs? Bool "obs"
  let name ← j.getObjValAs? String "name"
  return ⟨strToCps id, alts.map strToCps, obs, strToCps name⟩

def ontoLookup (j : Json) : Except String Json := do
  let ts ← (← j.getObjValAs? (List Json) "terms").mapM termOfJson
  let qs ← j.getObjValAs? (List String) "queries"
  let answers := qs.map fun q =>
    let k := strToCps q
    match getTerm ts k with
    | some t => Json.mkObj [("id", cpsToStr t.id), ("name", toJson ((getTermName ts k).map cpsToStr)), ("contains", contains ts k)]
    | none => Json.mkObj [("id", Json.null), ("name", toJson ((getTermName ts k).map cpsToStr)), ("contains", contains ts k)]
  return Json.mkObj [("len", toJson (len ts)), ("terms", toJson ((terms ts).map (cpsToStr ·.id))),
    ("term_ids", toJson ((termIds ts).map cpsToStr)), ("answers", Json.arr answers.toArray)]
end C06

/-! ### C15 -/
section C15
open Hpv.Sim

def simHist (j : Json) : Except String Json := do
  let ops ← j.getObjValAs? (Array Json) "ops"
  let mut s : State := []
  let mut outs : Array Json := #[]
  for opj in ops do
    let a ← opj.getArr?
    let k ← (a[0]?.getD Json.null).getStr?
    let str (i : Nat) : Except String Str := do return strToCps (← (a[i]?.getD Json.null).getStr?)
    match k with
    | "set" =>
      let v ← (a[3]?.getD Json.null).getInt?
      match Hpv.Sim.set s (← str 1) (← str 2) v with
      | .ok s' => s := s'; outs := outs.push (Json.str "ok")
      | .error _ => outs := outs.push (Json.str "ValueError")
    | "get" => outs := outs.push (toJson (get s (← str 1) (← str 2)))
    | "len" => outs := outs.push (toJson (len s))
    | "items" => outs := outs.push (toJson ((items s).map fun t => Json.arr #[cpsToStr t.1, cpsToStr t.2.1, toJson t.2.2]))
    | _ => throw s!"unknown sim op {k}"
  return Json.arr outs

def metaJson (m : Meta) : Json := toJson (m.map fun kv => Json.arr #[cpsToStr kv.1, cpsToStr kv.2])

def metaCodec (j : Json) : Except String Json := do
  let forb ← j.getObjValAs? (List Nat) "forb"
  let pairs ← j.getObjValAs? (List (String × String)) "meta"
  let m : Meta := pairs.map fun p => (strToCps p.1, strToCps p.2)
  let enc := encodeMeta forb m
  let dec : Json := match enc with
    | .ok s => match decodeMeta s with
      | .ok d => Json.mkObj [("ok", metaJson d)]
      | .error _ => Json.mkObj [("err", "ValueError")]
    | .error _ => Json.null
  let encJ : Json := match enc with
    | .ok s => Json.mkObj [("ok", cpsToStr s)]
    | .error _ => Json.mkObj [("err", "ValueError")]
  return Json.mkObj [("table_ok", TableOk forb), ("enc", encJ), ("dec", dec)]

/-- the physical lines of a written file -> header lines, lines handed to the csv reader, decoded metadata -/
def simUnframe (j : Json) : Except String Json := do
  let lines ← j.getObjValAs? (List String) "lines"
  if lines.any (fun l => l.isEmpty) then throw "bad-input: a physical line is never empty"
  let r := unframe (lines.map strToCps)
  let metaJ : Json := match parseMeta r.1 with
    | .ok d => Json.mkObj [("ok", metaJson d)]
    | .error _ => Json.mkObj [("err", "ValueError")]
  return Json.mkObj [("header", toJson (r.1.map cpsToStr)), ("body", toJson (r.2.map cpsToStr)), ("meta", metaJ)]

/-- the csv dialect model on its own: `csv.read` = `list(csv.reader(...))` over a text, `csv.write` = `writer.writerows` -/
def csvRead (j : Json) : Except String Json := do
  let text ← j.getObjValAs? String "text"
  match Hpv.Csv.readAll (strToCps text) with
  | .ok rs => return Json.mkObj [("records", toJson (rs.map (fun r => r.map cpsToStr)))]
  | .error _ => return Json.mkObj [("err", "csv.Error")]

def csvWrite (j : Json) : Except String Json := do
  let rows ← j.getObjValAs? (List (List String)) "rows"
  let all := (j.getObjValAs? Bool "quote_all").toOption.getD false
  return Json.mkObj [("text", cpsToStr (Hpv.Csv.writeRows (fun _ _ => all) 0 (rows.map (fun r => r.map strToCps))))]

/-- `from_csv` up to `float(...)`: header filter, metadata, then the csv reader and the DictReader layer of the model -/
def simReadFile (j : Json) : Except String Json := do
  let lines ← j.getObjValAs? (List String) "lines"
  if lines.any (fun l => l.isEmpty) then throw "bad-input: a physical line is never empty"
  let r := unframe (lines.map strToCps)
  let metaJ : Json := match parseMeta r.1 with
    | .ok d => Json.mkObj [("ok", metaJson d)]
    | .error _ => Json.mkObj [("err", "ValueError")]
  let body : Json := match Hpv.Csv.readDict r.2.flatten with
    | .ok (h, rows) => Json.mkObj [("fieldnames", toJson (h.map cpsToStr)),
        ("rows", toJson (rows.map (fun row => row.map (fun kv => [cpsToStr kv.1, cpsToStr kv.2]))))]
    | .error _ => Json.mkObj [("err", "csv.Error")]
  return Json.mkObj [("meta", metaJ), ("csv", body)]

/-- `to_csv` from the rows down: title comment, metadata comment, the physical lines of the csv writer's text -/
def simWriteFile (j : Json) : Except String Json := do
  let title ← j.getObjValAs? String "title"
  let metaLine ← j.getObjValAs? String "meta_line"
  let rows ← j.getObjValAs? (List (List String)) "rows"
  let all := (j.getObjValAs? Bool "quote_all").toOption.getD false
  let text := Hpv.Csv.writeRows (fun _ _ => all) 0 (rows.map (fun r => r.map strToCps))
  return Json.mkObj [("lines", toJson ((frame (strToCps title) (strToCps metaLine) (Hpv.Csv.splitLines text)).map cpsToStr))]
end C15

/-! ### C10 -/
section C10
open Hpv.GM Hpv.Resnik

def keyCps (k : Key) : List Nat := k.1 ++ 58 :: k.2
def keyOfCps (s : List Nat) : Option Key := (Hpv.TermId.fromCurie s).map (fun t => (t.pfx, t.id))

/-- a graph helper as a function on CURIE strings (unknown ids give the empty list; never happens for graph nodes) -/
def closureFn (g : G Key) (q : Q) (incl : Bool) (s : List Nat) : List (List Nat) :=
  match keyOfCps s with
  | none => []
  | some k => match helper keyOrd g q (some k) incl with
    | .ok l => l.map keyCps
    | .error _ => []

def resnikPrecalc (j : Json) : Except String Json := do
  let edges ← (← j.getObjValAs? (Array Json) "edges").mapM edgeOfJson
  let pa ← j.getObjValAs? String "pa"
  let icl ← j.getObjValAs? (List (String × Int)) "ic"
  let pairs ← j.getObjValAs? (List (String × String)) "pairs"
  match build keyOrd owlThing .indexed edges.toList with
  | .error e => return Json.mkObj [("build_err", errName e)]
  | .ok g =>
    let ic : List Nat → Int := fun s => ((icl.find? (fun p => strToCps p.1 = s)).map (·.2)).getD 0
    let groups := closureFn g .children false (strToCps pa)
    let st := precalc groups (closureFn g .descendants true) (closureFn g .ancestors true) ic
    return Json.mkObj [("len", toJson (Hpv.Sim.len st)),
      ("items", toJson ((Hpv.Sim.items st).map fun t => Json.arr #[cpsToStr t.1, cpsToStr t.2.1, toJson t.2.2])),
      ("gets", toJson (pairs.map fun p => Hpv.Sim.get st (strToCps p.1) (strToCps p.2)))]
end C10

/-! ### C13 -/
def argsortReplay (j : Json) : Except String Json := do
  let ids ← j.getObjValAs? (List String) "ids"
  let trace ← j.getObjValAs? (List (Nat × Nat)) "trace"
  return Json.mkObj [("by_id", toJson (Hpv.Sorting.argsort ids trace)), ("by_position", toJson (Hpv.Sorting.argsortPos ids.length trace))]

/-- the clustering policy on OBSERVED similarities: `rounds[k]` lists `[row, col, value]` for the k-th round (value = the
order-preserving integer of the double); the oracle answers from the table of the round the current list length belongs to -/
def argsortPolicy (j : Json) : Except String Json := do
  let ids ← j.getObjValAs? (List String) "ids"
  let eps ← j.getObjValAs? Int "eps"
  let rounds ← j.getObjValAs? (List (List (Nat × Nat × Int))) "rounds"
  let n := ids.length
  let sim : List (Hpv.Sorting.Tree String) → Nat → Nat → Int := fun nodes r c =>
    match rounds[n - nodes.length]? with
    | none => 0
    | some tab => match tab.find? (fun e => e.1 == r && e.2.1 == c) with
      | some e => e.2.2
      | none => 0
  let start := ids.map Hpv.Sorting.Tree.leaf
  return Json.mkObj [("result", toJson (Hpv.Sorting.argsortPolicy sim eps ids)),
    ("pops", toJson (Hpv.Sorting.policyTrace sim eps n start))]

/-! ### C09 -/
section C09
open Hpv.GM Hpv.Ic

def icCounts (j : Json) : Except String Json := do
  let edges ← (← j.getObjValAs? (Array Json) "edges").mapM edgeOfJson
  let terms ← j.getObjValAs? (List String) "terms"
  let itemsJ ← j.getObjValAs? (List (List (String × Bool))) "items"
  let pseudo ← j.getObjValAs? Bool "pseudo"
  let modRoot : Option String := (j.getObjValAs? String "module").toOption
  match build keyOrd owlThing .indexed edges.toList with
  | .error e => return Json.mkObj [("build_err", errName e)]
  | .ok g =>
    let anc := closureFn g .ancestors true
    let mod : Option (List (List Nat)) := modRoot.map (fun r => closureFn g .descendants true (strToCps r))
    let items := itemsJ.map (fun anns => anns.map (fun p => (strToCps p.1, p.2)))
    let cs := counts anc mod (terms.map strToCps) pseudo items
    let popKey : List Nat := match modRoot with
      | some r => strToCps r
      | none => match g.root with
        | .ok k => keyCps k
        | .error _ => []
    return Json.mkObj [("counts", toJson (cs.map fun p => Json.arr #[cpsToStr p.1, toJson p.2])),
      ("population", toJson (lookupCount cs popKey))]
end C09

/-! ### C11 -/
section C11
open Hpv.GM Hpv.Validate

def validatorOf : String → Except String Validator
  | "propagation" => pure .propagation | "abnormality" => pure .abnormality | "obsolete" => pure .obsolete
  | s => throw s!"unknown validator {s}"

def levelName : Level → String
  | .warning => "WARNING" | .error => "ERROR"

def categoryName : Category → String
  | .propagation => "annotation_propagation" | .abnormality => "phenotypic_abnormality_descendant"
  | .obsolete => "obsolete_term_id_is_used"

def validateOp (j : Json) : Except String Json := do
  let edges ← (← j.getObjValAs? (Array Json) "edges").mapM edgeOfJson
  let ts ← (← j.getObjValAs? (List Json) "terms").mapM termOfJson
  let pa ← j.getObjValAs? String "pa"
  let itemsJ ← j.getObjValAs? (List (String × Bool)) "items"
  let vs ← (← j.getObjValAs? (List String) "validators").mapM validatorOf
  match build keyOrd owlThing .indexed edges.toList with
  | .error e => return Json.mkObj [("build_err", errName e)]
  | .ok g =>
    let o : Onto (List Nat) := ⟨fun k => (Hpv.Onto.getTerm ts k).map (·.id), closureFn g .ancestors false⟩
    let items : List (Feature (List Nat)) := itemsJ.map fun p => ⟨strToCps p.1, p.2⟩
    match validateAll o (strToCps pa) vs items with
    | .error e => return Json.mkObj [("err", errName e)]
    | .ok rs => return Json.mkObj [("ok", toJson (rs.map fun r => Json.arr #[levelName r.level, categoryName r.category,
        toJson (r.ids.map cpsToStr)]))]
end C11

/-! ### C16 -/
section C16
open Hpv.Io

def kindOf : String → Except String Kind
  | "path" => pure .path | "gzPath" => pure .gzPath | "textFile" => pure .textFile | "binaryFile" => pure .binaryFile
  | "stringIO" => pure .stringIO | "bytesIO" => pure .bytesIO | "gzipText" => pure .gzipText | "gzipBinary" => pure .gzipBinary
  | "other" => pure .other
  | s => throw s!"unknown kind {s}"

def outcomeName : Outcome → String
  | .openPath => "openPath" | .openGzPath => "openGzPath" | .openUrl => "openUrl" | .wrapBinary => "wrapBinary"
  | .passText => "passText" | .reject => "reject"

def ioDispatch (j : Json) : Except String Json := do
  let k ← kindOf (← j.getObjValAs? String "kind")
  let fj ← j.getObjVal? "facts"
  let b (n : String) : Except String Bool := fj.getObjValAs? Bool n
  let f : Facts := ⟨← b "isStr", ← b "typingBinaryIO", ← b "bufferedIOBase", ← b "rawIOBase", ← b "typingTextIO",
    ← b "textIOBase", ← b "endsWithGz", ← b "looksLikeUrl"⟩
  return Json.mkObj [("fits", FactsFit k f), ("read", outcomeName (dispatchRead f)), ("write", outcomeName (dispatchWrite f)),
    ("expected", outcomeName (expectedRead k))]
end C16

/-! ### C05 -/
section C05
open Hpv.Obo

def optStr (j : Json) (k : String) : Option String :=
  match j.getObjVal? k with
  | .ok (.str s) => some s
  | _ => none

def strList (j : Json) (k : String) : List String :=
  match j.getObjVal? k with
  | .ok (.arr a) => a.toList.filterMap (fun x => match x with | .str s => some s | _ => none)
  | _ => []

def objList (j : Json) (k : String) : List Json :=
  match j.getObjVal? k with
  | .ok (.arr a) => a.toList
  | _ => []

def bpvOf (j : Json) : Bpv := ⟨optStr j "pred", optStr j "val"⟩

def metaOf (j : Json) : MetaJ :=
  { definition := match j.getObjVal? "definition" with
      | .ok d => some ⟨optStr d "val", strList d "xrefs"⟩
      | .error _ => none
    comments := strList j "comments"
    synonyms := (objList j "synonyms").map fun x => ⟨optStr x "pred", optStr x "val", optStr x "synonymType", strList x "xrefs"⟩
    xrefs := (objList j "xrefs").map fun x => optStr x "val"
    bpvs := (objList j "basicPropertyValues").map bpvOf
    deprecated := match j.getObjVal? "deprecated" with
      | .ok (.bool b) => some b
      | _ => none }

def nodeOf (j : Json) : Except String NodeJ := do
  let id ← j.getObjValAs? String "id"
  return { id := id, lbl := optStr j "lbl", type := optStr j "type",
           mta := match j.getObjVal? "meta" with | .ok m => some (metaOf m) | .error _ => none }

def edgeJOf (j : Json) : Except String EdgeJ := do
  return ⟨← j.getObjValAs? String "sub", ← j.getObjValAs? String "pred", ← j.getObjValAs? String "obj"⟩

def docOf (j : Json) : Except String Doc := do
  let nodes ← (objList j "nodes").mapM nodeOf
  let edges ← (objList j "edges").mapM edgeJOf
  let m : DocMeta := match j.getObjVal? "meta" with
    | .ok mj => { version := optStr mj "version",
                  bpvs := match mj.getObjVal? "basicPropertyValues" with
                    | .ok (.arr a) => some (a.toList.map bpvOf)
                    | _ => none }
    | .error _ => {}
  return ⟨nodes, edges, m⟩

def catName : SynCategory → String
  | .exact => "EXACT" | .related => "RELATED" | .broad => "BROAD" | .narrow => "NARROW"

def typeName : SynType → String
  | .layperson => "LAYPERSON_TERM" | .abbreviation => "ABBREVIATION" | .ukSpelling => "UK_SPELLING"
  | .obsoleteSynonym => "OBSOLETE_SYNONYM" | .pluralForm => "PLURAL_FORM" | .allelicRequirement => "ALLELIC_REQUIREMENT"

def termJson (t : Hpv.Obo.Term) : Json :=
  Json.mkObj [("id", curieValue t.id), ("name", t.name), ("alts", toJson (t.alts.map curieValue)), ("obsolete", t.obsolete),
    ("definition", match t.definition with | some d => Json.arr #[d.1, toJson d.2] | none => Json.null),
    ("comment", toJson t.comment),
    ("synonyms", match t.synonyms with
      | some l => toJson (l.map fun s => Json.arr #[toJson s.name, toJson (s.category.map catName), toJson (s.synType.map typeName), toJson s.xrefs])
      | none => Json.null),
    ("xrefs", match t.xrefs with | some l => toJson (l.map curieValue) | none => Json.null)]

def oboLoad (j : Json) : Except String Json := do
  let doc ← docOf (← j.getObjVal? "doc")
  let L : Loader := if (← j.getObjValAs? String "loader") == "full" then .full else .minimal
  let P ← j.getObjValAs? (List String) "prefixes"
  match load L P doc with
  | .error e => return Json.mkObj [("err", errName e)]
  | .ok l =>
    let edges := l.edges.map fun e => (curieValue e.1, curieValue e.2)
    let keyEdges := edges.filterMap fun e => match keyOfStr e.1, keyOfStr e.2 with
      | some a, some b => some (a, b)
      | _, _ => none
    let graph : Json := match Hpv.GM.build keyOrd owlThing .indexed keyEdges with
      | .error e => Json.mkObj [("build_err", errName e)]
      | .ok g => Json.mkObj [("nodes", toJson (g.nodes.map keyStr)),
          ("root", match g.root with | .ok r => Json.str (keyStr r) | .error _ => Json.null),
          ("parents", toJson (g.nodes.map fun n => Json.arr #[keyStr n,
              match g.query keyOrd .parents (some n) false with | .ok ps => toJson (ps.map keyStr) | .error _ => Json.null]))]
    return Json.mkObj [("version", toJson l.version), ("terms", toJson (l.allTerms.map termJson)),
      ("edges", toJson (edges.map fun e => Json.arr #[e.1, e.2])), ("graph", graph)]

def oboRecognise (j : Json) : Except String Json := do
  let ss ← j.getObjValAs? (List String) "ss"
  let which ← j.getObjValAs? String "which"
  match which with
  | "purl" => return toJson (ss.map purlCurie)
  | "date" => return toJson (ss.map dateOf)
  | "syntype" => return toJson (ss.map fun s => (parseSynType (some s)).map typeName)
  | _ => throw s!"unknown recogniser {which}"
end C05

/-! ### C08 -/
section C08
open Hpv.Hpoa

def isVersionChar (c : Char) : Bool := c.isAlphanum || c = '_' || c = '-'

/-- `HPOA_VERSION_PATTERN.match(line).group('version')` -/
def hpoaVersion (line : String) : Option String :=
  let l := if line.endsWith "\n" then (line.dropEnd 1).toString else line
  let rest? : Option String :=
    if l.startsWith "#date: " then some (l.drop 7).toString
    else if l.startsWith "#version: " then some (l.drop 10).toString else none
  match rest? with
  | some r => if !r.isEmpty ∧ r.all isVersionChar then some r else none
  | none => none

def allDigits (s : String) : Bool := !s.isEmpty && s.all Char.isDigit

/-- classification of the frequency cell by the four patterns of `_parse_frequency` -/
def classifyFreq (f : String) : Freq :=
  if f.isEmpty then .empty
  else if f.startsWith "HP:" ∧ f.length = 10 ∧ allDigits (f.drop 3).toString then .term f
  else
    match f.splitOn "/" with
    | [a, b] => if allDigits a ∧ allDigits b then .ratio a.toNat! b.toNat! else .bad
    | _ =>
      if f.endsWith "%" then
        let v := (f.dropEnd 1).toString
        match v.splitOn "." with
        | [a] => if allDigits a then .percent a.toNat! 1 else .bad
        | [a, b] =>
          if allDigits a ∧ (b.isEmpty ∨ allDigits b) then .percent (a ++ b).toNat! (10 ^ b.length) else .bad
        | _ => .bad
      else .bad

def aspectOf (s : String) : Option Aspect :=
  match s.toUpper with
  | "P" => some .P | "I" => some .I | "C" => some .C | "M" => some .M | _ => none

def nonBlank (t : String) : Bool := !t.isEmpty && !(t.all Char.isWhitespace)

/-- `_parse_hpoa_line`; references are kept as `curie-value|EVIDENCE` -/
def parseHpoaLine (line : String) : Except Hpv.Err Line :=
  let fields := (line.trim.splitOn "\t").toArray
  if fields.size < 12 then .error .indexError
  else
    let ev := fields[5]!.toUpper
    let evOk := ev = "IEA" ∨ ev = "TAS" ∨ ev = "PCS"
    let refsRaw := (fields[4]!.splitOn ";").filter nonBlank
    let modsRaw := (fields[9]!.splitOn ";").filter nonBlank
    match Hpv.Obo.mapM' Hpv.Obo.termIdOf refsRaw, Hpv.Obo.mapM' Hpv.Obo.termIdOf modsRaw with
    | some rs, some ms =>
      if !rs.isEmpty ∧ !evOk then .error .valueError
      else .ok ⟨fields[0]!, fields[1]!, fields[2]!.toUpper = "NOT", fields[3]!,
                rs.map (fun t => Hpv.Obo.curieValue t ++ "|" ++ ev), fields[7]!, ms.map Hpv.Obo.curieValue, aspectOf fields[10]!⟩
    | _, _ => .error .valueError

/-- header handling of `load`: (version, parsed data lines) -/
def hpoaLines (lines : List String) : Except Hpv.Err (Option String × List Line) :=
  let rec go (ls : List String) (header : Bool) (version : Option String) (acc : List Line) : Except Hpv.Err (Option String × List Line) :=
    match ls with
    | [] => .ok (version, acc.reverse)
    | l :: rest =>
      if header then
        if l.startsWith "#" then
          if l.startsWith "#DatabaseID" then go rest false version acc
          else match hpoaVersion l with
            | some v => go rest true (some v) acc
            | none => go rest true version acc
        else if l.startsWith "database_id" then go rest false version acc
        else go rest true version acc
      else match parseHpoaLine l with
        | .ok pl => go rest false version (pl :: acc)
        | .error e => .error e
  go lines true none []

/-- admissible numerators of one line: both neighbours when the exact value is within 2^-30 of a tie -/
def admissible (N D : Nat) : List Int :=
  let q := N / D
  let r := N % D
  let dist := if 2 * r ≥ D then 2 * r - D else D - 2 * r        -- |2r - D|
  if dist * 2 ^ 30 < 2 * D then [(q : Int), (q : Int) + 1] else [(roundHalfEven N D : Nat)]

def lineNums (cfg : Config) (l : Line) : Except Hpv.Err (List Int × Int) :=
  match classifyFreq l.freq with
  | .term id =>
    match cfg.table.find? (fun r => r.id = id) with
    | none => .error .other
    | some r => .ok (if l.neg then [0] else admissible (r.freq * cfg.cohort) r.denom, cfg.cohort)
  | .percent pn pd => .ok (admissible (pn * cfg.cohort) (pd * 100), cfg.cohort)
  | f => (lineRatio cfg l.neg f).map (fun r => ([r.1], r.2))

def minkowski (a b : List Int) : List Int := (a.flatMap (fun x => b.map (fun y => x + y))).eraseDups

def hpoaLoad (j : Json) : Except String Json := do
  let lines ← j.getObjValAs? (List String) "lines"
  let cohort ← j.getObjValAs? Nat "cohort"
  let salvage ← j.getObjValAs? Bool "salvage"
  let rows ← (← j.getObjValAs? (List Json) "table").mapM fun r => do
    return (⟨← r.getObjValAs? String "id", ← r.getObjValAs? Nat "lower", ← r.getObjValAs? Nat "freq", ← r.getObjValAs? Nat "upper",
             ← r.getObjValAs? Nat "denom"⟩ : FreqRow)
  let cfg : Config := ⟨cohort, salvage, rows⟩
  let tableOk := rows.all fun r => decide (0 < r.denom ∧ r.lower ≤ r.freq ∧ r.freq ≤ r.upper ∧ r.upper ≤ r.denom)
  match hpoaLines lines with
  | .error e => return Json.mkObj [("err", errName e), ("table_ok", tableOk)]
  | .ok (version, pls) =>
    match aggregate cfg classifyFreq pls with
    | .error e => return Json.mkObj [("err", errName e), ("table_ok", tableOk)]
    | .ok ds =>
      -- ids must be CURIEs (`TermId.from_curie` on disease and phenotype ids)
      let norm (s : String) : Option String := (Hpv.Obo.termIdOf s).map Hpv.Obo.curieValue
      let mut out : Array Json := #[]
      for d in ds do
        match norm d.id with
        | none => return Json.mkObj [("err", "ValueError"), ("table_ok", tableOk)]
        | some did =>
          let pl := (group (·.disease) pls d.id).filter (fun l => l.aspect = some .P)
          let mut anns : Array Json := #[]
          for a in d.anns do
            match norm a.id with
            | none => return Json.mkObj [("err", "ValueError"), ("table_ok", tableOk)]
            | some aid =>
              let ls := group (·.pheno) pl a.id
              let nums := ls.foldl (fun acc l => match lineNums cfg l with
                | .ok (ns, _) => minkowski acc ns
                | .error _ => acc) [0]
              anns := anns.push (Json.mkObj [("id", aid), ("nums", toJson nums), ("exact_num", toJson a.num), ("den", toJson a.den),
                ("refs", toJson a.refs), ("mods", toJson a.mods)])
          match Hpv.Obo.mapM' norm d.moi with
          | none => return Json.mkObj [("err", "ValueError"), ("table_ok", tableOk)]
          | some moi =>
            out := out.push (Json.mkObj [("id", did), ("name", d.name), ("anns", Json.arr anns), ("moi", toJson moi)])
      return Json.mkObj [("version", toJson version), ("diseases", Json.arr out), ("table_ok", tableOk)]
end C08

/-! ### C07 -/
section C07
open Hpv.Store

abbrev SKey := Hpv.Store.Key

def tyOf : String → Except String Ty
  | "HPO" => pure .hpo | "MAxO" => pure .maxo | "MONDO" => pure .mondo
  | s => throw s!"unknown ontology type {s}"

def tyName : Ty → String
  | .hpo => "HPO" | .maxo => "MAxO" | .mondo => "MONDO"

def choiceOf (j : Json) : Choice :=
  match j with
  | .str "ok" => .ok
  | .str "fail" => .fail
  | .str "die" => .die
  | .num n => .failAfter n.mantissa.toNat
  | _ => .ok

structure Plan where
  tags : Choice
  fetch : Choice
  read : Choice
  write : Choice
  dieAt : Option Nat        -- kill before the `dieAt`-th step (0-based)

def planChoice (p : Plan) (pc : PC) : Choice :=
  match pc with
  | .start _ none => p.tags
  | .tmpMade _ => p.fetch
  | .fetched _ _ => p.read
  | .haveBytes _ _ => p.write
  | _ => .ok

def terminal : PC → Bool
  | .loaded _ _ | .failed | .dead | .idle => true
  | _ => false

def pcName : PC → String
  | .idle => "idle" | .start _ _ => "start" | .resolved _ => "resolved" | .checked _ => "checked" | .dirMade _ => "dirMade"
  | .tmpMade _ => "tmpMade" | .fetched _ _ => "fetched" | .haveBytes _ _ => "haveBytes" | .written _ => "written" | .hit _ => "hit"
  | .loaded _ _ => "loaded" | .cleanup _ => "cleanup" | .failed => "failed" | .dead => "dead"

/-- run loader `t` to a terminal pc under the plan; returns the world and the pcs it went through -/
def runLoad (w : World) (t : Nat) (p : Plan) : World × List String :=
  let rec go (fuel : Nat) (w : World) (i : Nat) (trace : List String) : World × List String :=
    match fuel with
    | 0 => (w, trace.reverse)
    | fuel + 1 =>
      if terminal (w.pcs t) then (w, trace.reverse)
      else
        let c := if p.dieAt = some i then Choice.die else planChoice p (w.pcs t)
        go fuel (stepLoader w t c) (i + 1) (pcName (w.pcs t) :: trace)
  go 20 w 0 []

def worldJson (w : World) (keys : List SKey) (tmps : List (Ty × Nat)) (strays : List (Option Ty × Nat) := []) : Json :=
  Json.mkObj [
    ("cache", toJson (keys.filterMap fun k => (w.files (.cache k)).map fun c => Json.arr #[tyName k.ty, toJson k.rel, toJson c])),
    ("tmp", toJson ((tmps.filter fun p => (w.files (.tmp p.1 p.2)).isSome).length +
                    (strays.filter fun p => (w.files (.foreign p.1 p.2)).isSome).length)),
    ("dirs", toJson ([Ty.hpo, Ty.maxo, Ty.mondo].filterMap fun ty => if w.dirs ty then some (tyName ty) else none)),
    ("fetches", toJson (w.log.filterMap fun e => match e with | .fetch _ k => some (Json.arr #[tyName k.ty, toJson k.rel]) | _ => none))]

/-- tag names as code-point lists -> which are production tags, and the latest -/
def storeTags (j : Json) : Except String Json := do
  let names ← j.getObjValAs? (List (List Nat)) "names"
  return Json.mkObj [("prod", toJson (names.map Hpv.Tags.prodTag)),
    ("latest", match Hpv.Tags.latest names with | none => Json.null | some r => toJson r)]

/-- an observed trace of file-system primitives -> is it disciplined, and where does it stop being so.
remote: [[key, bytes]]; ops: ["create", path] | ["append", path, bytes] | ["rename", src, dst] | ["remove", path] | ["noop"];
a path is ["cache", k] or ["other", p] -/
def storeTrace (j : Json) : Except String Json := do
  let remoteL ← j.getObjValAs? (List (Nat × List Nat)) "remote"
  let remote : Nat → Option Hpv.StoreTrace.Bytes := fun k => (remoteL.find? (fun p => p.1 = k)).map (·.2)
  let pathOf (x : Json) : Except String Hpv.StoreTrace.Path := do
    let a ← x.getArr?
    let n ← (a[1]?.getD Json.null).getNat?
    match ← (a[0]?.getD Json.null).getStr? with
    | "cache" => return .cache n
    | "other" => return .other n
    | s => throw s!"bad path kind {s}"
  let ops ← (← j.getObjValAs? (List Json) "ops").mapM fun o => do
    let a ← o.getArr?
    match ← (a[0]?.getD Json.null).getStr? with
    | "create" => return Hpv.StoreTrace.Op.create (← pathOf (a[1]?.getD Json.null))
    | "append" => return .append (← pathOf (a[1]?.getD Json.null)) (← fromJson? (α := List Nat) (a[2]?.getD Json.null))
    | "rename" => return .rename (← pathOf (a[1]?.getD Json.null)) (← pathOf (a[2]?.getD Json.null))
    | "remove" => return .remove (← pathOf (a[1]?.getD Json.null))
    | "noop" => return .noop
    | s => throw s!"bad trace op {s}"
  let bad := Hpv.StoreTrace.firstBad remote Hpv.StoreTrace.emptyFS ops 0
  let fs := Hpv.StoreTrace.run Hpv.StoreTrace.emptyFS ops
  let cached : List Nat := remoteL.filterMap fun p => if (fs (.cache p.1)).isSome then some p.1 else none
  return Json.mkObj [("disciplined", Hpv.StoreTrace.Disciplined remote Hpv.StoreTrace.emptyFS ops),
    ("first_bad", match bad with | none => Json.null | some i => toJson i), ("cached", toJson cached)]

def storeRun (j : Json) : Except String Json := do
  -- remote: [[ty, rel, bytes]], tags: [[ty, [rels]]], ops
  let remoteL ← (← j.getObjValAs? (List Json) "remote").mapM fun r => do
    let a ← r.getArr?
    return ((⟨← tyOf (← (a[0]?.getD Json.null).getStr?), ← (a[1]?.getD Json.null).getNat?⟩ : SKey), ← fromJson? (α := List Nat) (a[2]?.getD Json.null))
  let tagsL ← (← j.getObjValAs? (List Json) "tags").mapM fun r => do
    let a ← r.getArr?
    return (← tyOf (← (a[0]?.getD Json.null).getStr?), ← fromJson? (α := List Nat) (a[1]?.getD Json.null))
  let remote : SKey → Option Bytes := fun k => (remoteL.find? (fun p => p.1 = k)).map (·.2)
  let tags : Ty → List Nat := fun ty => ((tagsL.find? (fun p => p.1 = ty)).map (·.2)).getD []
  let keys := remoteL.map (·.1) ++ (tagsL.flatMap fun p => p.2.map fun r => (⟨p.1, r⟩ : SKey))
  let ops ← j.getObjValAs? (Array Json) "ops"
  let mut w := World.init remote tags
  let mut outs : Array Json := #[]
  let mut tmps : List (Ty × Nat) := []
  let mut strays : List (Option Ty × Nat) := []
  let mut t := 0
  for opj in ops do
    let a ← opj.getArr?
    let k ← (a[0]?.getD Json.null).getStr?
    match k with
    | "load" =>
      let ty ← tyOf (← (a[1]?.getD Json.null).getStr?)
      let rel : Option Nat := (a[2]?.getD Json.null).getNat?.toOption
      let pj := a[3]?.getD Json.null
      let g (n : String) : Choice := match pj.getObjVal? n with | .ok v => choiceOf v | .error _ => .ok
      let plan : Plan := ⟨g "tags", g "fetch", g "read", g "write", (pj.getObjValAs? Nat "dieAt").toOption⟩
      t := t + 1                      -- every load is a new loader (a fresh unique temp name)
      tmps := (ty, t) :: tmps
      let w1 := step w (.spawn t ty rel)
      let (w2, trace) := runLoad w1 t plan
      w := w2
      let res : Json := match w.pcs t with
        | .loaded k c => Json.mkObj [("loaded", Json.arr #[tyName k.ty, toJson k.rel, toJson c])]
        | .dead => "dead"
        | _ => "failed"
      outs := outs.push (Json.mkObj [("result", res), ("trace", toJson trace), ("world", worldJson w keys tmps strays)])
    | "clear" =>
      match a[1]?.getD Json.null with
      | .str s => w := step w (.clearTy (← tyOf s))
      | _ => w := step w .clearAll
      outs := outs.push (Json.mkObj [("result", "ok"), ("world", worldJson w keys tmps strays)])
    | "stray" =>
      -- ["stray", type|null, name, bytes]
      let ty : Option Ty ← match a[1]?.getD Json.null with
        | .str s => (tyOf s).map some
        | _ => pure none
      let name ← (a[2]?.getD Json.null).getNat?
      let b ← fromJson? (α := List Nat) (a[3]?.getD Json.null)
      strays := if strays.contains (ty, name) then strays else (ty, name) :: strays
      w := step w (.stray ty name b)
      outs := outs.push (Json.mkObj [("result", "ok"), ("world", worldJson w keys tmps strays)])
    | "latest" =>
      let ty ← tyOf (← (a[1]?.getD Json.null).getStr?)
      outs := outs.push (Json.mkObj [("result", toJson (maxTag (tags ty))), ("world", worldJson w keys tmps strays)])
    | _ => throw s!"unknown store op {k}"
  return Json.arr outs
end C07

def handle (j : Json) : Except String Json := do
  let op ← j.getObjValAs? String "op"
  match op with
  | "c04.parse" => c04parse j
  | "c04.cmp" => c04cmp j
  | "c04.sort" => c04sort j
  | "c17.hist" => c17hist j
  | "graph.batch" => graphBatch j
  | "onto.lookup" => ontoLookup j
  | "sim.hist" => simHist j
  | "store.run" => storeRun j
  | "store.tags" => storeTags j
  | "store.trace" => storeTrace j
  | "hpoa.load" => hpoaLoad j
  | "obo.load" => oboLoad j
  | "obo.recognise" => oboRecognise j
  | "io.dispatch" => ioDispatch j
  | "validate" => validateOp j
  | "ic.counts" => icCounts j
  | "argsort.replay" => argsortReplay j
  | "argsort.policy" => argsortPolicy j
  | "resnik.precalc" => resnikPrecalc j
  | "meta.codec" => metaCodec j
  | "sim.unframe" => simUnframe j
  | "sim.read_file" => simReadFile j
  | "sim.write_file" => simWriteFile j
  | "csv.read" => csvRead j
  | "csv.write" => csvWrite j
  | "c17.csr" => c17csr j
  | _ => throw s!"unknown op {op}"
end Drv

partial def loopIO (h : IO.FS.Stream) (out : IO.FS.Stream) : IO Unit := do
  let line ← h.getLine
  if line.isEmpty then return ()
  match Json.parse line >>= Drv.handle with
  | .ok j => out.putStrLn j.compress
  | .error e => out.putStrLn (Json.mkObj [("error", e)]).compress
  loopIO h out

def main : IO Unit := do loopIO (← IO.getStdin) (← IO.getStdout)
