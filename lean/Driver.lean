/-
Model driver: one JSON request per line on stdin, one JSON reply per line on stdout.
Only Mathlib-free model files are imported, so this links as a native executable.
-/
import Lean.Data.Json
import Hpv.Basic
import Hpv.TermId
import Hpv.Csr
open Lean

namespace Drv

def getD? {α} [FromJson α] (j : Json) (k : String) (d : α) : Except String α :=
  match j.getObjVal? k with
  | .ok v => fromJson? v
  | .error _ => pure d

def strToCps (s : String) : List Nat := s.toList.map Char.toNat
def cpsToStr (l : List Nat) : String := String.ofList (l.map Char.ofNat)

/-! ### C04 -/
section C04
open Hpv.TermId

def tidOfJson (j : Json) : Except String TermId := do
  let v ← j.getObjValAs? (List Nat) "v"
  let i ← j.getObjValAs? Nat "i"
  return ⟨v, i⟩

def c04parse1 (s : List Nat) : Json :=
  match fromCurie s with
  | none => Json.mkObj [("ok", false)]
  | some t => Json.mkObj [("ok", true), ("idx", toJson t.idx), ("prefix", toJson t.pfx), ("id", toJson t.id),
                          ("value", toJson t.curie)]

def c04parse (j : Json) : Except String Json := do
  let ss ← j.getObjValAs? (List (List Nat)) "ss"
  return toJson (ss.map c04parse1)

def c04cmp (j : Json) : Except String Json := do
  let ids ← (← j.getObjValAs? (Array Json) "ids").mapM tidOfJson
  let pairs ← j.getObjValAs? (List (Nat × Nat)) "pairs"
  let out := pairs.map fun (a, b) =>
    match ids[a]?, ids[b]? with
    | some x, some y => (if x.beq y then 1 else 0) + (if x.lt y then 2 else 0) + (if y.lt x then 4 else 0)
    | _, _ => 99
  return toJson out

def c04sort (j : Json) : Except String Json := do
  let ids ← (← j.getObjValAs? (List Json) "ids").mapM tidOfJson
  return toJson ((sortIds ids).map fun t => t.curie)

end C04

/-! ### C17 (raw builder arrays; the full matrix ops are in `c17.hist`) -/
open Hpv.Csr in
def c17raw (j : Json) : Except String Json := do
  let nrows ← j.getObjValAs? Nat "nrows"
  let ops ← j.getObjValAs? (List (Nat × Nat × Int)) "ops"
  let b0 : Builder := ⟨List.replicate (nrows + 1) 0, [], []⟩
  let b := ops.foldl (fun b (r, c, v) => setItem b r c v) b0
  return Json.mkObj [("row", toJson b.indptr), ("col", toJson b.col), ("data", toJson b.dat)]

def handle (j : Json) : Except String Json := do
  let op ← j.getObjValAs? String "op"
  match op with
  | "c04.parse" => c04parse j
  | "c04.cmp" => c04cmp j
  | "c04.sort" => c04sort j
  | "c17.raw" => c17raw j
  | _ => throw s!"unknown op {op}"
end Drv

partial def loopIO (h : IO.FS.Stream) (out : IO.FS.Stream) : IO Unit := do
  let line ← h.getLine
  if line.isEmpty then return ()
  match Json.parse line >>= Drv.handle with
  | .ok j => out.putStrLn j.compress
  | .error e => out.putStrLn (Json.mkObj [("error", e)]).compress
  loopIO h out

def main : IO Unit := do loopIO (← IO.getStdin) (← IO.getStdout)
