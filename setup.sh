#!/bin/bash
# Offline build of the Lean models, proofs and the model driver.
set -e
cd "$(dirname "$0")/lean"
lake build Hpv driver
ls -la .lake/build/bin/driver
