"""C11 — validators report exactly the rule violations and never alter their input (validate/_hpo.py, _model.py, _util.py)."""
import itertools
import re
import warnings

import graphlib as gl
from common import run_driver

RULE = ('random single-rooted ontologies containing HP:0000118 with alternate ids (n <= 12; 20 thorough) x item sequences (0-7 items: '
        'bare TermIds, identified objects with a bool `is_present`, with a callable `is_present`, without it; present / excluded; '
        'primary or alternate ids; repeated items; terms inside and outside the Phenotypic-abnormality branch, HP:0000118 itself) x '
        'every ordered subset of the three validators in one ValidationRunner (built from a list, a tuple or a one-shot iterable, and asked twice), plus each validator alone. Results compared with the '
        'Lean model as a MULTISET of (level, category, ids named in the message in order) — wording is free, ids are extracted with a '
        'generic CURIE tokenizer; is_ok == (no results); deep snapshot (type, identifier.value, is_present) of the caller\'s items before/'
        'after. A few cases carry ids the ontology does not know (outside the quantifier): there the code may raise or answer as it likes, only the next case on a fresh validator counts. Non-trivial: >= 1 finding expected, or an alternate id / excluded item is present; distinct by the whole case.')

THEOREM = 'Hpv.Props.C11.*'
CURIE = re.compile(r'[A-Za-z]+:\d+')
VALIDATORS = ('propagation', 'abnormality', 'obsolete')


def pa_id():
    from hpotk.constants.hpo.base import PHENOTYPIC_ABNORMALITY
    return PHENOTYPIC_ABNORMALITY.value


def make_item(kind, curie, present):
    from hpotk.model import TermId, Identified, ObservableFeature
    t = TermId.from_curie(curie)
    if kind == 'tid':
        return t

    class Base(Identified):
        def __init__(self, i):
            self._i = i

        @property
        def identifier(self):
            return self._i
    if kind == 'idf-nostatus':
        return Base(t)
    if kind == 'idf-bool':
        class F(Base):
            @property
            def is_present(self):
                return present
        return F(t)
    if kind == 'idf-callable':
        class F2(Base):
            def is_present(self):
                return present
        return F2(t)
    if kind == 'idf-observable':
        class F3(Base, ObservableFeature):
            @property
            def is_present(self):
                return present
        return F3(t)
    raise ValueError(kind)


def snapshot(items):
    out = []
    for it in items:
        ident = it if not hasattr(it, 'identifier') else it.identifier
        st = getattr(it, 'is_present', None)
        st = st() if callable(st) else st
        out.append((type(it).__name__, ident.value, id(ident), st))
    return out


def build_world(edges, terms):
    from hpotk.model import MinimalTerm
    from hpotk.ontology import create_minimal_ontology
    g = gl.build_impl('indexed', edges)
    objs = [MinimalTerm.create_minimal_term(t['id'], t['name'], t['alts'], t['obs']) for t in terms]
    return create_minimal_ontology(g, objs, 'v')


def mk_validator(name, onto):
    from hpotk.validate import AnnotationPropagationValidator, PhenotypicAbnormalityValidator, ObsoleteTermIdsValidator
    return {'propagation': AnnotationPropagationValidator, 'abnormality': PhenotypicAbnormalityValidator,
            'obsolete': ObsoleteTermIdsValidator}[name](onto)


def canon_results(vr):
    return sorted([r.level.name, r.category, CURIE.findall(r.message)] for r in vr.results)


def evaluate(ctx, cases, stream):
    pa = pa_id()
    reqs = [{'op': 'validate', 'edges': [list(e) for e in c['edges']], 'terms': c['terms'], 'pa': pa,
             'items': [[cu, pr] for _, cu, pr in c['items']], 'validators': list(c['validators'])} for c in cases]
    reps = run_driver(reqs)
    from hpotk.validate import ValidationRunner
    for c, rep in zip(cases, reps):
        model = sorted(rep['ok']) if 'ok' in rep else rep
        nt = (isinstance(model, list) and len(model) > 0) or any(not pr for _, _, pr in c['items']) or \
            any(cu in {a for t in c['terms'] for a in t['alts']} for _, cu, _ in c['items'])
        ctx.case(['validate', c['edges'], c['terms'], c['items'], c['validators'], c['direct']], nt, stream,
                 sample={'items': c['items'], 'validators': c['validators'], 'expected': model} if nt else None)
        problem = None
        try:
            with warnings.catch_warnings():
                warnings.simplefilter('ignore')
                onto = build_world(c['edges'], c['terms'])
                items = [make_item(k, cu, pr) for k, cu, pr in c['items']]
                before = snapshot(items)
                seq = tuple(items) if c.get('tuple') else items
                if c['direct']:
                    vr = mk_validator(c['validators'][0], onto).validate(seq)
                else:
                    # the runner is built from a list, a tuple or a one-shot iterable of validators, and is asked TWICE
                    vals = [mk_validator(v, onto) for v in c['validators']]
                    how = len(c['items']) % 3
                    runner = ValidationRunner(vals if how == 0 else tuple(vals) if how == 1 else (v for v in vals))
                    vr = runner.validate_all(seq)
                    again = canon_results(runner.validate_all(seq))
                impl = canon_results(vr)
                after = snapshot(items)
                if isinstance(model, dict) and 'err' in model:
                    # an id the ontology does not know: outside the property's quantifier, the code may raise or report what it likes
                    ctx.count('unknown-id cases (outside the quantifier): the implementation answers, the model does not')
                    problem = 'outside'
                elif impl != model:
                    problem = {'what': 'results', 'impl': impl, 'model': model}
                elif not c['direct'] and again != model:
                    problem = {'what': 'results of a second validate_all on the same runner', 'impl': again, 'model': model}
                elif vr.is_ok() != (len(impl) == 0):
                    problem = {'what': 'is_ok', 'impl': vr.is_ok(), 'n_results': len(impl)}
                elif before != after or len(items) != len(c['items']):
                    problem = {'what': 'caller-items-changed', 'before': before, 'after': after}
        except Exception as e:  # noqa
            problem = {'what': 'raises', 'impl': f'{type(e).__name__}: {e}', 'model': model}
            if isinstance(model, dict) and 'err' in model:
                problem = 'both-raise'          # outside the property's quantifier (an id unknown to the ontology): model and code both fail
                ctx.count('unknown-id cases on which model and implementation both raise')
        if problem in ('both-raise', 'outside'):
            problem = None
        if problem:
            ctx.violation(f'{"+".join(c["validators"])}:{problem["what"]}',
                          {'case': {'kind': 'validate', **{k: c[k] for k in ('edges', 'terms', 'items', 'validators', 'direct')}},
                           'disagreement': problem, 'theorem': THEOREM})


def random_world(rng, nmax):
    pa = pa_id()
    root = 'HP:0000001'
    n = rng.randrange(2, nmax)
    ids = rng.sample(range(200, 999), 3 * n + 6)
    labels = [root, pa] + [f'HP:{i:07d}' for i in ids[:n]]
    spare = [f'HP:{i:07d}' for i in ids[n:]]
    edges = {(pa, root)}
    for i in range(2, len(labels)):
        cands = list(range(0, i)) if rng.random() < 0.25 else list(range(1, i))      # some terms outside the PA branch
        for p in rng.sample(cands, min(len(cands), rng.choice([1, 1, 2]))):
            edges.add((labels[i], labels[p]))
    terms = []
    it = iter(spare)
    for lab in labels:
        alts = [next(it) for _ in range(rng.choice([0, 0, 1, 2]))]
        terms.append({'id': lab, 'alts': alts, 'obs': False, 'name': 'n' + lab[3:]})
    return sorted(edges), terms


def random_items(rng, terms):
    pool = []
    for t in terms:
        pool.append(t['id'])
        pool.extend(t['alts'])
    items = []
    unknown_too = rng.random() < 0.06       # a few cases step outside the quantifier: ids the ontology does not know (ties the model's `none` branches)
    n_items = rng.randrange(0, 8) if rng.random() < 0.93 else rng.choice([63, 64, 65, 127, 128, 129, 300])      # mostly short; long inputs too
    for _ in range(n_items):
        cu = rng.choice(pool) if not items or rng.random() < 0.8 else rng.choice(items)[1]
        if unknown_too and rng.random() < 0.4:
            cu = f'HP:{rng.randrange(9000000, 9000009):07d}'
        kind = rng.choice(['tid', 'idf-nostatus', 'idf-bool', 'idf-callable', 'idf-observable'])
        present = True if kind in ('tid', 'idf-nostatus') else rng.random() < 0.55
        items.append((kind, cu, present))
    return items


def run(ctx):
    rng = ctx.rng
    thorough = ctx.tier == 'thorough'
    orders = [list(p) for r in (1, 2, 3) for p in itertools.permutations(VALIDATORS, r)]
    cases = []
    for _ in range(1200 if thorough else 250):
        edges, terms = random_world(rng, 21 if thorough else 13)
        for _ in range(3):
            items = random_items(rng, terms)
            vs = rng.choice(orders)
            cases.append({'edges': edges, 'terms': terms, 'items': items, 'validators': vs, 'direct': len(vs) == 1 and rng.random() < 0.5,
                          'tuple': rng.random() < 0.3})
    # hand-written corners on a chain PA <- A <- B <- C with alternates
    pa, root = pa_id(), 'HP:0000001'
    A, B, C, X = 'HP:0000500', 'HP:0000600', 'HP:0000700', 'HP:0000005'
    edges = [(pa, root), (A, pa), (B, A), (C, B), (X, root)]
    terms = [{'id': t, 'alts': alts, 'obs': False, 'name': 'n' + t[3:]} for t, alts in
             [(root, []), (pa, []), (A, ['HP:0000501']), (B, []), (C, ['HP:0000701', 'HP:0000702']), (X, [])]]
    combos = [
        [('tid', C, True), ('tid', A, True)], [('idf-bool', C, False), ('idf-bool', A, False)], [('idf-bool', C, False), ('tid', A, True)],
        [('idf-bool', C, True), ('idf-bool', A, False)], [('tid', 'HP:0000701', True), ('idf-bool', 'HP:0000501', False)],
        [('idf-bool', 'HP:0000701', False), ('idf-bool', 'HP:0000501', False)], [('tid', C, True), ('tid', C, True), ('tid', B, True)],
        [('tid', pa, True)], [('tid', X, True), ('tid', root, True)], [('tid', 'HP:0000701', True), ('tid', 'HP:0000701', True)], [],
        [('idf-callable', C, False), ('idf-callable', B, False), ('idf-callable', A, False)],
    ]
    for items in combos:
        for vs in orders:
            cases.append({'edges': edges, 'terms': terms, 'items': items, 'validators': vs, 'direct': len(vs) == 1, 'tuple': False})
    for i in range(0, len(cases), 300):
        evaluate(ctx, cases[i:i + 300], 'random+corners')


def replay(ctx, data):
    c = data['case']
    c['edges'] = [tuple(e) for e in c['edges']]
    c['items'] = [tuple(x) for x in c['items']]
    evaluate(ctx, [c], 'replay')
