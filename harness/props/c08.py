"""C08 — HPOA loading aggregates lines into per-disease, per-phenotype frequencies (annotations/load/hpoa/_impl.py, ...)."""
import os
import shutil
import tempfile
import warnings
from fractions import Fraction
from math import lcm

from common import run_driver

RULE = ('random well-formed HPOA files (both header styles, version/date/other comment lines, 1-6 diseases, 1-8 phenotype ids, repeated '
        'lines, aspects P/I/C/M in both cases, qualifier NOT/not/empty, frequency as empty, n/m, negated 0/0, each of the six HPO '
        'frequency terms on present and negated lines, percentages with and without decimals; reference/modifier lists with repeats) x '
        'cohort_size in {1,5,7,50,53,1000} x salvage_negated_frequencies x line shuffles. The ranges of the six frequency terms are PINNED to the '
        'HPO definitions (0; 1-4 %; 5-29 %; 30-79 %; 80-99 %; 100 %) and the code\'s table must state them; the table of frequency terms is read from the '
        'running code (exact rationals of the floats) and passed to the Lean model, which also evaluates lower<=freq<=upper<=1 per row. '
        'Compared: version, len, per disease sorted (phenotype, numerator in the model\'s admissible set, denominator, is_present, '
        'sorted references with evidence, sorted modifiers), modes of inheritance with their Python type; plus the property\'s clauses '
        'directly on the implementation (0<=n<=d, d>0, present iff n>0, single-line term/percent annotations inside their range) and '
        'shuffle invariance. Non-trivial: a phenotype id occurs on >= 2 lines of one disease, or a term / percentage / negation is used.')

THEOREM = 'Hpv.Props.C08.*'
TERMS = ['HP:0040280', 'HP:0040281', 'HP:0040282', 'HP:0040283', 'HP:0040284', 'HP:0040285']


# the ranges the HPO defines for its frequency terms (the property's "that term's defined range"): pinned, NOT read from the code
DEFINED = {'HP:0040285': (Fraction(0), Fraction(0)), 'HP:0040284': (Fraction(1, 100), Fraction(4, 100)),
           'HP:0040283': (Fraction(5, 100), Fraction(29, 100)), 'HP:0040282': (Fraction(30, 100), Fraction(79, 100)),
           'HP:0040281': (Fraction(80, 100), Fraction(99, 100)), 'HP:0040280': (Fraction(1), Fraction(1))}


def table_from_source():
    from hpotk.constants.hpo.frequency import HPO_FREQUENCIES
    rows = []
    for tid, fq in HPO_FREQUENCIES.items():
        lo, hi, fr = Fraction(float(fq.lower_bound)), Fraction(float(fq.upper_bound)), Fraction(float(fq.frequency))
        d = lcm(lo.denominator, hi.denominator, fr.denominator)
        rows.append({'id': tid.value, 'lower': int(lo * d), 'upper': int(hi * d), 'freq': int(fr * d), 'denom': d,
                     'float': [fq.lower_bound, fq.frequency, fq.upper_bound]})
    return rows


def toy_hpo(rich=False):
    """the ontology handed to the loader: two terms - or (`rich`) one that KNOWS the ids the files use: every even HP id up to 3000 is a
    term whose alternate id is the following odd id, and the recessive mode of inheritance is an alternate id of the dominant one.
    What a file states does not depend on which of the two the loader was given"""
    import hpotk
    import io
    import json
    P = 'http://purl.obolibrary.org/obo/'
    nodes = [{'id': P + 'HP_0000001', 'lbl': 'All', 'type': 'CLASS'}, {'id': P + 'HP_0000118', 'lbl': 'PA', 'type': 'CLASS'}]
    more_edges = []
    if rich:
        alt = 'http://www.geneontology.org/formats/oboInOwl#hasAlternativeId'
        for i in list(range(2, 3001, 2)) + [12828]:
            if i == 118:
                continue
            nodes.append({'id': P + f'HP_{i:07d}', 'lbl': f't{i}', 'type': 'CLASS',
                          'meta': {'basicPropertyValues': [{'pred': alt, 'val': f'HP:{i + 1:07d}'}]}})
            more_edges.append({'sub': P + f'HP_{i:07d}', 'pred': 'is_a', 'obj': P + 'HP_0000118'})
    d = tempfile.mkdtemp(prefix='verif-c08-toy-')
    try:
        p = os.path.join(d, 'toy.json')
        with open(p, 'w') as fh:
            json.dump({'graphs': [{'nodes': nodes, 'edges': [{'sub': P + 'HP_0000118', 'pred': 'is_a', 'obj': P + 'HP_0000001'}] + more_edges, 'meta': {}}]}, fh)
        return hpotk.load_minimal_ontology(p)
    finally:
        shutil.rmtree(d, ignore_errors=True)


_RICH = []


def rich_hpo():
    if not _RICH:
        _RICH.append(toy_hpo(rich=True))
    return _RICH[0]


def gen_file(rng):
    style = rng.choice(['new', 'old'])
    head = ['#description: "HPO annotations for rare diseases"']
    if rng.random() < 0.8:
        head.append(rng.choice(['#version: 2024-04-26', '#date: 2023-10-09', '#version: v2024-04-26', '#version: 2024-04-26 x', '#Version: 2024-01-01']))
    if rng.random() < 0.3:
        head.append('#tracker: https://github.com/obophenotype/human-phenotype-ontology/issues')
    cols = 'database_id\tdisease_name\tqualifier\thpo_id\treference\tevidence\tonset\tfrequency\tsex\tmodifier\taspect\tbiocuration'
    head.append(cols if style == 'new' else '#DatabaseID\tDiseaseName\tQualifier\tHPO_ID\tReference\tEvidence\tOnset\tFrequency\tSex\tModifier\tAspect\tBiocuration')
    nd = rng.randrange(1, 7)
    diseases = [(f'{rng.choice(["OMIM", "ORPHA", "DECIPHER"])}:{rng.randrange(100000, 100400)}', rng.choice(['SYNDROME A', 'Maladie é', 'x; y', 'D', 'Type\u2028II', 'A\x85B', 'A\x0bB', 'A\x0cB', 'A\x1cB', 'A\x1dB\x1eC', 'A\u2029B', ' padded ', 'q"uote', "it's"])) for _ in range(nd)]
    diseases = list({d[0]: d for d in diseases}.values())
    phenos = [f'HP:{i:07d}' for i in rng.sample(range(1, 3000), rng.randrange(1, 9))]
    if rng.random() < 0.4:          # two ids that some ontology may regard as the same term (an even id and the odd one after it)
        k = 2 * rng.randrange(2, 1400)
        phenos += [f'HP:{k:07d}', f'HP:{k + 1:07d}']
    mois = ['HP:0000006', 'HP:0000007', 'HP:0001417']
    lines = []
    for _ in range(rng.randrange(1, 26)):
        did, name = rng.choice(diseases)
        aspect = rng.choice(['P', 'P', 'P', 'P', 'p', 'I', 'I', 'C', 'M', 'i'])
        pid = rng.choice(mois) if aspect.upper() == 'I' else rng.choice(phenos)
        neg = rng.choice(['', '', '', 'NOT', 'not']) if aspect.upper() == 'P' else ''
        r = rng.random()
        if aspect.upper() != 'P':
            freq = ''
        elif r < 0.2:
            freq = ''
        elif r < 0.5:
            m = rng.randrange(1, 40)
            freq = f'{rng.randrange(0, m + 1)}/{m}'
        elif r < 0.55 and neg:
            freq = '0/0'
        elif r < 0.8:
            freq = rng.choice(TERMS)
        else:
            freq = rng.choice(['12%', '12.5%', '100%', '0%', '7.%', '33.3%', '50%', '1.5%', '99.9%', '17%', '2.50%'])
        refs = ';'.join(rng.choice(['PMID:1', 'PMID:22', 'OMIM:100', 'ISBN-13:978']) for _ in range(rng.randrange(1, 4)))
        mods = ';'.join(rng.choice(['HP:0012828', 'HP:0003577', 'HP:0012825']) for _ in range(rng.choice([0, 0, 1, 2, 3])))
        ev = rng.choice(['PCS', 'TAS', 'IEA', 'pcs'])
        lines.append('\t'.join([did, name, neg, pid, refs, ev, '', freq, rng.choice(['', 'MALE', 'female']), mods, aspect, 'HPO:probinson[2020-01-01]']))
    return head, lines


def dump_impl(ds):
    out = []
    for d in ds:
        anns = sorted([a.identifier.value, a.numerator, a.denominator, bool(a.is_present),
                       sorted(f'{r.identifier.value}|{r.evidence_code.name}' for r in a.references), sorted(m.value for m in a.modifiers)]
                      for a in d.annotations)
        moi = sorted([getattr(m, 'value', str(m)), type(m).__name__ if not hasattr(m, 'value') else 'TermId'] for m in d.modes_of_inheritance)
        out.append({'id': d.identifier.value, 'name': d.name, 'anns': anns, 'moi': moi})
        # every way of getting at a disease gives THE disease: [TermId], [CURIE], items, the deprecated aliases; frequency() = n/d
        if ds[d.identifier] is not d or ds[d.identifier.value] is not d:
            out[-1]['views'] = f'ds[{d.identifier.value}] is not the disease that iteration yields'
        for a in d.annotations:
            if a.frequency() != a.numerator / a.denominator or bool(a.is_absent) != (a.numerator == 0) or bool(a.is_excluded) != (a.numerator == 0):
                out[-1]['views'] = f'{a.identifier.value}: frequency()/is_absent/is_excluded disagree with {a.numerator}/{a.denominator}'
    with warnings.catch_warnings():
        warnings.simplefilter('ignore')
        ids = sorted(x.value for x in ds.item_ids())
        views = {'items': sorted(d.identifier.value for d in ds.items), 'diseases': sorted(d.identifier.value for d in ds.diseases),
                 'disease_ids': sorted(x.value for x in ds.disease_ids), 'unknown': [ds['OMIM:999999999'], ds['X:1']]}
    dump = {'version': ds.version, 'len': len(ds), 'ids': ids, 'diseases': sorted(out, key=lambda x: x['id'])}
    if views != {'items': ids, 'diseases': ids, 'disease_ids': ids, 'unknown': [None, None]}:
        dump['views'] = views          # only present when the views disagree (the model's dump has no such key)
    return dump


_LOADERS = {}


def load_impl(world, hpo, text_lines, cohort, salvage):
    """every other load goes through a LONG-LIVED loader per configuration that has loaded other files before - and that has just
    FAILED on a broken file (truncated last line, unparsable frequency): a loader keeps nothing from one load to the next"""
    from hpotk.annotations.load.hpoa import SimpleHpoaDiseaseLoader
    p = os.path.join(world, 'phenotype.hpoa')
    with open(p, 'w', encoding='utf-8', newline='') as fh:
        fh.write(''.join(l + '\n' for l in text_lines))
    with warnings.catch_warnings():
        warnings.simplefilter('ignore')
        if (len(text_lines) + cohort) % 2 == 0:
            return SimpleHpoaDiseaseLoader(hpo, cohort_size=cohort, salvage_negated_frequencies=salvage).load(p)
        key = (id(hpo), cohort, salvage)
        if key not in _LOADERS:
            _LOADERS[key] = SimpleHpoaDiseaseLoader(hpo, cohort_size=cohort, salvage_negated_frequencies=salvage)
        loader = _LOADERS[key]
        cols = 'database_id\tdisease_name\tqualifier\thpo_id\treference\tevidence\tonset\tfrequency\tsex\tmodifier\taspect\tbiocuration'
        good = '\t'.join(['OMIM:777777', 'LEFTOVER', '', 'HP:0001167', 'PMID:9', 'PCS', '', '5/13', '', '', 'P', 'HPO:x'])
        for broken in ([cols, good, '\t'.join(['OMIM:777777', 'LEFTOVER', '', 'HP:0001167', 'PMID:9', 'PCS', '', 'many', '', '', 'P', 'HPO:x'])],
                       [cols, good, 'OMIM:777778\tTRUNCATED\t\tHP:0001167']):
            b = os.path.join(world, 'broken.hpoa')
            with open(b, 'w', encoding='utf-8', newline='') as fh:
                fh.write(''.join(l + '\n' for l in broken))
            try:
                loader.load(b)
            except Exception:  # noqa
                pass
        return loader.load(p)


def property_clauses(dump, table, cohort, single_line_freq):
    """the property's own clauses on the implementation's result"""
    rows = {r['id']: r for r in table}
    for d in dump['diseases']:
        for pid, n, den, present, _, _ in d['anns']:
            if not (isinstance(n, int) and isinstance(den, int)) or not (0 <= n <= den and den > 0):
                return f'{d["id"]} {pid}: numerator/denominator {n}/{den} violates 0 <= n <= d, d > 0'
            if present != (n > 0):
                return f'{d["id"]} {pid}: is_present={present} with numerator {n}'
            f = single_line_freq.get((d['id'], pid))
            if f and f[0] == 'term':
                lo, hi = DEFINED[f[1]][0] * cohort, DEFINED[f[1]][1] * cohort
                if not (lo - Fraction(1, 2) <= n <= hi + Fraction(1, 2)):
                    return f'{d["id"]} {pid}: frequency term {f[1]} at cohort {cohort} gives {n}/{den}, outside [{float(lo)}, {float(hi)}] +- 1/2'
            if f and f[0] == 'percent':
                x = Fraction(f[1]) * cohort / 100
                if abs(n - x) > Fraction(1, 2) + Fraction(1, 2 ** 30):
                    return f'{d["id"]} {pid}: {f[1]}% at cohort {cohort} gives {n}/{den}, expected within 1/2 of {float(x)}'
        for m, ty in d['moi']:
            if ty != 'TermId':
                return f'{d["id"]}: mode of inheritance {m} is a {ty}, not a TermId'
    return None


def single_line_cells(lines):
    """(disease, phenotype) -> frequency cell, for present aspect-P annotations that come from exactly one line"""
    seen = {}
    for l in lines:
        f = l.split('\t')
        if f[10].upper() != 'P':
            continue
        seen.setdefault((f[0], f[3]), []).append((f[2].upper() == 'NOT', f[7]))
    out = {}
    for k, v in seen.items():
        if len(v) == 1 and not v[0][0]:
            cell = v[0][1]
            if cell in TERMS:
                out[k] = ('term', cell)
            elif cell.endswith('%'):
                out[k] = ('percent', cell[:-1].rstrip('.') if cell[:-1].endswith('.') else cell[:-1])
    return out


def evaluate(ctx, world, hpo, table, cases, stream):
    reqs = [{'op': 'hpoa.load', 'lines': [l + '\n' for l in c['head'] + c['lines']], 'cohort': c['cohort'], 'salvage': c['salvage'],
             'table': [{k: r[k] for k in ('id', 'lower', 'freq', 'upper', 'denom')} for r in table]} for c in cases]
    reps = run_driver(reqs)
    for c, rep in zip(cases, reps):
        groups = {}
        for l in c['lines']:
            f = l.split('\t')
            groups[(f[0], f[3])] = groups.get((f[0], f[3]), 0) + 1
        nt = any(v >= 2 for v in groups.values()) or any(('%' in l.split('\t')[7]) or (l.split('\t')[7] in TERMS) or l.split('\t')[2] for l in c['lines'])
        ctx.case(['hpoa', c['head'], c['lines'], c['cohort'], c['salvage']], nt, stream,
                 sample={'head': c['head'][-2:], 'lines': c['lines'][:4], 'cohort': c['cohort'], 'salvage': c['salvage']} if nt else None)
        ctx.count(f'cohort.{c["cohort"]}')
        problem = None
        try:
            impl = dump_impl(load_impl(world, rich_hpo() if (len(c['lines']) + c['cohort']) % 2 else hpo, c['head'] + c['lines'], c['cohort'], c['salvage']))
            if 'err' in rep:
                problem = {'what': 'loaded-although-model-raises', 'model': rep['err']}
            else:
                clause = property_clauses(impl, table, c['cohort'], single_line_cells(c['lines']))
                view_problem = impl.get('views') or next((d['views'] for d in impl['diseases'] if 'views' in d), None)
                if clause:
                    problem = {'what': 'property-clause', 'impl': clause}
                elif view_problem:
                    problem = {'what': 'views-of-the-result-disagree', 'impl': view_problem}
                else:
                    md = sorted(rep['diseases'], key=lambda x: x['id'])
                    if impl['version'] != rep['version'] or impl['len'] != len(md) or impl['ids'] != [d['id'] for d in md]:
                        problem = {'what': 'version/len/ids', 'impl': [impl['version'], impl['len'], impl['ids']], 'model': [rep['version'], len(md), [d['id'] for d in md]]}
                    else:
                        for di, dm in zip(impl['diseases'], md):
                            ma = sorted(dm['anns'], key=lambda a: a['id'])
                            if di['name'] != dm['name'] or [a[0] for a in di['anns']] != [a['id'] for a in ma] or \
                                    sorted(x[0] for x in di['moi']) != sorted(dm['moi']):
                                problem = {'what': 'disease-shape', 'impl': {'name': di['name'], 'phenotypes': [a[0] for a in di['anns']], 'moi': di['moi']},
                                           'model': {'name': dm['name'], 'phenotypes': [a['id'] for a in ma], 'moi': dm['moi']}}
                                break
                            for ai, am in zip(di['anns'], ma):
                                if ai[1] not in am['nums'] or ai[2] != am['den'] or ai[4] != sorted(am['refs']) or ai[5] != sorted(am['mods']):
                                    problem = {'what': 'annotation', 'disease': di['id'], 'impl': ai, 'model': am}
                                    break
                            if problem:
                                break
                if not problem and c.get('shuffle'):
                    sh = list(c['lines'])
                    ctx.rng.shuffle(sh)
                    # keep the first line of each disease first (the disease name is taken from the first line; names are consistent here anyway)
                    impl2 = dump_impl(load_impl(world, hpo, c['head'] + sh, c['cohort'], c['salvage']))
                    if impl2 != impl:
                        problem = {'what': 'line-order-dependence', 'impl': impl, 'impl_shuffled': impl2, 'shuffled_lines': sh}
        except Exception as e:  # noqa
            if 'err' not in rep:
                problem = {'what': 'raises', 'impl': f'{type(e).__name__}: {e}'}
        if problem:
            ctx.violation(problem['what'], {'case': {'kind': 'hpoa', 'head': c['head'], 'lines': c['lines'], 'cohort': c['cohort'], 'salvage': c['salvage'],
                                                     'shuffle': c.get('shuffle', False)}, 'disagreement': problem, 'theorem': THEOREM})


def consistent_names(lines):
    names = {}
    out = []
    for l in lines:
        f = l.split('\t')
        f[1] = names.setdefault(f[0], f[1])
        out.append('\t'.join(f))
    return out


def run(ctx):
    rng = ctx.rng
    thorough = ctx.tier == 'thorough'
    hpo = toy_hpo()
    world = tempfile.mkdtemp(prefix='verif-c08-')
    cols0 = 'database_id\tdisease_name\tqualifier\thpo_id\treference\tevidence\tonset\tfrequency\tsex\tmodifier\taspect\tbiocuration'

    def search_with_pinned_ranges(why, detail):
        """the table obligation is broken: look for a concrete line on which the implementation leaves the DEFINED range"""
        for t in TERMS:
            line = '\t'.join(['OMIM:100000', 'D', '', 'HP:0001250', 'PMID:1', 'PCS', '', t, '', '', 'P', 'HPO:x'])
            for cohort in (50, 7, 1000, 1, 5, 53):
                try:
                    impl = dump_impl(load_impl(world, hpo, [cols0, line], cohort, False))
                    clause = property_clauses(impl, [], cohort, {('OMIM:100000', 'HP:0001250'): ('term', t)})
                except Exception as e:  # noqa
                    clause = f'raises {type(e).__name__}: {e}'
                if clause:
                    ctx.violation(f'table:{t}', {'case': {'kind': 'hpoa', 'head': [cols0], 'lines': [line], 'cohort': cohort, 'salvage': False},
                                                 'impl': clause, 'obligation': why, 'detail': detail,
                                                 'theorem': 'Hpv.Props.C08.frequency_rounding (the table of the running code must be the HPO definition)'})
                    return True
        ctx.violation('table-obligation', {'obligation': why, 'detail': detail, 'theorem': 'Hpv.Props.C08.frequency_rounding'}, no_input=True)
        return False
    try:
        table = table_from_source()
    except Exception as e:  # noqa
        try:
            search_with_pinned_ranges('the frequency table could not be read from the running code', f'{type(e).__name__}: {e}')
        finally:
            shutil.rmtree(world, ignore_errors=True)
        return
    ctx.notes.append('frequency table read from the source: ' + '; '.join(f'{r["id"]} {r["float"]}' for r in table))
    try:
        # obligation 0: the table of the running code states the ranges the HPO defines (bounds as exact decimals)
        got = {r['id']: (Fraction(str(r['float'][0])), Fraction(str(r['float'][2]))) for r in table}
        if got != DEFINED:
            search_with_pinned_ranges('the frequency table of the running code differs from the ranges the HPO defines',
                                      {'code': {k: [str(a), str(b)] for k, (a, b) in got.items()}, 'defined': {k: [str(a), str(b)] for k, (a, b) in DEFINED.items()}})
        if any(min(r['lower'], r['freq'], r['upper']) < 0 for r in table):
            # not even representable in the model (naturals): the obligation lower <= frequency <= upper is broken outright
            search_with_pinned_ranges('a row of the frequency table of the running code is negative', [r['float'] for r in table])
            return
        # proof obligation on the generated table (evaluated by the model)
        probe = run_driver([{'op': 'hpoa.load', 'lines': [], 'cohort': 50, 'salvage': False,
                             'table': [{k: r[k] for k in ('id', 'lower', 'freq', 'upper', 'denom')} for r in table]}])[0]
        if not probe['table_ok']:
            found = False
            cols = 'database_id\tdisease_name\tqualifier\thpo_id\treference\tevidence\tonset\tfrequency\tsex\tmodifier\taspect\tbiocuration'
            for r in table:
                if not (r['lower'] <= r['freq'] <= r['upper'] <= r['denom']):
                    line = '\t'.join(['OMIM:100000', 'D', '', 'HP:0001250', 'PMID:1', 'PCS', '', r['id'], '', '', 'P', 'HPO:x'])
                    for cohort in (50, 7, 1000):
                        try:
                            impl = dump_impl(load_impl(world, hpo, [cols, line], cohort, False))
                            clause = property_clauses(impl, [dict(r)], cohort, {('OMIM:100000', 'HP:0001250'): ('term', r['id'])})
                        except Exception as e:  # noqa
                            clause = f'raises {type(e).__name__}: {e}'
                        if clause:
                            found = True
                            ctx.violation(f'table:{r["id"]}', {'case': {'kind': 'hpoa', 'head': [cols], 'lines': [line], 'cohort': cohort, 'salvage': False},
                                                              'impl': clause, 'obligation': 'lower <= frequency <= upper <= 1 for every table row', 'row': r,
                                                              'theorem': 'Hpv.Props.C08.frequency_rounding (hypotheses hlo, hhi)'})
                            break
            if not found:
                ctx.violation('table-not-ok', {'theorem': 'Hpv.Props.C08.frequency_rounding (hypotheses on the table)', 'table': table}, no_input=True)
        cases = []
        for i in range(2500 if thorough else 400):
            head, lines = gen_file(rng)
            cases.append({'head': head, 'lines': consistent_names(lines), 'cohort': rng.choice([1, 5, 7, 50, 53, 1000]), 'salvage': rng.random() < 0.5,
                          'shuffle': i % 2 == 0})
        # each frequency term at each cohort, present and negated, alone on a line
        cols = 'database_id\tdisease_name\tqualifier\thpo_id\treference\tevidence\tonset\tfrequency\tsex\tmodifier\taspect\tbiocuration'
        for t in TERMS:
            for cohort in (1, 5, 7, 50, 53, 1000):
                lines = ['\t'.join(['OMIM:100000', 'D', q, f'HP:000{k}250', 'PMID:1', 'PCS', '', t, '', '', 'P', 'HPO:x']) for k, q in enumerate(['', 'NOT'])]
                cases.append({'head': [cols], 'lines': lines, 'cohort': cohort, 'salvage': False})
        for i in range(0, len(cases), 200):
            evaluate(ctx, world, hpo, table, cases[i:i + 200], 'random-files+term-grid')
    finally:
        shutil.rmtree(world, ignore_errors=True)


def replay(ctx, data):
    c = data['case']
    world = tempfile.mkdtemp(prefix='verif-c08-')
    try:
        evaluate(ctx, world, toy_hpo(), table_from_source(), [c], 'replay')
    finally:
        shutil.rmtree(world, ignore_errors=True)
