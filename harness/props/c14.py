"""C14 — unknown nodes and bad indices are rejected, never silently answered."""
import graphlib as gl

RULE = ('per generated graph and factory: absent ids at every sort position (before the first node, between each adjacent pair, after '
        'the last, same id under a foreign prefix, same prefix with a longer/shorter id) x every traversal (include_source F/T), '
        'is_leaf, the four predicates as subject and as object, membership, node_to_idx; junk arguments (None, int, float, bytes, '
        'tuple, non-CURIE strings incl. near-CURIEs of existing nodes with a wrong delimiter) x every method; predicates with TWO bad arguments (unknown/unknown, unknown/junk, junk/unknown, '
        'junk/junk); index API of the indexed graph with integers {-n-2..-1, n, n+1, n+2, 10^9} (python and numpy ints) for the four '
        '*_idx traversals, idx_to_node and the is_*_of_idx predicates (bad/bad, bad/good, good/bad), asked on a fresh graph and AGAIN after every '
        'valid index has been answered (a valid index is addressed as "the index of node v", whichever number the graph gives v, and indices in '
        'answers are reported as node labels: the numbering itself is free). '
        'Outcome kind (value | ValueError | other error) compared with the Lean model. Every case probes a rejection path; distinct '
        'by (factory, edges, absent id / junk class / integer).')

THEOREM = 'Hpv.Props.C14.*'


def absent_ids(edges):
    nodes = gl.nodes_of(edges)
    cands = set()
    for v in nodes:
        p, i = v.split(':', 1)
        cands.update([v + '0', v + '!', p + ':' + i[:-1] if len(i) > 1 else p + ':', 'GO:' + i, 'MP:' + i, p + 'X:' + i,
                      p[:-1] + ':' + i if len(p) > 1 else 'A:' + i, p.lower() + ':' + i, p + ':0' + i])
    cands.update(['A:0', '0:0', 'zzz:9', '~:~', 'owl:Thing', 'owl:Thin', 'owl:Thingy', 'HP:0000118', 'HP:9999999'])
    # look-alikes of known ids: the same number written with other Unicode decimal digits (Arabic-Indic, full-width, mathematical bold), with a
    # sign, blanks or underscores that int() tolerates, in another Unicode form of the prefix - none of them IS the node
    for v in nodes[:6] + nodes[-2:]:
        p, i = v.split(':', 1)
        if i.isdigit() and i.isascii():
            for zero in (0x0660, 0xFF10, 0x1D7CE, 0x0966):
                cands.add(p + ':' + ''.join(chr(zero + int(ch)) for ch in i))
            cands.update([p + ':+' + i, p + ': ' + i, p + ':' + i + ' ', p + ':' + i[:1] + '_' + i[1:] if len(i) > 1 else p + ':_' + i,
                          p + ':' + i + '.0', p + ':' + str(int(i)) if str(int(i)) != i else p + ':00' + i])
        cands.update([''.join(chr(0xFF21 + ord(ch) - 65) if 'A' <= ch <= 'Z' else ch for ch in p) + ':' + i, p + '\u200b:' + i])
    out = []
    for c in sorted(cands):
        if ':' not in c:
            continue
        try:
            _, TermId, _, _ = gl._hp()
            t = TermId.from_curie(c)
            key = t.value
        except Exception:  # noqa
            continue
        if key not in nodes and c not in out:
            out.append(c)
    return out


def junk_args():
    return [('None', None, None), ('int', 3, None), ('float', 2.5, None), ('bytes', b'HP:1', None), ('tuple', ('HP:1',), None),
            ('str-no-delim', 'nocurie', 'nocurie'), ('str-empty', '', ''), ('list', ['HP:1'], None)]


def queries_for(rng, edges, factory, budget):
    import numpy as np
    _, TermId, _, _ = gl._hp()
    nodes = gl.nodes_of(edges)
    known = rng.choice(nodes)
    qs = []
    absent = absent_ids(edges)
    if len(absent) > budget:
        absent = rng.sample(absent, budget)
    for a in absent:
        form = rng.choice(['tid', 'str:', 'idf'])
        w, i = gl.wire_arg(form, a), gl.mk_arg(form, a)
        for q in gl.QS:
            incl = rng.random() < 0.5
            qs.append((['q', q, w, incl], ['q', q, i, incl]))
        qs.append((['leaf', w], ['leaf', i]))
        for p in gl.PREDS:
            qs.append((['pred', p, known, w], ['pred', p, TermId.from_curie(known), i]))    # unknown object -> ValueError
            qs.append((['pred', p, w, known], ['pred', p, i, TermId.from_curie(known)]))    # unknown subject -> False
        qs.append((['contains', a], ['contains', TermId.from_curie(a)]))
        qs.append((['node2idx', a], ['node2idx', TermId.from_curie(a)]))
        # module-level helper (accepts CURIE / TermId only): unknown node -> ValueError as well
        hq = rng.choice(gl.QS)
        qs.append((['helper', hq, a, False], ['helper', hq, rng.choice([a, TermId.from_curie(a)]), False]))
    for name, obj, wire in junk_args():
        for q in gl.QS:
            qs.append((['q', q, wire, False], ['q', q, obj, False]))
        qs.append((['leaf', wire], ['leaf', obj]))
        p = rng.choice(gl.PREDS)
        qs.append((['pred', p, known, wire], ['pred', p, known, obj]))
        qs.append((['pred', p, wire, known], ['pred', p, obj, known]))
    # two bad arguments at once: an unknown / junk OBJECT is an error whatever the subject is
    junk = junk_args()
    for a in absent[:3]:
        form = rng.choice(['tid', 'str:', 'idf'])
        w, i = gl.wire_arg(form, a), gl.mk_arg(form, a)
        b = rng.choice(absent)
        form2 = rng.choice(['tid', 'str:', 'idf'])
        w2, i2 = gl.wire_arg(form2, b), gl.mk_arg(form2, b)
        for p in gl.PREDS:
            qs.append((['pred', p, w, w2], ['pred', p, i, i2]))                   # unknown subject, unknown object
            name, obj, wire = rng.choice(junk)
            qs.append((['pred', p, w, wire], ['pred', p, i, obj]))                # unknown subject, junk object
            qs.append((['pred', p, wire, w2], ['pred', p, obj, i2]))              # junk subject, unknown object
            name2, obj2, wire2 = rng.choice(junk)
            qs.append((['pred', p, wire, wire2], ['pred', p, obj, obj2]))         # junk subject, junk object
    if factory == 'indexed':
        n = len(nodes) + (0)   # owl:Thing may be added: ask the model/impl for the real n through 'nodes' below
        feats = gl.graph_features(edges)
        n = len(nodes) + (1 if feats['parentless'] >= 2 else 0)
        ints = list(range(-n - 2, 0)) + [n, n + 1, n + 2, 10 ** 9]
        every = list(nodes) + (['owl:Thing'] if feats['parentless'] >= 2 else [])
        good = ['of', rng.choice(every)]        # a valid index, whichever number the graph gave that node
        for i in ints:
            for ii in (i, np.int64(i)):
                for q in gl.QS:
                    qs.append((['qidx', q, i], ['qidx', q, ii]))
                qs.append((['idx2node', i], ['idx2node', ii]))
            for p in gl.PREDS:
                qs.append((['predidx', p, i, i], ['predidx', p, i, i]))
                qs.append((['predidx', p, good, i], ['predidx', p, good, i]))
                qs.append((['predidx', p, i, good], ['predidx', p, i, good]))
        for v in every:      # and every valid index is answered
            qs.append((['idx2node', ['of', v]], ['idx2node', ['of', v]]))
            for q in gl.QS:
                qs.append((['qidx', q, ['of', v]], ['qidx', q, ['of', v]]))
        # ... after which (anything the graph may have remembered from those answers) every bad index is still rejected
        for i in ints:
            for q in gl.QS:
                qs.append((['qidx', q, i], ['qidx', q, i]))
            qs.append((['idx2node', i], ['idx2node', i]))
            for p in gl.PREDS:
                qs.append((['predidx', p, good, i], ['predidx', p, good, i]))
                qs.append((['predidx', p, i, good], ['predidx', p, i, good]))
    # near-CURIEs of nodes that ARE in the graph: the right characters with a wrong delimiter are not CURIEs
    for v in rng.sample(nodes, min(3, len(nodes))):
        i = v.index(':')
        for d in ('-', ' ', '.', '/', '', '|'):
            near = v[:i] + d + v[i + 1:]
            if ':' in near or '_' in near:
                continue
            q = rng.choice(gl.QS)
            qs.append((['q', q, near, False], ['q', q, near, False]))
            qs.append((['contains', near], ['contains', near])) if False else None
            p = rng.choice(gl.PREDS)
            qs.append((['pred', p, known, near], ['pred', p, known, near]))
            qs.append((['leaf', near], ['leaf', near]))
    # and the padded HPO look-alike in particular (10 characters starting with HP, as a real HPO id has)
    for near in ('HP-0001250', 'HP 0001250', 'HP0001250X', 'HP.0000001'):
        qs.append((['q', 'parents', near, False], ['q', 'parents', near, False]))
        qs.append((['leaf', near], ['leaf', near]))
    return qs


def nontrivial(c):
    return True


def mk_cases(rng, edges, budget):
    return [{'factory': f, 'edges': edges, 'queries': queries_for(rng, edges, f, budget)} for f in gl.FACTORIES]


def what_key(c, bad):
    q = bad['query']
    return f'{c["factory"]}:{q[0]}:{q[1] if isinstance(q[1], str) else ""}:{bad["impl"].get("err", "answers")}'


def evaluate(ctx, cases, stream):
    gl.evaluate_cases(ctx, cases, stream, THEOREM, nontrivial, what_key=what_key)


def probe_outcomes():
    """a fixed graph asked with absent nodes and bad indices, as a digest (environment probe)"""
    _, TermId, _, _ = gl._hp()
    edges = [('HP:0000002', 'HP:0000001'), ('HP:0000003', 'HP:0000001'), ('HP:0000004', 'HP:0000002'), ('HP:0000004', 'HP:0000003')]
    out = {}
    for f in gl.FACTORIES:
        g = gl.build_impl(f, edges)
        for a in ('HP:0000009', 'HP:0000000', 'MP:0000002', 'HP:00000021'):
            t = TermId.from_curie(a)
            for q in gl.QS:
                for incl in (False, True):
                    out[f'{f} {q} {a} {incl}'] = str(gl.impl_answer(g, ['q', q, t, incl]))
            out[f'{f} leaf {a}'] = str(gl.impl_answer(g, ['leaf', t]))
            for pr in gl.PREDS:
                out[f'{f} {pr} known,{a}'] = str(gl.impl_answer(g, ['pred', pr, TermId.from_curie('HP:0000002'), t]))
                out[f'{f} {pr} {a},known'] = str(gl.impl_answer(g, ['pred', pr, t, TermId.from_curie('HP:0000002')]))
            out[f'{f} contains {a}'] = str(gl.impl_answer(g, ['contains', t]))
        for i in (-6, -5, -4, -1, 4, 5, 6, 10 ** 9):
            for q in gl.QS:
                out[f'{f} qidx {q} {i}'] = str(gl.impl_answer(g, ['qidx', q, i]))
            out[f'{f} idx2node {i}'] = str(gl.impl_answer(g, ['idx2node', i]))
    return out


def run(ctx):
    import common
    common.environment_probe(ctx, 'c14', 'probe_outcomes', 'Hpv.Props.C14.* (rejections do not depend on the environment)')
    rng = ctx.rng
    thorough = ctx.tier == 'thorough'
    label_sets = gl.LABEL_SETS[:4] if thorough else [gl.LABEL_SETS[0], gl.LABEL_SETS[2]]
    for k in (2, 3, 4):
        cases = []
        for n, edges in enumerate(gl.exhaustive_graphs(k, label_sets)):
            if k == 4 and not thorough and n % 6 != ctx.seed % 6:
                continue
            cases.extend(mk_cases(rng, edges, 12 if thorough else 8))
            if len(cases) >= 300:
                evaluate(ctx, cases, f'small-scope.k={k}')
                cases = []
        evaluate(ctx, cases, f'small-scope.k={k}')
    # graphs the way the real ontology looks: one prefix, ids of one width, all decimal
    cases = []
    for _ in range(40 if thorough else 10):
        n = rng.randrange(3, 14)
        ids = [f'HP:{i:07d}' for i in sorted(rng.sample(range(1, 9999), n))]
        edges = [(ids[j], ids[i]) for j in range(1, n) for i in sorted(set(rng.sample(range(j), min(j, rng.choice([1, 1, 2])))))]
        rng.shuffle(edges)
        cases.extend(mk_cases(rng, edges, 30))
    evaluate(ctx, cases, 'uniform-decimal-ids')
    cases = []
    for _ in range(300 if thorough else 60):
        edges, shape, order = gl.random_dag(rng, n=rng.randrange(2, 25 if thorough else 12))
        cases.extend(mk_cases(rng, edges, 15))
    for i in range(0, len(cases), 150):
        evaluate(ctx, cases[i:i + 150], 'random')


def replay(ctx, data):
    c = data['case']
    edges = [tuple(e) for e in c['edges']]
    evaluate(ctx, [x for x in mk_cases(ctx.rng, edges, 40) if x['factory'] == c['factory']], 'replay')
