"""C06 — ontology lookups resolve primary and alternate ids to current terms only."""
import itertools
import warnings

import graphlib as gl
from common import run_driver

RULE = ('term collections (current terms with pairwise disjoint primary/alternate ids; obsolete terms arbitrary: fresh ids, ids that '
        'are alternate ids of current terms, own alternate ids) built with create_minimal_term/create_term and create_minimal_ontology/'
        'create_ontology; queries: every primary, alternate, obsolete and several unknown ids x {CURIE ":", CURIE "_", TermId, Identified}; '
        'observables len, sorted terms, sorted term_ids (with multiplicity), get_term (primary id of the result, not obsolete), '
        'get_term_name, `in` — compared with the Lean model. Exhaustive: every collection of <= 3 terms over a 5-id alphabet with <= 2 '
        'alternate ids each; random: up to 30 current / 10 obsolete terms. Non-trivial: the collection has an alternate id or an '
        'obsolete term; distinct by the collection.')

THEOREM = 'Hpv.Props.C06.*'
FORMS = ('tid', 'str:', 'str_', 'idf', 'stid', 'idf-stid', 'user-tid', 'str-sub')


def build_impl(terms, full):
    import hpotk
    from hpotk.model import MinimalTerm, Term, TermId
    from hpotk.ontology import create_minimal_ontology, create_ontology
    objs = []

    def alts_of(t, k):
        # the alternate ids arrive as a list of CURIEs, a tuple of TermIds, or a tuple MIXING TermIds and CURIE strings
        a = t['alts']
        if k % 3 == 0 or not a:
            return a
        if k % 3 == 1:
            return tuple(TermId.from_curie(x) for x in a)
        return tuple(TermId.from_curie(x) if i % 2 == 0 else x for i, x in enumerate(a))
    for k, t in enumerate(terms):
        t = dict(t, alts=alts_of(t, k))
        if full:
            objs.append(Term.create_term(t['id'], name=t['name'], alt_term_ids=t['alts'], is_obsolete=t['obs'], definition=None,
                                         comment=None, synonyms=None, xrefs=None))
        else:
            objs.append(MinimalTerm.create_minimal_term(t['id'], t['name'], t['alts'], t['obs']))
    g = gl.build_impl('indexed', [('HP:9999998', 'HP:9999999')])
    # the ontology is built from a list that the caller goes on using: it gets an obsolete term appended, its first element removed
    # and is finally emptied - none of which is the ontology's business
    given = list(objs)
    onto = (create_ontology if full else create_minimal_ontology)(g, given, 'v')
    extra = (Term.create_term(TermId.from_curie('HP:7777777'), name='late', alt_term_ids=[], is_obsolete=True, definition=None, comment=None,
                              synonyms=None, xrefs=None) if full else
             MinimalTerm.create_minimal_term(TermId.from_curie('HP:7777777'), 'late', [], True))
    given.append(extra)
    if len(given) > 1:
        del given[0]
    given.clear()
    return onto, objs


def evaluate(ctx, cases, stream):
    """cases: list of dict(terms, full, queries=[(curie, form)])"""
    reqs = [{'op': 'onto.lookup', 'terms': c['terms'], 'queries': [q for q, _ in c['queries']]} for c in cases]
    reps = run_driver(reqs)
    for c, rep in zip(cases, reps):
        nt = any(t['alts'] or t['obs'] for t in c['terms'])
        ctx.case([c['terms'], c['full']], nt, stream,
                 sample={'terms': c['terms'], 'full': c['full'], 'queries': c['queries'][:4]} if nt else None)
        ctx.count('queries', len(c['queries']))
        bad = []
        try:
            with warnings.catch_warnings():
                warnings.simplefilter('ignore')
                onto, objs = build_impl(c['terms'], c['full'])
                impl = {'len': len(onto), 'terms': sorted(t.identifier.value for t in onto.terms),
                        'term_ids': sorted(t.value for t in onto.term_ids)}
                model = {'len': rep['len'], 'terms': sorted(rep['terms']), 'term_ids': sorted(rep['term_ids'])}
                if impl != model:
                    bad.append({'what': 'len/terms/term_ids', 'impl': impl, 'model': model})
                for (q, form), ma in zip(c['queries'], rep['answers']):
                    arg = gl.mk_arg(form, q)
                    t = onto.get_term(arg)
                    ia = {'id': None if t is None else t.identifier.value, 'name': onto.get_term_name(arg), 'contains': arg in onto}
                    if ia != ma:
                        bad.append({'query': q, 'form': form, 'impl': ia, 'model': ma})
                    elif t is not None and (t.is_obsolete or not any(t is o for o in objs)):
                        bad.append({'query': q, 'form': form, 'impl': 'returned an obsolete or foreign term object'})
                    if len(bad) >= 3:
                        break
                # a pickled / deep-copied ontology is the same ontology
                if not bad and len(c['terms']) and (len(c['terms']) + len(c['queries'])) % 5 == 0:
                    import copy
                    import pickle
                    for how, clone in (('pickle round trip', lambda x: pickle.loads(pickle.dumps(x))), ('deepcopy', copy.deepcopy)):
                        o2 = clone(onto)
                        v2 = {'len': len(o2), 'terms': sorted(t.identifier.value for t in o2.terms), 'term_ids': sorted(t.value for t in o2.term_ids)}
                        if v2 != model:
                            bad.append({'what': f'{how}: len/terms/term_ids', 'impl': v2, 'model': model})
                            break
                        for (q, form), ma in zip(c['queries'], rep['answers']):
                            arg = gl.mk_arg(form, q)
                            t = o2.get_term(arg)
                            ia = {'id': None if t is None else t.identifier.value, 'name': o2.get_term_name(arg), 'contains': arg in o2}
                            if ia != ma:
                                bad.append({'what': how, 'query': q, 'form': form, 'impl': ia, 'model': ma})
                                break
                        if bad:
                            break
                # the collection views must be what they were, after all those lookups (hits and misses)
                impl2 = {'len': len(onto), 'terms': sorted(t.identifier.value for t in onto.terms),
                         'term_ids': sorted(t.value for t in onto.term_ids)}
                if not bad and impl2 != model:
                    bad.append({'what': 'len/terms/term_ids after the lookups', 'impl': impl2, 'model': model})
                # and every id in every argument form gives one answer
                if not bad:
                    for (q, _), ma in zip(c['queries'], rep['answers']):
                        for form in FORMS:
                            if form == 'str_' and gl.underscore_form(q) is None:
                                continue
                            arg = gl.mk_arg(form, q)
                            t = onto.get_term(arg)
                            ia = {'id': None if t is None else t.identifier.value, 'name': onto.get_term_name(arg), 'contains': arg in onto}
                            if ia != ma:
                                bad.append({'query': q, 'form': form, 'impl': ia, 'model': ma})
                                break
                        if bad:
                            break
        except Exception as e:  # noqa
            bad.append({'what': 'raises', 'impl': f'{type(e).__name__}: {e}'})
        if bad:
            ctx.violation(f'{"full" if c["full"] else "minimal"}:{bad[0].get("what", "lookup")}',
                          {'case': {'kind': 'onto', 'terms': c['terms'], 'full': c['full'], 'queries': c['queries']},
                           'disagreements': bad, 'theorem': THEOREM})


def queries_for(rng, terms, pool):
    ids = []
    for t in terms:
        ids.append(t['id'])
        ids.extend(t['alts'])
    ids.extend(pool)
    seen, out = set(), []
    for i in ids:
        if i in seen:
            continue
        seen.add(i)
        form = rng.choice(FORMS)
        if form == 'str_' and gl.underscore_form(i) is None:
            form = 'str:'
        out.append((i, form))
    return out


def small_collections(alphabet, max_terms=3, max_alts=2):
    """every collection of <= max_terms terms with distinct primary ids over the alphabet, <= max_alts alternates each,
    current terms' ids pairwise disjoint"""
    def rec(prefix, used_current):
        yield list(prefix)
        if len(prefix) == max_terms:
            return
        taken_primary = {t['id'] for t in prefix}
        for pid in alphabet:
            if pid in taken_primary:
                continue
            for obs in (False, True):
                if not obs and pid in used_current:
                    continue
                others = [a for a in alphabet if a != pid]
                for k in range(0, max_alts + 1):
                    for alts in itertools.combinations(others, k):
                        if not obs and (set(alts) & used_current):
                            continue
                        # a current term's alternates must not be the primary id of another current term (checked via used_current)
                        t = {'id': pid, 'alts': list(alts), 'obs': obs, 'name': 'n' + pid[-1]}
                        nu = used_current | ({pid} | set(alts) if not obs else set())
                        # later current primaries must avoid nu: handled by the pid check above
                        yield from rec(prefix + [t], nu)
    yield from rec([], set())


def run(ctx):
    rng = ctx.rng
    thorough = ctx.tier == 'thorough'
    alphabet = ['HP:1', 'HP:2', 'HP:3', 'MP:1', 'HP:10']
    cases = []
    n = 0
    for terms in small_collections(alphabet, 3 if thorough else 2, 2):
        n += 1
        cases.append({'terms': terms, 'full': n % 2 == 0, 'queries': queries_for(rng, terms, alphabet)})
        if len(cases) >= 2000:
            evaluate(ctx, cases, 'exhaustive.small-collections')
            cases = []
    evaluate(ctx, cases, 'exhaustive.small-collections')
    ctx.exhaustive[f'every collection of <= {3 if thorough else 2} terms over a 5-id alphabet with <= 2 alternates each (current ids disjoint)'] = True
    if not thorough:     # a seeded sample of the 3-term scope
        allc = []
        for i, terms in enumerate(small_collections(alphabet, 3, 1)):
            if len(terms) == 3 and rng.random() < 0.02:
                allc.append({'terms': terms, 'full': i % 2 == 0, 'queries': queries_for(rng, terms, alphabet)})
        evaluate(ctx, allc, 'sample.3-term-collections')
    # random larger collections
    cases = []
    for _ in range(1500 if thorough else 300):
        style = rng.choice(['hp', 'hp', 'mixed-case', 'nested'])
        if style == 'hp':
            pool = [f'HP:{i:07d}' for i in rng.sample(range(1, 200), 70)]
        elif style == 'nested':
            # prefixes that extend each other with a character sorting before ':' (the order of the CURIE strings and the order of
            # (prefix, id) pairs differ), ids of unequal width, an id containing a delimiter
            pool = [f'{rng.choice(["HP", "HP2", "HP-X", "HP.PS", "H", "NCIT", "NCIT-X", "OMIM", "OMIM.PS", "HP "])}:{rng.choice(["", "0", "00"])}{i}'
                    for i in rng.sample(range(1, 120), 70)]
            pool = list(dict.fromkeys(pool))
        else:       # prefixes that are not all upper-case, as in NCBITaxon / FBbt / Orphanet / obo-style lower-case ids
            pool = [f'{rng.choice(["NCBITaxon", "FBbt", "Orphanet", "hp", "Hp", "HP", "MONDO"])}:{i:07d}' for i in rng.sample(range(1, 200), 70)]
            pool = list(dict.fromkeys(pool))
        rng.shuffle(pool)
        it = iter(pool)
        terms = []
        current_alt_ids = []
        for _ in range(rng.randrange(0, 31)):
            alts = [next(it) for _ in range(rng.choice([0, 0, 1, 2, 3]))]
            terms.append({'id': next(it), 'alts': alts, 'obs': False, 'name': rng.choice(['', 'x', 'Seizure', 'é'])})
            current_alt_ids.extend(alts)
            if sum(1 + len(t['alts']) for t in terms) > 50:
                break
        for _ in range(rng.randrange(0, 11)):
            try:
                oid = rng.choice(current_alt_ids) if current_alt_ids and rng.random() < 0.5 else next(it)
                oalts = [rng.choice(pool) for _ in range(rng.choice([0, 0, 1, 2]))]
            except StopIteration:
                break
            terms.append({'id': oid, 'alts': oalts, 'obs': True, 'name': 'obsolete'})
        rng.shuffle(terms)
        # duplicate obsolete primary ids are fine; current ids are disjoint by construction
        unknown = [f'HP:{i:07d}' for i in rng.sample(range(300, 400), 8)] + ['MP:0000001', 'HP:1']
        known = [t['id'] for t in terms] + [a for t in terms for a in t['alts']]
        for kid in rng.sample(known, min(4, len(known))):      # case / blank variants of known ids are different ids
            for var in (kid.lower(), kid.upper(), kid.swapcase(), ' ' + kid, kid + ' '):
                if var not in known and ':' in var:
                    unknown.append(var)
        cases.append({'terms': terms, 'full': rng.random() < 0.5, 'queries': queries_for(rng, terms, unknown)})
    for i in range(0, len(cases), 500):
        evaluate(ctx, cases[i:i + 500], 'random.collections')


def replay(ctx, data):
    c = data['case']
    evaluate(ctx, [{'terms': c['terms'], 'full': c['full'], 'queries': [tuple(q) for q in c['queries']]}], 'replay')
