"""C04 — TermId parsing, equality, hashing and ordering (src/hpotk/model/_term_id.py)."""
import itertools

from common import run_driver

RULE = ('exhaustive: every string over {H,P,:,_,0} up to length 5 is parsed (outcome, prefix, id, value, str()); '
        'ordered pairs of TermIds (both classes, mixed classes, SimpleTermId with every delimiter position) are compared '
        'for ==, <, > and hash-equality-on-equal-ids against the model; random subsets are sorted; random unicode strings. '
        'A case is non-trivial when the string has >= 2 delimiter characters, or the pair shares a non-empty common prefix '
        'of their values / differs in class or delimiter position; distinct by the canonical input.')

ALPHA = 'HP:_0'


def cps(s):
    return [ord(c) for c in s]


def _impl():
    import hpotk
    from hpotk.model._term_id import DefaultTermId, SimpleTermId, TermId
    return TermId, DefaultTermId, SimpleTermId


def all_strings(maxlen):
    for n in range(0, maxlen + 1):
        for t in itertools.product(ALPHA, repeat=n):
            yield ''.join(t)


def check_parse(ctx, strings, stream):
    TermId, DefaultTermId, SimpleTermId = _impl()
    replies = []
    B = 2000
    for i in range(0, len(strings), B):
        replies.extend(run_driver([{'op': 'c04.parse', 'ss': [cps(s) for s in strings[i:i + B]]}])[0])
    for s, m in zip(strings, replies):
        try:
            t = TermId.from_curie(s)
            impl = {'ok': True, 'prefix': t.prefix, 'id': t.id, 'value': t.value, 'str': str(t)}
        except Exception:
            impl = {'ok': False}
        if m['ok']:
            model = {'ok': True, 'prefix': ''.join(map(chr, m['prefix'])), 'id': ''.join(map(chr, m['id'])),
                     'value': ''.join(map(chr, m['value'])), 'str': ''.join(map(chr, m['value']))}
        else:
            model = {'ok': False}
        nontrivial = sum(1 for c in s if c in ':_') >= 2
        ctx.case(['parse', s], nontrivial, stream, sample={'op': 'parse', 's': s, 'impl': impl} if nontrivial else None)
        ctx.count('parse.ok' if impl['ok'] else 'parse.raises')
        if impl != model:
            ctx.violation(f'parse:{s!r}' if len(s) < 12 else 'parse:long',
                          {'case': {'kind': 'parse', 's': s, 'cps': cps(s)}, 'impl': impl, 'model': model,
                           'theorem': 'Hpv.Props.C04.parse_iff / split / round_trip'})
        elif impl['ok']:
            # round trip on the implementation itself (the theorem's statement evaluated on impl output)
            try:
                t2 = TermId.from_curie(t.value)
                ok = (t2 == t) and t2.value == t.value and hash(t2) == hash(t)
            except Exception:
                ok = False
            if not ok:
                ctx.violation(f'round-trip:{s!r}', {'case': {'kind': 'parse', 's': s}, 'impl': impl,
                                                    'theorem': 'Hpv.Props.C04.round_trip'})
            elif nontrivial or len(s) % 3 == 0:
                # copies of a TermId are the TermId (equal, same hash, found in a set); a str subclass / str-valued enum member is parsed
                # from its characters
                import copy
                import enum
                import pickle
                why = None
                try:
                    for how, clone in (('pickle', lambda x: pickle.loads(pickle.dumps(x))), ('deepcopy', copy.deepcopy), ('copy', copy.copy)):
                        c2 = clone(t)
                        if not (c2 == t and hash(c2) == hash(t) and c2 in {t} and (c2.prefix, c2.id, c2.value) == (t.prefix, t.id, t.value)):
                            why = f'{how} of the TermId differs from it (eq {c2 == t}, same hash {hash(c2) == hash(t)})'
                            break
                    if why is None:
                        E = enum.Enum('E', {'M': s}, type=str)
                        for label, arg in (('str subclass', _Sub(s)), ('str-valued enum member', E.M)):
                            t3 = TermId.from_curie(arg)
                            if not (t3 == t and hash(t3) == hash(t) and t3.value == t.value):
                                why = f'from_curie(<{label} {s!r}>) = {t3.value!r}, from_curie({s!r}) = {t.value!r}'
                                break
                except Exception as e:  # noqa
                    why = f'raises {type(e).__name__}: {e}'
                if why:
                    ctx.violation('copies-and-str-subclasses', {'case': {'kind': 'parse', 's': s, 'cps': cps(s)}, 'impl': why,
                                                                'theorem': 'Hpv.Props.C04.eq_iff / hash_eq / round_trip'})


class _Sub(str):
    def __str__(self):
        return 'not the characters'


def mk_ids(specs):
    """specs: list of (value, idx, cls) with cls in 'D','S' -> implementation objects."""
    TermId, DefaultTermId, SimpleTermId = _impl()
    out = []
    for v, i, c in specs:
        out.append(DefaultTermId(value=v, idx=i) if c == 'D' else SimpleTermId(value=v, idx=i))
    return out


def check_pairs(ctx, specs, pairs, stream):
    objs = mk_ids(specs)
    ids = [{'v': cps(v), 'i': i} for v, i, _ in specs]
    B = 50000
    for k in range(0, len(pairs), B):
        chunk = pairs[k:k + B]
        rep = run_driver([{'op': 'c04.cmp', 'ids': ids, 'pairs': chunk}])[0]
        for (a, b), code in zip(chunk, rep):
            x, y = objs[a], objs[b]
            eq, lt, gt = bool(code & 1), bool(code & 2), bool(code & 4)
            try:
                ieq, ilt, igt = (x == y), (x < y), (y < x)
                ine = (x != y)
                heq = hash(x) == hash(y)
            except Exception as e:
                ieq = ilt = igt = ine = heq = f'raises {type(e).__name__}'
            sa, sb = specs[a], specs[b]
            nontrivial = (sa[0][:1] == sb[0][:1] and sa[0] != sb[0]) or sa[2] != sb[2] or (sa[0] == sb[0] and sa[1] != sb[1]) or eq
            ctx.case(['cmp', sa, sb], nontrivial, stream,
                     sample={'op': 'cmp', 'a': sa, 'b': sb, 'eq': ieq, 'lt': ilt, 'gt': igt} if nontrivial and (lt or gt) else None)
            ctx.count('cmp.eq' if eq else ('cmp.lt' if lt else 'cmp.gt'))
            bad = (ieq, ilt, igt) != (eq, lt, gt) or ine != (not eq) or (eq and heq is not True)
            if bad:
                ctx.violation(f'cmp:{sa}:{sb}' if len(sa[0]) + len(sb[0]) < 14 else 'cmp:long',
                              {'case': {'kind': 'cmp', 'a': list(sa), 'b': list(sb)},
                               'impl': {'eq': ieq, 'ne': ine, 'lt': ilt, 'gt': igt, 'hash_equal': heq},
                               'model': {'eq': eq, 'lt': lt, 'gt': gt, 'hash_equal_required': eq},
                               'theorem': 'Hpv.Props.C04.eq_iff / hash_eq / lt_lex / lt_strict_total'})


def check_sorts(ctx, specs_list, stream):
    reqs = [{'op': 'c04.sort', 'ids': [{'v': cps(v), 'i': i} for v, i, _ in specs]} for specs in specs_list]
    reps = run_driver(reqs)
    for specs, rep in zip(specs_list, reps):
        objs = mk_ids(specs)
        model = [''.join(map(chr, v)) for v in rep]
        try:
            impl = [t.value for t in sorted(objs)]
            import bisect
            srt = sorted(objs)
            # binary search must find every element at a position holding an equal element
            bis_ok = all(srt[bisect.bisect_left(srt, o)] == o for o in objs)
        except Exception as e:
            impl, bis_ok = f'raises {type(e).__name__}', False
        ctx.case(['sort', specs], len(specs) >= 3, stream, sample={'op': 'sort', 'ids': specs, 'sorted': impl})
        if impl != model or not bis_ok:
            ctx.violation('sort', {'case': {'kind': 'sort', 'ids': [list(s) for s in specs]}, 'impl': impl, 'model': model,
                                   'bisect_finds_all': bis_ok, 'theorem': 'Hpv.Props.C04.lt_strict_total'})


def parsed_spec(s):
    i = s.find(':')
    if i < 0:
        i = s.find('_')
    return i


def run(ctx):
    rng = ctx.rng
    thorough = ctx.tier == 'thorough'
    # 1. exhaustive parse
    strings = list(all_strings(5))
    check_parse(ctx, strings, 'parse.exhaustive')
    ctx.exhaustive['parse: all strings over {H,P,:,_,0} up to length 5'] = True
    # 2. pairs: ids from all parsable strings up to length 4 (thorough: 5 sampled more), both classes
    base = [s for s in all_strings(3) if parsed_spec(s) >= 0]
    specs = []
    for s in base:
        i = parsed_spec(s)
        specs.append((s, i, 'D'))
        specs.append((s, i, 'S'))
    n = len(specs)
    pairs = [(a, b) for a in range(n) for b in range(n)]
    check_pairs(ctx, specs, pairs, 'cmp.exhaustive(len<=3, both classes)')
    ctx.exhaustive['cmp: all ordered pairs of parsable strings up to length 3 x {Default,Simple}^2'] = True
    # SimpleTermId with every delimiter position (not only the parsed one)
    any_idx = [(s, i, 'S') for s in all_strings(4) if len(s) >= 1 for i in range(len(s))]
    m = len(any_idx)
    k = 400000 if thorough else 60000
    pairs = [(rng.randrange(m), rng.randrange(m)) for _ in range(k)]
    check_pairs(ctx, any_idx, pairs, 'cmp.random(any delimiter position)')
    # longer strings, parsed, mixed classes
    long_strings = [s for s in all_strings(5) if parsed_spec(s) >= 0]
    specs5 = [(s, parsed_spec(s), rng.choice('DS')) for s in long_strings]
    m = len(specs5)
    k = 1000000 if thorough else 150000
    pairs = [(rng.randrange(m), rng.randrange(m)) for _ in range(k)]
    check_pairs(ctx, specs5, pairs, 'cmp.random(len<=5)')
    # 3. realistic and unicode ids
    pool = ['HP:1', 'HP:10', 'HP:2', 'HP:02', 'MP:1', 'A_B:1', 'A:B_1', 'HP_3', 'HPX:1', 'HP:', ':HP', 'owl:Thing',
            'owl:Thin', 'owl:Thinh', 'ZZ:9', 'a:1', 'HP:0000118', 'HP_0000118', 'SNOMEDCT_US:128613002', 'NCIT_C3117',
            'hp:1', 'Hp:1', 'hP:1', 'Orpha:558', 'ORPHA:558', 'orpha:558', 'ORPHA:9', 'ORPHA:10', 'ORPHA:1a', 'X:9', 'X:10', 'X:100', 'X:99',
            'HP::1', 'HP:_1', '_', ':', '__', '::', 'é:1', 'e:é', '\U0001F600:1', 'z:\U0001F600', '\uffff:1', '\U00010000:1']
    for _ in range(300 if thorough else 100):
        ln = rng.randrange(1, 8)
        s = ''.join(chr(rng.choice([rng.randrange(32, 127), rng.randrange(0xA0, 0x800), rng.randrange(0x800, 0xD800),
                                    rng.randrange(0xE000, 0x10000), rng.randrange(0x10000, 0x10FFFF)])) for _ in range(ln))
        pos = rng.randrange(len(s) + 1)
        pool.append(s[:pos] + rng.choice(':_') + s[pos:])
    # characters that pattern-based or line-based code treats specially: line breaks of every kind, NUL, tab, other separators - before the
    # delimiter, right after it, last in the id, and between the two kinds of delimiter
    odd = ['\n', '\r', '\r\n', '\t', '\x00', '\x0b', '\x0c', '\x1c', '\x1d', '\x1e', '\x1f', '\x85', '\u2028', '\u2029', ' ', '\xa0', '.', '*', '\\']
    for ch in odd:
        pool += ['HP:1' + ch, 'HP:' + ch + '1', 'HP' + ch + ':1', ch + 'HP:1', 'a:' + ch + '_b', 'a_' + ch + ':b', 'HP_1' + ch, ch + ':' + ch, 'HP' + ch + '_1']
    for t in itertools.product('H:_\n', repeat=4):
        pool.append(''.join(t))
    check_parse(ctx, pool + ['HP1', '', 'abc', 'é', '\n', 'HP\n1', 'HP1\n'], 'parse.unicode+realistic')
    uspecs = [(s, parsed_spec(s), c) for s in pool if parsed_spec(s) >= 0 for c in 'DS']
    m = len(uspecs)
    pairs = [(a, b) for a in range(m) for b in range(m)] if thorough else \
        [(rng.randrange(m), rng.randrange(m)) for _ in range(60000)] + [(a, b) for a in range(2 * 45) for b in range(2 * 45)]
    check_pairs(ctx, uspecs, pairs, 'cmp.unicode+realistic')
    # 3b. ids that were made EARLY against ids parsed from the same strings LATE, with thousands of other prefixes and ids in between
    # (anything bounded - an intern table, a memo - has been through its eviction path by then): equal, same hash, neither < nor >
    TermId = _impl()[0]
    early_src = ['HP:0000118', 'MP:1', 'owl:Thing', 'A_B:1', 'é:1', 'P0:1', 'P1:1', 'P255:1', 'P256:1', 'Q_7']
    early = [TermId.from_curie(x) for x in early_src]
    filler = []
    for i in range(70000 if thorough else 3000):
        filler.append(TermId.from_curie(f'P{i}:{i % 7}'))
        if i in (255, 256, 257, 1023, 1024, 1025, 2999, 65535, 65536, 65537):
            for x, t in zip(early_src, early):
                t2 = TermId.from_curie(x)
                f2 = TermId.from_curie(f'P{i}:{i % 7}')
                okk = t2 == t and t == t2 and hash(t2) == hash(t) and not (t < t2) and not (t2 < t) and t2 in {t} and f2 == filler[-1] and \
                    (t2.prefix, t2.id, t2.value) == (t.prefix, t.id, t.value)
                ctx.case(['late-vs-early', x, i], True, 'early-vs-late')
                if not okk:
                    ctx.violation('early-vs-late', {'case': {'kind': 'early-late', 'curie': x, 'others_in_between': i + 1},
                                                    'impl': f'TermId.from_curie({x!r}) made before and after {i + 1} other ids: eq {t2 == t}, same hash {hash(t2) == hash(t)}, '
                                                            f'lt {t < t2} / {t2 < t}, in set {t2 in {t}}',
                                                    'theorem': 'Hpv.Props.C04.eq_iff / hash_eq / lt_strict_total'})
    # 4. sorting / bisect over random subsets
    sorts = []
    for _ in range(3000 if thorough else 600):
        src = rng.choice([specs, specs5, uspecs, any_idx])
        sorts.append([src[rng.randrange(len(src))] for _ in range(rng.randrange(2, 10))])
    check_sorts(ctx, sorts, 'sort.random')


def replay(ctx, data):
    case = data['case']
    if case['kind'] == 'parse':
        check_parse(ctx, [case['s']], 'replay')
    elif case['kind'] == 'cmp':
        specs = [tuple(case['a']), tuple(case['b'])]
        check_pairs(ctx, specs, [(0, 1), (1, 0)], 'replay')
    elif case['kind'] == 'early-late':
        TermId = _impl()[0]
        t = TermId.from_curie(case['curie'])
        for i in range(case['others_in_between']):
            TermId.from_curie(f'P{i}:{i % 7}')
        t2 = TermId.from_curie(case['curie'])
        if not (t2 == t and hash(t2) == hash(t) and not (t < t2) and not (t2 < t) and t2 in {t}):
            ctx.violation('early-vs-late', {'case': case, 'impl': f'eq {t2 == t}, same hash {hash(t2) == hash(t)}'})
    elif case['kind'] == 'sort':
        check_sorts(ctx, [[tuple(s) for s in case['ids']]], 'replay')
