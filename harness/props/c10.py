"""C10 — precomputed Resnik similarity = IC of the most informative common ancestor (algorithm/similarity/_resnik.py)."""
import itertools
import warnings

import graphlib as gl
from common import run_driver

RULE = ('random ontologies containing HP:0000118 with 1-4 organ-system children, multi-parent terms shared between branches, terms '
        'outside the phenotype branch (several levels deep; phenotype terms may have a second parent there) (n <= 20; 40 thorough) x information-content maps (monotone, arbitrary, with missing entries, all '
        'zero; values multiples of 1/8 so float comparison is exact) -> precalculate_ic_mica_for_hpo_concept_pairs; the WHOLE symmetric '
        'matrix over all ordered pairs of nodes (incl. HP:0000118, the root, unknown-to-IC terms), len() and the sorted items() '
        'compared with the Lean model, before and after reading every pair (reads must not create entries); exhaustive: every '
        'DAG on <= 3 extra positions under one/two branches with IC values in {0, 1/2, 1}. Non-trivial: some pair shares a branch and has '
        'positive MICA, or a term lies in two branches; distinct by (edges, ic).')

THEOREM = 'Hpv.Props.C10.*'
SCALE = 8
# the model works over integers; the implementation gets value FMAP(k): any strictly increasing map with 0 -> 0 preserves "max" and
# "positive". 'eighths' (k / 8) keeps float arithmetic exact; 'tiny' sends the small integers to denormal / sub-epsilon floats
TINY = {0: 0.0, 1: 5e-324, 2: 1e-300, 4: 1.1e-16, 5: 2.3e-16, 8: 1e-9, 13: 0.5, 40: 7.0}
_MODE = {'fmap': None}


def fwd(k):
    return k / SCALE if _MODE['fmap'] is None else _MODE['fmap'][k]


def pa_id():
    from hpotk.constants.hpo.base import PHENOTYPIC_ABNORMALITY
    return PHENOTYPIC_ABNORMALITY.value


def impl_precalc(edges, ic):
    import hpotk
    from hpotk.model import MinimalTerm, TermId
    from hpotk.ontology import create_minimal_ontology
    from hpotk.algorithm.similarity import precalculate_ic_mica_for_hpo_concept_pairs
    from hpotk.algorithm.similarity._model import SimpleAnnotationIcContainer
    g = gl.build_impl('indexed', edges)
    terms = [MinimalTerm.create_minimal_term(t, name=t.value, alt_term_ids=(), is_obsolete=False) for t in g]
    hpo = create_minimal_ontology(g, terms, 'v')
    icc = SimpleAnnotationIcContainer({TermId.from_curie(k): fwd(v) for k, v in ic.items()}, metadata={})
    with warnings.catch_warnings():
        warnings.simplefilter('ignore')
        return precalculate_ic_mica_for_hpo_concept_pairs(icc, hpo)


def to_int(x):
    if _MODE['fmap'] is not None:
        inv = {v: k for k, v in _MODE['fmap'].items()}
        return inv.get(float(x), float(x))
    y = x * SCALE
    return int(y) if float(y).is_integer() else y


def evaluate(ctx, cases, stream):
    pa = pa_id()
    reqs = []
    for edges, ic in cases:
        nodes = gl.nodes_of(edges)
        pairs = [[a, b] for a in nodes for b in nodes]
        reqs.append({'op': 'resnik.precalc', 'edges': [list(e) for e in edges], 'pa': pa, 'ic': [[k, v] for k, v in sorted(ic.items())],
                     'pairs': pairs})
    reps = run_driver(reqs)
    for (edges, ic), req, rep in zip(cases, reqs, reps):
        model_items = sorted(map(tuple, rep['items']))
        nt = len(model_items) > 0
        ctx.case(['resnik', edges, sorted(ic.items())], nt, stream,
                 sample={'edges': edges, 'ic': ic, 'n_stored_pairs': rep['len']} if nt else None)
        ctx.count('pairs', len(req['pairs']))
        bad = None
        try:
            c = impl_precalc(edges, ic)
            items0 = sorted((a, b, to_int(v)) for a, b, v in c.items())
            len0 = len(c)
            gets = [to_int(c.get_similarity(a, b)) for a, b in req['pairs']]
            items1 = sorted((a, b, to_int(v)) for a, b, v in c.items())
            len1 = len(c)
            if items0 != model_items or len0 != rep['len']:
                bad = {'what': 'items/len', 'impl': {'len': len0, 'items': items0[:8]}, 'model': {'len': rep['len'], 'items': model_items[:8]}}
            elif gets != rep['gets']:
                i = next(k for k, (x, y) in enumerate(zip(gets, rep['gets'])) if x != y)
                bad = {'what': 'matrix', 'pair': req['pairs'][i], 'impl': gets[i], 'model': rep['gets'][i]}
            elif items1 != items0 or len1 != len0:
                bad = {'what': 'reads-changed-the-container', 'impl': {'len_before': len0, 'len_after': len1}}
            elif any(v <= 0 for _, _, v in items1):
                bad = {'what': 'non-positive-stored', 'impl': [t for t in items1 if t[2] <= 0][:5]}
            else:
                # the FIRST read of a freshly precomputed container (whichever pair it is, either key order) is right as well
                for a, b, v in (items1[:1] + items1[-2:] + items1[len(items1) // 2:len(items1) // 2 + 1]):
                    for x, y in ((a, b), (b, a)):
                        first = to_int(impl_precalc(edges, ic).get_similarity(x, y))
                        if first != v:
                            bad = {'what': 'first-read-of-a-fresh-container', 'pair': [x, y], 'impl': first, 'model': v}
                            break
                    if bad:
                        break
        except Exception as e:  # noqa
            bad = {'what': 'raises', 'impl': f'{type(e).__name__}: {e}'}
        if bad:
            ctx.violation(bad['what'], {'case': {'kind': 'resnik', 'edges': [list(e) for e in edges], 'ic': ic}, 'disagreement': bad,
                                        'theorem': THEOREM})


def random_hpo(rng, n_extra):
    """edges of a DAG: root HP:0000001 <- HP:0000118 <- organ systems <- descendants (multi-parent), plus a non-phenotype branch"""
    pa = pa_id()
    root = 'HP:0000001'
    edges = {(pa, root)}
    k = rng.randrange(1, 5)
    systems = [f'HP:00001{i:02d}' for i in rng.sample(range(19, 60), k)]
    for s in systems:
        edges.add((s, pa))
    others = [f'HP:{i:07d}' for i in rng.sample(range(200, 900), n_extra)]
    placed = list(systems)
    outside = []
    for t in others:
        r = rng.random()
        if r < 0.15:
            # outside the phenotype branch (e.g. clinical modifier, mode of inheritance), possibly a few levels deep
            edges.add((t, rng.choice([root] + outside)))
            outside.append(t)
            continue
        parents = rng.sample(placed, min(len(placed), rng.choice([1, 1, 1, 2, 2, 3])))
        for p in parents:
            edges.add((t, p))
        if outside and rng.random() < 0.2:
            edges.add((t, rng.choice(outside)))       # a phenotype term with a second parent OUTSIDE Phenotypic abnormality
        placed.append(t)
    el = sorted(edges)
    rng.shuffle(el)
    return el


def random_ic(rng, edges):
    ic = _random_ic(rng, edges)
    if rng.random() < 0.3:
        # entries for terms the ontology does not have (an IC table computed on a newer release): they concern no pair of its terms
        for extra in rng.sample(['HP:9999990', 'HP:9999991', 'ZZ:1', 'owl:Thing', 'HP:0000000', 'MP:0000118'], rng.randrange(1, 4)):
            ic[extra] = rng.choice([0, 3, 40, 1000])
    return ic


def _random_ic(rng, edges):
    nodes = gl.nodes_of(edges)
    style = rng.choice(['arbitrary', 'monotone', 'missing', 'zero', 'sparse'])
    ic = {}
    if style == 'zero':
        return {n: 0 for n in nodes}
    if style == 'monotone':
        depth = {}
        subs = {}
        for s, o in edges:
            subs.setdefault(s, []).append(o)

        def d(v):
            if v not in depth:
                depth[v] = 0 if v not in subs else 1 + max(d(p) for p in subs[v])
            return depth[v]
        return {n: d(n) * rng.choice([1, 2, 4]) for n in nodes}
    for n in nodes:
        if style == 'missing' and rng.random() < 0.4:
            continue
        if style == 'sparse' and rng.random() < 0.8:
            continue
        ic[n] = rng.choice([0, 1, 2, 4, 5, 8, 13, 40])
    return ic


def run(ctx):
    rng = ctx.rng
    thorough = ctx.tier == 'thorough'
    pa = pa_id()
    # exhaustive small scope: one or two systems S1,S2 under PA, three extra terms with every parent assignment among
    # {S1, S2, earlier extras} (non-empty subsets), IC in {0, 4, 8} on three chosen terms
    S1, S2, root = 'HP:0000119', 'HP:0000152', 'HP:0000001'
    X = ['HP:0000500', 'HP:0000400', 'HP:0000600']
    base = [(pa, root), (S1, pa), (S2, pa)]
    cases = []
    cand0 = [S1, S2]
    subsets = lambda xs: [list(c) for r in range(1, len(xs) + 1) for c in itertools.combinations(xs, r)]
    nx = 3 if thorough else 2
    for p0 in subsets(cand0):
        for p1 in subsets(cand0 + X[:1]):
            for p2 in (subsets(cand0 + X[:2]) if nx == 3 else [None]):
                edges = list(base) + [(X[0], p) for p in p0] + [(X[1], p) for p in p1] + ([(X[2], p) for p in p2] if p2 else [])
                for vals in itertools.product([0, 4, 8], repeat=3):
                    ic = {S1: vals[0], X[0]: vals[1], X[1]: vals[2], pa: 4, root: 0}
                    cases.append((edges, ic))
    for i in range(0, len(cases), 500):
        evaluate(ctx, cases[i:i + 500], 'exhaustive.small')
    ctx.exhaustive[f'every parent assignment of {nx} extra terms under two organ systems x IC in {{0,1/2,1}}^3'] = True
    cases = []
    for _ in range(500 if thorough else 120):
        edges = random_hpo(rng, rng.randrange(0, 36 if thorough else 16))
        cases.append((edges, random_ic(rng, edges)))
    for i in range(0, len(cases), 100):
        evaluate(ctx, cases[i:i + 100], 'random')
    # the same kind of cases with information contents that are tiny positive floats (denormals, values below machine epsilon)
    _MODE['fmap'] = TINY
    try:
        tiny_cases = []
        for _ in range(120 if thorough else 40):
            edges = random_hpo(rng, rng.randrange(2, 14))
            ic = {n: rng.choice([0, 1, 2, 4, 5, 8, 13, 40]) for n in gl.nodes_of(edges) if rng.random() < 0.8}
            tiny_cases.append((edges, ic))
        evaluate(ctx, tiny_cases, 'tiny information contents (5e-324 ... 2.3e-16)')
    finally:
        _MODE['fmap'] = None
    dense_ontology(ctx, rng)


def dense_ontology(ctx, rng):
    """an ontology with more than 2^16 is_a edges on far fewer than 2^16 terms: the bulk (a complete DAG of 370 terms, 68 265 edges) sits
    OUTSIDE Phenotypic abnormality, so the precomputation stays small, while the phenotype terms sort after it (their rows lie beyond
    offset 2^16 in any CSR layout); MICA of every phenotype pair against a closure computed here"""
    pa, root, sysid, other = pa_id(), 'HP:0000001', 'HP:0000119', 'HP:0000005'
    n = 370
    bulk = [f'HP:{i:07d}' for i in range(200, 200 + n)]
    edges = [(pa, root), (sysid, pa), (other, root), (bulk[0], other)] + [(bulk[j], bulk[i]) for j in range(1, n) for i in range(j)]
    ph = [f'HP:{9000000 + i:07d}' for i in range(14)]
    par = {ph[0]: [sysid]}
    for k in range(1, len(ph)):
        par[ph[k]] = rng.sample(ph[:k], min(k, rng.choice([1, 1, 2, 3])))
    edges += [(c, p) for c, ps in par.items() for p in ps]
    rng.shuffle(edges)
    ic = {t: rng.choice([0, 1, 2, 4, 5, 8, 13]) for t in ph}
    ic[sysid] = 1
    ctx.case(['dense-ontology', n], True, 'dense ontology (68 265 edges outside the phenotype branch)', sample={'terms': n + len(ph) + 4, 'edges': len(edges)})
    problem = None
    try:
        c = impl_precalc(edges, ic)

        def anc(v):
            seen, todo = {v}, [v]
            while todo:
                for p in par.get(todo.pop(), []):
                    if p not in seen:
                        seen.add(p)
                        todo.append(p)
            return seen
        for a in ph:
            for b in ph:
                want = max([ic.get(x, 0) for x in anc(a) & anc(b)] + [0])
                got = to_int(c.get_similarity(a, b))
                if got != want:
                    problem = f'similarity({a}, {b}) = {got}/{SCALE}, the most informative common ancestor has IC {want}/{SCALE}'
                    break
            if problem:
                break
    except Exception as e:  # noqa
        problem = f'raises {type(e).__name__}: {str(e)[:200]}'
    if problem:
        ctx.violation('dense-ontology', {'case': {'kind': 'dense-ontology'}, 'impl': problem, 'theorem': 'Hpv.Props.C10.mica_is_max'})


def replay(ctx, data):
    if data['case'].get('kind') == 'dense-ontology':
        dense_ontology(ctx, ctx.rng)
        return
    c = data['case']
    evaluate(ctx, [([tuple(e) for e in c['edges']], {k: v for k, v in c['ic'].items()})], 'replay')
