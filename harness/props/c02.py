"""C02 — graph construction depends only on the edge set; the root is unique or owl:Thing."""
import itertools

import graphlib as gl

RULE = ('metamorphic groups (E, permutations of E, E with repeated edges) x the three factories: node list (exact order for the '
        'indexed graph is a free observable; compared as sorted, duplicate-free list), root, and every children/parents/ancestors/'
        'descendants answer (sorted, with multiplicity) must equal the Lean model of the base list (proved to depend on the edge SET '
        'only) and each other; root has no parents; every other node is a descendant of the root; with >= 2 parentless terms the '
        'root is owl:Thing with exactly those children. Exhaustive: all permutations of every <= 4-edge list over <= 4 positions, '
        'every single repeat; random larger lists with shuffles and multisets of repeats; 1..k parentless terms. Non-trivial: the '
        'variant differs from the base list (re-ordered or repeated) or the graph has >= 2 parentless terms. Queries = the four '
        'traversals for every node, the four predicates over ordered node pairs, is_leaf. Every list is also built by ONE long-lived '
        'factory instance per class (as the loaders\' default factories are) and must give the answers of a fresh factory.')

THEOREM = 'Hpv.Props.C02.*'


def shape_queries(edges):
    """structure + all answers, for a TermId argument"""
    _, TermId, _, _ = gl._hp()
    qs = [(['nodes'], ['nodes']), (['root'], ['root'])]
    nodes = gl.nodes_of(edges)
    for v in nodes + ['owl:Thing']:
        t = TermId.from_curie(v)
        for q in gl.QS:
            qs.append((['q', q, v, False], ['q', q, t, False]))
    # "the result of any query": the predicates and the leaf test as well (all ordered pairs on small graphs, a stride on larger ones)
    pairs = [(a, b) for a in nodes for b in nodes]
    if len(pairs) > 40:
        pairs = pairs[::max(1, len(pairs) // 40)]
    for a, b in pairs:
        for p in gl.PREDS:
            qs.append((['pred', p, a, b], ['pred', p, TermId.from_curie(a), TermId.from_curie(b)]))
    for v in nodes:
        qs.append((['leaf', v], ['leaf', TermId.from_curie(v)]))
    return qs


def nontrivial(c):
    return c.get('variant', 'base') != 'base' or gl.graph_features(c['edges'])['parentless'] >= 2


def structural_checks(ctx, edges, factory):
    """the property's own clauses evaluated directly on the implementation (independent of the model)"""
    try:
        g = gl.build_impl(factory, edges)
    except Exception as e:  # noqa
        return f'build raises {type(e).__name__}'
    try:
        return _structural(g, edges)
    except Exception as e:  # noqa
        return f'a structural query raises {type(e).__name__}: {e}'


def _structural(g, edges):
    base = set(x for e in edges for x in e)
    nodes = [t.value for t in g]
    subs = {s for s, _ in edges}
    parentless = sorted(x for x in base if x not in subs)
    problems = []
    if len(nodes) != len(set(nodes)):
        problems.append('a node is listed twice')
    want = base | ({'owl:Thing'} if len(parentless) >= 2 else set())
    if set(nodes) != want:
        problems.append(f'node set {sorted(nodes)} != {sorted(want)}')
    root = g.root.value
    if len(parentless) == 1 and root != parentless[0]:
        problems.append(f'root {root} != the only parentless term {parentless[0]}')
    if len(parentless) >= 2:
        if root != 'owl:Thing':
            problems.append(f'root {root} != owl:Thing with {len(parentless)} parentless terms')
        elif gl.vals(g.get_children(g.root)) != parentless:
            problems.append(f'children of owl:Thing {gl.vals(g.get_children(g.root))} != parentless terms {parentless}')
    if list(g.get_parents(g.root)):
        problems.append('root has parents')
    desc = set(gl.vals(g.get_descendants(g.root)))
    if desc != set(nodes) - {root}:
        problems.append(f'descendants of root {sorted(desc)} != all other nodes')
    return '; '.join(problems) if problems else None


def variants(rng, edges, exhaustive):
    out = [('base', edges)]
    if exhaustive:
        for perm in itertools.permutations(edges):
            if list(perm) != list(edges):
                out.append(('perm', list(perm)))
        for i in range(len(edges)):
            for pos in range(len(edges) + 1):
                v = list(edges)
                v.insert(pos, edges[i])
                out.append(('repeat', v))
    else:
        for _ in range(2):
            v = list(edges)
            rng.shuffle(v)
            out.append(('perm', v))
        for _ in range(2):
            v = list(edges) + [rng.choice(edges) for _ in range(rng.randrange(1, 4))]
            rng.shuffle(v)
            out.append(('repeat', v))
        out.append(('repeat', list(edges) + list(edges)))
    return out


def group_cases(ctx, rng, edges, exhaustive, factories=gl.FACTORIES):
    """all variants of one base list; the model always gets the BASE list (the theorem says the answers coincide)."""
    qs = shape_queries(edges)
    cases = []
    for variant, ev in variants(rng, edges, exhaustive):
        for f in factories:
            cases.append({'factory': f, 'edges': ev, 'model_edges': edges, 'queries': qs, 'variant': variant})
    return cases


def evaluate(ctx, cases, stream):
    # the model is evaluated on the variant too (it implements the same de-duplication) ...
    gl.evaluate_cases(ctx, cases, stream, THEOREM, nontrivial,
                      what_key=lambda c, b: f'{c["factory"]}:{c.get("variant")}:{b["query"][0]}')
    # ... and, per base list, on the base: both model runs must agree (checked by the theorem; re-checked here cheaply)
    for c in cases:
        if c.get('variant') == 'base':
            p = structural_checks(ctx, c['edges'], c['factory'])
            if p:
                ctx.violation(f'structure:{c["factory"]}', {'case': {'kind': 'graph', 'factory': c['factory'], 'edges': c['edges']},
                                                            'impl': p, 'theorem': 'Hpv.Props.C02.root_spec / nodes_spec'},
                              key=c.get('known_key'))


def cross_variant_check(ctx, cases):
    """impl answers of every variant must equal the impl answers of the base (pure metamorphic relation)"""
    base = {}
    for c in cases:
        key = (c['factory'], tuple(c['model_edges']))

        def answers(shared):
            try:
                g = gl.build_impl(c['factory'], c['edges'], shared=shared)
                out = [gl.impl_answer(g, iq) for _, iq in c['queries']]
                for a, (wq, _) in zip(out, c['queries']):
                    if wq[0] == 'nodes' and 'ok' in a:
                        a['ok'] = sorted(a['ok'])
                return out
            except Exception as e:  # noqa
                return f'build raises {type(e).__name__}'
        ans = answers(False)
        # the same list through ONE long-lived factory instance per class, which has built all the earlier (different) graphs of
        # this run: the graph depends on the edge list only, not on what the factory built before
        reused = answers(True)
        ctx.count('graphs_built_by_a_reused_factory')
        if reused != ans:
            ctx.violation(f'factory-history:{c["factory"]}',
                          {'case': {'kind': 'factory-history', 'factory': c['factory'], 'edges': c['edges'],
                                    'built_before_by_the_same_factory': gl._SHARED_HISTORY.get(c['factory'], [])[:-1]},
                           'impl_reused_factory': reused if isinstance(reused, str) else [a for a, b in zip(reused, ans) if a != b][:3],
                           'impl_fresh_factory': ans if isinstance(ans, str) else [b for a, b in zip(reused, ans) if a != b][:3],
                           'theorem': 'Hpv.Props.C02.invariance (the graph is a function of the edge list)'})
        if c['variant'] == 'base':
            base[key] = ans
        elif key in base and base[key] != ans:
            ctx.violation(f'metamorphic:{c["factory"]}:{c["variant"]}',
                          {'case': {'kind': 'meta', 'factory': c['factory'], 'edges': c['edges'], 'base_edges': c['model_edges']},
                           'impl_variant': ans if isinstance(ans, str) else [a for a, b in zip(ans, base[key]) if a != b][:3],
                           'impl_base': base[key] if isinstance(base[key], str) else [b for a, b in zip(ans, base[key]) if a != b][:3],
                           'theorem': 'Hpv.Props.C02.invariance'})


def crafted_factory_history(ctx, rng):
    """pairs of lists (A, B) built one after the other by the long-lived factory: A's LAST edge and B's FIRST edge have the same subject,
    which sits at different positions of the two node arrays (what a factory remembered from A is wrong for B)"""
    for k in range(6):
        x = 'HP:0000500'
        a_extra = [f'HP:{i:07d}' for i in rng.sample(range(501, 600), rng.randrange(1, 4))]
        b_extra = [f'HP:{i:07d}' for i in rng.sample(range(1, 499), rng.randrange(2, 6))]
        A = [(e, 'HP:0000900') for e in a_extra] + [(x, 'HP:0000900')]
        B = [(x, b_extra[0])] + [(e, 'HP:0000950') for e in b_extra] + [('HP:0000950', 'HP:0000960')]
        # the long-lived factories first get a list they REJECT half-way (a self-loop / a two-cycle sharing terms and edges with B):
        # whatever they had noted down for it must be gone when the next list comes
        for bad in (A + [(x, x)], B + [(b_extra[0], x)], [(x, b_extra[0]), (b_extra[0], x)]):
            for f in gl.FACTORIES:
                try:
                    gl.build_impl(f, bad, shared=True)
                except Exception:  # noqa
                    pass
        for first, second in ((A, B), (B[::-1], A[::-1]), (A, B[::-1])):
            cases = [{'factory': f, 'edges': lst, 'model_edges': lst, 'queries': shape_queries(lst), 'variant': 'base'}
                     for lst in (first, second) for f in gl.FACTORIES]
            cases.sort(key=lambda c: gl.FACTORIES.index(c['factory']))      # per factory: first, then second
            for c in cases:
                ctx.case(['factory-history', c['factory'], c['edges']], True, 'crafted factory histories')
            cross_variant_check(ctx, cases)


def run(ctx):
    rng = ctx.rng
    thorough = ctx.tier == 'thorough'
    label_sets = gl.LABEL_SETS[:4] if thorough else [gl.LABEL_SETS[0], gl.LABEL_SETS[2]]
    crafted_factory_history(ctx, rng)
    # exhaustive: all permutations + single repeats of every <= 4-edge list on <= 4 positions (one label assignment per set)
    for k in (2, 3, 4):
        cases = []
        for shape in gl.small_dags(k):
            if len(shape) > (4 if thorough else 3):
                continue
            for ls in label_sets:
                perm = list(ls[:k])
                rng.shuffle(perm)
                edges = [(perm[a], perm[b]) for a, b in shape]
                cases.extend(group_cases(ctx, rng, edges, True))
            if len(cases) >= 1200:
                evaluate(ctx, cases, f'exhaustive-variants.k={k}')
                cross_variant_check(ctx, cases)
                cases = []
        evaluate(ctx, cases, f'exhaustive-variants.k={k}')
        cross_variant_check(ctx, cases)
    ctx.exhaustive[f'all permutations and single repeats of every DAG edge list with <= {4 if thorough else 3} edges on <= 4 positions'] = True
    # random: larger lists, forests with 1..k parentless terms
    cases = []
    for i in range(600 if thorough else 120):
        shape = 'forest' if i % 3 == 0 else None
        edges, shp, order = gl.random_dag(rng, n=rng.randrange(2, 25 if thorough else 12), shape=shape)
        ctx.count(f'random.shape.{shp}')
        ctx.count(f'random.parentless.{min(gl.graph_features(edges)["parentless"], 5)}')
        cases.extend(group_cases(ctx, rng, edges, False))
    for i in range(0, len(cases), 600):
        evaluate(ctx, cases[i:i + 600], 'random-variants')
        cross_variant_check(ctx, cases[i:i + 600])
    # more edges than 2^8 on fewer nodes than 2^8
    ids40 = [f'HP:{i:07d}' for i in rng.sample(range(1, 900), 40)]
    dense = [(ids40[j], ids40[i]) for j in range(1, 40) for i in range(j)]
    rng.shuffle(dense)
    cs = [{'factory': f, 'edges': dense, 'model_edges': dense, 'queries': shape_queries(dense)[:400], 'variant': 'base'} for f in gl.FACTORIES]
    evaluate(ctx, cs, 'complete-DAG-40')
    # labels around owl:Thing with several parentless terms (sorting before / after the synthetic root)
    cases = []
    for labs in (['owl:Thin', 'owl:Thinh', 'uberon:1', 'HP:1'], ['zz:1', 'owl:Thing2', 'owl:T', 'a:1'], ['p:1', 'q:1', 'r:1', 'HP:1']):
        for shape in ([(1, 0), (3, 2)], [(2, 0), (2, 1)], [(1, 0), (2, 0), (3, 3 - 3 + 0)], [(3, 0), (3, 1), (3, 2)]):
            edges = sorted({(labs[a], labs[b]) for a, b in shape if a != b})
            cases.extend(group_cases(ctx, rng, edges, False))
    evaluate(ctx, cases, 'multi-root-around-owl:Thing')
    cross_variant_check(ctx, cases)
    # owl:Thing MENTIONED in the edges while a single term is parentless (inside the domain of the theorems: `OwlOk`): as the top of the
    # hierarchy with one child, with several children, and as an inner node / a leaf under another top
    cases = []
    for edges in ([('HP:1', 'owl:Thing'), ('HP:2', 'HP:1')],
                  [('HP:1', 'owl:Thing'), ('HP:2', 'HP:1'), ('HP:3', 'HP:1'), ('HP:4', 'HP:2'), ('HP:4', 'HP:3')],
                  [('HP:1', 'owl:Thing'), ('HP:2', 'owl:Thing'), ('HP:3', 'HP:1'), ('HP:3', 'HP:2')],
                  [('zz:1', 'owl:Thing'), ('a:1', 'owl:Thing'), ('owl:Thing2', 'owl:Thing')],
                  [('owl:Thing', 'HP:1'), ('HP:2', 'owl:Thing'), ('HP:3', 'HP:1')],
                  [('owl:Thing', 'HP:1'), ('HP:2', 'HP:1')]):
        cases.extend(group_cases(ctx, rng, edges, False))
    evaluate(ctx, cases, 'owl:Thing-mentioned-single-parentless-term')
    cross_variant_check(ctx, cases)
    # the excluded point of the theorems: owl:Thing itself is a parentless endpoint next to another parentless term
    edges = [('HP:2', 'owl:Thing'), ('HP:3', 'HP:1')]
    for f in gl.FACTORIES:
        p = structural_checks(ctx, edges, f)
        ctx.case(['owl-endpoint', f], True, 'excluded-point(owl:Thing is an endpoint)', sample={'edges': edges, 'factory': f, 'finding': p})
        if p:
            ctx.violation(f'owl-endpoint:{f}', {'case': {'kind': 'graph', 'factory': f, 'edges': edges}, 'impl': p,
                                                'theorem': 'hypothesis owl:Thing not an endpoint of E (Hpv.Props.C02.root_spec)'},
                          key='owl-thing-is-parentless-endpoint')


def replay(ctx, data):
    c = data['case']
    edges = [tuple(e) for e in c['edges']]
    if c['kind'] == 'factory-history':
        gl._SHARED_FACTORIES.pop(c['factory'], None)
        for prev in c['built_before_by_the_same_factory']:
            try:
                gl.build_impl(c['factory'], [tuple(e) for e in prev], shared=True)
            except Exception:  # noqa
                pass
        cases = [{'factory': c['factory'], 'edges': edges, 'model_edges': edges, 'queries': shape_queries(edges), 'variant': 'base'}]
        evaluate(ctx, cases, 'replay')
        cross_variant_check(ctx, cases)
    elif c['kind'] == 'meta':
        base = [tuple(e) for e in c['base_edges']]
        qs = shape_queries(base)
        cases = [{'factory': c['factory'], 'edges': base, 'model_edges': base, 'queries': qs, 'variant': 'base'},
                 {'factory': c['factory'], 'edges': edges, 'model_edges': base, 'queries': qs, 'variant': 'replayed'}]
        evaluate(ctx, cases, 'replay')
        cross_variant_check(ctx, cases)
    else:
        cases = [{'factory': c['factory'], 'edges': edges, 'model_edges': edges, 'queries': shape_queries(edges), 'variant': 'base'}]
        evaluate(ctx, cases, 'replay')
