"""C07 — the ontology store cache stays correct under repeats, failures, crashes and races (store/_api.py)."""
import builtins
import io
import itertools
import json
import os
import shutil
import sys
import tempfile
import threading
import warnings

from common import run_driver

RULE = ('real OntologyStore with injected fake release / remote services. (1) sequential histories (all of length <= 2 over the op '
        'alphabet, random ones up to length 6) over {load(type, release|latest) x remote outcome in {ok, unknown release, tags raise, '
        'fetch raises, read raises, write fails after k in {0, 1, len-1} bytes}, load_minimal_hpo/load_hpo convenience forms, clear(type), '
        'clear(), resolve_store_path(latest), a foreign file (a hidden one at the top level, plain ones inside a type directory)} x {absolute, relative} store dir x directory names with glob metacharacters / blanks / a leading dot: after EVERY op the cache files with their bytes, the number '
        'of other entries, the fetch log and the result (loaded == loading the remote bytes directly / failed) must equal the Lean '
        'model\'s world; (2) crash points: each load re-run in a forked child that _exit()s at the j-th I/O boundary (audit events open/'
        'mkdir/rename/remove/rmtree/mkstemp, os.stat, fake remote fetch/read, write proxy) for every j: surviving tree must satisfy the '
        'invariant (every file at a cache location byte-identical to the remote payload), a healthy reload must succeed, no cache path may '
        'ever be opened for writing, and the observed trace of file-system primitives (with the bytes the rename source holds at that moment) '
        'must be Disciplined according to the order-free model Hpv.StoreTrace (whether the boundary kinds also follow the step sequence of '
        'Hpv.Store.stepLoader is recorded, not demanded; a loader with hundreds of boundaries is killed at a sample of them: ends and middle of '
        'every run of equal boundaries); (3) schedules: two real loader '
        'threads (same key / different keys / load vs clear) serialised by a baton handed over only at boundaries, all two-switch '
        'schedules plus random ones, invariant evaluated on the real tree at every boundary; (4) the SHIPPED GitHubOntologyReleaseService / '
        'GitHubRemoteOntologyService behind a fake `urlopen` (tag listings in which every day 01..31 and every month 01..12 is the '
        'greatest tag once, near-miss names, empty listings, random ASCII listings): production tags and the latest must be the Lean '
        "model's (Hpv.Tags), the URL downloaded and the cache content must be those of that release. Remote responses return at most "
        '5-7 bytes per SIZED read (legal short reads). Non-trivial: a fault, a crash, a repeated '
        'load or a second thread is involved; distinct by the whole history / crash point / schedule.')

THEOREM = 'Hpv.Props.C07.*'
TAGS = {'HPO': ['v2022-10-05', 'v2023-10-09', 'v2023-01-27'], 'MAxO': ['v2023-03-09'], 'MONDO': []}
P = 'http://purl.obolibrary.org/obo/'


def payload(ty, rel):
    pre = {'HPO': 'HP', 'MAxO': 'MAXO', 'MONDO': 'MONDO'}[ty]
    n = 2 + (sum(map(ord, rel)) % 4)
    nodes = [{'id': f'{P}{pre}_000000{i}', 'lbl': f'{ty} {rel} {i}', 'type': 'CLASS'} for i in range(1, n + 2)]
    edges = [{'sub': f'{P}{pre}_000000{i}', 'pred': 'is_a', 'obj': f'{P}{pre}_0000001'} for i in range(2, n + 2)]
    return json.dumps({'graphs': [{'id': pre.lower(), 'nodes': nodes, 'edges': edges,
                                   'meta': {'version': f'{P}{pre.lower()}/releases/{rel[1:]}/{pre.lower()}.json'}}]}).encode()


def rel_index(ty, rel):
    """tags as naturals for the model: index in sorted order (lexicographic == chronological for vYYYY-MM-DD); unknown -> 99"""
    tags = sorted(TAGS[ty] + (EXTRA_RELEASES if ty == 'HPO' else []))
    return tags.index(rel) if rel in tags else 99


# releases that exist on the remote but are not listed as tags (explicit loads only); two of them differ in letter case only
EXTRA_RELEASES = ['v2021-01-01', 'v2021-01-01-RC1', 'v2021-01-01-rc1']


def all_keys():
    return [(ty, r) for ty in TAGS for r in TAGS[ty]] + [('HPO', r) for r in EXTRA_RELEASES]


REMOTE = {k: payload(*k) for k in all_keys()}


def dump_onto(o):
    return [o.version, len(o), sorted(t.value for t in o.term_ids)]


_SIG = {}


def payload_sig(ty, rel):
    """what loading the remote bytes directly gives"""
    if (ty, rel) not in _SIG:
        import hpotk
        d = tempfile.mkdtemp(prefix='verif-c07-sig-')
        try:
            p = os.path.join(d, 'x.json')
            with open(p, 'wb') as fh:
                fh.write(REMOTE[(ty, rel)])
            pre = {'HPO': 'HP', 'MAxO': 'MAXO', 'MONDO': 'MONDO'}[ty]
            _SIG[(ty, rel)] = dump_onto(hpotk.load_minimal_ontology(p, prefixes_of_interest={pre}))
        finally:
            shutil.rmtree(d, ignore_errors=True)
    return _SIG[(ty, rel)]


# ------------------------------------------------------------------ instrumentation (process-global, switchable)

class Instr:
    root = None          # store dir (absolute) to watch; None = off
    on_boundary = None   # callable(kind, detail)
    write_plan = None    # None or k: the next write under root fails after k bytes
    rename_info = None   # (source path, bytes it holds) of the rename whose boundary is being reported

    quiet = threading.local()   # set while the harness itself inspects the tree

    @staticmethod
    def boundary(kind, detail=''):
        if Instr.root is not None and Instr.on_boundary is not None and not getattr(Instr.quiet, 'on', False):
            Instr.on_boundary(kind, detail)


def _under_root(p):
    try:
        return Instr.root is not None and os.path.abspath(os.fsdecode(p)).startswith(Instr.root)
    except Exception:  # noqa
        return False


def _audit(event, args):
    if Instr.root is None:
        return
    if event == 'open':
        path, mode = args[0], args[1]
        if isinstance(path, (str, bytes)) and _under_root(path):
            Instr.boundary('open:w' if mode and any(c in str(mode) for c in 'wax+') else 'open:r', os.path.abspath(os.fsdecode(path)))
    elif event in ('os.mkdir', 'os.remove', 'os.rmdir', 'shutil.rmtree', 'os.listdir', 'os.scandir'):
        if args and isinstance(args[0], (str, bytes)) and _under_root(args[0]):
            Instr.boundary(event, os.path.abspath(os.fsdecode(args[0])))
    elif event == 'os.rename':
        if _under_root(args[1]):
            try:
                with _real_open(args[0], 'rb') as fh:
                    held = fh.read()
            except Exception:  # noqa
                held = None
            Instr.rename_info = (os.path.abspath(os.fsdecode(args[0])), held)      # what is about to be moved, as it is NOW
            Instr.boundary('rename', os.path.abspath(os.fsdecode(args[1])))
    elif event == 'tempfile.mkstemp':
        Instr.boundary('mkstemp', str(args[0]))


_installed = False
_real_stat = os.stat
_real_fdopen = os.fdopen
_real_open = builtins.open


class WriteProxy:
    def __init__(self, real):
        self._real = real

    def write(self, data):
        Instr.boundary('write', '')
        k = Instr.write_plan
        if k is not None:
            Instr.write_plan = None
            self._real.write(data[:k])
            self._real.flush()
            raise OSError(28, 'No space left on device (injected)')
        return self._real.write(data)

    def __enter__(self):
        return self

    def close(self):
        Instr.boundary('close', '')          # the buffered bytes reach the file only here
        return self._real.close()

    def __exit__(self, *a):
        self.close()
        return False

    def __getattr__(self, name):
        return getattr(self._real, name)


def install():
    global _installed
    if _installed:
        return
    _installed = True
    sys.addaudithook(_audit)

    def stat(path, *a, **k):
        if Instr.root is not None and isinstance(path, (str, bytes)) and _under_root(path):
            Instr.boundary('stat', os.path.abspath(os.fsdecode(path)))
        return _real_stat(path, *a, **k)
    os.stat = stat

    def fdopen(fd, mode='r', *a, **k):
        f = _real_fdopen(fd, mode, *a, **k)
        try:
            target = os.readlink(f'/proc/self/fd/{fd}')
        except OSError:
            target = ''
        if Instr.root is not None and any(c in mode for c in 'wax+') and target.startswith(Instr.root):
            return WriteProxy(f)
        return f
    os.fdopen = fdopen

    def open_(file, mode='r', *a, **k):
        f = _real_open(file, mode, *a, **k)
        if Instr.root is not None and any(c in mode for c in 'wax+') and 'b' in mode:
            if isinstance(file, (str, bytes)):
                target = os.path.abspath(os.fsdecode(file))
            elif isinstance(file, int):
                try:
                    target = os.readlink(f'/proc/self/fd/{file}')
                except OSError:
                    target = ''
            else:
                target = ''
            if target.startswith(Instr.root):
                return WriteProxy(f)
        return f
    builtins.open = open_
    io.open = open_          # `tempfile` and friends look `open` up in `io`


# ------------------------------------------------------------------ fakes

def services(plan_holder):
    from hpotk.store import OntologyReleaseService, RemoteOntologyService

    class Resp(io.BytesIO):
        def read(self, *a):
            Instr.boundary('read', '')
            if plan_holder.get('read') == 'fail':
                plan_holder['read'] = 'ok'
                raise ConnectionError('injected: transfer failed')
            if a and a[0] is not None and a[0] >= 0:
                return super().read(min(a[0], 7))      # a sized read may legally return fewer bytes than asked for
            return super().read(*a)

    class Rel(OntologyReleaseService):
        def fetch_tags(self, ontology_type):
            if plan_holder.get('tags') == 'fail':
                plan_holder['tags'] = 'ok'
                raise ConnectionError('injected: tag service down')
            return iter(list(TAGS[ontology_type.name]))

    class Rem(RemoteOntologyService):
        def __init__(self):
            self.calls = []

        def fetch_ontology(self, ontology_type, release):
            Instr.boundary('fetch', f'{ontology_type.name} {release}')
            self.calls.append([ontology_type.name, release])
            if plan_holder.get('fetch') == 'fail':
                plan_holder['fetch'] = 'ok'
                raise ConnectionError('injected: fetch failed')
            key = (ontology_type.name, release)
            if key not in REMOTE:
                raise ValueError(f'unknown release {release}')
            return Resp(REMOTE[key])
    return Rel(), Rem()


def make_store(store_dir, plan_holder):
    from hpotk.store import OntologyStore
    rel, rem = services(plan_holder)
    return OntologyStore(store_dir, rel, rem), rem


def tree(abs_dir):
    """cache files {(TY, rel): bytes} and the number of other entries (files and unexpected things) below the store dir"""
    cache, other = {}, 0
    ident = {'HP': 'HPO', 'MAXO': 'MAxO', 'MONDO': 'MONDO'}
    if not os.path.isdir(abs_dir):
        return cache, other
    for d in sorted(os.listdir(abs_dir)):
        dp = os.path.join(abs_dir, d)
        if d in ident and os.path.isdir(dp):
            for f in sorted(os.listdir(dp)):
                fp = os.path.join(dp, f)
                pre = d.lower() + '.'
                if f.startswith(pre) and f.endswith('.json') and os.path.isfile(fp):
                    cache[(ident[d], f[len(pre):-5])] = _real_open(fp, 'rb').read()
                else:
                    other += 1
        else:
            other += 1
    return cache, other


def invariant_problem(abs_dir):
    Instr.quiet.on = True
    try:
        cache, _ = tree(abs_dir)
    finally:
        Instr.quiet.on = False
    for (ty, rel), data in cache.items():
        if REMOTE.get((ty, rel)) != data:
            return f'file at the cache location of {ty} {rel} holds {len(data)} bytes != the {len(REMOTE.get((ty, rel), b""))} bytes the remote serves'
    return None


def do_load(store, ty, rel, form='generic'):
    from hpotk.store import OntologyType
    ot = OntologyType[ty]
    with warnings.catch_warnings():
        warnings.simplefilter('ignore')
        if form == 'load_minimal_hpo':
            return dump_onto(store.load_minimal_hpo(release=rel))
        if form == 'load_hpo':
            return dump_onto(store.load_hpo(release=rel))
        pre = {'HPO': 'HP', 'MAxO': 'MAXO', 'MONDO': 'MONDO'}[ty]
        return dump_onto(store.load_minimal_ontology(ot, release=rel, prefixes_of_interest={pre}))


# ------------------------------------------------------------------ (1) sequential histories

def model_ops(ops):
    out = []
    for op in ops:
        if op[0] == 'load':
            _, ty, rel, plan, _form = op
            mp = {}
            for k in ('tags', 'fetch', 'read'):
                if plan.get(k) == 'fail':
                    mp[k] = 'fail'
            if plan.get('write') is not None:
                mp['write'] = plan['write']
            out.append(['load', ty, None if rel is None else rel_index(ty, rel), mp])
        elif op[0] == 'clear':
            out.append(['clear', op[1]])
        elif op[0] == 'stray':
            out.append(['stray', op[1], op[2], [115, 116, 114, 97, 121]])
        else:
            out.append(['latest', op[1]])
    return out


def run_history(ctx, ops, relative, stream):
    parent = tempfile.mkdtemp(prefix='verif-c07-')
    # the store directory's NAME is legal but awkward for every other history: glob metacharacters, blanks, a leading dot
    dname = ['store', 'cache[0-9]', 'store', 'hpo-toolkit [v1]', 'store', 'a*b?c', 'store', '.hidden-store'][(len(ops) + sum(len(str(o)) for o in ops)) % 8]
    abs_dir = os.path.join(parent, dname)
    os.mkdir(abs_dir)
    cwd = os.getcwd()
    req = {'op': 'store.run', 'remote': [[ty, rel_index(ty, r), list(REMOTE[(ty, r)])] for ty, r in all_keys()],
           'tags': [[ty, [rel_index(ty, r) for r in TAGS[ty]]] for ty in TAGS], 'ops': model_ops(ops)}
    model = run_driver([req])[0]
    nt = len(ops) >= 2 or any(op[0] == 'load' and op[3] for op in ops)
    ctx.case(['history', ops, relative], nt, stream, sample={'ops': ops, 'relative_store_dir': relative} if nt else None)
    plan_holder = {}
    try:
        if relative:
            os.chdir(parent)
        store, rem = make_store(dname if relative else abs_dir, plan_holder)
        Instr.root, Instr.on_boundary = abs_dir, None
        for i in range(len(ops)):
            op, m = ops[i], model[i]
            plan_holder.clear()
            Instr.write_plan = None
            try:
                if op[0] == 'load':
                    plan_holder.update({k: v for k, v in op[3].items() if k != 'write'})
                    Instr.write_plan = op[3].get('write')
                    res = {'loaded': do_load(store, op[1], op[2], op[4])}
                elif op[0] == 'clear':
                    from hpotk.store import OntologyType
                    store.clear(None if op[1] is None else OntologyType[op[1]])
                    res = 'ok'
                elif op[0] == 'stray':
                    # somebody else drops a file below the store dir: at the top level, or inside a type directory
                    d = abs_dir if op[1] is None else os.path.join(abs_dir, {'HPO': 'HP', 'MAxO': 'MAXO', 'MONDO': 'MONDO'}[op[1]])
                    os.makedirs(d, exist_ok=True)
                    with _real_open(os.path.join(d, '.DS_Store' if op[2] == 1 else f'stray-{op[2]}.txt'), 'wb') as fh:
                        fh.write(b'stray')
                    res = 'ok'
                else:
                    from hpotk.store import OntologyType
                    path = store.resolve_store_path(OntologyType[op[1]], None)
                    res = {'latest': os.path.basename(path).split('.', 1)[1][:-5]}
            except Exception as e:  # noqa
                res = f'failed:{type(e).__name__}'
            if op[0] == 'load' and op[3].get('write') is not None and Instr.write_plan is not None:
                # the injected write fault never fired (a cache hit, or the code writes through a channel the harness does not
                # intercept): what the model predicts must not assume it did
                ctx.count('history.write-fault-not-reached')
                ops = [list(o) for o in ops]
                ops[i] = [op[0], op[1], op[2], {k: v for k, v in op[3].items() if k != 'write'}, op[4]]
                req['ops'] = model_ops(ops)
                model = run_driver([req])[0]
                m = model[i]
            cache, other = tree(abs_dir)
            mw = m['world']
            m_cache = {(ty, r): bytes(c) for ty, r, c in mw['cache']}
            i_cache = {(ty, rel_index(ty, r)): c for (ty, r), c in cache.items()}
            # result
            mr = m['result']
            ok = True
            if op[0] == 'load':
                if isinstance(mr, dict):
                    ty, r, c = mr['loaded']
                    want = next(payload_sig(t2, r2) for (t2, r2) in all_keys() if t2 == ty and rel_index(t2, r2) == r)
                    ok = isinstance(res, dict) and res['loaded'] == want
                else:
                    ok = isinstance(res, str) and res.startswith('failed')
            elif op[0] in ('clear', 'stray'):
                ok = res == 'ok'
            else:
                ok = (mr is None and isinstance(res, str)) or (mr is not None and isinstance(res, dict) and rel_index(op[1], res['latest']) == mr)
            fetches_i = [[ty, rel_index(ty, r)] for ty, r in rem.calls]
            problem = None
            if not ok:
                problem = {"what": f'result-of-{op[0]}', 'impl': res, 'model': mr}
            elif i_cache != m_cache:
                problem = {"what": 'cache-files', 'impl': {f'{k[0]} {k[1]}': len(v) for k, v in i_cache.items()},
                           'model': {f'{k[0]} {k[1]}': len(v) for k, v in m_cache.items()}}
            elif other != mw['tmp']:
                problem = {"what": 'stray-entries', 'impl': other, 'model': mw['tmp']}
            elif fetches_i != mw['fetches']:
                problem = {"what": 'fetch-log', 'impl': fetches_i, 'model': mw['fetches']}
            if problem:
                ctx.violation(f'history:{problem["what"]}', {'case': {'kind': 'history', 'ops': ops, 'relative': relative, 'failing_op_index': i},
                                                             'disagreement': problem, 'theorem': THEOREM})
                return
    finally:
        Instr.root = None
        Instr.write_plan = None
        os.chdir(cwd)
        shutil.rmtree(parent, ignore_errors=True)


def op_alphabet():
    loads = []
    for ty, rel in (('HPO', 'v2023-10-09'), ('HPO', None), ('HPO', 'v2022-10-05'), ('MAxO', 'v2023-03-09'), ('MAxO', None), ('MONDO', None),
                    ('HPO', 'v1999-01-01'), ('HPO', 'v2021-01-01-RC1'), ('HPO', 'v2021-01-01-rc1')):
        loads.append(['load', ty, rel, {}, 'generic'])
    L = len(REMOTE[('HPO', 'v2023-10-09')])
    for plan in ({'fetch': 'fail'}, {'read': 'fail'}, {'write': 0}, {'write': 1}, {'write': L - 1}, {'tags': 'fail'}):
        loads.append(['load', 'HPO', None if 'tags' in plan else 'v2023-10-09', plan, 'generic'])
    loads.append(['load', 'HPO', 'v2023-10-09', {}, 'load_minimal_hpo'])
    loads.append(['load', 'HPO', None, {}, 'load_hpo'])
    loads.append(['load', 'MAxO', 'v2023-03-09', {'read': 'fail'}, 'generic'])
    others = [['clear', 'HPO'], ['clear', 'MAxO'], ['clear', None], ['latest', 'HPO'], ['latest', 'MAxO'], ['latest', 'MONDO'],
              ['stray', None, 1], ['stray', 'HPO', 2], ['stray', 'MAxO', 3]]
    return loads + others


# ------------------------------------------------------------------ (2) crash points

EXPECTED_ORDER = ['mkstemp', 'fetch', 'read', 'write', 'close', 'rename', 'open:r']


def other_device_tmp():
    """a directory for temporary files on ANOTHER file system than the one the scratch stores live on (tmpfs /dev/shm against the disk), or None"""
    try:
        here = os.stat(tempfile.gettempdir()).st_dev
        for cand in ('/dev/shm', '/run/shm', '/var/tmp', os.path.expanduser('~')):
            if os.path.isdir(cand) and os.access(cand, os.W_OK) and os.stat(cand).st_dev != here:
                return tempfile.mkdtemp(prefix='verif-c07-tmp-', dir=cand)
    except OSError:
        pass
    return None


def crash_points(ctx, prior_ops, target, stream, tmp_elsewhere=None):
    """run `prior_ops` normally, then `target` (a load) in a forked child killed at its j-th boundary, for every j;
    `tmp_elsewhere`: the process's temporary directory (TMPDIR) is this directory, which lies on another file system than the store"""
    install()

    def child_run(abs_dir, kill_at, report_fd):
        if tmp_elsewhere:
            os.environ['TMPDIR'] = tmp_elsewhere
            tempfile.tempdir = tmp_elsewhere
        trace = []
        plan_holder = {}
        store, rem = make_store(abs_dir, plan_holder)
        for op in prior_ops:
            try:
                if op[0] == 'load':
                    do_load(store, op[1], op[2], op[4])
                else:
                    from hpotk.store import OntologyType
                    store.clear(None if op[1] is None else OntologyType[op[1]])
            except Exception:  # noqa
                pass

        def on_boundary(kind, detail):
            if kind == 'rename' and Instr.rename_info is not None:
                src, held = Instr.rename_info
                trace.append([kind, detail, src, None if held is None else list(held)])
            else:
                trace.append([kind, detail])
            if kill_at is not None and len(trace) == kill_at:
                os.write(report_fd, json.dumps([t[:2] for t in trace]).encode())
                os._exit(77)
        initial, _ = tree(abs_dir)          # what the earlier operations left at cache locations
        Instr.root, Instr.on_boundary = abs_dir, on_boundary
        plan_holder.update({k: v for k, v in target[3].items() if k != 'write'})
        Instr.write_plan = target[3].get('write')
        try:
            res = {'loaded': do_load(store, target[1], target[2], target[4])}
        except Exception as e:  # noqa
            res = f'failed:{type(e).__name__}'
        Instr.root = None
        os.write(report_fd, json.dumps({'trace': trace, 'res': res, 'initial': [[ty, r, list(c)] for (ty, r), c in initial.items()]}).encode())
        os._exit(0)

    def fork_run(kill_at):
        parent = tempfile.mkdtemp(prefix='verif-c07-crash-')
        abs_dir = os.path.join(parent, 'store')
        os.mkdir(abs_dir)
        r, w = os.pipe()
        pid = os.fork()
        if pid == 0:
            os.close(r)
            try:
                child_run(abs_dir, kill_at, w)
            finally:
                os._exit(3)
        os.close(w)
        data = b''
        while True:
            chunk = os.read(r, 65536)
            if not chunk:
                break
            data += chunk
        os.close(r)
        _, status = os.waitpid(pid, 0)
        return parent, abs_dir, json.loads(data.decode()) if data else None, os.WEXITSTATUS(status)

    parent, abs_dir, rep, _ = fork_run(None)
    shutil.rmtree(parent, ignore_errors=True)
    if rep is None:
        ctx.violation('crash:uninterrupted-run-died', {'case': {'kind': 'crash', 'prior_ops': prior_ops, 'target': target}}, no_input=False)
        return
    full_trace = rep['trace']
    trace = [t[:2] for t in full_trace]
    kinds = [k for k, _ in trace]
    cache_paths = {os.path.join(abs_dir, {'HPO': 'HP', 'MAxO': 'MAXO', 'MONDO': 'MONDO'}[ty], f'{ {"HPO": "hp", "MAxO": "maxo", "MONDO": "mondo"}[ty] }.{r}.json') for ty, r in all_keys()}
    # step structure of an uninterrupted run vs the step sequence of the loader model (Hpv.Store.stepLoader): information only.
    # A loader that does its steps in another order or in another number of pieces is covered by the second model
    # (Hpv.StoreTrace: ANY program over file-system primitives), whose hypothesis is evaluated on the observed trace below.
    if isinstance(rep['res'], dict) and 'fetch' in kinds:
        seq = [k for k, d in trace if k in EXPECTED_ORDER and not (k == 'open:r' and not d.endswith('.json'))]
        first = []
        for k in seq:
            if k not in first:
                first.append(k)
        same = first == EXPECTED_ORDER and 'stat' in kinds[:kinds.index('fetch')]
        ctx.count('crash.step-structure.' + ('as-in-the-loader-model' if same else 'different-from-the-loader-model'))
        if not same and not any(n.startswith('C07: the loader') for n in ctx.notes):
            ctx.notes.append(f'C07: the loader of the working tree does its I/O steps in another order / number than Hpv.Store.stepLoader '
                             f'({first} vs {EXPECTED_ORDER}); crash safety is decided through Hpv.StoreTrace (discipline of the observed trace)')
    key_paths = {}
    for k, (ty, r) in enumerate(all_keys()):
        key_paths[os.path.join(abs_dir, {'HPO': 'HP', 'MAxO': 'MAXO', 'MONDO': 'MONDO'}[ty], f'{ {"HPO": "hp", "MAxO": "maxo", "MONDO": "mondo"}[ty] }.{r}.json')] = k
    others = {}

    def wire_path(pth):
        if pth in key_paths:
            return ['cache', key_paths[pth]]
        return ['other', others.setdefault(pth, len(others))]
    t_ops, origin = [], []          # model operations and the boundary each one comes from (-1: the state the earlier operations left)
    for n0, (ty, r, content) in enumerate(rep.get('initial', [])):
        # a file the earlier operations left at a cache location enters the model through the same gate as a rename (it must be complete)
        where = next((['cache', k] for k, key in enumerate(all_keys()) if key == (ty, r)), ['cache', 10 ** 5 + n0])
        src = ['other', 10 ** 6 + n0]
        t_ops += [['create', src], ['append', src, content], ['rename', src, where]]
        origin += [-1, -1, -1]
    for j, t in enumerate(full_trace):
        kind, detail = t[0], t[1]
        if kind == 'open:w':
            new = [['create', wire_path(detail)]]
        elif kind == 'rename':
            src = wire_path(t[2] if len(t) > 2 else detail + '#unknown-source')
            new = ([['create', src], ['append', src, t[3]]] if len(t) > 3 and t[3] is not None else []) + [['rename', src, wire_path(detail)]]
        elif kind == 'os.remove':
            new = [['remove', wire_path(detail)]]
        elif kind == 'shutil.rmtree':
            new = [['remove', wire_path(p_)] for p_ in list(key_paths) + list(others) if p_.startswith(detail.rstrip('/') + '/')] or [['noop']]
        else:
            new = [['noop']]
        t_ops += new
        origin += [j] * len(new)
    verdict = run_driver([{'op': 'store.trace', 'remote': [[k, list(REMOTE[key])] for k, key in enumerate(all_keys())], 'ops': t_ops}])[0]
    ctx.count('crash.trace.' + ('disciplined' if verdict.get('disciplined') else 'NOT-disciplined'))
    undisciplined = None
    if not verdict.get('disciplined'):
        b = origin[verdict['first_bad']] if verdict.get('first_bad') is not None else None
        undisciplined = {'first_bad_boundary': b, 'boundary': None if b is None or b < 0 else trace[b], 'model_op': t_ops[verdict['first_bad']][:2] if verdict.get('first_bad') is not None else verdict}
    for k, d in trace:
        if k == 'open:w' and any(d == cp for cp in [p.replace(abs_dir, abs_dir) for p in cache_paths]):
            ctx.violation('crash:cache-path-opened-for-writing', {'case': {'kind': 'crash', 'prior_ops': prior_ops, 'target': target},
                                                                  'impl_boundaries': trace, 'theorem': 'Hpv.Props.C07.no_incomplete_file (model: cache paths only appear as rename targets)'})
            return
    points = kill_points(trace, 120 if ctx.tier == 'thorough' else 48)
    if len(points) < len(trace):
        ctx.count('crash.kill-points-sampled(loader with very many boundaries)')
    for j in points:
        parent, abs_dir, rep_j, code = fork_run(j)
        try:
            ctx.case(['crash', prior_ops, target, j], True, stream,
                     sample={'prior_ops': prior_ops, 'target': target, 'killed_before_boundary': [j, trace[j - 1][0]]} if j in (1, len(trace) // 2) else None)
            ctx.count(f'crash.at.{trace[j - 1][0]}')
            prob = invariant_problem(abs_dir)
            if not prob and 'rename' in kinds[:j - 1] and target[1:3] != ['x', 'x']:
                cache, _ = tree(abs_dir)
                if not cache:
                    prob = 'killed after the rename boundary but no file is at the cache location'
            reload = None
            if not prob:
                # a later load from a healthy remote must succeed and return the remote content
                store, _ = make_store(abs_dir, {})
                ty = target[1]
                rel = target[2] or max(TAGS[ty])
                try:
                    done, got = bounded(lambda: do_load(store, ty, rel), RELOAD_LIMIT)
                    if not done:
                        prob = f'healthy reload after the kill did not return within {RELOAD_LIMIT} s (something the dead loader left behind blocks it)'
                    elif got != payload_sig(ty, rel):
                        prob = f'healthy reload returned {got} != {payload_sig(ty, rel)}'
                except Exception as e:  # noqa
                    prob = f'healthy reload failed: {type(e).__name__}: {e}'
            if prob:
                ctx.violation(f'crash:{trace[j - 1][0]}', {'case': {'kind': 'crash', 'prior_ops': prior_ops, 'target': target, 'kill_at_boundary': j,
                                                                    'tmpdir_on_another_device': bool(tmp_elsewhere)},
                                                          'boundaries': kinds, 'impl': prob, 'trace_discipline': undisciplined or 'holds',
                                                          'theorem': 'Hpv.Props.C07.no_incomplete_file / any_program_no_incomplete_file / later_load_succeeds'})
                return
        finally:
            shutil.rmtree(parent, ignore_errors=True)
    if undisciplined:
        # the hypothesis of the theorem does not hold for what the code did, and no kill point exhibited a failure
        ctx.violation('crash:trace-not-disciplined', {'case': {'kind': 'crash', 'prior_ops': prior_ops, 'target': target}, 'impl_boundaries': kinds,
                                                      'broken_obligation': undisciplined,
                                                      'theorem': 'Hpv.Props.C07.any_program_no_incomplete_file (hypothesis Disciplined, evaluated on the observed trace)'},
                      no_input=True)


RELOAD_LIMIT = 25        # seconds a load from a healthy remote may take before it counts as "does not succeed" (it takes milliseconds)


def bounded(fn, seconds):
    """(True, fn()) - re-raising what fn raised - or (False, None) when fn has not returned after `seconds` (it is left behind in a daemon thread)"""
    import threading
    box = {}

    def work():
        try:
            box['value'] = fn()
        except BaseException as e:  # noqa
            box['error'] = e
    th = threading.Thread(target=work, daemon=True)
    th.start()
    th.join(seconds)
    if th.is_alive():
        return False, None
    if 'error' in box:
        raise box['error']
    return True, box['value']


# ------------------------------------------------------------------ (3) schedules

class Baton:
    def __init__(self, schedule, abs_dir):
        self.schedule, self.pos, self.cv = list(schedule), 0, threading.Condition()
        self.done, self.trace, self.abs_dir, self.problem = set(), [], abs_dir, None

    def boundary(self, kind, detail):
        tid = getattr(threading.current_thread(), 'vid', None)
        if tid is None:
            return
        with self.cv:
            while True:
                while self.pos < len(self.schedule) and self.schedule[self.pos] in self.done:
                    self.pos += 1
                if self.pos >= len(self.schedule) or self.schedule[self.pos] == tid:
                    if self.pos < len(self.schedule):
                        self.pos += 1
                    self.trace.append([tid, kind])
                    if self.problem is None:
                        self.problem = invariant_problem(self.abs_dir)
                        if self.problem:
                            self.problem = f'at boundary #{len(self.trace)} ({tid}:{kind}): ' + self.problem
                    self.cv.notify_all()
                    return
                if not self.cv.wait(2.0):
                    # the scheduled thread is blocked outside a boundary: let anyone proceed
                    self.pos += 1

    def finish(self, tid):
        with self.cv:
            self.done.add(tid)
            self.cv.notify_all()


def run_schedule(ctx, jobs, schedule, stream):
    """jobs: list of ('load', ty, rel) / ('clear', ty); one thread each"""
    install()
    Instr.write_plan = None          # a fault plan that an earlier scenario never consumed must not fire here
    parent = tempfile.mkdtemp(prefix='verif-c07-sched-')
    abs_dir = os.path.join(parent, 'store')
    os.mkdir(abs_dir)
    baton = Baton(schedule, abs_dir)
    results = {}
    stores = [make_store(abs_dir, {})[0] for _ in jobs]

    def worker(i):
        threading.current_thread().vid = i
        job = jobs[i]
        try:
            if job[0] == 'load':
                results[i] = {'loaded': do_load(stores[i], job[1], job[2])}
            else:
                from hpotk.store import OntologyType
                stores[i].clear(None if job[1] is None else OntologyType[job[1]])
                results[i] = 'ok'
        except Exception as e:  # noqa
            results[i] = f'failed:{type(e).__name__}: {e}'
        finally:
            baton.finish(i)
    ctx.case(['schedule', jobs, schedule], True, stream, sample={'jobs': jobs, 'schedule': schedule} if len(schedule) > 6 and ctx.evaluations % 50 == 0 else None)
    try:
        Instr.root, Instr.on_boundary = abs_dir, baton.boundary
        ths = [threading.Thread(target=worker, args=(i,)) for i in range(len(jobs))]
        for t in ths:
            t.start()
        for t in ths:
            t.join(30)
        Instr.root = None
        prob = baton.problem or invariant_problem(abs_dir)
        has_clear = any(j[0] == 'clear' for j in jobs)
        if not prob:
            for i, job in enumerate(jobs):
                r = results.get(i)
                if job[0] == 'load':
                    rel = job[2] or max(TAGS[job[1]])
                    if isinstance(r, dict):
                        if r['loaded'] != payload_sig(job[1], rel):
                            prob = f'loader {i} returned {r} != the remote content {payload_sig(job[1], rel)}'
                    elif not has_clear:
                        prob = f'loader {i} failed although the remote is healthy and nobody clears: {r}'
                elif r != 'ok' and not (isinstance(r, str) and 'failed' in r and len(jobs) > 1):
                    prob = f'clear failed: {r}'
        if not prob:
            # later load from a healthy remote
            for job in jobs:
                if job[0] == 'load':
                    rel = job[2] or max(TAGS[job[1]])
                    try:
                        if do_load(make_store(abs_dir, {})[0], job[1], rel) != payload_sig(job[1], rel):
                            prob = 'later healthy load returned different content'
                    except Exception as e:  # noqa
                        prob = f'later healthy load failed: {type(e).__name__}: {e}'
        if prob:
            ctx.violation('schedule', {'case': {'kind': 'schedule', 'jobs': jobs, 'schedule': schedule}, 'boundary_trace': baton.trace, 'results': results,
                                       'impl': prob, 'theorem': 'Hpv.Props.C07.no_incomplete_file / loaded_is_remote / later_load_succeeds'})
            return False
        return len(baton.trace)
    finally:
        Instr.root = None
        shutil.rmtree(parent, ignore_errors=True)


def spread(lo, hi, step, cap):
    """lo, lo+step, ... up to hi; when these are more than `cap`, `cap` of them evenly spread (both ends kept)"""
    vals = list(range(lo, hi + 1, step))
    if len(vals) <= cap:
        return vals
    return sorted({vals[round(i * (len(vals) - 1) / (cap - 1))] for i in range(cap)})


def kill_points(trace, cap):
    """the boundaries (1-based) before which the child is killed: all of them, or - for a loader with very many boundaries - the ends
    and the middle of every run of equal boundaries plus an even spread"""
    n = len(trace)
    if n <= cap:
        return list(range(1, n + 1))
    keep, i = set(), 0
    while i < n:
        j = i
        while j + 1 < n and trace[j + 1][0] == trace[i][0]:
            j += 1
        keep.update({i + 1, min(i + 2, j + 1), (i + j) // 2 + 1, max(j, i + 1), j + 1})
        i = j + 1
    if len(keep) > cap:
        ordered = sorted(keep)
        keep = {ordered[k] for k in spread(0, len(ordered) - 1, 1, cap)}
    else:
        keep.update(spread(1, n, 1, cap - len(keep)) if cap - len(keep) >= 2 else [])
    return sorted(keep)


def schedules(ctx, rng, thorough):
    scenarios = [
        [['load', 'HPO', 'v2023-10-09'], ['load', 'HPO', 'v2023-10-09']],
        [['load', 'HPO', 'v2023-10-09'], ['load', 'HPO', 'v2022-10-05']],
        [['load', 'HPO', None], ['load', 'MAxO', None]],
        [['load', 'HPO', 'v2023-10-09'], ['clear', 'HPO']],
        [['load', 'HPO', 'v2023-10-09'], ['clear', None]],
    ]
    for jobs in scenarios:
        n = run_schedule(ctx, jobs, [0] * 40 + [1] * 40, 'schedules.sequential')
        if n is False:
            return
        per = max(6, n // 2 + 2)
        # all two-switch schedules: 0 runs a steps, 1 runs b steps, 0 finishes, 1 finishes (and the mirror image)
        step = 1 if thorough else 2
        cap = 28 if thorough else 14          # a loader with hundreds of boundaries (chunked transfers): evenly spread switch points
        for a in spread(0, per, step, cap):
            for b in spread(1, per, step, cap):
                for first in (0, 1):
                    sched = [first] * a + [1 - first] * b + [first] * 40 + [1 - first] * 40
                    if run_schedule(ctx, jobs, sched, 'schedules.two-switch') is False:
                        return
        for _ in range(60 if thorough else 12):
            sched = [rng.randrange(2) for _ in range(3 * per)]
            if run_schedule(ctx, jobs, sched, 'schedules.random') is False:
                return


# ------------------------------------------------------------------ (4) the shipped GitHub services behind a fake `urlopen`

GH_REPOS = {'obophenotype/human-phenotype-ontology': 'HPO', 'monarch-initiative/MAxO': 'MAxO', 'monarch-initiative/mondo': 'MONDO'}
JUNK_TAGS = ['v2024-12-12X', 'v2024-1-01', '2024-01-01', 'V2024-01-01', 'v2024-01-01-rc1', 'vv2024-01-01', 'v2024-01-011', 'hp/v2024-01-01',
             'v2024_01_01', ' v2024-01-01', 'v2024-01-01 ', 'v24-01-01', 'v2024-01', 'latest', '', 'v2024-0a-01', 'v9999-99-9', 'x2024-01-01']       # ASCII names only: Python's \\d also matches other Unicode decimal digits, the model's isDigit is ASCII


def github_layer(ctx, rng, thorough):
    """OntologyStore wired to GitHubOntologyReleaseService / GitHubRemoteOntologyService exactly as `configure_ontology_store` does,
    with `hpotk.store._github.urlopen` replaced by a fake GitHub: which of the listed tag names are releases, which one is the
    latest, which URL is downloaded and what ends up in the cache."""
    import re
    import urllib.error
    import hpotk.store._github as gh
    from hpotk.store import OntologyStore, OntologyType, GitHubOntologyReleaseService, GitHubRemoteOntologyService
    state = {'tags': [], 'requests': []}

    class Dribble(io.BytesIO):
        def read(self, *a):
            if a and a[0] is not None and a[0] >= 0:
                return super().read(min(a[0], 5))
            return super().read(*a)

    def fake_urlopen(url, *a, **k):
        state['requests'].append(url)
        m = re.match(r'^https://api\.github\.com/repos/([^/]+/[^/]+)/tags$', url)
        if m and m.group(1) in GH_REPOS:
            return io.BytesIO(json.dumps([{'name': n, 'commit': {'sha': '0' * 40}} for n in state['tags']]).encode())
        m = re.match(r'^https://github\.com/([^/]+/[^/]+)/releases/download/([^/]+)/([a-z]+)\.json$', url)
        if m and m.group(1) in GH_REPOS:
            ty = GH_REPOS[m.group(1)]
            if m.group(3) == {'HPO': 'hp', 'MAxO': 'maxo', 'MONDO': 'mondo'}[ty] and m.group(2) in state['tags']:
                return Dribble(payload(ty, m.group(2)))
        raise urllib.error.HTTPError(url, 404, 'Not Found', None, None)

    cases = []
    for d in range(1, 32):          # every day number as the greatest tag's day, every month number as its month
        cases.append([f'v2021-10-{d:02d}', 'v2021-09-30', rng.choice(JUNK_TAGS), 'v2020-12-31'])
    for mth in range(1, 13):
        cases.append(['v2020-12-31', rng.choice(JUNK_TAGS), f'v2021-{mth:02d}-15', f'v2021-{mth:02d}-15x'])
    cases += [[], ['v2024-12-12X'], JUNK_TAGS, ['v0000-00-00'], ['v9999-99-99', 'v2024-01-01'], ['v2024-01-01']]
    for _ in range(120 if thorough else 30):
        names = []
        for _ in range(rng.randrange(1, 9)):
            r = rng.random()
            if r < 0.6:
                names.append(f'v{rng.choice([1999, 2021, 2022, 2023, 2024])}-{rng.randrange(0, 14):02d}-{rng.randrange(0, 33):02d}')
            else:
                names.append(rng.choice(JUNK_TAGS))
        cases.append(names)
    reps = run_driver([{'op': 'store.tags', 'names': [[ord(ch) for ch in n] for n in names]} for names in cases])
    real = gh.urlopen
    gh.urlopen = fake_urlopen
    try:
        for names, rep in zip(cases, reps):
            ty = rng.choice(['HPO', 'MAxO', 'MONDO'])
            ot = OntologyType[ty]
            want_tags = [n for n, p in zip(names, rep['prod']) if p]
            want_latest = None if rep['latest'] is None else ''.join(chr(c) for c in rep['latest'])
            ctx.case(['github', ty, names], True, 'github-services(fake urlopen)', sample={'type': ty, 'listed_tags': names, 'model_latest': want_latest} if len(cases) % 7 == 0 or names == cases[9] else None)
            state['tags'], state['requests'] = list(names), []
            parent = tempfile.mkdtemp(prefix='verif-c07-gh-')
            problem = None
            try:
                try:
                    got_tags = list(GitHubOntologyReleaseService().fetch_tags(ot))
                except ValueError:
                    got_tags = 'ValueError'
                except Exception as e:  # noqa
                    got_tags = f'raises {type(e).__name__}: {e}'
                if names and got_tags != want_tags:
                    problem = {'clause': 'production tags', 'impl': got_tags, 'model': want_tags}
                elif not names and got_tags not in ('ValueError', []):
                    problem = {'clause': 'production tags of an empty listing', 'impl': got_tags, 'model': []}
                if problem is None:
                    store = OntologyStore(os.path.join(parent, 'store'), GitHubOntologyReleaseService(), GitHubRemoteOntologyService())
                    state['requests'] = []
                    try:
                        with warnings.catch_warnings():
                            warnings.simplefilter('ignore')
                            got = dump_onto(store.load_minimal_ontology(ot, prefixes_of_interest={{'HPO': 'HP', 'MAxO': 'MAXO', 'MONDO': 'MONDO'}[ty]}))
                    except Exception as e:  # noqa
                        got = f'raises {type(e).__name__}'
                    cache, other = tree(os.path.join(parent, 'store'))
                    downloads = [u for u in state['requests'] if '/releases/download/' in u]
                    if want_latest is None:
                        if not (isinstance(got, str) and got.startswith('raises')) or cache or downloads:
                            problem = {'clause': 'no production tag listed', 'impl': {'result': got, 'cache': sorted(map(list, cache)), 'downloads': downloads},
                                       'model': 'an error, nothing downloaded, nothing cached'}
                    else:
                        repo = [r for r, t in GH_REPOS.items() if t == ty][0]
                        url = f'https://github.com/{repo}/releases/download/{want_latest}/{ {"HPO": "hp", "MAxO": "maxo", "MONDO": "mondo"}[ty] }.json'
                        want_bytes = payload(ty, want_latest)
                        if downloads != [url] or cache != {(ty, want_latest): want_bytes} or other:
                            problem = {'clause': 'latest release', 'impl': {'downloads': downloads, 'cache': {f'{k[0]} {k[1]}': len(v) for k, v in cache.items()},
                                                                          'other_entries': other, 'result': str(got)[:200]},
                                       'model': {'download': url, 'cache': {f'{ty} {want_latest}': len(want_bytes)}}}
            finally:
                shutil.rmtree(parent, ignore_errors=True)
            if problem:
                ctx.violation(f'github:{problem["clause"]}', {'case': {'kind': 'github', 'type': ty, 'listed_tags': names}, **problem,
                                                            'theorem': 'Hpv.Props.C07.latest_production_tag / no_incomplete_file'})
    finally:
        gh.urlopen = real


def probe_store():
    """a release whose labels are not ASCII goes through the store (fetch, cache, load) and is loaded again from the cache"""
    from hpotk.store import OntologyStore, OntologyReleaseService, RemoteOntologyService, OntologyType
    doc = json.dumps({'graphs': [{'id': 'hp', 'nodes': [{'id': P + 'HP_0000001', 'lbl': 'Tout é ß 病 😀', 'type': 'CLASS'},
                                                        {'id': P + 'HP_0000002', 'lbl': 'Anomalie ü', 'type': 'CLASS'}],
                                  'edges': [{'sub': P + 'HP_0000002', 'pred': 'is_a', 'obj': P + 'HP_0000001'}],
                                  'meta': {'version': P + 'hp/releases/2024-01-01/hp.json'}}]}, ensure_ascii=False).encode('utf-8')

    class Rel(OntologyReleaseService):
        def fetch_tags(self, ontology_type):
            return iter(['v2024-01-01'])

    class Rem(RemoteOntologyService):
        def fetch_ontology(self, ontology_type, release):
            return io.BytesIO(doc)
    d = tempfile.mkdtemp(prefix='verif-c07-env-')
    out = {}
    try:
        store = OntologyStore(os.path.join(d, 'store'), Rel(), Rem())
        for k in ('first load', 'cache hit'):
            try:
                o = store.load_minimal_hpo()
                out[k] = sorted([t.identifier.value, [ord(ch) for ch in t.name]] for t in o.terms)
            except Exception as e:  # noqa
                out[k] = f'raises {type(e).__name__}'
        cache, other = tree(os.path.join(d, 'store'))
        out['cache is the served bytes'] = cache == {('HPO', 'v2024-01-01'): doc} and other == 0
    finally:
        shutil.rmtree(d, ignore_errors=True)
    return out


def environment_probe(ctx):
    import common
    here = probe_store()
    there = common.run_in_child('c07', 'probe_store', common.HOSTILE_ENV)
    ctx.case(['environment-probe'], True, 'store under an ASCII locale / UTF-8 mode off (child interpreter)', sample={'this process': str(here)[:200]})
    want = {'first load': here['first load'], 'cache hit': here['first load'], 'cache is the served bytes': True}
    if here != want or there != want:
        ctx.violation('environment', {'case': {'kind': 'environment', 'env': common.HOSTILE_ENV}, 'impl': {'this process': here, 'hostile environment': there},
                                      'theorem': 'Hpv.Props.C07.loaded_is_remote (what is loaded equals loading the served bytes, whatever the locale)'})


def moving_tags(ctx):
    """the release service answers differently from one call to the next (a release is published while a load is running): whatever
    tag a file is NAMED after, it must hold that release's bytes, and what was loaded is a release that was listed"""
    from hpotk.store import OntologyStore, OntologyReleaseService, RemoteOntologyService, OntologyType
    listings = [['v2023-10-09'], ['v2023-10-09', 'v2024-06-06'], ['v2023-10-09', 'v2024-06-06', 'v2024-09-09']]
    for shift in range(3):
        calls = {'n': shift}

        class Rel(OntologyReleaseService):
            def fetch_tags(self, ontology_type):
                calls['n'] += 1
                return iter(listings[min(calls['n'] - 1, 2)])

        class Rem(RemoteOntologyService):
            def fetch_ontology(self, ontology_type, release):
                return io.BytesIO(payload('HPO', release))
        d = tempfile.mkdtemp(prefix='verif-c07-moving-')
        ctx.case(['moving-tags', shift], True, 'release listing changes between calls', sample={'listings': listings, 'first_call_sees': shift})
        problem = None
        try:
            store = OntologyStore(os.path.join(d, 'store'), Rel(), Rem())
            for k in range(2):
                try:
                    got = dump_onto(store.load_minimal_hpo())
                except Exception as e:  # noqa
                    got = f'raises {type(e).__name__}'
                cache, other = tree(os.path.join(d, 'store'))
                for (ty, rel), data in cache.items():
                    if data != payload('HPO', rel):
                        problem = f'after load #{k + 1} the cache file named after {rel} does not hold the bytes of release {rel}'
                sigs = []
                for rel in listings[2]:
                    p = os.path.join(d, f'sig-{rel}.json')
                    with _real_open(p, 'wb') as fh:
                        fh.write(payload('HPO', rel))
                    import hpotk
                    sigs.append(dump_onto(hpotk.load_minimal_ontology(p, prefixes_of_interest={'HP'})))
                if problem is None and got not in sigs:
                    problem = f'load #{k + 1} returned {got}, which is none of the listed releases'
        finally:
            shutil.rmtree(d, ignore_errors=True)
        if problem:
            ctx.violation('moving-tags', {'case': {'kind': 'moving-tags', 'first_call_sees': shift}, 'impl': problem,
                                          'theorem': 'Hpv.Props.C07.no_incomplete_file (a cache file holds the bytes the remote serves for ITS key)'})


def configured_store(ctx):
    """`configure_ontology_store`: the platform default directory ($HOME/.hpo-toolkit, created on demand), an existing directory,
    a missing directory (ValueError); the store it returns caches and clears like any other"""
    from hpotk.store import configure_ontology_store, OntologyType
    home = tempfile.mkdtemp(prefix='verif-c07-home-')
    old_home = os.environ.get('HOME')
    os.environ['HOME'] = home
    try:
        rel, rem = services({})
        for how in ('default', 'existing', 'missing'):
            ctx.case(['configure', how], True, 'configure_ontology_store', sample={'store_dir': how})
            problem = None
            try:
                if how == 'default':
                    store = configure_ontology_store(ontology_release_service=rel, remote_ontology_service=rem)
                    want_dir = os.path.join(home, '.hpo-toolkit')
                elif how == 'existing':
                    want_dir = os.path.join(home, 'explicit')
                    os.mkdir(want_dir)
                    store = configure_ontology_store(store_dir=want_dir, ontology_release_service=rel, remote_ontology_service=rem)
                else:
                    try:
                        configure_ontology_store(store_dir=os.path.join(home, 'no-such-dir'), ontology_release_service=rel, remote_ontology_service=rem)
                        problem = 'a missing store_dir was accepted'
                    except ValueError:
                        pass
                    continue
                if os.path.abspath(store.store_dir) != want_dir or not os.path.isdir(want_dir):
                    problem = f'store_dir {store.store_dir!r} != {want_dir!r} (or it does not exist)'
                else:
                    got = do_load(store, 'HPO', None)
                    cache, other = tree(want_dir)
                    latest = max(TAGS['HPO'])
                    if got != payload_sig('HPO', latest) or cache != {('HPO', latest): REMOTE[('HPO', latest)]} or other:
                        problem = f'load through the configured store: result {got}, cache {sorted(cache)}, other entries {other}'
                    else:
                        store.clear()
                        cache, other = tree(want_dir)
                        if cache or other:
                            problem = f'clear() left {sorted(cache)} / {other} entries'
            except Exception as e:  # noqa
                problem = f'raises {type(e).__name__}: {e}'
            finally:
                if problem:
                    ctx.violation(f'configure:{how}', {'case': {'kind': 'configure', 'store_dir': how}, 'impl': problem, 'theorem': THEOREM})
    finally:
        if old_home is None:
            os.environ.pop('HOME', None)
        else:
            os.environ['HOME'] = old_home
        shutil.rmtree(home, ignore_errors=True)


def run(ctx):
    rng = ctx.rng
    thorough = ctx.tier == 'thorough'
    install()
    environment_probe(ctx)
    moving_tags(ctx)
    configured_store(ctx)
    github_layer(ctx, rng, thorough)
    alpha = op_alphabet()
    # (1) histories
    hist = [[a] for a in alpha] + [[a, b] for a in alpha for b in alpha]
    if thorough:
        hist += [[a, b, c] for a in alpha[:10] + alpha[-6:] for b in alpha[:10] + alpha[-6:] for c in alpha[:6] + alpha[-6:]]
    for k, ops in enumerate(hist):
        run_history(ctx, ops, relative=(k % 2 == 1), stream='histories.exhaustive')
    ctx.exhaustive['all histories of length <= 2 over the op alphabet (alternating absolute / relative store dir)'] = True
    for _ in range(1500 if thorough else 250):
        ops = [rng.choice(alpha) for _ in range(rng.randrange(3, 7))]
        run_history(ctx, ops, relative=rng.random() < 0.5, stream='histories.random')
    # (2) crash points
    L = len(REMOTE[('HPO', 'v2023-10-09')])
    targets = [['load', 'HPO', 'v2023-10-09', {}, 'generic'], ['load', 'HPO', None, {}, 'load_minimal_hpo'], ['load', 'MAxO', 'v2023-03-09', {}, 'generic'],
               ['load', 'HPO', 'v2023-10-09', {'read': 'fail'}, 'generic'], ['load', 'HPO', 'v2023-10-09', {'write': 1}, 'generic'],
               ['load', 'HPO', 'v2023-10-09', {'fetch': 'fail'}, 'generic']]
    priors = [[], [['load', 'HPO', 'v2022-10-05', {}, 'generic']], [['load', 'HPO', 'v2023-10-09', {}, 'generic'], ['clear', 'HPO']]]
    for target in targets:
        for prior in (priors if thorough else priors[:2]):
            crash_points(ctx, prior, target, 'crash-points')
    # the same with the process's TMPDIR on another file system than the store (a rename from there cannot be atomic)
    elsewhere = other_device_tmp()
    if elsewhere:
        try:
            for target in targets[:2] + targets[4:5]:
                crash_points(ctx, [], target, 'crash-points.tmpdir-on-another-device', tmp_elsewhere=elsewhere)
        finally:
            shutil.rmtree(elsewhere, ignore_errors=True)
    else:
        ctx.count('crash.no-second-file-system-available')
    # (3) schedules
    schedules(ctx, rng, thorough)


def replay(ctx, data):
    c = data['case']
    install()
    if c['kind'] == 'history':
        run_history(ctx, c['ops'], c['relative'], 'replay')
    elif c['kind'] == 'crash':
        elsewhere = other_device_tmp() if c.get('tmpdir_on_another_device') else None
        try:
            crash_points(ctx, c['prior_ops'], c['target'], 'replay', tmp_elsewhere=elsewhere)
        finally:
            if elsewhere:
                shutil.rmtree(elsewhere, ignore_errors=True)
    elif c['kind'] == 'github':
        github_layer(ctx, ctx.rng, False)
    elif c['kind'] == 'configure':
        configured_store(ctx)
    elif c['kind'] == 'environment':
        environment_probe(ctx)
    elif c['kind'] == 'moving-tags':
        moving_tags(ctx)
    else:
        run_schedule(ctx, c['jobs'], c['schedule'], 'replay')
