"""C01 — parent/child/ancestor/descendant queries equal the (transitive closure of the) is_a edges."""
import graphlib as gl

RULE = ('every node of every generated graph x {children, parents, ancestors, descendants} x include_source in {F,T} x the three '
        'shipped factories; answers compared as sorted CURIE lists WITH multiplicity against the Lean model (which is proved equal '
        'to the edge list / its transitive closure). Exhaustive: every DAG on <= 4 positions x every assignment of k labels from '
        'label sets stressing ordering; random: chains, trees, stars, forests, layered diamonds, shortcut edges, dense DAGs, edges '
        'shuffled / grouped by subject / grouped by object. A case (graph, factory) is non-trivial when the graph has a node with '
        '>= 2 parents, or >= 2 parentless terms, or a path of length >= 3; distinct by (factory, edge list).')

THEOREM = 'Hpv.Props.C01.*'


def queries_for(edges):
    _, TermId, _, _ = gl._hp()
    qs = []
    for v in gl.nodes_of(edges):
        t = TermId.from_curie(v)
        for q in gl.QS:
            for incl in (False, True):
                qs.append((['q', q, v, incl], ['q', q, t, incl]))
    return qs


def nontrivial(c):
    f = gl.graph_features(c['edges'])
    return f['multi_parent'] or f['parentless'] >= 2 or f['longest_path'] >= 3


def mk_cases(edges, tag=None):
    qs = queries_for(edges)
    return [{'factory': f, 'edges': edges, 'queries': qs, 'tag': tag} for f in gl.FACTORIES]


def run(ctx):
    rng = ctx.rng
    thorough = ctx.tier == 'thorough'
    label_sets = gl.LABEL_SETS if thorough else gl.LABEL_SETS[:3]
    for k in (2, 3, 4):
        cases = []
        for edges in gl.exhaustive_graphs(k, label_sets):
            cases.extend(mk_cases(edges))
            if len(cases) >= 1500:
                gl.evaluate_cases(ctx, cases, f'exhaustive.k={k}', THEOREM, nontrivial)
                cases = []
        gl.evaluate_cases(ctx, cases, f'exhaustive.k={k}', THEOREM, nontrivial)
        ctx.exhaustive[f'all DAGs on {k} positions x all label assignments from {len(label_sets)} label sets x 3 factories'] = True
    if thorough:
        cases = []
        import itertools
        ls = gl.LABEL_SETS[0]
        for shape in gl.small_dags(5):
            perm = list(ls)
            rng.shuffle(perm)
            cases.extend(mk_cases([(perm[a], perm[b]) for a, b in shape]))
            if len(cases) >= 1500:
                gl.evaluate_cases(ctx, cases, 'exhaustive-shapes.k=5(random labels)', THEOREM, nontrivial)
                cases = []
        gl.evaluate_cases(ctx, cases, 'exhaustive-shapes.k=5(random labels)', THEOREM, nontrivial)
    cases = []
    for _ in range(1500 if thorough else 250):
        edges, shape, order = gl.random_dag(rng, n=rng.randrange(2, 40 if thorough else 16))
        ctx.count(f'random.shape.{shape}')
        ctx.count(f'random.order.{order}')
        cases.extend(mk_cases(edges, tag=f'{shape}/{order}'))
    for i in range(0, len(cases), 600):
        gl.evaluate_cases(ctx, cases[i:i + 600], 'random', THEOREM, nontrivial)
    # long chain / wide star
    for n in ((200, 400) if thorough else (120,)):
        chain = [(f'HP:{i:07d}', f'HP:{i - 1:07d}') for i in range(1, n)]
        star = [(f'HP:{i:07d}', 'HP:0000000') for i in range(1, n)]
        for edges in (chain, star):
            _, TermId, _, _ = gl._hp()
            ends = [edges[0][1], edges[-1][0], edges[len(edges) // 2][0]]
            qs = [(['q', q, v, incl], ['q', q, TermId.from_curie(v), incl]) for v in ends for q in gl.QS for incl in (False, True)]
            gl.evaluate_cases(ctx, [{'factory': f, 'edges': edges, 'queries': qs, 'tag': 'long'} for f in gl.FACTORIES],
                              'long-chain/star', THEOREM, nontrivial)


def replay(ctx, data):
    c = data['case']
    _, TermId, _, _ = gl._hp()
    edges = [tuple(e) for e in c['edges']]
    gl.evaluate_cases(ctx, [x for x in mk_cases(edges) if x['factory'] == c['factory']], 'replay', THEOREM, nontrivial)
