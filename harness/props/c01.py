"""C01 — parent/child/ancestor/descendant queries equal the (transitive closure of the) is_a edges."""
import graphlib as gl

RULE = ('every node of every generated graph x {children, parents, ancestors, descendants} x include_source in {F,T} x the three '
        'shipped factories; answers compared as sorted CURIE lists WITH multiplicity against the Lean model (which is proved equal '
        'to the edge list / its transitive closure). Exhaustive: every DAG on <= 4 positions x every assignment of k labels from '
        'label sets stressing ordering; random: chains, trees, stars, forests, layered diamonds, shortcut edges, dense DAGs, edges '
        'shuffled / grouped by subject / grouped by object. A case (graph, factory) is non-trivial when the graph has a node with '
        '>= 2 parents, or >= 2 parentless terms, or a path of length >= 3; distinct by (factory, edge list). Plus big graphs (chain of '
        '1150, tree with shortcuts of 500, star of 700, 7-root forest of 300 nodes, complete DAGs of 40 nodes / 780 edges and of 370 nodes / 68 265 edges and a star of '
        '66 500 nodes, i.e. beyond 2^16 edges and beyond 2^16 nodes; larger in the thorough tier) whose answers '
        'for sampled nodes are compared with an independent closure computed by the harness (integer widths, recursion depth).')

THEOREM = 'Hpv.Props.C01.*'


def queries_for(edges):
    _, TermId, _, _ = gl._hp()
    qs = []
    nodes = gl.nodes_of(edges)
    # on small graphs the very first thing a fresh graph is asked are PREDICATES (a predicate may stop a traversal at its first hit,
    # so whatever the graph remembers from it is incomplete): what a query returns does not depend on what was asked before
    if len(nodes) <= 8 and len(edges) % 2 == 0:
        for a in nodes:
            for b in nodes:
                for p in ('ancestorOf', 'descendantOf'):
                    qs.append((['pred', p, a, b], ['pred', p, TermId.from_curie(a), TermId.from_curie(b)]))
    for v in nodes:
        t = TermId.from_curie(v)
        for q in gl.QS:
            for incl in (False, True):
                qs.append((['q', q, v, incl], ['q', q, t, incl]))
    # the source may be given as an object that merely carries the id (or as a CURIE): what comes back are the graph's NODES
    for v in nodes[:4]:
        for q in gl.QS:
            qs.append((['q', q, v, True], ['q', q, gl.mk_arg('idf', v), True]))
            qs.append((['q', q, v, True], ['q', q, v, True]))
    # ... and the closures once more after the graph has answered predicates for nodes it already traversed completely
    if len(nodes) <= 8 and len(edges) % 2 == 1:
        for a in nodes:
            for b in nodes:
                for p in ('ancestorOf', 'descendantOf'):
                    qs.append((['pred', p, a, b], ['pred', p, TermId.from_curie(a), TermId.from_curie(b)]))
        for v in nodes:
            t = TermId.from_curie(v)
            for q in ('ancestors', 'descendants'):
                qs.append((['q', q, v, False], ['q', q, t, False]))
    return qs


def nontrivial(c):
    f = gl.graph_features(c['edges'])
    return f['multi_parent'] or f['parentless'] >= 2 or f['longest_path'] >= 3


def mk_cases(edges, tag=None):
    qs = queries_for(edges)
    return [{'factory': f, 'edges': edges, 'queries': qs, 'tag': tag} for f in gl.FACTORIES]


def run(ctx):
    rng = ctx.rng
    thorough = ctx.tier == 'thorough'
    label_sets = gl.LABEL_SETS if thorough else gl.LABEL_SETS[:3]
    for k in (2, 3, 4):
        cases = []
        for edges in gl.exhaustive_graphs(k, label_sets):
            cases.extend(mk_cases(edges))
            if len(cases) >= 1500:
                gl.evaluate_cases(ctx, cases, f'exhaustive.k={k}', THEOREM, nontrivial)
                cases = []
        gl.evaluate_cases(ctx, cases, f'exhaustive.k={k}', THEOREM, nontrivial)
        ctx.exhaustive[f'all DAGs on {k} positions x all label assignments from {len(label_sets)} label sets x 3 factories'] = True
    if thorough:
        cases = []
        import itertools
        ls = gl.LABEL_SETS[0]
        for shape in gl.small_dags(5):
            perm = list(ls)
            rng.shuffle(perm)
            cases.extend(mk_cases([(perm[a], perm[b]) for a, b in shape]))
            if len(cases) >= 1500:
                gl.evaluate_cases(ctx, cases, 'exhaustive-shapes.k=5(random labels)', THEOREM, nontrivial)
                cases = []
        gl.evaluate_cases(ctx, cases, 'exhaustive-shapes.k=5(random labels)', THEOREM, nontrivial)
    cases = []
    for _ in range(1500 if thorough else 250):
        edges, shape, order = gl.random_dag(rng, n=rng.randrange(2, 40 if thorough else 16))
        ctx.count(f'random.shape.{shape}')
        ctx.count(f'random.order.{order}')
        cases.extend(mk_cases(edges, tag=f'{shape}/{order}'))
    for i in range(0, len(cases), 600):
        gl.evaluate_cases(ctx, cases[i:i + 600], 'random', THEOREM, nontrivial)
    big_graphs(ctx, rng, thorough)
    gl.factory_after_failure(ctx, rng, THEOREM)
    # long chain / wide star
    for n in ((200, 400) if thorough else (120,)):
        chain = [(f'HP:{i:07d}', f'HP:{i - 1:07d}') for i in range(1, n)]
        star = [(f'HP:{i:07d}', 'HP:0000000') for i in range(1, n)]
        for edges in (chain, star):
            _, TermId, _, _ = gl._hp()
            ends = [edges[0][1], edges[-1][0], edges[len(edges) // 2][0]]
            qs = [(['q', q, v, incl], ['q', q, TermId.from_curie(v), incl]) for v in ends for q in gl.QS for incl in (False, True)]
            gl.evaluate_cases(ctx, [{'factory': f, 'edges': edges, 'queries': qs, 'tag': 'long'} for f in gl.FACTORIES],
                              'long-chain/star', THEOREM, nontrivial)


def big_graphs(ctx, rng, thorough):
    """hierarchies far beyond the modelled scopes (more than 127 / 255 / 1000 nodes: numpy integer widths, recursion depth, chunk
    sizes), checked against an independent closure computed here; the Lean model is not involved (it is proved for every size)"""
    _, TermId, _, _ = gl._hp()
    sizes = {'chain': 1150 if not thorough else 2600, 'tree+shortcuts': 500 if not thorough else 1500, 'star': 700 if not thorough else 3000,
             'multi-root-forest': 300 if not thorough else 900,
             # beyond 2^15 edges with few nodes, and beyond 2^16 nodes: where 16-bit offsets / indices would wrap
             'dense-small': 40, 'dense': 370, 'huge-star': 66500, **({'huge-chain': 70000} if thorough else {})}
    for shape, n in sizes.items():
        ids = [f'HP:{i:07d}' for i in rng.sample(range(1, 50 * n), n)]
        if shape in ('chain', 'huge-chain'):
            edges = [(ids[i], ids[i - 1]) for i in range(1, n)]
        elif shape in ('star', 'huge-star'):
            edges = [(ids[i], ids[0]) for i in range(1, n)]
        elif shape in ('dense', 'dense-small'):
            edges = [(ids[j], ids[i]) for j in range(1, n) for i in range(j)]
        elif shape == 'tree+shortcuts':
            edges = [(ids[i], ids[rng.randrange(i)]) for i in range(1, n)]
            for _ in range(n // 3):
                j = rng.randrange(2, n)
                edges.append((ids[j], ids[rng.randrange(j)]))
            edges = list(dict.fromkeys(edges))
        else:
            roots = 7
            edges = [(ids[i], ids[rng.randrange(max(roots, 1)) if i < 3 * roots else rng.randrange(i)]) for i in range(roots, n)]
        rng.shuffle(edges)
        par, chi = {}, {}
        for a, b in edges:
            par.setdefault(a, set()).add(b)
            chi.setdefault(b, set()).add(a)
        parentless = sorted(x for x in set(ids[:n]) & (set(par) | set(chi)) if x not in par)
        if len(parentless) > 1:
            for r in parentless:
                par.setdefault(r, set()).add('owl:Thing')
                chi.setdefault('owl:Thing', set()).add(r)

        def closure(rel, v):
            seen, todo = set(), [v]
            while todo:
                for y in rel.get(todo.pop(), ()):
                    if y not in seen:
                        seen.add(y)
                        todo.append(y)
            return seen
        probes = [edges[0][0], edges[-1][1]] + rng.sample(ids[:n], 8) + (['owl:Thing'] if len(parentless) > 1 else parentless[:1])
        for f in gl.FACTORIES:
            if f == 'builder' and (n > 1600 or shape == 'dense'):
                continue            # the deprecated builder is quadratic
            ctx.case(['big', shape, n, f], True, 'big-graphs(independent oracle)', sample={'shape': shape, 'nodes': n, 'factory': f})
            try:
                g = gl.build_impl(f, edges)
                problem = None
                for v in probes:
                    t = TermId.from_curie(v)
                    want = {'parents': sorted(par.get(v, ())), 'children': sorted(chi.get(v, ())),
                            'ancestors': sorted(closure(par, v)), 'descendants': sorted(closure(chi, v))}
                    for q in gl.QS:
                        got = sorted(x.value for x in getattr(g, 'get_' + q)(t))
                        got_incl = sorted(x.value for x in getattr(g, 'get_' + q)(t, True))
                        if got != want[q] or got_incl != sorted(want[q] + [v]):
                            problem = f'get_{q}({v}) on a {shape} of {n} nodes: {len(got)} / {len(got_incl)} elements, expected {len(want[q])} / {len(want[q]) + 1}'
                            break
                    if problem:
                        break
            except Exception as e:  # noqa
                problem = f'raises {type(e).__name__}: {str(e)[:200]}'
            if problem:
                ctx.violation(f'{f}:big:{shape}', {'case': {'kind': 'big', 'factory': f, 'shape': shape, 'n': n, 'edges': [list(e) for e in edges]},
                                                   'impl': problem, 'theorem': THEOREM})


def replay(ctx, data):
    c = data['case']
    if c.get('kind') == 'big':
        big_graphs(ctx, ctx.rng, ctx.tier == 'thorough')
        return
    _, TermId, _, _ = gl._hp()
    edges = [tuple(e) for e in c['edges']]
    gl.evaluate_cases(ctx, [x for x in mk_cases(edges) if x['factory'] == c['factory']], 'replay', THEOREM, nontrivial)
