"""C09 — information content = -log of the propagated annotation frequency (algorithm/similarity/_ic.py)."""
import math
import warnings

import graphlib as gl
from common import run_driver

RULE = ('random single-rooted DAG ontologies under HP:0000001 (n <= 14; 25 thorough) x annotated-item corpora (0-6 items x 0-6 '
        'annotations, present/excluded, repeated terms, terms at any depth) x base in {None, 2, 10, 2.0, 10.0, 1.5, e, 2.5, 10.5, 3, 16, 1.0001, 1000} x use_pseudocount x '
        'module_root in {None, any node}. The model returns integer counts and the population; checked: key set equal to the model\'s, '
        'each IC within 1e-9 (relative) of -log_base(c/p), (module) root IC == 0, no IC < 0, IC non-decreasing along every is_a edge '
        'inside the key set, and the result unchanged when items are shuffled or excluded annotations are dropped. Non-trivial: some '
        'present annotation lies below a multi-parent term, or a module / pseudocount option is on; distinct by the whole case.')

THEOREM = 'Hpv.Props.C09.*'


def build_world(edges, items_spec):
    import hpotk
    from hpotk.model import MinimalTerm, TermId
    from hpotk.ontology import create_minimal_ontology
    from hpotk.annotations import SimpleHpoDiseases, SimpleHpoDisease, SimpleHpoDiseaseAnnotation
    g = gl.build_impl('indexed', edges)
    terms = [MinimalTerm.create_minimal_term(t, name=t.value, alt_term_ids=(), is_obsolete=False) for t in g]
    onto = create_minimal_ontology(g, terms, 'v1')
    diseases = []
    for i, anns in enumerate(items_spec):
        al = [SimpleHpoDiseaseAnnotation(TermId.from_curie(c), 1 if present else 0, 1, (), ()) for c, present in anns]
        if i % 3 == 1 and len(al) >= 2:
            # the item is built with OTHER annotations and its collection is edited afterwards (the caller owns a list it passed in and
            # may go on working with what `annotations` hands out): what counts is what the item holds when the IC is computed
            decoy = SimpleHpoDiseaseAnnotation(al[0].identifier, 0 if al[0].is_present else 1, 1, (), ())
            d = SimpleHpoDisease(TermId.from_curie(f'OMIM:{100000 + i}'), f'd{i}', [decoy] + al[:1], ())
            live = d.annotations
            if isinstance(live, list):
                del live[0]
                live[0] = al[0]
                live.extend(al[1:])
                diseases.append(d)
                continue
        diseases.append(SimpleHpoDisease(TermId.from_curie(f'OMIM:{100000 + i}'), f'd{i}', al, ()))
    return onto, SimpleHpoDiseases(diseases, 'v2')


BASES = [None, None, None, 2, 10, 1.5, 2.0, 10.0, math.e, 2.5, 10.5, 3, 16, 2.9999, 1.0001, 1000]


class ViewsDisagree(Exception):
    pass


def impl_ic(edges, items_spec, base, module, pseudo, lazy_from=None):
    from hpotk.model import TermId
    from hpotk.algorithm.similarity import calculate_ic_for_annotated_items
    onto, items = build_world(edges, items_spec)
    if lazy_from is not None:
        # one more item whose annotations are produced LAZILY from the very graph the computation walks (a generator over a traversal)
        from hpotk.annotations import SimpleHpoDiseases, SimpleHpoDiseaseAnnotation
        g = onto.graph

        class LazyItem:
            identifier = TermId.from_curie('OMIM:999999')
            name = 'lazy'

            @property
            def annotations(self):
                return (SimpleHpoDiseaseAnnotation(t, 1, 1, (), ()) for t in g.get_descendants(TermId.from_curie(lazy_from), True))

            def present_annotations(self):
                return self.annotations

            def absent_annotations(self):
                return iter(())
        items = SimpleHpoDiseases(list(items) + [LazyItem()], 'v2')
    with warnings.catch_warnings():
        warnings.simplefilter('ignore')
        c = calculate_ic_for_annotated_items(items, onto, base=base, module_root=None if module is None else TermId.from_curie(module),
                                             use_pseudocount=pseudo)
    out = {k.value: float(v) for k, v in c.items()}
    # every way of reading the result gives the same numbers
    absent = TermId.from_curie('ZZ:404')
    for k in c:
        if not (c[k] == c.get(k) == c.get(k, -1.0) == out[k.value]) or k not in c:
            raise ViewsDisagree(f'ic[{k.value}] = {c[k]!r}, get = {c.get(k)!r}, get(default) = {c.get(k, -1.0)!r}, in = {k in c}')
    if len(c) != len(out) or c.get(absent) is not None or c.get(absent, 7.0) != 7.0 or absent in c:
        raise ViewsDisagree(f'len {len(c)} vs {len(out)} items; get(absent) = {c.get(absent)!r}; absent in result = {absent in c}')
    return out


def close(a, b):
    return abs(a - b) <= 1e-9 * (1 + abs(b))


def evaluate(ctx, cases, stream, offset=0):
    reqs = [{'op': 'ic.counts', 'edges': [list(e) for e in c['edges']], 'terms': gl.nodes_of(c['edges']),
             'items': [[[cu, p] for cu, p in anns] for anns in c['items']], 'pseudo': c['pseudo'], 'module': c['module']} for c in cases]
    reps = run_driver(reqs)
    for idx, (c, rep) in enumerate(zip(cases, reps)):
        counts = {k: v for k, v in rep['counts']}
        pop = rep['population']
        feats = gl.graph_features(c['edges'])
        nt = (feats['multi_parent'] and any(p for anns in c['items'] for _, p in anns)) or c['module'] is not None or c['pseudo']
        ctx.case(['ic', c['edges'], c['items'], c['base'], c['module'], c['pseudo']], nt, stream,
                 sample={k: c[k] for k in ('edges', 'items', 'base', 'module', 'pseudo')} if nt and counts else None)
        ctx.count(f'base.{c["base"]}')
        ctx.count(f'module.{"on" if c["module"] else "off"}.pseudo.{"on" if c["pseudo"] else "off"}')
        problem = None
        try:
            ic = impl_ic(c['edges'], c['items'], c['base'], c['module'], c['pseudo'])
            if set(ic) != set(counts):
                problem = {'what': 'key-set', 'impl_only': sorted(set(ic) - set(counts)), 'model_only': sorted(set(counts) - set(ic))}
            else:
                for k, cnt in counts.items():
                    want = -math.log(cnt / pop) if c['base'] is None else -math.log(cnt / pop, c['base'])
                    if not close(ic[k], want):
                        problem = {'what': 'value', 'term': k, 'impl': ic[k], 'model': {'count': cnt, 'population': pop, 'expected_ic': want}}
                        break
                rootk = c['module'] or 'HP:0000001'
                if not problem and rootk in ic and ic[rootk] != 0:
                    problem = {'what': 'root-not-zero', 'impl': ic[rootk]}
                if not problem and any(v < 0 for v in ic.values()):
                    problem = {'what': 'negative-ic', 'impl': {k: v for k, v in ic.items() if v < 0}}
                if not problem:
                    for s, o in c['edges']:
                        if s in ic and o in ic and ic[s] < ic[o] - 1e-9:
                            problem = {'what': 'ic-decreases-to-descendant', 'edge': [s, o], 'impl': [ic[s], ic[o]]}
                            break
            if not problem and c['items']:
                # metamorphic: shuffled items, excluded annotations dropped
                shuffled = list(reversed([list(reversed(a)) for a in c['items']]))
                dropped = [[x for x in a if x[1]] for a in c['items']]
                for name, variant in (('shuffled', shuffled), ('excluded-dropped', dropped)):
                    ic2 = impl_ic(c['edges'], variant, c['base'], c['module'], c['pseudo'])
                    if set(ic2) != set(ic) or any(not close(ic2[k], ic[k]) for k in ic):
                        problem = {'what': f'metamorphic-{name}', 'impl': ic2, 'base_result': ic}
                        break
                if not problem and idx % 3 == 0:
                    # an item whose annotations come lazily out of a traversal of the same graph == the same item given as a list
                    chi = {}
                    for a, b in c['edges']:
                        chi.setdefault(b, set()).add(a)
                    x = gl.nodes_of(c['edges'])[idx % len(gl.nodes_of(c['edges']))]
                    seen, todo = {x}, [x]
                    while todo:
                        for y in chi.get(todo.pop(), ()):
                            if y not in seen:
                                seen.add(y)
                                todo.append(y)
                    eager = impl_ic(c['edges'], c['items'] + [[(d, True) for d in sorted(seen)]], c['base'], c['module'], c['pseudo'])
                    lazy = impl_ic(c['edges'], c['items'], c['base'], c['module'], c['pseudo'], lazy_from=x)
                    if set(eager) != set(lazy) or any(not close(eager[k], lazy[k]) for k in eager):
                        problem = {'what': 'lazy-annotations-from-the-same-graph', 'descendants_of': x, 'impl_lazy': lazy, 'impl_eager': eager}
        except Exception as e:  # noqa
            problem = {'what': 'raises', 'impl': f'{type(e).__name__}: {e}'}
        if problem:
            ctx.violation(problem['what'], {'case': {'kind': 'ic', **{k: c[k] for k in ('edges', 'items', 'base', 'module', 'pseudo')}},
                                            'stream_index': offset + idx,
                                            'disagreement': problem, 'model_counts': counts, 'population': pop, 'theorem': THEOREM})


def random_case(rng, nmax):
    n = rng.randrange(2, nmax)
    labels = ['HP:0000001'] + [f'HP:{i:07d}' for i in rng.sample(range(2, 999), n - 1)]
    edges = set()
    for i in range(1, n):
        for p in rng.sample(range(i), min(i, rng.choice([1, 1, 2, 3]))):
            edges.add((labels[i], labels[p]))
    edges = sorted(edges)
    rng.shuffle(edges)
    items = []
    for _ in range(rng.randrange(0, 7)):
        anns, used = [], set()
        for _ in range(rng.randrange(0, 7)):
            t = rng.choice(labels)
            if t in used and rng.random() < 0.7:
                continue
            used.add(t)
            anns.append((t, rng.random() < 0.7))
        items.append(anns)
    return {'edges': edges, 'items': items, 'base': rng.choice(BASES),
            'module': rng.choice([None, None] + labels), 'pseudo': rng.random() < 0.4}


def all_cases(rng, thorough):
    cases = [random_case(rng, 26 if thorough else 15) for _ in range(3000 if thorough else 500)]
    # hand-written corners: no annotation at all, only excluded ones, annotation outside the module
    chain = [('HP:0000003', 'HP:0000002'), ('HP:0000002', 'HP:0000001'), ('HP:0000004', 'HP:0000001')]
    for pseudo in (False, True):
        for module in (None, 'HP:0000002', 'HP:0000004'):
            cases.append({'edges': chain, 'items': [], 'base': None, 'module': module, 'pseudo': pseudo})
            cases.append({'edges': chain, 'items': [[('HP:0000003', False)]], 'base': 2, 'module': module, 'pseudo': pseudo})
            cases.append({'edges': chain, 'items': [[('HP:0000004', True)], [('HP:0000003', True), ('HP:0000003', True)]], 'base': 10,
                          'module': module, 'pseudo': pseudo})
    return cases


def big_shapes(ctx, only=None):
    """ontologies whose SIZE or DEPTH sits on a boundary - 255 / 256 / 257 terms (thorough: 65 535 / 65 536 / 65 537), a chain of 1600 (4000)
    levels with twigs - with annotations at every depth; the expected counts are computed here from the edge list (ancestor closure by
    dynamic programming over the construction order), independently of the model and of the library's graph"""
    import random
    thorough = ctx.tier == 'thorough'
    shapes = [('dag', 255), ('dag', 256), ('dag', 257), ('chain', 6000 if thorough else 2400)] + ([('dag', 65535), ('dag', 65536), ('dag', 65537)] if thorough else [])
    for kind, n in ([tuple(only)] if only else shapes):
        rng = random.Random(f'{ctx.seed}-c09-{kind}-{n}')
        rest = [f'HP:{i:07d}' for i in rng.sample(range(2, 9000000), n - 1)]       # unsorted: the greatest id may sit anywhere in the hierarchy
        labels = ['HP:0000001'] + rest
        par = {0: []}
        for j in range(1, n):
            if kind == 'chain':
                # a pure chain (nothing shortens the way up) with a twig - a second, leaf child - at every ninth level: the first two thirds of
                # the nodes are the chain, the rest the twigs
                d = (2 * n) // 3
                par[j] = [j - 1] if j < d else [rng.randrange(d)]
            else:
                par[j] = sorted({rng.randrange(j), rng.randrange(max(0, j - 3), j)})
        edges = [(labels[j], labels[i]) for j in range(1, n) for i in par[j]]
        rng.shuffle(edges)
        anc = {0: {0}}
        small = kind != 'chain' and n < 5000
        if small:
            for j in range(1, n):
                anc[j] = {j}.union(*(anc[i] for i in par[j]))
        if not small:
            # closure along a deep chain without quadratic memory: walk up iteratively
            def up(j):
                seen, todo = {j}, [j]
                while todo:
                    for i in par[todo.pop()]:
                        if i not in seen:
                            seen.add(i)
                            todo.append(i)
                return seen
        else:
            def up(j):
                return anc[j]
        annotated = list(range(n)) if n < 5000 else rng.sample(range(n), 400) + [n - 1, n - 2, 0]
        items = [[(labels[j], True)] + ([(labels[rng.randrange(n)], False)] if j % 4 == 0 else []) for j in annotated]
        counts = {}
        for j in annotated:
            for a in up(j):
                counts[a] = counts.get(a, 0) + 1
        pop = counts[0]
        ctx.case(['big-shape', kind, n], True, 'sizes and depths on boundaries', sample={'shape': kind, 'terms': n, 'items': len(items)})
        problem = None
        try:
            depth = {0: 0}
            for j in range(1, n):
                depth[j] = 1 + max(depth[i] for i in par[j])
            deepest_first = [it for _, it in sorted(zip(annotated, items), key=lambda p: -depth[p[0]])]
            for base, order in ((None, items), (2, deepest_first)):       # shallow terms first / the DEEPEST term first (nothing is warm yet)
                ic = impl_ic(edges, order, base, None, False)
                wantkeys = {labels[a] for a in counts}
                if set(ic) != wantkeys:
                    problem = {'what': 'key-set', 'impl_has': len(ic), 'expected': len(wantkeys), 'missing_sample': sorted(wantkeys - set(ic))[:3], 'extra_sample': sorted(set(ic) - wantkeys)[:3]}
                    break
                for a, cnt in counts.items():
                    want = -math.log(cnt / pop) if base is None else -math.log(cnt / pop, base)
                    if not close(ic[labels[a]], want):
                        problem = {'what': 'value', 'term': labels[a], 'impl': ic[labels[a]], 'expected': want, 'count': cnt, 'population': pop}
                        break
                if problem:
                    break
        except Exception as e:  # noqa
            problem = {'what': 'raises', 'impl': f'{type(e).__name__}: {str(e)[:200]}'}
        if problem:
            ctx.violation(f'big-shape:{kind}:{problem["what"]}', {'case': {'kind': 'big-shape', 'shape': [kind, n]}, 'disagreement': problem, 'theorem': THEOREM})


def run(ctx):
    big_shapes(ctx)
    cases = all_cases(ctx.rng, ctx.tier == 'thorough')
    for i in range(0, len(cases), 250):
        evaluate(ctx, cases[i:i + 250], 'random+corners', offset=i)


def replay(ctx, data):
    """re-runs the original call sequence up to the failing call (state leaking between calls is part of the history)"""
    import common
    import random
    if data.get('case', {}).get('kind') == 'big-shape':
        return big_shapes(ctx, only=data['case']['shape'])
    if 'stream_index' in data:
        orig = common.Ctx(ctx.pid, data.get('tier', 'quick'), int(data.get('seed', ctx.seed)))
        cases = all_cases(orig.rng, data.get('tier') == 'thorough')[:data['stream_index'] + 1]
    else:
        cases = [data['case']]
        for c in cases:
            c['edges'] = [tuple(e) for e in c['edges']]
            c['items'] = [[tuple(x) for x in a] for a in c['items']]
    for i in range(0, len(cases), 250):
        evaluate(ctx, cases[i:i + 250], 'replay', offset=i)
