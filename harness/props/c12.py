"""C12 — queries are pure: results independent of history and iterator interleaving."""
import itertools
import json
import os
import shutil
import subprocess
import sys
import tempfile
import threading
import warnings

import graphlib as gl
import common

RULE = ('(1) step-wise consumption of 2-4 simultaneously open REAL traversal iterators (ancestors/descendants/parents/children, with '
        'and without the source, both graph classes) under every interleaving of two iterators with <= 4 '
        'steps each and random interleavings of up to four, with complete queries sprinkled in between: the sequence each iterator '
        'yields must equal its standalone sequence, and the standalone multiset must equal the Lean model\'s; random histories of '
        'predicates, traversals abandoned after k elements, index-API peeks and complete traversals on one graph, every complete answer '
        'compared with the model; (2) 2-4 reader threads '
        'each draining its own iterator on the shared graph (switch interval 1e-6 s), 200 rounds, and 4 threads released by a barrier '
        'on a graph nobody has queried yet (fresh graph every round, answers compared with a sequentially queried twin), and a '
        'deterministic single-pre-emption scan: the first query on a fresh graph is stopped after exactly k executed lines of library '
        'code for every k, a second thread runs a query to completion, the first resumes; the same for ontologies (minimal and full): '
        'random histories of get_term / get_term_name / in / len / terms / term_ids in all argument forms with `.terms` and `.term_ids` '
        'iterators held open across the history - every answer must equal that of the Lean model of the ontology (C06) - and '
        'the single-pre-emption scan on a fresh ontology; (3) ONE factory instance of each '
        'class building a sequence of different graphs (pairs whose boundary edges share the subject at different node indices, '
        'random lists) must give what a fresh factory gives and what the model gives; (4) every order of loading <= 3 different '
        'documents (ontologies, an HPOA file read by loaders with three different cohort-size / salvage settings) through the default '
        'module-level factories gives the dumps of a fresh interpreter. '
        'Non-trivial: >= 2 iterators open at once, or a shared factory / process is reused; distinct by the whole scenario.')

THEOREM = 'Hpv.Props.C12.*'
END = object()


def open_iter(g, spec):
    q, node, incl = spec
    _, TermId, _, _ = gl._hp()
    return iter(getattr(g, 'get_' + q)(TermId.from_curie(node), incl))


def standalone(g, spec):
    return [t.value for t in open_iter(g, spec)]


def interleave(g, specs, schedule, evals):
    """consume iterators step-wise according to `schedule` (list of iterator numbers); `evals` maps a step number to a full query"""
    its = [open_iter(g, s) for s in specs]
    got = [[] for _ in specs]
    done = [False] * len(specs)
    eval_out = []
    for k, i in enumerate(schedule):
        if k in evals:
            eval_out.append((evals[k], standalone(g, evals[k])))
        if done[i]:
            continue
        v = next(its[i], END)
        if v is END:
            done[i] = True
        else:
            got[i].append(v.value)
    for i, it in enumerate(its):      # drain what is left, round robin
        pass
    progress = True
    while progress:
        progress = False
        for i, it in enumerate(its):
            if not done[i]:
                v = next(it, END)
                if v is END:
                    done[i] = True
                else:
                    got[i].append(v.value)
                    progress = True
    return got, eval_out


def iterator_scenarios(ctx, rng, factory, edges, exhaustive):
    try:
        g = gl.build_impl(factory, edges)
    except Exception as e:  # noqa
        ctx.violation(f'build:{factory}', {'case': {'kind': 'iter', 'factory': factory, 'edges': edges}, 'impl': f'{type(e).__name__}: {e}'})
        return
    nodes = gl.nodes_of(edges)
    all_specs = [(q, v, incl) for q in gl.QS for v in nodes for incl in (False, True)]
    # standalone results vs the model (multisets)
    rep = gl.model_batch([(factory, edges, [['q', q, v, incl] for q, v, incl in all_specs])])[0]
    alone = {}
    for spec, ma in zip(all_specs, rep['answers']):
        alone[spec] = standalone(g, spec)
        if sorted(alone[spec]) != sorted(ma.get('ok', [])):
            ctx.violation(f'{factory}:standalone', {'case': {'kind': 'iter', 'factory': factory, 'edges': edges, 'specs': [list(spec)], 'schedule': []},
                                                    'impl': alone[spec], 'model': ma, 'theorem': 'Hpv.Props.C01'})
            return
    long_specs = [s for s in all_specs if len(alone[s]) >= 2] or all_specs
    scenarios = []
    if exhaustive:
        for a, b in itertools.islice(itertools.combinations(long_specs, 2), 12):
            la, lb = min(len(alone[a]), 4), min(len(alone[b]), 4)
            for pos in itertools.combinations(range(la + lb), la):
                sched = [0 if k in pos else 1 for k in range(la + lb)]
                scenarios.append(([a, b], sched, {}))
        # the same query opened twice
        for a in long_specs[:6]:
            la = min(len(alone[a]), 3)
            for pos in itertools.combinations(range(2 * la), la):
                scenarios.append(([a, a], [0 if k in pos else 1 for k in range(2 * la)], {}))
    for _ in range(20 if exhaustive else 8):
        k = rng.randrange(2, 5)
        specs = [rng.choice(long_specs) for _ in range(k)]
        total = sum(len(alone[s]) for s in specs)
        sched = [rng.randrange(k) for _ in range(total + 2)]
        evals = {rng.randrange(len(sched)): rng.choice(all_specs) for _ in range(rng.randrange(0, 3))}
        scenarios.append((specs, sched, evals))
    for specs, sched, evals in scenarios:
        ctx.case(['iter', factory, edges, specs, sched, sorted(evals.items())], True, f'iterators.{factory}',
                 sample={'factory': factory, 'edges': edges, 'iterators': specs, 'schedule': sched})
        try:
            got, eval_out = interleave(g, specs, sched, evals)
        except Exception as e:  # noqa
            got, eval_out = f'raises {type(e).__name__}: {e}', []
        want = [alone[s] for s in specs]
        bad_eval = [(list(s), r) for s, r in eval_out if r != alone[s]]
        if got != want or bad_eval:
            ctx.violation(f'{factory}:interleaving', {'case': {'kind': 'iter', 'factory': factory, 'edges': edges, 'specs': [list(s) for s in specs],
                                                               'schedule': sched, 'evals': {str(k): list(v) for k, v in evals.items()}},
                                                      'impl_interleaved': got, 'impl_standalone': want, 'complete_queries_that_differ': bad_eval,
                                                      'theorem': 'Hpv.Props.C12.next_local / step_frame / eval_history_free'})
            return


def graph_histories(ctx, rng, factory, edges, n_hist):
    """random histories on ONE graph of: predicates (which may stop a traversal early), traversal iterators that are consumed for a
    few elements and then ABANDONED, index-API calls, and complete traversals - every complete answer must equal the Lean model's"""
    _, TermId, _, _ = gl._hp()
    nodes = gl.nodes_of(edges)
    specs = [(q, v, incl) for q in gl.QS for v in nodes for incl in (False, True)]
    pairs = [(p, a, b) for p in gl.PREDS for a in nodes for b in nodes]
    rep = gl.model_batch([(factory, edges, [['q', q, v, incl] for q, v, incl in specs] + [['pred', p, a, b] for p, a, b in pairs])])[0]
    if 'answers' not in rep:
        return
    want_q = {s: sorted(a.get('ok', [])) for s, a in zip(specs, rep['answers'][:len(specs)])}
    want_p = {s: a.get('ok') for s, a in zip(pairs, rep['answers'][len(specs):])}
    name = {'parentOf': 'is_parent_of', 'childOf': 'is_child_of', 'ancestorOf': 'is_ancestor_of', 'descendantOf': 'is_descendant_of'}
    for h in range(n_hist):
        g = gl.build_impl(factory, edges)
        hist = []
        ctx.case(['graph-history', factory, edges, h], True, f'graph.query-histories.{factory}', sample={'factory': factory, 'edges': edges[:6]} if h == 0 else None)
        for _ in range(rng.randrange(4, 18)):
            r = rng.random()
            try:
                if r < 0.35:
                    p, a, b = rng.choice(pairs)
                    hist.append(['pred', p, a, b])
                    got = getattr(g, name[p])(TermId.from_curie(a), TermId.from_curie(b))
                    if bool(got) != want_p[(p, a, b)]:
                        raise AssertionError(f'{name[p]}({a}, {b}) = {got}, model {want_p[(p, a, b)]}')
                elif r < 0.6:
                    s = rng.choice(specs)
                    k = rng.randrange(0, 3)
                    hist.append(['abandon-after', k] + list(s))
                    it = open_iter(g, s)
                    for _ in range(k):
                        next(it, END)
                    del it
                elif r < 0.7 and hasattr(g, 'node_to_idx'):
                    v = rng.choice(nodes)
                    hist.append(['idx-ancestors-first-element', v])
                    next(iter(g.get_ancestor_idx(g.node_to_idx(TermId.from_curie(v)))), None)
                else:
                    s = rng.choice(specs)
                    hist.append(['full'] + list(s))
                    got = sorted(standalone(g, s))
                    if got != want_q[s]:
                        raise AssertionError(f'get_{s[0]}({s[1]}, include_source={s[2]}) = {got}, model {want_q[s]}')
            except AssertionError as e:
                ctx.violation(f'{factory}:history', {'case': {'kind': 'graph-history', 'factory': factory, 'edges': edges, 'history': hist},
                                                     'impl': str(e), 'theorem': 'Hpv.Props.C12.eval_history_free'})
                return
            except Exception as e:  # noqa
                ctx.violation(f'{factory}:history-raises', {'case': {'kind': 'graph-history', 'factory': factory, 'edges': edges, 'history': hist},
                                                            'impl': f'{type(e).__name__}: {e}', 'theorem': 'Hpv.Props.C12.eval_history_free'})
                return


def thread_scenarios(ctx, rng, factory, edges, rounds):
    g = gl.build_impl(factory, edges)
    nodes = gl.nodes_of(edges)
    specs = [(rng.choice(['ancestors', 'descendants']), rng.choice(nodes), rng.random() < 0.5) for _ in range(4)]
    want = [sorted(standalone(g, s)) for s in specs]
    old = sys.getswitchinterval()
    sys.setswitchinterval(1e-6)
    try:
        for r in range(rounds):
            res = [None] * len(specs)

            def work(i):
                try:
                    res[i] = sorted(t.value for t in open_iter(g, specs[i]))
                except Exception as e:  # noqa
                    res[i] = f'raises {type(e).__name__}: {e}'
            ths = [threading.Thread(target=work, args=(i,)) for i in range(len(specs))]
            for t in ths:
                t.start()
            for t in ths:
                t.join()
            ctx.case(['threads', factory, edges, specs, r], True, f'threads.{factory}', sample={'factory': factory, 'iterators': specs} if r == 0 else None)
            if res != want:
                ctx.violation(f'{factory}:threads', {'case': {'kind': 'threads', 'factory': factory, 'edges': edges, 'specs': [list(s) for s in specs]},
                                                     'impl_threads': res, 'impl_standalone': want, 'theorem': 'Hpv.Props.C12 (partial: pre-emption)'})
                return
    finally:
        sys.setswitchinterval(old)


def thread_handoff(ctx, rng, factory, edges, rounds):
    """iterators that are OPEN in one thread while another thread works on the same graph: (1) a complete query from a second thread while
    this thread holds a half-consumed iterator, (2) an iterator started here and finished by a second thread, (3) two threads that take
    turns on each other's open iterators. Every step runs under a time limit: a query that never returns is not an answer."""
    LIMIT = 8
    g = gl.build_impl(factory, edges)
    nodes = gl.nodes_of(edges)

    def in_thread(fn):
        box = {}

        def work():
            try:
                box['v'] = fn()
            except Exception as e:  # noqa
                box['v'] = f'raises {type(e).__name__}: {e}'
        th = threading.Thread(target=work, daemon=True)
        th.start()
        th.join(LIMIT)
        return box.get('v', f'did not return within {LIMIT} s') if not th.is_alive() else f'did not return within {LIMIT} s'
    for r in range(rounds):
        # the open iterator has handed out at least one TRAVERSED node (not just the source), so the traversal itself is under way
        for _ in range(50):
            a = (rng.choice(['ancestors', 'descendants']), rng.choice(nodes), r % 3 == 0)
            if len(standalone(g, a)) >= (3 if a[2] else 2):
                break
        b = (rng.choice(['ancestors', 'descendants']), rng.choice(nodes), rng.random() < 0.5)
        want_a, want_b = sorted(standalone(g, a)), sorted(standalone(g, b))
        ctx.case(['thread-handoff', factory, edges, a, b, r], True, f'thread-handoff.{factory}', sample={'factory': factory, 'open': a, 'other': b} if r == 0 else None)
        problem = None
        # (1) this thread holds an open iterator; another thread asks a complete question
        it = open_iter(g, a)
        first = [next(it).value] + ([next(it).value] if a[2] else [])
        got_b = in_thread(lambda: sorted(t.value for t in open_iter(g, b)))
        if got_b != want_b:
            problem = f'(1) with an iterator of {a} open in another thread, {b} answers {got_b}; alone it answers {want_b}'
        # (2) ... and the open iterator is finished by another thread
        if problem is None:
            rest = in_thread(lambda: [t.value for t in it])
            if not isinstance(rest, list) or sorted(first + rest) != want_a:
                problem = f'(2) an iterator of {a} started in one thread and finished in another gives {first} + {rest}; alone it gives {want_a}'
        # (3) two threads, each opens one iterator, then each finishes the OTHER one
        if problem is None:
            its = {}
            r1 = in_thread(lambda: its.__setitem__('a', (lambda i: (i, [next(i).value] + ([next(i).value] if a[2] else [])))(open_iter(g, a))))
            r2 = in_thread(lambda: its.__setitem__('b', open_iter(g, b)))
            if isinstance(r1, str) or isinstance(r2, str):
                problem = f'(3) opening iterators in two threads: {r1} / {r2}'
            else:
                ia, fa = its['a']
                rb = in_thread(lambda: sorted(t.value for t in its['b']))
                ra = in_thread(lambda: [t.value for t in ia])
                if rb != want_b or not isinstance(ra, list) or sorted(fa + ra) != want_a:
                    problem = f'(3) iterators of {a} / {b} opened in two threads and finished by other threads give {fa} + {ra} / {rb}; alone {want_a} / {want_b}'
        if problem:
            ctx.violation(f'{factory}:thread-handoff', {'case': {'kind': 'thread-handoff', 'factory': factory, 'edges': edges, 'open': list(a), 'other': list(b)},
                                                        'impl': problem, 'theorem': 'Hpv.Props.C12 (partial: threads)'})
            return


def fresh_graph_threads(ctx, rng, factory, rounds, n_nodes):
    """every round builds a FRESH graph (nothing has queried it yet) and releases 4 threads on it at once; each asks about nodes
    that sit late in the node array, so anything the graph computes lazily on first use is computed under contention"""
    edges = gl.random_dag(rng, n=n_nodes)[0]
    nodes = gl.nodes_of(edges)
    twin = gl.build_impl(factory, edges)
    _, TermId, _, _ = gl._hp()
    probes = [rng.choice(nodes[-max(3, len(nodes) // 10):]) for _ in range(4)]
    specs = [(rng.choice(['ancestors', 'descendants', 'parents', 'children']), p, rng.random() < 0.5) for p in probes]
    want = [[True, sorted(standalone(twin, s))] for s in specs]
    old = sys.getswitchinterval()
    sys.setswitchinterval(1e-6)
    try:
        for r in range(rounds):
            g = gl.build_impl(factory, edges)
            res = [None] * len(specs)
            barrier = threading.Barrier(len(specs))

            def work(i):
                try:
                    barrier.wait()
                    tid = TermId.from_curie(specs[i][1])
                    res[i] = [tid in g, sorted(t.value for t in open_iter(g, specs[i]))]
                except Exception as e:  # noqa
                    res[i] = f'raises {type(e).__name__}: {e}'
            ths = [threading.Thread(target=work, args=(i,)) for i in range(len(specs))]
            for t in ths:
                t.start()
            for t in ths:
                t.join()
            ctx.case(['fresh-threads', factory, len(nodes), specs, r], True, f'threads.fresh-graph.{factory}',
                     sample={'factory': factory, 'nodes': len(nodes), 'first_queries': specs} if r == 0 else None)
            if res != want:
                ctx.violation(f'{factory}:threads-on-fresh-graph', {
                    'case': {'kind': 'fresh-threads', 'factory': factory, 'edges': edges, 'specs': [list(s) for s in specs]},
                    'impl_threads': res, 'impl_sequential_twin': want, 'theorem': 'Hpv.Props.C12 (partial: pre-emption)'})
                return
    finally:
        sys.setswitchinterval(old)


BLOCKED = {'count': 0, 'limit': 3.0}


def preemption_scan(ctx, rng, factory, edges, cap):
    """systematic single pre-emption: thread A starts the FIRST query on a fresh graph and is stopped after exactly k executed
    lines of library code (k = 1, 2, ... until A finishes without reaching k); thread B then runs its query to completion on the
    same graph; A resumes.  Both answers must equal those of a sequentially queried twin.  Deterministic - no timing involved."""
    src_root = os.path.join(common.REPO, 'src')
    nodes = gl.nodes_of(edges)
    twin = gl.build_impl(factory, edges)
    _, TermId, _, _ = gl._hp()
    specA = (rng.choice(['ancestors', 'descendants']), rng.choice(nodes), True)
    specB = (rng.choice(['ancestors', 'descendants', 'parents', 'children']), nodes[-1], False)
    want = [sorted(standalone(twin, specA)), [True, sorted(standalone(twin, specB))]]
    k = 0
    while k < cap:
        k += 1
        g = gl.build_impl(factory, edges)
        res = [None, None]
        go_b, b_done = threading.Event(), threading.Event()
        state = {'lines': 0, 'reached': False}

        def tracer(frame, event, arg):
            if not frame.f_code.co_filename.startswith(src_root):
                return None
            if event == 'line':
                state['lines'] += 1
                if state['lines'] == k:
                    state['reached'] = True
                    go_b.set()
                    if not b_done.wait(BLOCKED['limit']):
                        # B is waiting for something the suspended A holds (a lock taken CORRECTLY is released as soon as A runs again - a real
                        # scheduler would let A run): A goes on; not a finding, but every further point costs only a short wait
                        BLOCKED['count'] += 1
                        BLOCKED['limit'] = 0.25
            return tracer

        def work_a():
            sys.settrace(tracer)
            try:
                res[0] = sorted(t.value for t in open_iter(g, specA))
            except Exception as e:  # noqa
                res[0] = f'raises {type(e).__name__}: {e}'
            finally:
                sys.settrace(None)
                go_b.set()

        def work_b():
            go_b.wait(10)
            try:
                res[1] = [TermId.from_curie(specB[1]) in g, sorted(t.value for t in open_iter(g, specB))]
            except Exception as e:  # noqa
                res[1] = f'raises {type(e).__name__}: {e}'
            finally:
                b_done.set()
        ta, tb = threading.Thread(target=work_a), threading.Thread(target=work_b)
        tb.start()
        ta.start()
        ta.join()
        tb.join()
        ctx.case(['preempt', factory, edges, specA, specB, k], True, f'threads.single-preemption.{factory}',
                 sample={'factory': factory, 'A': specA, 'B': specB, 'A_stopped_after_lines': k} if k in (1, 5) else None)
        if res == want:
            # whatever the overlap left behind in the graph: the same questions asked again, one after the other
            try:
                res = [sorted(standalone(g, specA)), [TermId.from_curie(specB[1]) in g, sorted(standalone(g, specB))]]
            except Exception as e:  # noqa
                res = f'afterwards raises {type(e).__name__}: {e}'
        if res != want:
            ctx.violation(f'{factory}:preempted-first-query', {
                'case': {'kind': 'preempt', 'factory': factory, 'edges': edges, 'A': list(specA), 'B': list(specB), 'k': k},
                'impl': res, 'impl_sequential_twin': want, 'theorem': 'Hpv.Props.C12 (partial: pre-emption)'})
            return
        if not state['reached']:
            break
    ctx.count('preemption_points', k)
    if BLOCKED['count']:
        ctx.dist['preemption.points-where-the-second-thread-had-to-wait-for-the-suspended-one'] = BLOCKED['count']


# ------------------------------------------------------------------ ontologies

def random_term_collection(rng):
    ids = [f'HP:{i:07d}' for i in rng.sample(range(1, 60), rng.randrange(3, 9))]
    pool = [f'HP:{i:07d}' for i in range(100, 130)]
    rng.shuffle(pool)
    terms = []
    for k, pid in enumerate(ids):
        obs = k > 0 and rng.random() < 0.3
        alts = [pool.pop() for _ in range(rng.choice([0, 0, 1, 2]))]
        terms.append({'id': pid, 'name': f'name {pid}', 'alts': alts, 'obs': obs})
    return terms


def onto_query(onto, q):
    """one ontology query, canonical answer"""
    kind, curie, form = q
    if kind == 'len':
        return len(onto)
    if kind == 'terms':
        return [t.identifier.value for t in onto.terms]
    if kind == 'term_ids':
        return [t.value for t in onto.term_ids]
    arg = gl.mk_arg(form, curie)
    if kind == 'get_term':
        t = onto.get_term(arg)
        return None if t is None else [t.identifier.value, t.name, sorted(a.value for a in t.alt_term_ids)]
    if kind == 'name':
        return onto.get_term_name(arg)
    if kind == 'in':
        return arg in onto
    raise ValueError(kind)


def ontology_scenarios(ctx, rng, rounds, cap):
    """(a) random query sequences on ONE ontology: every answer must equal the answer of a fresh twin asked only that query;
    interleaved step-wise consumption of `.terms` / `.term_ids` iterators with lookups in between.  (b) the deterministic
    single-pre-emption scan on a fresh ontology (first lookup stopped after k library lines, second thread looks up, first resumes)."""
    from props import c06
    src_root = os.path.join(common.REPO, 'src')
    for r in range(rounds):
        terms = random_term_collection(rng)
        full = rng.random() < 0.5
        ids = [t['id'] for t in terms] + [a for t in terms for a in t['alts']] + ['HP:0000999', 'MP:0000001']
        forms = ['tid', 'str:', 'idf', 'str_']

        def rq():
            k = rng.choice(['get_term', 'get_term', 'name', 'in', 'len', 'terms', 'term_ids'])
            return (k, rng.choice(ids), rng.choice(forms))
        seq = [rq() for _ in range(rng.randrange(5, 25))]
        model = common.run_driver([{'op': 'onto.lookup', 'terms': terms, 'queries': ids}])[0]
        with warnings.catch_warnings():
            warnings.simplefilter('ignore')
            onto, _ = c06.build_impl(terms, full)
            ctx.case(['onto-history', terms, full, seq], True, 'ontology.query-histories', sample={'terms': terms[:3], 'full': full, 'queries': seq[:5]} if r == 0 else None)
            # two iterators open across the whole sequence
            it1, it2 = iter(onto.terms), iter(onto.term_ids)
            got1, got2 = [], []
            problem = None
            for q in seq:
                try:
                    v = next(it1, END)
                except Exception as e:  # noqa
                    problem = {'query': 'next() on the open `.terms` iterator', 'impl_after_history': f'raises {type(e).__name__}: {e}', 'model': 'the next term'}
                    break
                if v is not END:
                    got1.append(v.identifier.value)
                try:
                    a = onto_query(onto, q)
                except Exception as e:  # noqa
                    a = f'raises {type(e).__name__}'
                # reference: the Lean model of the ontology (C06), so that a leak shared by all ontologies of the process shows too
                mrep = model['answers'][ids.index(q[1])] if q[0] in ('get_term', 'name', 'in') else None
                if q[0] == 'get_term':
                    a = a if a is None or isinstance(a, str) else a[0]
                    b = mrep['id']
                elif q[0] == 'name':
                    b = mrep['name']
                elif q[0] == 'in':
                    b = mrep['contains']
                elif q[0] == 'len':
                    b = model['len']
                else:
                    b = model[q[0]]
                if isinstance(a, list) and q[0] in ('terms', 'term_ids'):
                    a, b = sorted(a), sorted(b)
                if a != b:
                    problem = {'query': list(q), 'impl_after_history': a, 'model': b}
                    break
                try:
                    v = next(it2, END)
                except Exception as e:  # noqa
                    problem = {'query': f'next() on the open `.term_ids` iterator after {list(q)}', 'impl_after_history': f'raises {type(e).__name__}: {e}',
                               'model': 'the next term id'}
                    break
                if v is not END:
                    got2.append(v.value)
            if problem is None:
                try:
                    got1 += [t.identifier.value for t in it1]
                    got2 += [t.value for t in it2]
                except Exception as e:  # noqa
                    problem = {'query': 'draining the open iterators', 'impl_after_history': f'raises {type(e).__name__}: {e}', 'model': 'the remaining elements'}
            if problem is None:
                twin, _ = c06.build_impl(terms, full)
                if sorted(got1) != sorted(t.identifier.value for t in twin.terms) or sorted(got2) != sorted(t.value for t in twin.term_ids):
                    problem = {'query': 'terms / term_ids iterators held open across the history', 'impl_after_history': [got1, got2],
                               'impl_fresh_twin': [[t.identifier.value for t in twin.terms], [t.value for t in twin.term_ids]]}
            if problem:
                ctx.violation('ontology:history', {'case': {'kind': 'onto-history', 'terms': terms, 'full': full, 'queries': [list(q) for q in seq]},
                                                   **problem, 'theorem': 'Hpv.Props.C12.eval_history_free'})
                return
    # (b) single pre-emption on a fresh ontology
    terms = random_term_collection(rng)
    full = rng.random() < 0.5
    with warnings.catch_warnings():
        warnings.simplefilter('ignore')
        twin, _ = c06.build_impl(terms, full)
    alt_owner = next((t for t in terms if t['alts'] and not t['obs']), terms[0])
    qa = ('get_term', (alt_owner['alts'] or [alt_owner['id']])[0], 'str:')
    qb = ('get_term', terms[-1]['id'], 'tid')
    want = [onto_query(twin, qa), [onto_query(twin, qb), onto_query(twin, ('in', terms[0]['id'], 'str:')), onto_query(twin, ('len', '', ''))]]
    k = 0
    while k < cap:
        k += 1
        with warnings.catch_warnings():
            warnings.simplefilter('ignore')
            onto, _ = c06.build_impl(terms, full)
        res = [None, None]
        go_b, b_done = threading.Event(), threading.Event()
        state = {'lines': 0, 'reached': False}

        def tracer(frame, event, arg):
            if not frame.f_code.co_filename.startswith(src_root):
                return None
            if event == 'line':
                state['lines'] += 1
                if state['lines'] == k:
                    state['reached'] = True
                    go_b.set()
                    if not b_done.wait(BLOCKED['limit']):
                        # B is waiting for something the suspended A holds (a lock taken CORRECTLY is released as soon as A runs again - a real
                        # scheduler would let A run): A goes on; not a finding, but every further point costs only a short wait
                        BLOCKED['count'] += 1
                        BLOCKED['limit'] = 0.25
            return tracer

        def work_a():
            sys.settrace(tracer)
            try:
                res[0] = onto_query(onto, qa)
            except Exception as e:  # noqa
                res[0] = f'raises {type(e).__name__}: {e}'
            finally:
                sys.settrace(None)
                go_b.set()

        def work_b():
            go_b.wait(10)
            try:
                res[1] = [onto_query(onto, qb), onto_query(onto, ('in', terms[0]['id'], 'str:')), onto_query(onto, ('len', '', ''))]
            except Exception as e:  # noqa
                res[1] = f'raises {type(e).__name__}: {e}'
            finally:
                b_done.set()
        ta, tb = threading.Thread(target=work_a), threading.Thread(target=work_b)
        tb.start()
        ta.start()
        ta.join()
        tb.join()
        ctx.case(['onto-preempt', terms, full, k], True, 'ontology.single-preemption', sample={'A': qa, 'B': qb, 'A_stopped_after_lines': k} if k == 1 else None)
        if res != want:
            ctx.violation('ontology:preempted-first-lookup', {'case': {'kind': 'onto-preempt', 'terms': terms, 'full': full, 'A': list(qa), 'B': list(qb), 'k': k},
                                                             'impl': res, 'impl_sequential_twin': want, 'theorem': 'Hpv.Props.C12 (partial: pre-emption)'})
            return
        if not state['reached']:
            break


def graph_dump(g):
    # sets, not sequences: in which order a graph lists its nodes is not specified
    return {'nodes': sorted(t.value for t in g), 'root': g.root.value,
            'parents': sorted([n.value, sorted(p.value for p in g.get_parents(n))] for n in g),
            'children': sorted([n.value, sorted(p.value for p in g.get_children(n))] for n in g)}


def factory_reuse(ctx, rng, thorough):
    _, TermId, _, F = gl._hp()
    # pairs (A, B): A's last edge and B's first edge have the same subject, whose index differs between the two node arrays
    crafted = []
    for _ in range(40 if thorough else 12):
        x = 'HP:0000500'
        a_extra = [f'HP:{i:07d}' for i in rng.sample(range(501, 600), rng.randrange(1, 4))]
        b_extra = [f'HP:{i:07d}' for i in rng.sample(range(1, 499), rng.randrange(1, 5))]
        A = [(e, 'HP:0000900') for e in a_extra] + [(x, 'HP:0000900')]
        B = [(x, b_extra[0])] + [(e, 'HP:0000950') for e in b_extra] + [('HP:0000950', 'HP:0000960')]
        crafted.append([A, B, A, B[::-1]])
    for _ in range(30 if thorough else 8):
        crafted.append([gl.random_dag(rng, n=rng.randrange(2, 10))[0] for _ in range(rng.randrange(2, 5))])
    for fname in gl.FACTORIES:
        for seq in crafted:
            with warnings.catch_warnings():
                warnings.simplefilter('ignore')
                shared = F[fname]()
                ctx.case(['factory-reuse', fname, seq], True, f'factory-reuse.{fname}', sample={'factory': fname, 'edge_lists': seq[:2]})
                reps = gl.model_batch([(fname, edges, [['nodes'], ['root']] + [['q', 'parents', v, False] for v in gl.nodes_of(edges)]) for edges in seq])
                for k, (edges, rep) in enumerate(zip(seq, reps)):
                    el = [(TermId.from_curie(s), TermId.from_curie(o)) for s, o in edges]
                    try:
                        d_shared = graph_dump(shared.create_graph(el))
                        d_fresh = graph_dump(F[fname]().create_graph(el))
                    except Exception as e:  # noqa
                        d_shared, d_fresh = f'raises {type(e).__name__}: {e}', None
                    model_par = [sorted(a.get('ok', [])) for a in rep['answers'][2:]]
                    ok_model = isinstance(d_shared, dict) and [p for n, p in d_shared['parents'] if n != 'owl:Thing' or True] is not None
                    if d_shared != d_fresh:
                        ctx.violation(f'{fname}:factory-reuse', {'case': {'kind': 'factory', 'factory': fname, 'edge_lists': seq, 'index': k},
                                                                 'impl_shared_factory': d_shared, 'impl_fresh_factory': d_fresh,
                                                                 'theorem': 'Hpv.Props.C12.load_history_free'})
                        break
                    if isinstance(d_shared, dict):
                        par = {n: p for n, p in d_shared['parents']}
                        want = {v: p for v, p in zip(gl.nodes_of(edges), model_par)}
                        if any(par.get(v) != want[v] for v in want) or d_shared['root'] != rep['answers'][1].get('ok'):
                            ctx.violation(f'{fname}:factory-vs-model', {'case': {'kind': 'factory', 'factory': fname, 'edge_lists': seq, 'index': k},
                                                                       'impl': d_shared, 'model': {'root': rep['answers'][1], 'parents': want}, 'theorem': 'Hpv.Props.C01'})
                            break


LOADER_SNIPPET = r'''
import sys, json, warnings, logging
warnings.simplefilter('ignore'); logging.disable(logging.CRITICAL)
sys.path.insert(0, sys.argv[1]); sys.path.insert(0, sys.argv[2])
from props import c12
print(json.dumps([c12.load_and_dump(json.loads(a)) for a in sys.argv[3:]]))
'''


_SHARED_LOADERS = {}


def load_and_dump(job):
    """job = [kind, path]; kind in minimal|full|hpoa. Uses the DEFAULT (module-level, shared) factories."""
    import hpotk
    from props import c05, c08
    kind, path = job[0], job[1]
    opts = dict(job[2]) if len(job) > 2 else {}
    with warnings.catch_warnings():
        warnings.simplefilter('ignore')
        if kind == 'minimal':
            return c05.dump_impl(hpotk.load_minimal_ontology(path), False)
        if kind == 'full':
            return c05.dump_impl(hpotk.load_ontology(path), True)
        from hpotk.annotations.load.hpoa import SimpleHpoaDiseaseLoader
        if opts.pop('shared_loader', False):
            key = json.dumps(opts, sort_keys=True)
            if key not in _SHARED_LOADERS:
                _SHARED_LOADERS[key] = SimpleHpoaDiseaseLoader(c08.toy_hpo(), **opts)
            return c08.dump_impl(_SHARED_LOADERS[key].load(path))
        return c08.dump_impl(SimpleHpoaDiseaseLoader(c08.toy_hpo(), **opts).load(path))


def load_orders(ctx, rng, thorough):
    from props import c05, c08
    world = tempfile.mkdtemp(prefix='verif-c12-')
    try:
        jobs = []
        for k in range(3):
            # documents whose edge lists share boundary subjects with each other
            doc = c05.gen_doc(rng)
            # every document names a different ontology in its graph id and contains classes of the OTHER namespaces (imports),
            # attached below one of its HP classes: what a load keeps must not depend on which documents were loaded before
            doc['id'] = c05.BASE + ['mondo.json', 'hp.json', 'hpx.json'][k]
            hp_classes = [n['id'] for n in doc['nodes'] if n.get('type') == 'CLASS' and '/HP_' in n['id'] and '#' not in n['id']]
            for pre in ('MONDO', 'HPX', 'HP'):
                nid = c05.BASE + f'{pre}_09{k}0001'
                doc['nodes'].append({'id': nid, 'type': 'CLASS', 'lbl': f'imported {pre} {k}'})
                if hp_classes:
                    doc['edges'].append({'sub': nid, 'pred': 'is_a', 'obj': rng.choice(hp_classes)})
            p = os.path.join(world, f'doc{k}.json')
            with open(p, 'w', encoding='utf-8') as fh:
                json.dump({'graphs': [doc]}, fh, ensure_ascii=False)
            jobs.append(['minimal' if k != 1 else 'full', p])
        head, lines = c08.gen_file(rng)
        # lines whose parsed ratio depends on the loader's configuration: a percentage, a frequency term, a negated 0/n
        for k, (neg, freq) in enumerate([('', '12%'), ('', 'HP:0040283'), ('NOT', '0/5'), ('', '33.3%'), ('NOT', 'HP:0040281')]):
            lines.append('\t'.join(['OMIM:999001', 'CONFIG SENSITIVE', neg, f'HP:000{k + 1:04d}', 'PMID:1', 'PCS', '', freq, '', '', 'P',
                                    'HPO:probinson[2020-01-01]']))
        # a feature with several lines of which the FIRST has no frequency (present and negated), next to lines without a frequency that
        # stand alone: whatever a load does with the ratio of a frequency-less line, the next load starts from scratch
        for pid, neg, freqs in (('HP:0000100', '', ['', '3/4']), ('HP:0000101', '', ['']), ('HP:0000102', 'NOT', ['', '2/8']), ('HP:0000103', 'NOT', ['']),
                                ('HP:0000104', '', ['', '', '1/3'])):
            for fr in freqs:
                lines.append('\t'.join(['OMIM:999001', 'CONFIG SENSITIVE', neg, pid, 'PMID:1', 'PCS', '', fr, '', '', 'P', 'HPO:probinson[2020-01-01]']))
        p = os.path.join(world, 'a.hpoa')
        with open(p, 'w', encoding='utf-8') as fh:
            fh.write(''.join(l + '\n' for l in head + c08.consistent_names(lines)))
        jobs.append(['hpoa', p])
        # the same annotation file through loaders that are configured differently (cohort size, salvaging of negated frequencies)
        jobs.append(['hpoa', p, {'cohort_size': 20, 'salvage_negated_frequencies': True}])
        jobs.append(['hpoa', p, {'cohort_size': 7}])
        # ONE long-lived loader: first a broken file (the load raises: an unparsable frequency after a good line), then the good file
        pb = os.path.join(world, 'broken.hpoa')
        with open(pb, 'w', encoding='utf-8') as fh:
            fh.write(''.join(l + '\n' for l in head + c08.consistent_names(lines)[:3]) +
                     '\t'.join(['OMIM:999001', 'CONFIG SENSITIVE', '', 'HP:0000001', 'PMID:1', 'PCS', '', 'sometimes', '', '', 'P', 'HPO:x']) + '\n')
        jobs.append(['hpoa', pb, {'shared_loader': True}])
        jobs.append(['hpoa', p, {'shared_loader': True}])
        jobs.append(['full', jobs[0][1]])
        # reference: each job alone in a FRESH interpreter
        ref = {}
        for job in jobs:
            out = subprocess.run([sys.executable, '-c', LOADER_SNIPPET, os.path.join(common.REPO, 'src'), os.path.dirname(os.path.dirname(os.path.abspath(__file__))),
                                  json.dumps(job)], capture_output=True, text=True)
            if out.returncode != 0:
                ref[json.dumps(job)] = f'raises: {out.stderr[-300:]}'
            else:
                ref[json.dumps(job)] = json.loads(out.stdout)[0]
        perms = list(itertools.permutations(range(len(jobs)), 3))
        hp = [i for i, j in enumerate(jobs) if j[0] == 'hpoa']
        orders = perms if thorough else rng.sample(perms, 14) + list(itertools.permutations(hp, 3))
        for order in orders:
            ctx.case(['load-order', [jobs[i][0] + json.dumps(jobs[i][2:]) for i in order], order], True, 'load-orders(default factories)',
                     sample={'order': [jobs[i] for i in order]})
            for i in order:
                try:
                    got = json.loads(json.dumps(load_and_dump(jobs[i])))
                except Exception as e:  # noqa
                    got = f'raises {type(e).__name__}: {e}'
                want = ref[json.dumps(jobs[i])]
                if isinstance(want, str) and want.startswith('raises') and isinstance(got, str):
                    continue
                if got != want:
                    ctx.violation('load-order', {'case': {'kind': 'loads', 'order': [jobs[k] for k in order], 'failing': jobs[i],
                                                          'documents': {j[1]: open(j[1], encoding='utf-8').read()[:4000] for j in jobs}},
                                                 'impl_after_other_loads': str(got)[:1500], 'impl_fresh_interpreter': str(want)[:1500],
                                                 'theorem': 'Hpv.Props.C12.load_history_free'})
                    return
        # ONE PATH whose content is replaced between two loads - by a document of the same size, with the file's time stamps put back
        # (what rsync -t / cp -p / a coarse clock do): the second load returns the second document
        for kind, a, b in (('minimal', jobs[0][1], jobs[2][1]), ('full', jobs[2][1], jobs[0][1]), ('hpoa', p, p)):
            da, db = open(a, 'rb').read(), open(b, 'rb').read()
            if kind == 'hpoa':
                db = da.replace(b'CONFIG SENSITIVE', b'config sensitive')          # another document of the same length
            size = max(len(da), len(db))
            same = os.path.join(world, 'same-path.' + ('hpoa' if kind == 'hpoa' else 'json'))
            other = os.path.join(world, 'other-path.' + ('hpoa' if kind == 'hpoa' else 'json'))
            ctx.case(['same-path', kind], True, 'same path, new content, old time stamps')
            def outcome(job):
                # a document the loader rejects is rejected wherever it lies: the OUTCOME (dump or exception type) is what is compared
                try:
                    return json.loads(json.dumps(load_and_dump(job)))
                except Exception as e:  # noqa
                    return f'raises {type(e).__name__}'
            with open(same, 'wb') as fh:
                fh.write(da + b' ' * (size - len(da)) if kind != 'hpoa' else da)
            st = os.stat(same)
            outcome([kind, same])
            with open(same, 'wb') as fh:
                fh.write(db + b' ' * (size - len(db)) if kind != 'hpoa' else db)
            os.utime(same, ns=(st.st_atime_ns, st.st_mtime_ns))
            with open(other, 'wb') as fh:
                fh.write(db)
            second = outcome([kind, same])
            want = outcome([kind, other])
            if second != want:
                ctx.violation('same-path', {'case': {'kind': 'same-path', 'loader': kind, 'first_document': da.decode('utf-8')[:3000], 'second_document': db.decode('utf-8')[:3000]},
                                            'impl_second_load_of_the_path': str(second)[:1200], 'impl_same_bytes_at_another_path': str(want)[:1200],
                                            'theorem': 'Hpv.Props.C12.load_history_free'})
                return
    finally:
        shutil.rmtree(world, ignore_errors=True)


def graphs_come_and_go(ctx, rng, rounds):
    """graphs over ONE set of labels but with different edges are built, asked through the module-level helpers and the graph's own
    methods, and dropped (collected) in batches: what an earlier graph answered - it may have lived at the same address - must not
    show in the answers of a later one. Expected answers: a closure computed here from each edge list. The addresses of dead graphs
    are remembered, so the evidence says how often a later graph really was allocated where an earlier one had been."""
    import gc
    from hpotk.model import TermId
    try:
        from hpotk.algorithm import exists_path, get_ancestors, get_descendants
    except Exception:  # noqa
        ctx.count('graphs-come-and-go.helpers-unavailable')
        return
    labels = [f'HP:{i:07d}' for i in range(1, 8)]
    tids = [TermId.from_curie(x) for x in labels]
    ctx.case(['come-and-go', rounds], True, 'graphs that come and go (module-level helpers)')
    plans = []
    for r in range(rounds):
        par = {j: sorted(set(rng.sample(range(j), min(j, rng.choice([1, 1, 2]))))) for j in range(1, len(labels))}
        anc = {0: set()}
        for j in range(1, len(labels)):
            anc[j] = set(par[j]).union(*(anc[i] for i in par[j]))
        plans.append(([(labels[j], labels[i]) for j, ps in par.items() for i in ps], anc))
    dead = set()
    B = 25
    for start in range(0, rounds, B):
        f = gl.FACTORIES[(start // B) % 3]
        batch = [(gl.build_impl(f, edges), edges, anc) for edges, anc in plans[start:start + B]]
        for g, edges, anc in batch:
            ctx.count('graphs-come-and-go')
            if id(g) in dead:
                ctx.count('graphs-come-and-go.at-the-address-of-a-dead-graph')
            problem = None
            try:
                for a in range(len(labels)):
                    for b in range(len(labels)):
                        got = exists_path(g, tids[a], tids[b])
                        if got is not (b in anc[a]):
                            problem = f'exists_path({labels[a]}, {labels[b]}) = {got!r}, the edges say {b in anc[a]}'
                    got = sorted(t.value for t in get_ancestors(g, tids[a]))
                    if got != sorted(labels[i] for i in anc[a]):
                        problem = f'get_ancestors({labels[a]}) = {got}, the edges say {sorted(labels[i] for i in anc[a])}'
                    got = sorted(t.value for t in get_descendants(g, tids[a]))
                    if got != sorted(labels[j] for j in anc if a in anc[j]):
                        problem = f'get_descendants({labels[a]}) = {got}'
            except Exception as e:  # noqa
                problem = f'raises {type(e).__name__}: {e}'
            if problem:
                ctx.violation('come-and-go', {'case': {'kind': 'come-and-go', 'factory': f, 'edges': edges,
                                                       'address_was_used_by_a_dead_graph': id(g) in dead}, 'impl': problem,
                                              'theorem': 'Hpv.Props.C12.eval_history_free'})
                return
        dead.update(id(g) for g, _, _ in batch)
        del batch, g
        gc.collect()


def run(ctx):
    rng = ctx.rng
    thorough = ctx.tier == 'thorough'
    with warnings.catch_warnings():
        warnings.simplefilter('ignore')
        graphs_come_and_go(ctx, rng, 3000 if thorough else 900)
    fixed = [[('HP:2', 'HP:1'), ('HP:3', 'HP:1'), ('HP:4', 'HP:2'), ('HP:4', 'HP:3'), ('HP:5', 'HP:4'), ('HP:6', 'HP:4')],
             [('HP:2', 'HP:1'), ('HP:3', 'HP:2'), ('HP:4', 'HP:3'), ('HP:5', 'HP:4'), ('HP:5', 'HP:2')]]
    for edges in fixed:
        for f in gl.FACTORIES:
            iterator_scenarios(ctx, rng, f, edges, True)
    for _ in range(60 if thorough else 12):
        edges = gl.random_dag(rng, n=rng.randrange(4, 14))[0]
        iterator_scenarios(ctx, rng, rng.choice(gl.FACTORIES), edges, False)
    for f in gl.FACTORIES:
        for edges in fixed + [gl.random_dag(rng, n=rng.randrange(4, 9))[0] for _ in range(6 if thorough else 2)]:
            graph_histories(ctx, rng, f, edges, 40 if thorough else 12)
    for f in gl.FACTORIES:
        thread_scenarios(ctx, rng, f, fixed[0], 200 if thorough else 60)
    for f in gl.FACTORIES:
        thread_handoff(ctx, rng, f, fixed[0], 40 if thorough else 10)
    for f in gl.FACTORIES:
        fresh_graph_threads(ctx, rng, f, 60 if thorough else 15, 300 if f == 'indexed' else 60)
    for f in gl.FACTORIES:
        for _ in range(4 if thorough else 1):
            preemption_scan(ctx, rng, f, gl.random_dag(rng, n=rng.randrange(5, 9))[0], 600 if thorough else 250)
    ontology_scenarios(ctx, rng, 120 if thorough else 25, 400 if thorough else 150)
    factory_reuse(ctx, rng, thorough)
    load_orders(ctx, rng, thorough)


def replay(ctx, data):
    c = data['case']
    rng = ctx.rng
    if c['kind'] == 'iter':
        edges = [tuple(e) for e in c['edges']]
        g = gl.build_impl(c['factory'], edges)
        specs = [tuple(s) for s in c['specs']]
        got, _ = interleave(g, specs, c['schedule'], {int(k): tuple(v) for k, v in c.get('evals', {}).items()})
        want = [standalone(g, s) for s in specs]
        ctx.case(['replay'], True, 'replay')
        if got != want:
            ctx.violation('replay:interleaving', {'case': c, 'impl_interleaved': got, 'impl_standalone': want})
    else:
        run(ctx)
