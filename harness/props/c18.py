"""C18 — module-level traversal helpers (hpotk.algorithm) agree with the graph they wrap."""
import warnings

import graphlib as gl

RULE = ('per generated graph (default indexed factory, plus the two matrix factories on a sample): every node x {get_ancestors, '
        'get_descendants, get_parents, get_children} x include_source x {graph, graph-aware ontology, minimal GraphAware carrier} x '
        '{CURIE str, TermId}; exists_path for every ordered pair (incl. a == b); augment_with_ancestors/descendants for a single TermId '
        'and for collections (empty, singleton, overlapping closures, repeated members; as list, tuple, set, frozenset) x include_source. '
        'Results (frozenset type required) compared as sorted CURIE sets / Booleans with the Lean model. Non-trivial: the closure is '
        'non-empty, or the collection has >= 2 members with overlapping closures; distinct by (factory, edges).')

THEOREM = 'Hpv.Props.C18.*'


def holders(g, edges):
    """the graph itself, a real ontology built on it, and a bare GraphAware object"""
    import hpotk
    from hpotk.graph import GraphAware
    from hpotk.model import MinimalTerm
    from hpotk.ontology import create_minimal_ontology

    class Aware(GraphAware):
        @property
        def graph(self):
            return g
    terms = [MinimalTerm.create_minimal_term(t, name=t.value, alt_term_ids=(), is_obsolete=False) for t in g]
    return {'graph': g, 'ontology': create_minimal_ontology(g, terms, version='x'), 'aware': Aware()}


def queries_for(rng, edges):
    _, TermId, _, _ = gl._hp()
    nodes = gl.nodes_of(edges)
    qs = []
    for v in nodes:
        for q in gl.QS:
            for incl in (False, True):
                h = rng.choice(['graph', 'ontology', 'aware'])
                arg = rng.choice([v, TermId.from_curie(v)])
                qs.append((['helper', q, v, incl], ('helper', q, arg, incl, h)))
        for q in ('ancestors', 'descendants'):
            for incl in (False, True):
                qs.append((['augment1', q, v, incl], ('augment1', q, TermId.from_curie(v), incl, rng.choice(['graph', 'ontology']))))
    for a in nodes:
        for b in nodes:
            qs.append((['path', a, b], ('path', rng.choice([a, TermId.from_curie(a)]), rng.choice([b, TermId.from_curie(b)]),
                                        rng.choice(['graph', 'ontology', 'aware']))))
    colls = [[], [nodes[0]], list(nodes), [nodes[-1], nodes[-1]]]
    for _ in range(6):
        colls.append([rng.choice(nodes) for _ in range(rng.randrange(1, 5))])
    for coll in colls:
        for q in ('ancestors', 'descendants'):
            for incl in (False, True):
                kind = rng.choice(['list', 'tuple', 'set', 'frozenset'])
                tids = [TermId.from_curie(x) for x in coll]
                obj = {'list': list, 'tuple': tuple, 'set': set, 'frozenset': frozenset}[kind](tids)
                qs.append((['augmentN', q, coll, incl], ('augmentN', q, obj, incl, rng.choice(['graph', 'ontology']))))
    return qs


def impl_answer(hs, iq):
    from hpotk.algorithm import _traversal as tr
    from hpotk.algorithm import _augment as au
    try:
        with warnings.catch_warnings():
            warnings.simplefilter('ignore')
            k = iq[0]
            if k == 'helper':
                r = getattr(tr, 'get_' + iq[1])(hs[iq[4]], iq[2], iq[3])
            elif k == 'path':
                return {'ok': gl.as_bool(tr.exists_path(hs[iq[3]], iq[1], iq[2]))}
            else:
                f = au.augment_with_ancestors if iq[1] == 'ancestors' else au.augment_with_descendants
                r = f(hs[iq[4]], iq[2], iq[3])
            if not isinstance(r, frozenset):
                return {'ok': gl.vals(r), 'not_a_frozenset': type(r).__name__}
            return {'ok': gl.vals(r)}
    except Exception as e:  # noqa
        return {'err': gl.canon_err(e), 'exc': type(e).__name__}


def nontrivial(edges):
    f = gl.graph_features(edges)
    return f['longest_path'] >= 2 or f['multi_parent']


def evaluate(ctx, cases, stream):
    reps = gl.model_batch([(f, edges, [w for w, _ in qs]) for f, edges, qs in cases])
    for (f, edges, qs), rep in zip(cases, reps):
        nt = nontrivial(edges)
        ctx.case([f, edges], nt, stream, sample={'factory': f, 'edges': edges, 'n_queries': len(qs), 'first': [w for w, _ in qs][:3]} if nt else None)
        ctx.count('queries', len(qs))
        try:
            g = gl.build_impl(f, edges)
            hs = holders(g, edges)
        except Exception as e:  # noqa
            ctx.violation(f'build:{f}', {'case': {'kind': 'graph', 'factory': f, 'edges': edges}, 'impl': f'raises {type(e).__name__}: {e}',
                                         'model': rep, 'theorem': THEOREM})
            continue
        bad = []
        for (wq, iq), ma in zip(qs, rep['answers']):
            ia = impl_answer(hs, iq)
            ma = gl.canon_model(ma, wq)
            if 'not_a_frozenset' in ia or not gl.answers_equal(ia, ma):
                bad.append({'query': wq, 'holder': iq[-1], 'arg_type': type(iq[2]).__name__, 'impl': ia, 'model': ma})
                if len(bad) >= 3:
                    break
        if bad:
            q0 = bad[0]['query']
            ctx.violation(f'{f}:{q0[0]}:{q0[1] if isinstance(q0[1], str) else ""}',
                          {'case': {'kind': 'graph', 'factory': f, 'edges': edges}, 'disagreements': bad, 'theorem': THEOREM})


def run(ctx):
    rng = ctx.rng
    thorough = ctx.tier == 'thorough'
    label_sets = gl.LABEL_SETS[:4] if thorough else [gl.LABEL_SETS[0], gl.LABEL_SETS[2]]
    for k in (2, 3, 4):
        cases = []
        for n, edges in enumerate(gl.exhaustive_graphs(k, label_sets)):
            if k == 4 and not thorough and n % 3 != ctx.seed % 3:
                continue
            cases.append(('indexed', edges, queries_for(rng, edges)))
            if n % 7 == 0:
                cases.append((rng.choice(['incremental', 'builder']), edges, queries_for(rng, edges)))
            if len(cases) >= 400:
                evaluate(ctx, cases, f'small-scope.k={k}')
                cases = []
        evaluate(ctx, cases, f'small-scope.k={k}')
        ctx.exhaustive[f'all DAGs on {k} positions x label assignments (indexed factory)'] = (k < 4 or thorough)
    cases = []
    for _ in range(400 if thorough else 80):
        edges, shape, order = gl.random_dag(rng, n=rng.randrange(2, 25 if thorough else 12))
        cases.append((rng.choice(gl.FACTORIES), edges, queries_for(rng, edges)))
    for i in range(0, len(cases), 200):
        evaluate(ctx, cases[i:i + 200], 'random')
    lifecycle(ctx, rng)


def lifecycle(ctx, rng):
    """the helpers keep nothing between calls: a call that RAISES half-way through a collection (an unknown term at its end), a
    collection whose iterator itself calls the helper on the same graph - the next valid call must be the union of the closures"""
    from hpotk.algorithm import _augment as au
    _, TermId, _, _ = gl._hp()
    for _ in range(12):
        edges = gl.random_dag(rng, n=rng.randrange(4, 10))[0]
        nodes = gl.nodes_of(edges)
        for f in gl.FACTORIES:
            g = gl.build_impl(f, edges)
            for fname in ('ancestors', 'descendants'):
                fn = au.augment_with_ancestors if fname == 'ancestors' else au.augment_with_descendants
                single = {v: set(gl.vals(fn(g, TermId.from_curie(v), True))) for v in nodes}
                picks = [rng.sample(nodes, rng.randrange(1, min(4, len(nodes)) + 1)) for _ in range(3)]
                ctx.case(['lifecycle', f, edges, fname, picks], True, 'helper lifecycle (exception / re-entrancy)')
                problem = None
                try:
                    # (1) a failing call in between
                    try:
                        fn(g, [TermId.from_curie(v) for v in picks[0]] + [TermId.from_curie('ZZ:404')], True)
                        problem = 'a collection containing an unknown term was accepted'
                    except ValueError:
                        pass
                    got = set(gl.vals(fn(g, [TermId.from_curie(v) for v in picks[1]], True)))
                    want = set().union(*[single[v] for v in picks[1]])
                    if problem is None and got != want:
                        problem = f'after a call that raised, augment_with_{fname}({picks[1]}) = {sorted(got)} != {sorted(want)}'
                    # (2) re-entrancy: the collection's iterator calls the helper itself

                    class Nosy(list):
                        def __iter__(self):
                            for x in list.__iter__(self):
                                fn(g, [TermId.from_curie(v) for v in picks[0]], False)
                                yield x
                    got = set(gl.vals(fn(g, Nosy(TermId.from_curie(v) for v in picks[2]), True)))
                    want = set().union(*[single[v] for v in picks[2]])
                    if problem is None and got != want:
                        problem = f'augment_with_{fname} over a collection whose iterator calls the helper: {sorted(got)} != {sorted(want)}'
                except Exception as e:  # noqa
                    problem = f'raises {type(e).__name__}: {e}'
                if problem:
                    ctx.violation(f'{f}:lifecycle:{fname}', {'case': {'kind': 'lifecycle', 'factory': f, 'edges': edges, 'picks': picks}, 'impl': problem,
                                                             'theorem': 'Hpv.Props.C18.augment_many'})
                    return


def replay(ctx, data):
    c = data['case']
    if c.get('kind') == 'lifecycle':
        lifecycle(ctx, ctx.rng)
        return
    edges = [tuple(e) for e in c['edges']]
    evaluate(ctx, [(c['factory'], edges, queries_for(ctx.rng, edges))], 'replay')
