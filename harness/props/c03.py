"""C03 — all views of the hierarchy agree: implementations, predicates, indices, id forms."""
import graphlib as gl

RULE = ('per generated graph and factory: every ordered pair (a, b) of nodes x the four is_*_of predicates, is_leaf, membership, '
        'iteration, every traversal, each with the argument given as CURIE with ":", CURIE with "_", TermId and Identified carrier; '
        'all compared with the Lean model (so all factories and all forms agree with each other); predicates additionally checked '
        'against the traversals of the same implementation graph, of its pickled / deep-copied / copied clones and for `str`-subclass arguments (also while such a traversal is still being consumed: the common-'
        'relatives loop over every pair) and against their converses; index API of the indexed graph: '
        'idx_to_node/node_to_idx are inverse bijections on 0..n-1, root == idx_to_node(root_idx), every *_idx traversal and '
        'is_*_of_idx predicate is the image of the node API under that bijection. Exhaustive over all DAGs on <= 4 positions x '
        'label assignments; random n <= 12 (30 thorough). Non-trivial: the graph has an edge path of length >= 2 or a multi-parent '
        'node, i.e. ancestor != parent somewhere; distinct by (factory, edges).')

THEOREM = 'Hpv.Props.C03.*'
FORMS = ('tid', 'str:', 'str_', 'idf', 'stid', 'idf-stid', 'user-tid', 'str-sub')


def queries_for(rng, edges, max_pairs=None):
    nodes = gl.nodes_of(edges)
    qs = []
    pairs = [(a, b) for a in nodes for b in nodes]
    if max_pairs and len(pairs) > max_pairs:
        pairs = rng.sample(pairs, max_pairs)
    for a, b in pairs:
        fa, fb = rng.choice(FORMS), rng.choice(FORMS)
        if gl.underscore_form(a) is None and fa == 'str_':
            fa = 'str:'
        if gl.underscore_form(b) is None and fb == 'str_':
            fb = 'str:'
        for p in gl.PREDS:
            qs.append((['pred', p, gl.wire_arg(fa, a), gl.wire_arg(fb, b)], ['pred', p, gl.mk_arg(fa, a), gl.mk_arg(fb, b)]))
    for v in nodes:
        for form in FORMS:
            if form == 'str_' and gl.underscore_form(v) is None:
                continue
            w, i = gl.wire_arg(form, v), gl.mk_arg(form, v)
            qs.append((['leaf', w], ['leaf', i]))
            q = rng.choice(gl.QS)
            incl = rng.random() < 0.5
            qs.append((['q', q, w, incl], ['q', q, i, incl]))
        qs.append((['contains', v], ['contains', gl.mk_arg('tid', v)]))
    qs.append((['nodes'], ['nodes']))
    qs.append((['root'], ['root']))
    return qs


def nontrivial(c):
    f = gl.graph_features(c['edges'])
    return f['longest_path'] >= 2 or f['multi_parent']


def internal_consistency(ctx, factory, edges):
    """predicates vs traversals vs converses; index API vs node API — on the implementation graph alone"""
    _, TermId, _, _ = gl._hp()
    try:
        g = gl.build_impl(factory, edges)
        nodes = [t for t in g]
        tr = {q: {v.value: set(gl.vals(getattr(g, 'get_' + q)(v))) for v in nodes} for q in gl.QS}
        name = {'parentOf': ('is_parent_of', 'parents'), 'childOf': ('is_child_of', 'children'),
                'ancestorOf': ('is_ancestor_of', 'ancestors'), 'descendantOf': ('is_descendant_of', 'descendants')}
        for a in nodes:
            for b in nodes:
                for p, (meth, q) in name.items():
                    got = getattr(g, meth)(a, b)
                    want = a.value in tr[q][b.value]
                    if bool(got) != want:
                        return f'{meth}({a.value}, {b.value}) = {got} but {a.value} {"in" if want else "not in"} get_{q}({b.value})'
                if (a.value in tr['children'][b.value]) != (b.value in tr['parents'][a.value]):
                    return f'children/parents are not converse for ({a.value}, {b.value})'
                if (a.value in tr['descendants'][b.value]) != (b.value in tr['ancestors'][a.value]):
                    return f'descendants/ancestors are not converse for ({a.value}, {b.value})'
            if g.is_leaf(a) != (len(tr['children'][a.value]) == 0):
                return f'is_leaf({a.value}) disagrees with get_children'
            if a not in g:
                return f'{a.value} not in graph although iterated'
        # the views must also agree when they are used TOGETHER: a predicate asked for every element of a traversal that is still
        # being consumed (the usual way to intersect two closures), for all four pairs of traversal / predicate
        for a in nodes:
            for b in nodes:
                for q, (meth, q2) in (('ancestors', ('is_ancestor_of', 'ancestors')), ('descendants', ('is_descendant_of', 'descendants')),
                                      ('parents', ('is_parent_of', 'parents')), ('children', ('is_child_of', 'children'))):
                    got = sorted(x.value for x in getattr(g, 'get_' + q)(a) if getattr(g, meth)(x, b))
                    want = sorted(tr[q][a.value] & tr[q2][b.value])
                    if got != want:
                        return (f'[x for x in get_{q}({a.value}) if {meth}(x, {b.value})] = {got} but get_{q}({a.value}) & get_{q2}({b.value}) '
                                f'= {want}')
        # a copy of the graph is the same graph: pickle round trip, deepcopy, shallow copy; and a `str` subclass is a `str`
        import copy
        import pickle

        class Curie(str):
            pass
        for how, clone in (('pickle round trip', lambda x: pickle.loads(pickle.dumps(x))), ('deepcopy', copy.deepcopy), ('copy', copy.copy)):
            h = clone(g)
            if [t.value for t in h] != [t.value for t in g] or h.root != g.root:
                return f'{how}: nodes / root differ'
            for q in gl.QS:
                for v in nodes:
                    if set(gl.vals(getattr(h, 'get_' + q)(v))) != tr[q][v.value]:
                        return f'{how}: get_{q}({v.value}) differs from the original graph'
        for v in nodes:
            for q in gl.QS:
                if set(gl.vals(getattr(g, 'get_' + q)(Curie(v.value)))) != tr[q][v.value]:
                    return f'get_{q}(<str subclass {v.value!r}>) differs from get_{q}(TermId)'
        if hasattr(g, 'root_idx'):
            n = len(nodes)
            back = {}
            for i in range(n):
                v = g.idx_to_node(i)
                j = g.node_to_idx(v)
                if j != i:
                    return f'node_to_idx(idx_to_node({i})) = {j}'
                back[i] = v.value
            if len(set(back.values())) != n or set(back.values()) != {v.value for v in nodes}:
                return 'idx_to_node is not a bijection onto the nodes'
            for v in nodes:
                if g.idx_to_node(g.node_to_idx(v)) != v:
                    return f'idx_to_node(node_to_idx({v.value})) != {v.value}'
            if g.idx_to_node(g.root_idx) != g.root:
                return 'root != idx_to_node(root_idx)'
            im = {'children': 'get_children_idx', 'parents': 'get_parents_idx', 'ancestors': 'get_ancestor_idx',
                  'descendants': 'get_descendant_idx'}
            pm = {'parentOf': 'is_parent_of_idx', 'childOf': 'is_child_of_idx', 'ancestorOf': 'is_ancestor_of_idx',
                  'descendantOf': 'is_descendant_of_idx'}
            for i in range(n):
                for q, meth in im.items():
                    got = sorted(back[int(k)] for k in getattr(g, meth)(i))
                    if got != sorted(tr[q][back[i]]):
                        return f'{meth}({i}) maps to {got} but get_{q}({back[i]}) = {sorted(tr[q][back[i]])}'
                for j in range(n):
                    for p, meth in pm.items():
                        got = getattr(g, meth)(i, j)
                        want = back[i] in tr[name[p][1]][back[j]]
                        if bool(got) != want:
                            return f'{meth}({i}, {j}) = {got} disagrees with the node API'
    except Exception as e:  # noqa
        return f'raises {type(e).__name__}: {e}'
    return None


def evaluate(ctx, cases, stream):
    gl.evaluate_cases(ctx, cases, stream, THEOREM, nontrivial)
    for c in cases:
        p = internal_consistency(ctx, c['factory'], c['edges'])
        ctx.count('internal_consistency_checks')
        if p:
            ctx.violation(f'views:{c["factory"]}', {'case': {'kind': 'graph', 'factory': c['factory'], 'edges': c['edges']},
                                                    'impl': p, 'theorem': 'Hpv.Props.C03.predicates / converse / index_bijection'})


def big_agreement(ctx, rng):
    """complete DAGs on 40 nodes (780 edges) and on 262 nodes (34 191 edges: beyond 2^15 with few nodes): the indexed and the
    incremental graph must agree with each other, with the edge list, with their converses and with the index API on sampled pairs"""
    _, TermId, _, _ = gl._hp()
    for n in (40, 262):
        ids = [f'HP:{i:07d}' for i in rng.sample(range(1, 90000), n)]
        edges = [(ids[j], ids[i]) for j in range(1, n) for i in range(j)]
        rng.shuffle(edges)
        ctx.case(['big-agreement', n], True, 'complete DAGs (40 / 262 nodes)', sample={'nodes': n, 'edges': len(edges)})
        problem = None
        try:
            gs = {f: gl.build_impl(f, edges) for f in (('indexed', 'incremental', 'builder') if n == 40 else ('indexed', 'incremental'))}
            pos = {v: k for k, v in enumerate(ids)}
            for _ in range(150):
                a, b = rng.choice(ids), rng.choice(ids)
                ta, tb = TermId.from_curie(a), TermId.from_curie(b)
                want = {'is_parent_of': pos[a] < pos[b], 'is_ancestor_of': pos[a] < pos[b], 'is_child_of': pos[a] > pos[b], 'is_descendant_of': pos[a] > pos[b]}
                for f, g in gs.items():
                    for meth, w in want.items():
                        got = getattr(g, meth)(ta, tb)
                        if bool(got) != w:
                            problem = f'{f}: {meth}({a}, {b}) = {got} on the complete DAG of {n} nodes (positions {pos[a]}, {pos[b]})'
                    for q, w in (('parents', set(ids[:pos[a]])), ('children', set(ids[pos[a] + 1:])), ('ancestors', set(ids[:pos[a]])), ('descendants', set(ids[pos[a] + 1:]))):
                        got = gl.vals(getattr(g, 'get_' + q)(ta))
                        if got != sorted(w):
                            problem = f'{f}: get_{q}({a}) has {len(got)} elements ({len(set(got))} distinct), the edge list gives {len(w)}'
                    if hasattr(g, 'node_to_idx') and problem is None:
                        i = g.node_to_idx(ta)
                        if g.idx_to_node(i) != ta or sorted(g.idx_to_node(int(k)).value for k in g.get_parents_idx(i)) != sorted(ids[:pos[a]]):
                            problem = f'{f}: index API disagrees with the node API at {a}'
                    if problem:
                        break
                if problem:
                    break
        except Exception as e:  # noqa
            problem = f'raises {type(e).__name__}: {str(e)[:200]}'
        if problem:
            ctx.violation(f'big-agreement:{n}', {'case': {'kind': 'big-agreement', 'n': n}, 'impl': problem, 'theorem': 'Hpv.Props.C03.factories_agree'})


def sweep_sizes(ctx, _rng=None, only=None):
    """graphs whose NUMBER OF NODES sits on a power of two (255 / 256 / 257 nodes; thorough: 65 535 / 65 536 / 65 537 as well), every node
    asked for all four traversals in a sweep (more distinct queries on one graph than any small bounded memo holds), then the first nodes
    asked again: all three implementations against a closure computed here from the edge list"""
    _, TermId, _, _ = gl._hp()
    import random
    sizes = [255, 256, 257] + ([65535, 65536, 65537] if ctx.tier == 'thorough' else [])
    for n in ([only] if only else sizes):
        rng = random.Random(f'{ctx.seed}-sweep-{n}')         # self-contained: the replay of a size re-creates exactly this graph
        ids = [f'HP:{i:07d}' for i in sorted(rng.sample(range(1, 9000000), n))]
        rng.shuffle(ids)
        par = {0: []}
        for j in range(1, n):
            par[j] = sorted({j - 1 if rng.random() < (0.6 if n < 1000 else 0.02) else rng.randrange(j), rng.randrange(j)})
        edges = [(ids[j], ids[i]) for j in range(1, n) for i in par[j]]
        rng.shuffle(edges)
        chi = {j: set() for j in range(n)}
        for j in range(1, n):
            for i in par[j]:
                chi[i].add(j)

        def walk(j, nxt):
            seen, todo = set(), [j]
            while todo:
                for i in nxt[todo.pop()]:
                    if i not in seen:
                        seen.add(i)
                        todo.append(i)
            return seen
        want = {'parents': lambda j: set(par[j]), 'children': lambda j: chi[j], 'ancestors': lambda j: walk(j, par), 'descendants': lambda j: walk(j, chi)}
        ctx.case(['sweep-sizes', n], True, 'node counts on powers of two, full sweeps', sample={'nodes': n, 'edges': len(edges)})
        problem = None
        facs = ('indexed', 'incremental', 'builder') if n < 1000 else ('indexed', 'incremental')
        try:
            for f in facs:
                g = gl.build_impl(f, edges)
                order = list(range(n)) if n < 1000 else rng.sample(range(n), 150) + [n - 1, n - 2, 0, 1]
                for j in order + order[:12]:
                    t = TermId.from_curie(ids[j])
                    for q, w in want.items():
                        got = gl.vals(getattr(g, 'get_' + q)(t))
                        if got != sorted(ids[x] for x in w(j)):
                            problem = f'{f}: get_{q}({ids[j]}) has {len(got)} elements ({len(set(got))} distinct), the edge list gives {len(w(j))} (graph of {n} nodes, node {j} in construction order)'
                            break
                    if problem:
                        break
                if problem:
                    break
        except Exception as e:  # noqa
            problem = f'raises {type(e).__name__}: {str(e)[:200]}'
        if problem:
            ctx.violation(f'sweep-sizes:{n}', {'case': {'kind': 'sweep-sizes', 'n': n}, 'impl': problem, 'theorem': 'Hpv.Props.C03.factories_agree / C01.ancestors_closure'})


def mk_cases(rng, edges, max_pairs=None):
    qs = queries_for(rng, edges, max_pairs)
    return [{'factory': f, 'edges': edges, 'queries': qs} for f in gl.FACTORIES]


def run(ctx):
    rng = ctx.rng
    thorough = ctx.tier == 'thorough'
    label_sets = gl.LABEL_SETS if thorough else gl.LABEL_SETS[:3]
    for k in (2, 3, 4):
        cases = []
        gen = gl.exhaustive_graphs(k, label_sets)
        for n, edges in enumerate(gen):
            if k == 4 and not thorough and n % 4 != ctx.seed % 4:
                continue       # quick tier: a seed-dependent quarter of the k=4 scope (k<=3 is complete)
            cases.extend(mk_cases(rng, edges))
            if len(cases) >= 900:
                evaluate(ctx, cases, f'exhaustive.k={k}')
                cases = []
        evaluate(ctx, cases, f'exhaustive.k={k}')
        ctx.exhaustive[f'all DAGs on {k} positions x label assignments x 3 factories'] = (k < 4 or thorough)
    cases = []
    for _ in range(400 if thorough else 80):
        edges, shape, order = gl.random_dag(rng, n=rng.randrange(2, 30 if thorough else 13))
        ctx.count(f'random.shape.{shape}')
        cases.extend(mk_cases(rng, edges, max_pairs=200))
    for i in range(0, len(cases), 300):
        evaluate(ctx, cases[i:i + 300], 'random')
    big_agreement(ctx, rng)
    sweep_sizes(ctx, rng)
    gl.factory_after_failure(ctx, rng, THEOREM)


def replay(ctx, data):
    c = data['case']
    if c['kind'] == 'sweep-sizes':
        return sweep_sizes(ctx, only=c['n'])
    if c['kind'] == 'big-agreement':
        return big_agreement(ctx, ctx.rng)
    edges = [tuple(e) for e in c['edges']]
    evaluate(ctx, [x for x in mk_cases(ctx.rng, edges) if x['factory'] == c['factory']], 'replay')
